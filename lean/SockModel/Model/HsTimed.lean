import SockModel.Model.HsSched
/-!
Limited timeouts `T ≥ 0` on the two-endpoint composition, under virtual time.

`chanWorldT` is `chanWorld` with a clock: a wait with argument `t` that finds the descriptor not ready *times out
after `t`* (the clock advances by `t`; the peer cannot act meanwhile, because the composition is sequential: one call
of one endpoint runs to its end before the next call starts); a wait that finds it ready, `send` and `recv` take no
time.  (An unlimited wait, `t < 0`, that finds nothing ready has no meaning in a sequential composition - it would
never return; `chanWorldT` answers "not ready" without advancing the clock, and nothing below uses it.)

Main result (`callOnT_sim`): for ANY engine (any interaction tree), a `Send`/`Receive` with a timeout `T ≥ 0` on
`chanWorldT` does to engine, channels and glue exactly what the same call with timeout 0 does on `chanWorld`; only
`remainingTime` and the clock differ, and `clock + remainingTime` is constant during the call, so the call returns no
later than `T` after it began.
-/
namespace SockModel.Hs
open SockModel.Net SockModel.Tls

structure ChanT where
  ch : Chan := {}
  clock : Int := 0

/-- `chanWorld` under virtual time -/
def chanWorldT (client : Bool) : World ChanT where
  wait w d t :=
    let r := (chanWorld client).wait w.ch d t
    (r.1, { ch := r.2, clock := if r.1 then w.clock else w.clock + (if 0 < t then t else 0) })
  send w bs := (((chanWorld client).send w.ch bs).1, { w with ch := ((chanWorld client).send w.ch bs).2 })
  recv w n := (((chanWorld client).recv w.ch n).1, { w with ch := ((chanWorld client).recv w.ch n).2 })
  now w := w.clock

variable {σ : Type}

/-- forget the clock and the budget -/
def proj (s : St σ ChanT) : St σ Chan := { g := { s.g with remainingTime := 0 }, e := s.e, w := s.w.ch }

/-- the budget invariant of a call with a timeout `T ≥ 0` that began at `c - T`: the budget is not negative, and what
is left of it ends exactly at `c` -/
def Bud (c : Int) (s : St σ ChanT) : Prop := 0 ≤ s.g.remainingTime ∧ s.w.clock + s.g.remainingTime = c

/-- the result of a glue function on `chanWorld` from the projected state is the projection of its result on
`chanWorldT`, and the budget invariant is kept -/
def Sim {α : Type} (c : Int) (rT : α × St σ ChanT) (r0 : α × St σ Chan) : Prop :=
  r0 = (rT.1, proj rT.2) ∧ Bud c rT.2

theorem wait_wr (r : Bool) (w : ChanT) (t : Int) : (chanWorldT r).wait w .wr t = (true, w) := rfl
theorem wait_rd (r : Bool) (w : ChanT) (t : Int) :
    (chanWorldT r).wait w .rd t =
      (decide (0 < w.ch.inb r), { w with clock := if decide (0 < w.ch.inb r) then w.clock else w.clock + (if 0 < t then t else 0) }) := rfl
theorem wait0_wr (r : Bool) (w : Chan) (t : Int) : (chanWorld r).wait w .wr t = (true, w) := rfl
theorem wait0_rd (r : Bool) (w : Chan) (t : Int) : (chanWorld r).wait w .rd t = (decide (0 < w.inb r), w) := rfl
theorem now_T (r : Bool) (w : ChanT) : (chanWorldT r).now w = w.clock := rfl
theorem now_0 (r : Bool) (w : Chan) : (chanWorld r).now w = 0 := rfl
theorem send_T (r : Bool) (w : ChanT) (bs : Bytes) :
    (chanWorldT r).send w bs = (.accept bs.length, { w with ch := w.ch.addOut r bs.length }) := rfl
theorem send_0 (r : Bool) (w : Chan) (bs : Bytes) :
    (chanWorld r).send w bs = (.accept bs.length, w.addOut r bs.length) := rfl
theorem recv_T (r : Bool) (w : ChanT) (n : Nat) :
    (chanWorldT r).recv w n = (.data (zeros (pick w.ch.segs.head? (min n (w.ch.inb r)))),
      { w with ch := w.ch.takeIn r (pick w.ch.segs.head? (min n (w.ch.inb r))) }) := rfl
theorem recv_0 (r : Bool) (w : Chan) (n : Nat) :
    (chanWorld r).recv w n = (.data (zeros (pick w.segs.head? (min n (w.inb r)))),
      w.takeIn r (pick w.segs.head? (min n (w.inb r)))) := rfl

/-! ### socket layer -/

theorem sendNow_T (r : Bool) (w : ChanT) (bs : Bytes) :
    sendNow (chanWorldT r) w bs = ⟨bs.length, none, { w with ch := w.ch.addOut r bs.length }⟩ := by
  unfold sendNow
  rw [send_T]
  by_cases hb : bs = []
  · subst hb; simp
  · have : bs.length ≠ 0 := by simpa using hb
    simp [this]

theorem sendNow_0 (r : Bool) (w : Chan) (bs : Bytes) :
    sendNow (chanWorld r) w bs = ⟨bs.length, none, w.addOut r bs.length⟩ := by
  unfold sendNow
  rw [send_0]
  by_cases hb : bs = []
  · subst hb; simp
  · have : bs.length ≠ 0 := by simpa using hb
    simp [this]

theorem sendTry_T (r : Bool) (w : ChanT) (bs : Bytes) :
    sendTry (chanWorldT r) w bs = ⟨bs.length, none, { w with ch := w.ch.addOut r bs.length }⟩ := by
  unfold sendTry; rw [wait_wr]; exact sendNow_T r w bs

theorem sendTry_0 (r : Bool) (w : Chan) (bs : Bytes) :
    sendTry (chanWorld r) w bs = ⟨bs.length, none, w.addOut r bs.length⟩ := by
  unfold sendTry; rw [wait0_wr]; exact sendNow_0 r w bs

/-- `SendSome` under a limited budget on the healthy channel: one wait (ready at once), one `send` that takes
everything; the `Tick` reads the clock of the entry -/
theorem sendSome_T (r : Bool) (w : ChanT) (bs : Bytes) (dl : Int) :
    sendSome (chanWorldT r) w bs dl w.clock = (⟨bs.length, none, { w with ch := w.ch.addOut r bs.length }⟩, w.clock) := by
  rw [sendSome]
  simp only [wait_wr, sendNow_T, now_T]
  simp

/-- what `recvNow` does on either world, in terms of the channel alone -/
def recvOut (r : Bool) (ch : Chan) (n : Nat) : Option Bytes × Chan :=
  let k := pick ch.segs.head? (min n (ch.inb r))
  (if (zeros k).take n = [] then none else some ((zeros k).take n), ch.takeIn r k)

theorem recvNow_T (r : Bool) (w : ChanT) (n : Nat) :
    recvNow (chanWorldT r) w n =
      match (recvOut r w.ch n).1 with
      | none => .exn .closed { w with ch := (recvOut r w.ch n).2 }
      | some bs => .got bs { w with ch := (recvOut r w.ch n).2 } := by
  unfold recvNow recvOut
  rw [recv_T]
  simp only
  split <;> simp_all

theorem recvNow_0 (r : Bool) (w : Chan) (n : Nat) :
    recvNow (chanWorld r) w n =
      match (recvOut r w n).1 with
      | none => .exn .closed (recvOut r w n).2
      | some bs => .got bs (recvOut r w n).2 := by
  unfold recvNow recvOut
  rw [recv_0]
  simp only
  split <;> simp_all

/-! ### glue layer -/

theorem Sim.cases {α : Type} {c : Int} {X : α × St σ ChanT} {Y : α × St σ Chan} (h : Sim c X Y) :
    ∃ a s', X = (a, s') ∧ Y = (a, proj s') ∧ Bud c s' := ⟨X.1, X.2, rfl, h.1, h.2⟩

theorem waitUnder_sim (r : Bool) (s : St σ ChanT) (d : Dir) (c : Int) (hb : Bud c s) :
    Sim c (waitUnder (chanWorldT r) s d) (waitUnder (chanWorld r) (proj s) d) := by
  obtain ⟨h0, hc⟩ := hb
  cases d with
  | wr =>
    refine ⟨?_, ?_, ?_⟩
    · simp [waitUnder, wait_wr, wait0_wr, proj, now_T, now_0, underDeadline]
    · simp only [waitUnder, wait_wr, now_T, underDeadline, remainingMs]
      (repeat' split) <;> omega
    · simp only [waitUnder, wait_wr, now_T, underDeadline, remainingMs]
      (repeat' split) <;> omega
  | rd =>
    by_cases hin : 0 < s.w.ch.inb r
    · refine ⟨?_, ?_, ?_⟩
      · simp [waitUnder, wait_rd, wait0_rd, proj, now_T, now_0, underDeadline, hin]
      · simp only [waitUnder, wait_rd, now_T, underDeadline, remainingMs, hin, decide_true, if_true]
        (repeat' split) <;> omega
      · simp only [waitUnder, wait_rd, now_T, underDeadline, remainingMs, hin, decide_true, if_true]
        (repeat' split) <;> omega
    · refine ⟨?_, ?_, ?_⟩
      · simp [waitUnder, wait_rd, wait0_rd, proj, now_T, now_0, underDeadline, hin]
      · simp only [waitUnder, wait_rd, now_T, underDeadline, remainingMs, hin, decide_false, Bool.false_eq_true, if_false]
        (repeat' split) <;> omega
      · simp only [waitUnder, wait_rd, now_T, underDeadline, remainingMs, hin, decide_false, Bool.false_eq_true, if_false]
        (repeat' split) <;> omega

theorem Bud.setLastError {c : Int} {s : St σ ChanT} (h : Bud c s) (e : SslErr) : Bud c (setLastError s e) := h
theorem Bud.noteCall {c : Int} {s : St σ ChanT} (h : Bud c s) (E : Engine σ) (b : Bool) (arg : Bytes) (ans : SslAns) :
    Bud c (noteCall E s b arg ans) := h
theorem Bud.setPending {c : Int} {s : St σ ChanT} (h : Bud c s) (p : Bytes) : Bud c (setPending s p) := h
theorem Bud.stash {c : Int} {s : St σ ChanT} (h : Bud c s) (e : Exn) : Bud c (stash s e) := h

theorem handleError_sim (r : Bool) (s : St σ ChanT) (err : SslErr) (c : Int) (hb : Bud c s) :
    Sim c (handleError (chanWorldT r) s err) (handleError (chanWorld r) (proj s) err) := by
  cases err with
  | none => exact ⟨rfl, hb⟩
  | wantRead =>
    obtain ⟨a, s', hL, hR, hb'⟩ := (waitUnder_sim r s .rd c hb).cases
    simp only [handleError, hL, hR]
    exact ⟨rfl, hb'⟩
  | wantWrite =>
    obtain ⟨a, s', hL, hR, hb'⟩ := (waitUnder_sim r s .wr c hb).cases
    simp only [handleError, hL, hR]
    exact ⟨rfl, hb'⟩
  | zeroReturn => exact ⟨rfl, hb⟩
  | syscall => exact ⟨rfl, hb⟩
  | ssl => exact ⟨rfl, hb⟩

theorem handleLastError_sim (r : Bool) (s : St σ ChanT) (c : Int) (hb : Bud c s) :
    Sim c (handleLastError (chanWorldT r) s) (handleLastError (chanWorld r) (proj s)) := by
  obtain ⟨a, s', hL, hR, hb'⟩ : ∃ a s', handleError (chanWorldT r) s s.g.lastError = (a, s') ∧
      handleError (chanWorld r) (proj s) (proj s).g.lastError = (a, proj s') ∧ Bud c s' :=
    (handleError_sim r s s.g.lastError c hb).cases
  unfold handleLastError
  rw [hL, hR]
  rcases a with (_|_)|_|_ <;> exact ⟨rfl, hb'⟩

theorem handleResult_sim (r : Bool) (s : St σ ChanT) (ans : SslAns) (c : Int) (hb : Bud c s) :
    Sim c (handleResult (chanWorldT r) s ans) (handleResult (chanWorld r) (proj s) ans) := by
  rcases s with ⟨⟨le, ps, rt, ir, iw, dss, pe, wire, bw, ec⟩, e, w⟩
  cases pe with
  | some x => exact ⟨rfl, hb⟩
  | none => exact handleLastError_sim r _ c hb

theorem receive_T (r : Bool) (w : ChanT) (n : Nat) (t : Int) :
    receive (chanWorldT r) w n t =
      if 0 < w.ch.inb r then recvNow (chanWorldT r) w n
      else .nothing { w with clock := w.clock + (if 0 < t then t else 0) } := by
  unfold receive
  rw [wait_rd]
  by_cases h : 0 < w.ch.inb r <;> simp [h]

theorem receive_0 (r : Bool) (w : Chan) (n : Nat) (t : Int) :
    receive (chanWorld r) w n t = if 0 < w.inb r then recvNow (chanWorld r) w n else .nothing w := by
  unfold receive
  rw [wait0_rd]
  by_cases h : 0 < w.inb r <;> simp [h]

theorem bioRead_sim (r : Bool) (s : St σ ChanT) (n : Nat) (c : Int) (hb : Bud c s) :
    Sim c (bioRead (chanWorldT r) s n) (bioRead (chanWorld r) (proj s) n) := by
  rcases s with ⟨⟨le, ps, rt, ir, iw, dss, pe, wire, bw, ec⟩, e, w⟩
  obtain ⟨h0, hc⟩ := hb
  simp only at h0 hc
  cases ir with
  | true =>
    simp only [bioRead, proj, if_true, recvNow_T, recvNow_0]
    cases (recvOut r w.ch n).1 <;> exact ⟨rfl, h0, hc⟩
  | false =>
    simp only [bioRead, proj, Bool.false_eq_true, if_false, receive_T, receive_0, now_T, now_0]
    by_cases hin : 0 < w.ch.inb r
    · simp only [hin, if_true, recvNow_T, recvNow_0]
      cases (recvOut r w.ch n).1
      · exact ⟨rfl, h0, hc⟩
      · refine ⟨by simp [proj, underDeadline], ?_, ?_⟩ <;>
          (simp only [underDeadline, remainingMs]; (repeat' split) <;> omega)
    · simp only [hin, if_false]
      refine ⟨by simp [proj, underDeadline], ?_, ?_⟩ <;>
        (simp only [underDeadline, remainingMs]; (repeat' split) <;> omega)

theorem bioWrite_sim (r : Bool) (s : St σ ChanT) (bs : Bytes) (c : Int) (hb : Bud c s) :
    Sim c (bioWrite (chanWorldT r) s bs) (bioWrite (chanWorld r) (proj s) bs) := by
  rcases s with ⟨⟨le, ps, rt, ir, iw, dss, pe, wire, bw, ec⟩, e, w⟩
  obtain ⟨h0, hc⟩ := hb
  simp only at h0 hc
  cases iw with
  | true =>
    simp only [bioWrite, proj, if_true, sendNow_T, sendNow_0, noteWrite]
    exact ⟨rfl, h0, hc⟩
  | false =>
    have hn : ¬ rt < 0 := by omega
    by_cases hz : rt = 0
    · subst hz
      simp only [bioWrite, proj, Bool.false_eq_true, if_false, Int.lt_irrefl, if_true, sendTry_T, sendTry_0, noteWrite]
      exact ⟨rfl, h0, hc⟩
    · simp only [bioWrite, proj, Bool.false_eq_true, if_false, Int.lt_irrefl, if_true, hn, hz, sendTry_0, noteWrite,
        now_T, sendSome_T]
      refine ⟨rfl, ?_, ?_⟩ <;> (simp only [remainingMs]; (repeat' split) <;> omega)

theorem interp_sim (r : Bool) (p : EngProg σ) : ∀ (s : St σ ChanT) (c : Int), Bud c s →
    Sim c (interp (chanWorldT r) s p) (interp (chanWorld r) (proj s) p) := by
  induction p with
  | ret ans out e' => intro s c hb; exact ⟨rfl, hb⟩
  | bioRead n k ih =>
    intro s c hb
    obtain ⟨a, s', hL, hR, hb'⟩ := (bioRead_sim r s n c hb).cases
    unfold interp
    rw [hL, hR]
    cases a with
    | ok bs => exact ih (some bs) s' c hb'
    | exn e => exact ih none (stash s' e) c (hb'.stash e)
    | abort m => exact ⟨rfl, hb'⟩
  | bioWrite bs k ih =>
    intro s c hb
    obtain ⟨a, s', hL, hR, hb'⟩ := (bioWrite_sim r s bs c hb).cases
    unfold interp
    rw [hL, hR]
    cases a with
    | ok n => exact ih (some n) s' c hb'
    | exn e => exact ih none (stash s' e) c (hb'.stash e)
    | abort m => exact ⟨rfl, hb'⟩

theorem readRound_sim (C : Cfg) (r : Bool) (E : Engine σ) (size i : Nat) (s : St σ ChanT) (c : Int) (hb : Bud c s) :
    Sim c (readRound C (chanWorldT r) E size i s) (readRound C (chanWorld r) E size i (proj s)) := by
  obtain ⟨a, s', hL, hR, hb'⟩ : ∃ a s', interp (chanWorldT r) s (E.sslRead s.e size) = (a, s') ∧
      interp (chanWorld r) (proj s) (E.sslRead (proj s).e size) = (a, proj s') ∧ Bud c s' :=
    (interp_sim r _ s c hb).cases
  unfold readRound
  rw [hL, hR]
  rcases a with ⟨ans, out⟩ | e | m
  · obtain ⟨b, s2, hL2, hR2, hb2⟩ : ∃ b s2, handleResult (chanWorldT r) (noteCall E s' true [] ans) ans = (b, s2) ∧
        handleResult (chanWorld r) (noteCall E (proj s') true [] ans) ans = (b, proj s2) ∧ Bud c s2 :=
      (handleResult_sim r _ ans c (hb'.noteCall E true [] ans)).cases
    cases ans <;> dsimp only <;> first
      | exact ⟨rfl, hb'⟩
      | (rw [hL2, hR2]
         rcases b with (_|_)|_|_
         · exact ⟨rfl, hb2⟩
         · dsimp only
           split <;> exact ⟨rfl, hb2⟩
         · exact ⟨rfl, hb2⟩
         · exact ⟨rfl, hb2⟩)
  · exact ⟨rfl, hb'⟩
  · exact ⟨rfl, hb'⟩

theorem readLoop_sim (C : Cfg) (r : Bool) (E : Engine σ) (size i : Nat) (s : St σ ChanT) (c : Int) (hb : Bud c s) :
    Sim c (readLoop C (chanWorldT r) E size i s) (readLoop C (chanWorld r) E size i (proj s)) := by
  induction i generalizing s with
  | zero => exact ⟨rfl, hb⟩
  | succ i ih =>
    obtain ⟨a, s', hL, hR, hb'⟩ := (readRound_sim C r E size i s c hb).cases
    simp only [readLoop]
    rw [hL, hR]
    cases a with
    | some o => exact ⟨rfl, hb'⟩
    | none => exact ih s' hb'

theorem tlsRead_sim (C : Cfg) (r : Bool) (E : Engine σ) (s : St σ ChanT) (size : Nat) (c : Int) (hb : Bud c s) :
    Sim c (tlsRead C (chanWorldT r) E s size) (tlsRead C (chanWorld r) E (proj s) size) := by
  obtain ⟨a, s', hL, hR, hb'⟩ := (handleLastError_sim r s c hb).cases
  unfold tlsRead
  rw [hL, hR]
  rcases a with (_|_)|_|_
  · exact ⟨rfl, hb'⟩
  · exact readLoop_sim C r E size C.stepsMax s' c hb'
  · exact ⟨rfl, hb'⟩
  · exact ⟨rfl, hb'⟩

theorem writeRetry_sim (C : Cfg) (r : Bool) (i' : Nat) (rest : Bytes) (s : St σ ChanT) (ans : SslAns) (c : Int)
    (hb : Bud c s) :
    Sim c (writeRetry C (chanWorldT r) i' rest s ans) (writeRetry C (chanWorld r) i' rest (proj s) ans) := by
  obtain ⟨a, s', hL, hR, hb'⟩ := (handleResult_sim r s ans c hb).cases
  unfold writeRetry
  rw [hL, hR]
  rcases a with (_|_)|_|_
  · exact ⟨rfl, hb'⟩
  · dsimp only
    split <;> exact ⟨rfl, hb'⟩
  · exact ⟨rfl, hb'⟩
  · exact ⟨rfl, hb'⟩

theorem writeRound_sim (C : Cfg) (r : Bool) (E : Engine σ) (i' : Nat) (rest : Bytes) (s : St σ ChanT) (c : Int)
    (hb : Bud c s) :
    Sim c (writeRound C (chanWorldT r) E i' rest s) (writeRound C (chanWorld r) E i' rest (proj s)) := by
  obtain ⟨a, s', hL, hR, hb'⟩ : ∃ a s', interp (chanWorldT r) s (E.sslWrite s.e rest) = (a, s') ∧
      interp (chanWorld r) (proj s) (E.sslWrite (proj s).e rest) = (a, proj s') ∧ Bud c s' :=
    (interp_sim r _ s c hb).cases
  unfold writeRound
  have hps : (proj s).g.pendingSend = s.g.pendingSend := rfl
  rw [hL, hR, hps]
  split
  · exact ⟨rfl, hb⟩
  · rcases a with ⟨ans, out⟩ | e | m
    · cases ans <;> dsimp only <;> first
        | ((repeat' split) <;> exact ⟨rfl, hb'⟩)
        | exact writeRetry_sim C r i' rest _ _ c ((hb'.noteCall E false rest _).setPending rest)
    · exact ⟨rfl, hb'⟩
    · exact ⟨rfl, hb'⟩

theorem writeLoop_sim (C : Cfg) (r : Bool) (E : Engine σ) (i : Nat) (rest : Bytes) (s : St σ ChanT) (c : Int)
    (hb : Bud c s) :
    Sim c (writeLoop C (chanWorldT r) E i rest s) (writeLoop C (chanWorld r) E i rest (proj s)) := by
  fun_induction Tls.writeLoop C (chanWorldT r) E i rest s with
  | case1 rest s => rw [Tls.writeLoop]; exact ⟨rfl, hb⟩
  | case2 s i' => rw [Tls.writeLoop]; exact ⟨rfl, hb⟩
  | case3 rest s i' hne o s' heq =>
    obtain ⟨a, s2, hL, hR, hb'⟩ := (writeRound_sim C r E i' rest s c hb).cases
    rw [heq] at hL
    obtain ⟨rfl, rfl⟩ := Prod.mk.inj hL
    rw [Tls.writeLoop]
    simp only [hne, if_false, hR]
    exact ⟨rfl, hb'⟩
  | case4 rest s i' hne j rest' s' heq hdec ih =>
    obtain ⟨a, s2, hL, hR, hb'⟩ := (writeRound_sim C r E i' rest s c hb).cases
    rw [heq] at hL
    obtain ⟨rfl, rfl⟩ := Prod.mk.inj hL
    have := ih hb'
    rw [Tls.writeLoop]
    simp only [hne, if_false, hR, hdec, dite_true]
    exact this
  | case5 rest s i' hne j rest' s' heq hdec =>
    obtain ⟨a, s2, hL, hR, hb'⟩ := (writeRound_sim C r E i' rest s c hb).cases
    rw [heq] at hL
    obtain ⟨rfl, rfl⟩ := Prod.mk.inj hL
    rw [Tls.writeLoop]
    simp only [hne, if_false, hR, hdec, dite_false]
    exact ⟨rfl, hb'⟩

theorem tlsWrite_sim (C : Cfg) (r : Bool) (E : Engine σ) (s : St σ ChanT) (data : Bytes) (c : Int) (hb : Bud c s) :
    Sim c (tlsWrite C (chanWorldT r) E s data) (tlsWrite C (chanWorld r) E (proj s) data) := by
  obtain ⟨a, s', hL, hR, hb'⟩ := (handleLastError_sim r s c hb).cases
  unfold tlsWrite
  rw [hL, hR]
  rcases a with (_|_)|_|_
  · exact ⟨rfl, hb'⟩
  · dsimp only
    obtain ⟨b, s2, hL2, hR2, hb2⟩ := (writeLoop_sim C r E C.stepsMax data s' c hb').cases
    rw [hL2, hR2]
    cases b <;> exact ⟨rfl, hb2⟩
  · exact ⟨rfl, hb'⟩
  · exact ⟨rfl, hb'⟩

/-! ### entry points -/

theorem bud_setTimeout (s : St σ ChanT) (T : Int) (hT : 0 ≤ T) : Bud (s.w.clock + T) (setTimeout s T) := ⟨hT, rfl⟩

/-- **`Receive(size, T)`, `T ≥ 0`, on the healthy channel under virtual time = `Receive(size, 0)`** as far as result,
engine, channels and glue are concerned; it returns no later than `T` after it began, with a budget `≥ 0`. -/
theorem receiveT_sim (C : Cfg) (r : Bool) (E : Engine σ) (s : St σ ChanT) (n : Nat) (T : Int) (hT : 0 ≤ T) :
    Sim (s.w.clock + T) (receiveT C (chanWorldT r) E s n T) (receiveT C (chanWorld r) E (proj s) n 0) := by
  obtain ⟨a, s', hL, hR, hb'⟩ : ∃ a s', tlsRead C (chanWorldT r) E (setTimeout s T) n = (a, s') ∧
      tlsRead C (chanWorld r) E (setTimeout (proj s) 0) n = (a, proj s') ∧ Bud (s.w.clock + T) s' :=
    (tlsRead_sim C r E (setTimeout s T) n _ (bud_setTimeout s T hT)).cases
  unfold receiveT
  rw [hL, hR]
  have hT' : ¬ T < 0 := by omega
  rcases a with (_|⟨b, bs⟩)|_|_
  · simp only [hT', Int.lt_irrefl, false_and, if_false]
    have h1 : (proj s').g.lastError = s'.g.lastError := rfl
    have h2 : (proj s').e = s'.e := rfl
    rw [h1, h2]
    split <;> exact ⟨rfl, hb'⟩
  · exact ⟨rfl, hb'⟩
  · exact ⟨rfl, hb'⟩
  · exact ⟨rfl, hb'⟩

/-- **`Send(data, T)`, `T ≥ 0`, likewise** -/
theorem sendT_sim (C : Cfg) (r : Bool) (E : Engine σ) (s : St σ ChanT) (data : Bytes) (T : Int) (hT : 0 ≤ T) :
    Sim (s.w.clock + T) (sendT C (chanWorldT r) E s data T) (sendT C (chanWorld r) E (proj s) data 0) := by
  obtain ⟨a, s', hL, hR, hb'⟩ : ∃ a s', tlsWrite C (chanWorldT r) E (setTimeout s T) data = (a, s') ∧
      tlsWrite C (chanWorld r) E (setTimeout (proj s) 0) data = (a, proj s') ∧ Bud (s.w.clock + T) s' :=
    (tlsWrite_sim C r E (setTimeout s T) data _ (bud_setTimeout s T hT)).cases
  unfold sendT
  rw [hL, hR]
  rcases a with _|_|_
  · dsimp only
    have h1 : (proj s').g.lastError = s'.g.lastError := rfl
    have h2 : (proj s').e = s'.e := rfl
    rw [h1, h2]
    split <;> exact ⟨rfl, hb'⟩
  · exact ⟨rfl, hb'⟩
  · exact ⟨rfl, hb'⟩

/-! ### the two endpoints under virtual time -/

def callOnT (C : Cfg) (P : HsP) (client : Bool) (s : St Hs ChanT) (c : Call) (T : Int) : Bool × St Hs ChanT :=
  match c with
  | .send d => let r := sendT C (chanWorldT client) (engine P) s d T; (isOk r.1, r.2)
  | .recv n => let r := receiveT C (chanWorldT client) (engine P) s n T; (isOk r.1, r.2)

theorem callOnT_sim (C : Cfg) (P : HsP) (client : Bool) (s : St Hs ChanT) (c : Call) (T : Int) (hT : 0 ≤ T) :
    Sim (s.w.clock + T) (callOnT C P client s c T) (callOn C P client (proj s) c) := by
  cases c with
  | send d =>
    obtain ⟨a, s', hL, hR, hb⟩ := (sendT_sim C client (engine P) s d T hT).cases
    simp only [callOnT, callOn, hL, hR]
    exact ⟨rfl, hb⟩
  | recv n =>
    obtain ⟨a, s', hL, hR, hb⟩ := (receiveT_sim C client (engine P) s n T hT).cases
    simp only [callOnT, callOn, hL, hR]
    exact ⟨rfl, hb⟩

/-- `Sys` with one virtual clock for both endpoints -/
structure SysT where
  gc : Glue := {}
  ec : Hs
  gs : Glue := {}
  es : Hs
  ch : Chan := {}
  clock : Int := 0
  faults : Nat := 0

def SysT.init (P : HsP) (segs : List Nat) : SysT :=
  { ec := Hs.init P true, es := Hs.init P false, ch := { segs := segs } }

def SysT.step (C : Cfg) (P : HsP) (y : SysT) (client : Bool) (c : Call) (T : Int) : SysT :=
  if client then
    let r := callOnT C P true ⟨y.gc, y.ec, ⟨y.ch, y.clock⟩⟩ c T
    { y with gc := r.2.g, ec := r.2.e, ch := r.2.w.ch, clock := r.2.w.clock, faults := y.faults + (if r.1 then 0 else 1) }
  else
    let r := callOnT C P false ⟨y.gs, y.es, ⟨y.ch, y.clock⟩⟩ c T
    { y with gs := r.2.g, es := r.2.e, ch := r.2.w.ch, clock := r.2.w.clock, faults := y.faults + (if r.1 then 0 else 1) }

/-- one call of a timed schedule: the call and its timeout in ms -/
structure ActT where
  act : Act
  timeout : Int
  deriving DecidableEq, Repr

def SysT.act (C : Cfg) (P : HsP) (dc ds : Bytes) (y : SysT) (a : ActT) : SysT :=
  y.step C P a.act.client (a.act.call dc ds) a.timeout

def SysT.run (C : Cfg) (P : HsP) (dc ds : Bytes) (l : List ActT) (y : SysT) : SysT := l.foldl (SysT.act C P dc ds) y

/-- forget the clock and what is left of the budgets -/
def SysT.untimed (y : SysT) : Sys :=
  { gc := { y.gc with remainingTime := 0 }, ec := y.ec, gs := { y.gs with remainingTime := 0 }, es := y.es, ch := y.ch,
    faults := y.faults }

def SysT.bothFinished (y : SysT) : Prop := 3 ≤ y.ec.stage ∧ 3 ≤ y.es.stage

/-- the time the calls of a timed schedule may take at most: the sum of their timeouts -/
def budgetSum : List ActT → Int
  | [] => 0
  | a :: l => a.timeout + budgetSum l

theorem untimed_init (P : HsP) (segs : List Nat) : (SysT.init P segs).untimed = Sys.init P segs := rfl

/-- the zero-timeout calls ignore the budget a previous call left behind -/
theorem callOn_budget (C : Cfg) (P : HsP) (client : Bool) (g : Glue) (e : Hs) (w : Chan) (c : Call) (t : Int) :
    callOn C P client ⟨{ g with remainingTime := t }, e, w⟩ c = callOn C P client ⟨g, e, w⟩ c := by
  cases c <;> rfl

/-- the glue of the side that is not calling keeps whatever budget it had; a zero-timeout step does not look at it -/
theorem step_untimed (C : Cfg) (P : HsP) (y : SysT) (client : Bool) (c : Call) (T : Int) (hT : 0 ≤ T) :
    (y.step C P client c T).untimed = y.untimed.step C P client c ∧
    (y.step C P client c T).clock ≤ y.clock + T := by
  cases client with
  | true =>
    obtain ⟨a, s', hL, hR, hb⟩ := (callOnT_sim C P true ⟨y.gc, y.ec, ⟨y.ch, y.clock⟩⟩ c T hT).cases
    have hR' : callOn C P true ⟨{ y.gc with remainingTime := 0 }, y.ec, y.ch⟩ c = (a, proj s') := hR
    obtain ⟨h0, hc⟩ := hb
    simp only at hc
    refine ⟨?_, ?_⟩
    · simp only [SysT.step, Sys.step, SysT.untimed, if_true, hL, hR']
      rfl
    · simp only [SysT.step, if_true, hL]
      omega
  | false =>
    obtain ⟨a, s', hL, hR, hb⟩ := (callOnT_sim C P false ⟨y.gs, y.es, ⟨y.ch, y.clock⟩⟩ c T hT).cases
    have hR' : callOn C P false ⟨{ y.gs with remainingTime := 0 }, y.es, y.ch⟩ c = (a, proj s') := hR
    obtain ⟨h0, hc⟩ := hb
    simp only at hc
    refine ⟨?_, ?_⟩
    · simp only [SysT.step, Sys.step, SysT.untimed, Bool.false_eq_true, if_false, hL, hR']
      rfl
    · simp only [SysT.step, Bool.false_eq_true, if_false, hL]
      omega

/-- **a timed schedule does what the same schedule with all timeouts 0 does**, and takes no longer than the sum of
its timeouts -/
theorem run_untimed (C : Cfg) (P : HsP) (dc ds : Bytes) :
    ∀ (l : List ActT) (y : SysT), (∀ a ∈ l, 0 ≤ a.timeout) →
      (SysT.run C P dc ds l y).untimed = Sys.run C P dc ds (l.map ActT.act) y.untimed ∧
      (SysT.run C P dc ds l y).clock ≤ y.clock + budgetSum l := by
  intro l
  induction l with
  | nil => intro y _; exact ⟨rfl, by simp [SysT.run, budgetSum]⟩
  | cons a l ih =>
    intro y h
    obtain ⟨h1, h2⟩ := step_untimed C P y a.act.client (a.act.call dc ds) a.timeout (h a (List.mem_cons_self ..))
    obtain ⟨j1, j2⟩ := ih (y.act C P dc ds a) (fun b hb => h b (List.mem_cons_of_mem _ hb))
    refine ⟨?_, ?_⟩
    · show (SysT.run C P dc ds l (y.act C P dc ds a)).untimed = _
      rw [j1, List.map_cons, run_cons]
      congr 1
    · show (SysT.run C P dc ds l (y.act C P dc ds a)).clock ≤ _
      have : (y.act C P dc ds a).clock ≤ y.clock + a.timeout := h2
      simp only [budgetSum]
      omega

end SockModel.Hs

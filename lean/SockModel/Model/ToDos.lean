import SockModel.Model.Deadline
/-
Model of the ToDo list (src/todo_impl.cpp), of `Driver::Step`/`StepTodos`
(src/driver_impl.cpp:100-145) and of the `ToDo` handle operations
(src/socket_async.cpp:48-78), for a driver without sockets: every `poll`
either finds the signalling pipe readable (a `Stop()` bumped it) or times out.

Time is explicit state (`now`, ns).  It advances when a `poll` times out, when
the environment says so between API calls (`clock`/`adv`) and while a task runs
(`BodyOp.adv`).  The code reads the clock at deadline construction, in `Tick()`
after each task and in the `Duration` overloads of the ToDo constructor/`Shift`;
between two reads only tasks run, so this is fully general for monotone clocks.
-/
namespace SockModel.ToDos
open SockModel.Deadline

structure Entry where
  id : Nat
  when : Int
  seq : Nat := 0        -- ghost: the order in which schedulings took effect
  deriving Repr, DecidableEq

/-- `ToDos::Insert`: before the first element that is strictly later (stable) -/
def insert : List Entry → Entry → List Entry
  | [], e => [e]
  | x :: xs, e => if e.when < x.when then e :: x :: xs else x :: insert xs e

/-- `ToDos::Remove`: erase the (first) matching element, if any -/
def remove : List Entry → Nat → List Entry
  | [], _ => []
  | x :: xs, id => if x.id = id then xs else x :: remove xs id

/-- `ToDos::Move` -/
def move (l : List Entry) (id : Nat) (when : Int) (seq : Nat := 0) : List Entry :=
  insert (remove l id) ⟨id, when, seq⟩

/-- operations a task body may perform (all are management calls re-entering the driver
on the stepping thread, where `PauseGuard`'s `try_lock` succeeds) -/
inductive BodyOp where
  | shift (id : Nat) (when : Int)
  | shiftd (id : Nat) (ms : Int)
  | cancel (id : Nat)
  | newAt (id : Nat) (when : Int)
  | newIn (id : Nat) (ms : Int)
  | drop (id : Nat)
  | adv (ns : Nat)
  | stop
  deriving Repr, DecidableEq

inductive Event where
  /-- task `id` (due at `when`) was invoked; `now` is the clock reading the due test used;
      `rest` (ghost) is the remainder of the list at that moment -/
  | ran (id : Nat) (when : Int) (now : Int) (rest : List Entry) (seq : Nat)
  /-- the timeout (ms, as passed to `poll`) the step handed to the socket wait -/
  | poll (ms : Int)
  /-- fuel exhausted: a task kept rescheduling a due task under an unlimited deadline
      (the code loops forever in that case as well) -/
  | fuel
  deriving Repr, DecidableEq

structure St where
  todos : List Entry := []
  now : Int := 0
  bodies : List (Nat × List BodyOp) := []
  live : List Nat := []          -- ids whose `ToDo` handle object is alive
  known : List Nat := []         -- ids ever created
  pipe : Nat := 0                -- datagrams queued on the signalling pipe
  nextSeq : Nat := 0             -- ghost: next scheduling sequence number
  stopFlag : Bool := false
  log : List Event := []         -- newest first

def St.body (s : St) (id : Nat) : List BodyOp :=
  match s.bodies.find? (·.1 = id) with
  | some (_, b) => b
  | none => []

/-- a management call; calls on handles that do not exist (any more) are not made -/
def applyOp (s : St) : BodyOp → St
  | .shift id w => if id ∈ s.live then { s with todos := move s.todos id w s.nextSeq, nextSeq := s.nextSeq + 1 } else s
  | .shiftd id ms => if id ∈ s.live then { s with todos := move s.todos id (s.now + ms * nsPerMs) s.nextSeq, nextSeq := s.nextSeq + 1 } else s
  | .cancel id => if id ∈ s.live then { s with todos := remove s.todos id } else s
  | .newAt id w =>
    if id ∈ s.known then s
    else { s with todos := insert s.todos ⟨id, w, s.nextSeq⟩, nextSeq := s.nextSeq + 1, live := id :: s.live, known := id :: s.known }
  | .newIn id ms =>
    if id ∈ s.known then s
    else { s with todos := insert s.todos ⟨id, s.now + ms * nsPerMs, s.nextSeq⟩, nextSeq := s.nextSeq + 1, live := id :: s.live, known := id :: s.known }
  | .drop id => { s with live := s.live.filter (· ≠ id) }
  | .adv ns => { s with now := s.now + ns }
  | .stop => { s with stopFlag := true, pipe := s.pipe + 1 }

/-- `Driver::DriverImpl::StepTodos` -/
def stepTodos : Nat → Deadline → St → Int × St
  | 0, _, s => (0, { s with log := .fuel :: s.log })
  | fuel + 1, d, s =>
    match s.todos with
    | [] => (d.remaining, s)
    | front :: rest =>
      if front.when - d.now > 0 then
        (minDuration (front.when - d.now) d.remaining, s)
      else
        let s1 := { s with todos := rest, log := .ran front.id front.when d.now rest front.seq :: s.log }
        let s2 := (s.body front.id).foldl applyOp s1
        let d' := d.tick s2.now
        if s2.todos.isEmpty then (d'.remaining, s2)
        else if d'.timeLeft then stepTodos fuel d' s2
        else (0, s2)

/-- `StepSockets` for a driver without sockets: the pipe is readable or the wait times out.
`clamp = true` is `ToMsec` after the F6 repair, `false` the shipped narrowing. -/
def pollSockets (clamp : Bool) (t : Int) (s : St) : St :=
  let ms := if clamp then toMsec t else toMsecLegacy t
  let s := { s with log := .poll ms :: s.log }
  if s.pipe > 0 then { s with pipe := s.pipe - 1 }
  else if ms > 0 then { s with now := s.now + ms * nsPerMs }
  else s

/-- `Driver::Step(timeout)` -/
def step (clamp : Bool) (fuel : Nat) (timeoutMs : Int) (s : St) : St :=
  if s.todos.isEmpty then pollSockets clamp timeoutMs s
  else
    let r := stepTodos fuel (Deadline.make timeoutMs s.now) s
    pollSockets clamp r.1 r.2

/-- user-level operations (outside tasks) -/
inductive Op where
  | new (id : Nat) (when : Int) (body : List BodyOp)
  | newIn (id : Nat) (ms : Int) (body : List BodyOp)
  | newIdle (id : Nat) (body : List BodyOp)
  | call (op : BodyOp)
  | clock (ns : Int)
  | step (timeoutMs : Int)
  deriving Repr

def userOp (clamp : Bool) (fuel : Nat) (s : St) : Op → St
  | .new id w body =>
    if id ∈ s.known then s
    else applyOp { s with bodies := (id, body) :: s.bodies } (.newAt id w)
  | .newIn id ms body =>
    if id ∈ s.known then s
    else applyOp { s with bodies := (id, body) :: s.bodies } (.newIn id ms)
  | .newIdle id body =>
    if id ∈ s.known then s
    else { s with bodies := (id, body) :: s.bodies, live := id :: s.live, known := id :: s.known }
  | .call op => applyOp s op
  | .clock ns => if ns ≥ s.now then { s with now := ns } else s
  | .step t => step clamp fuel t s

def run (clamp : Bool) (fuel : Nat) (s : St) (ops : List Op) : St := ops.foldl (userOp clamp fuel) s

end SockModel.ToDos

import SockModel.Model.TlsLemmas
/-! helper lemmas for `Shutdown()` (Model/Tls.lean `tlsShutdown`): the ghost log of engine calls; property theorem in Props/C18.lean -/
namespace SockModel.Tls
open SockModel.Net
variable {σ ω : Type}

theorem shutCall_keeps {W : World ω} (E : Engine σ) (s : St σ ω) : (shutCall W E s).2.g.engCalls = s.g.engCalls := by
  have h := (interp_ctl (W := W) s (E.sslShutdown s.e)).2.2.1
  unfold shutCall
  rcases hI : interp W s (E.sslShutdown s.e) with ⟨o, s1⟩
  rw [hI] at h
  rcases o with ⟨ans, out⟩ | x | m <;> exact h

theorem shutFinish_keeps {W : World ω} (E : Engine σ) (s : St σ ω) : (shutFinish W E s).2.g.engCalls = s.g.engCalls := by
  have h := shutCall_keeps (W := W) E s
  unfold shutFinish
  rcases hI : shutCall W E s with ⟨o, s1⟩
  rw [hI] at h
  rcases o with a | x | m <;> exact h

/-- what a run of the drain loop that ends without an exception has noted -/
def Drained (i : Nat) (before after : List EngCall) : Prop :=
  ∃ reads : List EngCall, after = reads ++ before ∧ reads.length ≤ i ∧ (∀ c ∈ reads, c.isRead = true ∧ c.arg = []) ∧
    (0 < i → reads ≠ []) ∧
    (reads.length < i → ∃ c rest, reads = c :: rest ∧ c.ans.isDone = false)

theorem drained_step {i : Nat} {c : EngCall} {before after : List EngCall} (hc : c.isRead = true ∧ c.arg = [])
    (h : Drained i (c :: before) after) : Drained (i + 1) before after := by
  obtain ⟨reads, h1, h2, h3, h4, h5⟩ := h
  refine ⟨reads ++ [c], by simp [h1], by simp; omega, ?_, by simp, ?_⟩
  · intro x hx
    rcases List.mem_append.mp hx with hx | hx
    · exact h3 x hx
    · simp at hx; subst hx; exact hc
  · intro hl
    simp at hl
    obtain ⟨c', rest, hr, hd⟩ := h5 (by omega)
    exact ⟨c', rest ++ [c], by simp [hr], hd⟩

theorem drained_last {i : Nat} {c : EngCall} {before : List EngCall} (hc : c.isRead = true ∧ c.arg = [])
    (hd : c.ans.isDone = false) : Drained (i + 1) before (c :: before) :=
  ⟨[c], rfl, by simp, by simpa using hc, by simp, fun _ => ⟨c, [], rfl, hd⟩⟩

theorem drainLoop_drains {W : World ω} (E : Engine σ) : ∀ (i : Nat) (s : St σ ω),
    (drainLoop W E i s).1 = .ok () → Drained i s.g.engCalls (drainLoop W E i s).2.g.engCalls := by
  intro i
  induction i with
  | zero =>
    intro s _
    exact ⟨[], by simp [drainLoop, shutFinish_keeps], by simp, by simp, by simp, by simp⟩
  | succ i ih =>
    intro s hok
    have hk := (interp_ctl (W := W) s (E.sslRead s.e shutdownBuf)).2.2.1
    unfold drainLoop at hok ⊢
    rcases hI : interp W s (E.sslRead s.e shutdownBuf) with ⟨o, s1⟩
    rw [hI] at hk
    simp only [hI] at hok ⊢
    rcases o with ⟨ans, out⟩ | x | m
    · have hn : (noteCall E s1 true [] ans).g.engCalls = ⟨true, [], ans, E.initFinished s1.e⟩ :: s.g.engCalls := by
        have hk' : s1.g.engCalls = s.g.engCalls := hk
        simp [noteCall, hk']
      cases hA : ans with
      | done k =>
        simp only [hA] at hok hn ⊢
        have := ih _ hok
        rw [hn] at this
        exact drained_step ⟨rfl, rfl⟩ this
      | zeroReturn =>
        simp only [hA] at hok hn ⊢
        rw [shutFinish_keeps, hn]
        exact drained_last ⟨rfl, rfl⟩ rfl
      | _ =>
        all_goals
          have hr := (handleResult_keeps (W := W) (noteCall E s1 true [] ans) ans).2.1
          rcases hH : handleResult W (noteCall E s1 true [] ans) ans with ⟨ho, s2⟩
          rw [hH] at hr
          simp only [hA] at hok hn hH hr ⊢
          simp only [hH] at hok ⊢
          rcases ho with b | x | m
          · cases b
            · simp only at hok ⊢
              rw [shutFinish_keeps, hr, hn]
              exact drained_last ⟨rfl, rfl⟩ rfl
            · simp only at hok ⊢
              have := ih _ hok
              rw [hr, hn] at this
              exact drained_step ⟨rfl, rfl⟩ this
          · simp at hok
          · simp at hok
    · simp at hok
    · simp at hok

end SockModel.Tls

import SockModel.Model.AsyncQ
/-
Model of the UDP paths:

* `SocketImpl::SendTo(data, size, dst, timeout)` (src/socket_impl.cpp:177-200): one
  `WaitWritable`, then one `sendto`;
* `SocketImpl::ReceiveFrom(data, size)` (src/socket_impl.cpp:135-151) and the buffered
  variant (src/socket_buffered_impl.cpp:52-75): one `recvfrom` into `size` bytes
  (`rxBufSize` bytes for the buffered / async levels), the buffer is resized to the count;
* the network between bound loopback sockets: per receiving socket a FIFO of
  `(payload, source address)` (assumption: loopback, receive queue not overrun);
* `SocketAsyncImpl::DriverSendTo` (src/socket_async_impl.cpp:209-228): the `SendToQ`.

Addresses are ordinals (`Nat`) of the bound sockets.
-/
namespace SockModel.Udp
open SockModel.AsyncQ (Bytes Fut upd upd_same upd_other)

structure Dgram where
  payload : Bytes
  src : Nat
  deriving Repr, DecidableEq

/-! ### synchronous SendTo -/

inductive WaitAns where
  | ready
  | timedOut
  deriving Repr, DecidableEq

/-- answer of the one `sendto` -/
inductive SendAns where
  | accept (k : Nat)   -- returned k
  | fail               -- returned -1
  deriving Repr, DecidableEq

inductive SendRes where
  | ret (n : Nat)
  | logicError         -- "unexpected UDP send result"
  | systemError        -- "failed to send to <dst>"
  deriving Repr, DecidableEq

/-- `SendTo(data, len, dst)` on a writable socket: result and whether a datagram left -/
def sendNow (len : Nat) : SendAns → SendRes × Bool
  | .accept k => if k = len then (.ret len, true) else (.logicError, true)
  | .fail => (.systemError, false)

/-- `SendTo(data, len, dst, timeout)`: an unlimited wait (`timeoutMs < 0`) cannot time out -/
def sendTo (len : Nat) (timeoutMs : Int) (w : WaitAns) (a : SendAns) : SendRes × Bool :=
  if 0 ≤ timeoutMs ∧ w = .timedOut then (.ret 0, false) else sendNow len a

/-! ### the network and ReceiveFrom -/

structure Report where
  payload : Bytes
  src : Nat
  deriving Repr, DecidableEq

structure Net where
  chan : Nat → List Dgram := fun _ => []              -- per receiving socket: queued datagrams, oldest first
  arrived : Nat → List Dgram := fun _ => []           -- ghost: everything ever delivered to the socket
  removed : Nat → List (Dgram × Nat) := fun _ => []   -- ghost: datagrams taken by a receive, with the size used
  reports : Nat → List Report := fun _ => []          -- what the receives returned / handed to handlers

def updL {α} (f : Nat → List α) (i : Nat) (v : List α) : Nat → List α := fun x => if x = i then v else f x

inductive NetOp where
  /-- a `sendto` from the socket bound to `src` to the socket bound to `dst` succeeded -/
  | deliver (src dst : Nat) (payload : Bytes)
  /-- a `ReceiveFrom` on socket `r` with `size` bytes of room (caller's size / `rxBufSize`) -/
  | recv (r : Nat) (size : Nat)
  deriving Repr

/-- `recvfrom` with `size` bytes of room: the payload is truncated to `size`, the source is reported -/
def receiveFrom (d : Dgram) (size : Nat) : Report := ⟨d.payload.take size, d.src⟩

def netStep (n : Net) : NetOp → Net
  | .deliver src dst p =>
    { n with chan := updL n.chan dst (n.chan dst ++ [⟨p, src⟩]),
             arrived := updL n.arrived dst (n.arrived dst ++ [⟨p, src⟩]) }
  | .recv r size =>
    match n.chan r with
    | [] => n      -- nothing queued: a limited wait times out (nullopt), an unlimited one keeps waiting
    | d :: rest =>
      { n with chan := updL n.chan r rest,
               removed := updL n.removed r (n.removed r ++ [(d, size)]),
               reports := updL n.reports r (n.reports r ++ [receiveFrom d size]) }

def netRun (n : Net) (ops : List NetOp) : Net := ops.foldl netStep n

/-! ### the asynchronous SendTo queue -/

structure TElem where
  id : Nat
  payload : Bytes
  dst : Nat
  deriving Repr, DecidableEq

/-- answer of the one `sendto` of a `DriverSendTo` (UDP never returns a short count; the
synchronous model above covers that case as `logicError`) -/
inductive TAns where
  | ok
  | fail
  deriving Repr, DecidableEq

inductive TAct where
  | enq (id : Nat) (payload : Bytes) (dst : Nat)   -- `SendTo(buffer, dst)`: enqueue + AsyncWantSend (race: C02)
  | writable (a : TAns)                            -- one writable event = one `DriverSendTo`
  | destroy
  deriving Repr

structure TQ where
  q : List TElem := []
  armed : Bool := false
  destroyed : Bool := false
  fut : Nat → Fut := fun _ => .none
  sent : List TElem := []                -- datagrams handed to the OS, in order
  returned : List Nat := []
  enqd : List TElem := []                -- ghost
  done : List (TElem × Fut) := []        -- ghost

def tqStep (s : TQ) : TAct → TQ
  | .enq id p dst =>
    if s.destroyed ∨ s.fut id ≠ .none then s
    else { s with q := s.q ++ [⟨id, p, dst⟩], armed := true, fut := upd s.fut id .pending,
                  enqd := s.enqd ++ [⟨id, p, dst⟩] }
  | .writable a =>
    if s.destroyed ∨ ¬ s.armed then s
    else
      match s.q with
      | [] => s   -- "uncalled sendto" logic_error (unreachable: armed implies a queued element)
      | e :: rest =>
        match a with
        | .ok =>
          { s with q := rest, fut := upd s.fut e.id .value, sent := s.sent ++ [e],
                   returned := s.returned ++ [e.id], done := s.done ++ [(e, .value)],
                   armed := !rest.isEmpty }
        | .fail =>
          -- the element is popped whether or not sendto failed; the failure goes to its future only
          { s with q := rest, fut := upd s.fut e.id .exn,
                   returned := s.returned ++ [e.id], done := s.done ++ [(e, .exn)],
                   armed := !rest.isEmpty }
  | .destroy =>
    if s.destroyed then s
    else { s with destroyed := true, armed := false, q := [],
                  fut := fun i => if s.fut i = .pending then .broken else s.fut i,
                  returned := s.returned ++ s.q.map (·.id),
                  done := s.done ++ s.q.map (fun e => (e, .broken)) }

def tqRun (s : TQ) (acts : List TAct) : TQ := acts.foldl tqStep s

end SockModel.Udp

import SockModel.Model.Net
/-! Lemmas about the socket layer: what reaches the kernel, how often, with which outcome. -/
namespace SockModel.Net

variable {ω : Type}

/-- a world whose raw outgoing byte stream can be read off its state: `send` appends exactly the
accepted prefix, nothing else touches it -/
structure WireLog (W : World ω) (wire : ω → Bytes) : Prop where
  wait : ∀ w d t, wire (W.wait w d t).2 = wire w
  recv : ∀ w n, wire (W.recv w n).2 = wire w
  send : ∀ w bs, wire (W.send w bs).2 = wire w ++
    (match (W.send w bs).1 with | .accept k => bs.take k | .fail _ => [])

variable {W : World ω} {wire : ω → Bytes}

theorem WireLog.sendNow (L : WireLog W wire) (w : ω) (bs : Bytes) :
    wire (sendNow W w bs).w = wire w ++ bs.take (sendNow W w bs).sent := by
  have h := L.send w bs
  unfold Net.sendNow
  split
  · rename_i e w' heq
    rw [heq] at h
    simpa using h
  · rename_i k w' heq
    rw [heq] at h
    simp only at h
    split
    · rename_i hk
      rw [hk.1] at h
      simpa using h
    · simp only
      rw [h]
      congr 1
      rw [List.take_eq_take_iff]
      omega

theorem WireLog.recvNow (L : WireLog W wire) (w : ω) (n : Nat) : wire (recvNow W w n).world = wire w := by
  have h := L.recv w n
  unfold Net.recvNow
  split
  · rename_i e w' heq; rw [heq] at h; exact h
  · rename_i bs w' heq
    rw [heq] at h
    split <;> exact h

theorem WireLog.receive (L : WireLog W wire) (w : ω) (n : Nat) (t : Int) :
    wire (receive W w n t).world = wire w := by
  have h := L.wait w .rd t
  unfold Net.receive
  split
  · rename_i w' heq; rw [heq] at h; exact h
  · rename_i w' heq
    rw [heq] at h
    rw [L.recvNow w' n, h]

theorem WireLog.sendAll (L : WireLog W wire) (w : ω) (bs : Bytes) (acc : Nat) :
    acc ≤ (sendAll W w bs acc).sent ∧
    wire (sendAll W w bs acc).w = wire w ++ bs.take ((sendAll W w bs acc).sent - acc) := by
  fun_induction Net.sendAll W w bs acc with
  | case1 w bs acc r hx =>
    have hs := L.sendNow (W.wait w .wr (-1)).2 bs
    rw [L.wait] at hs
    exact ⟨Nat.le_add_right _ _, by simpa using hs⟩
  | case2 w bs acc r hx hrest =>
    have hs := L.sendNow (W.wait w .wr (-1)).2 bs
    rw [L.wait] at hs
    exact ⟨Nat.le_add_right _ _, by simpa using hs⟩
  | case3 w bs acc r hx hrest hpos ih =>
    have hs := L.sendNow (W.wait w .wr (-1)).2 bs
    rw [L.wait] at hs
    obtain ⟨ih1, ih2⟩ := ih
    refine ⟨by omega, ?_⟩
    rw [ih2, hs, List.append_assoc]
    congr 1
    have : (Net.sendAll W r.w (List.drop r.sent bs) (acc + r.sent)).sent - acc
        = r.sent + ((Net.sendAll W r.w (List.drop r.sent bs) (acc + r.sent)).sent - (acc + r.sent)) := by omega
    rw [this, List.take_add]
  | case4 w bs acc r hx hrest hpos =>
    have hs := L.sendNow (W.wait w .wr (-1)).2 bs
    rw [L.wait] at hs
    exact ⟨Nat.le_add_right _ _, by simpa using hs⟩

theorem WireLog.sendTry (L : WireLog W wire) (w : ω) (bs : Bytes) :
    wire (sendTry W w bs).w = wire w ++ bs.take (sendTry W w bs).sent := by
  have h := L.wait w .wr 0
  unfold Net.sendTry
  split
  · rename_i w' heq; rw [heq] at h; simpa using h
  · rename_i w' heq
    rw [heq] at h
    rw [L.sendNow w' bs, h]

theorem WireLog.sendSome (L : WireLog W wire) (w : ω) (bs : Bytes) (deadline tick : Int) (acc : Nat) :
    acc ≤ (sendSome W w bs deadline tick acc).1.sent ∧
    wire (sendSome W w bs deadline tick acc).1.w = wire w ++ bs.take ((sendSome W w bs deadline tick acc).1.sent - acc) := by
  fun_induction Net.sendSome W w bs deadline tick acc with
  | case1 w bs tick acc wt hw =>
    exact ⟨Nat.le_refl _, by simpa using L.wait w .wr (remainingMs deadline tick)⟩
  | case2 w bs tick acc wt hw tick' r hx =>
    have hs := L.sendNow wt.2 bs
    rw [L.wait] at hs
    exact ⟨Nat.le_add_right _ _, by simpa using hs⟩
  | case3 w bs tick acc wt hw tick' r hx hrest =>
    have hs := L.sendNow wt.2 bs
    rw [L.wait] at hs
    exact ⟨Nat.le_add_right _ _, by simpa using hs⟩
  | case4 w bs tick acc wt hw tick' r hx hrest hlt hpos ih =>
    have hs := L.sendNow wt.2 bs
    rw [L.wait] at hs
    obtain ⟨ih1, ih2⟩ := ih
    refine ⟨by omega, ?_⟩
    rw [ih2, hs, List.append_assoc]
    congr 1
    have : (Net.sendSome W r.w (List.drop r.sent bs) deadline tick' (acc + r.sent)).1.sent - acc
        = r.sent + ((Net.sendSome W r.w (List.drop r.sent bs) deadline tick' (acc + r.sent)).1.sent - (acc + r.sent)) := by omega
    rw [this, List.take_add]
  | case5 w bs tick acc wt hw tick' r hx hrest hlt hpos =>
    have hs := L.sendNow wt.2 bs
    rw [L.wait] at hs
    exact ⟨Nat.le_add_right _ _, by simpa using hs⟩
  | case6 w bs tick acc wt hw tick' r hx hrest hlt =>
    have hs := L.sendNow wt.2 bs
    rw [L.wait] at hs
    exact ⟨Nat.le_add_right _ _, by simpa using hs⟩

/-- the scripted world logs its raw stream -/
theorem Script.wireLog : WireLog Script.world Script.wire := by
  constructor
  · intro w d t
    simp only [Script.world, Script.wire]
    split
    · simp [wireOf]
    · split <;> simp [wireOf]
  · intro w n
    simp only [Script.world, Script.wire]
    split <;> simp [wireOf]
  · intro w bs
    simp only [Script.world, Script.wire]
    split
    · rename_i a rest heq
      cases a <;> simp [wireOf]
    · split <;> simp [wireOf]

end SockModel.Net

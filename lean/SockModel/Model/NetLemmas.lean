import SockModel.Model.Net
/-! Lemmas about the socket layer: what reaches the kernel, how often, with which outcome. -/
namespace SockModel.Net

variable {ω : Type}

/-- a world whose raw outgoing byte stream can be read off its state: `send` appends exactly the
accepted prefix, nothing else touches it -/
structure WireLog (W : World ω) (wire : ω → Bytes) : Prop where
  wait : ∀ w d t, wire (W.wait w d t).2 = wire w
  recv : ∀ w n, wire (W.recv w n).2 = wire w
  send : ∀ w bs, wire (W.send w bs).2 = wire w ++
    (match (W.send w bs).1 with | .accept k => bs.take k | .fail _ => [])

variable {W : World ω} {wire : ω → Bytes}

theorem WireLog.sendNow (L : WireLog W wire) (w : ω) (bs : Bytes) :
    wire (sendNow W w bs).w = wire w ++ bs.take (sendNow W w bs).sent := by
  have h := L.send w bs
  unfold Net.sendNow
  split
  · rename_i e w' heq
    rw [heq] at h
    simpa using h
  · rename_i k w' heq
    rw [heq] at h
    simp only at h
    split
    · rename_i hk
      rw [hk.1] at h
      simpa using h
    · simp only
      rw [h]
      congr 1
      rw [List.take_eq_take_iff]
      omega

theorem WireLog.recvNow (L : WireLog W wire) (w : ω) (n : Nat) : wire (recvNow W w n).world = wire w := by
  have h := L.recv w n
  unfold Net.recvNow
  split
  · rename_i e w' heq; rw [heq] at h; exact h
  · rename_i bs w' heq
    rw [heq] at h
    split <;> exact h

theorem WireLog.receive (L : WireLog W wire) (w : ω) (n : Nat) (t : Int) :
    wire (receive W w n t).world = wire w := by
  have h := L.wait w .rd t
  unfold Net.receive
  split
  · rename_i w' heq; rw [heq] at h; exact h
  · rename_i w' heq
    rw [heq] at h
    rw [L.recvNow w' n, h]

theorem WireLog.sendAll (L : WireLog W wire) (w : ω) (bs : Bytes) (acc : Nat) :
    acc ≤ (sendAll W w bs acc).sent ∧
    wire (sendAll W w bs acc).w = wire w ++ bs.take ((sendAll W w bs acc).sent - acc) := by
  fun_induction Net.sendAll W w bs acc with
  | case1 w bs acc r hx =>
    have hs := L.sendNow (W.wait w .wr (-1)).2 bs
    rw [L.wait] at hs
    exact ⟨Nat.le_add_right _ _, by simpa using hs⟩
  | case2 w bs acc r hx hrest =>
    have hs := L.sendNow (W.wait w .wr (-1)).2 bs
    rw [L.wait] at hs
    exact ⟨Nat.le_add_right _ _, by simpa using hs⟩
  | case3 w bs acc r hx hrest hpos ih =>
    have hs := L.sendNow (W.wait w .wr (-1)).2 bs
    rw [L.wait] at hs
    obtain ⟨ih1, ih2⟩ := ih
    refine ⟨by omega, ?_⟩
    rw [ih2, hs, List.append_assoc]
    congr 1
    have : (Net.sendAll W r.w (List.drop r.sent bs) (acc + r.sent)).sent - acc
        = r.sent + ((Net.sendAll W r.w (List.drop r.sent bs) (acc + r.sent)).sent - (acc + r.sent)) := by omega
    rw [this, List.take_add]
  | case4 w bs acc r hx hrest hpos =>
    have hs := L.sendNow (W.wait w .wr (-1)).2 bs
    rw [L.wait] at hs
    exact ⟨Nat.le_add_right _ _, by simpa using hs⟩

theorem WireLog.sendTry (L : WireLog W wire) (w : ω) (bs : Bytes) :
    wire (sendTry W w bs).w = wire w ++ bs.take (sendTry W w bs).sent := by
  have h := L.wait w .wr 0
  unfold Net.sendTry
  split
  · rename_i w' heq; rw [heq] at h; simpa using h
  · rename_i w' heq
    rw [heq] at h
    rw [L.sendNow w' bs, h]

theorem WireLog.sendSome (L : WireLog W wire) (w : ω) (bs : Bytes) (deadline tick : Int) (acc : Nat) :
    acc ≤ (sendSome W w bs deadline tick acc).1.sent ∧
    wire (sendSome W w bs deadline tick acc).1.w = wire w ++ bs.take ((sendSome W w bs deadline tick acc).1.sent - acc) := by
  fun_induction Net.sendSome W w bs deadline tick acc with
  | case1 w bs tick acc wt hw =>
    exact ⟨Nat.le_refl _, by simpa using L.wait w .wr (remainingMs deadline tick)⟩
  | case2 w bs tick acc wt hw tick' r hx =>
    have hs := L.sendNow wt.2 bs
    rw [L.wait] at hs
    exact ⟨Nat.le_add_right _ _, by simpa using hs⟩
  | case3 w bs tick acc wt hw tick' r hx hrest =>
    have hs := L.sendNow wt.2 bs
    rw [L.wait] at hs
    exact ⟨Nat.le_add_right _ _, by simpa using hs⟩
  | case4 w bs tick acc wt hw tick' r hx hrest hlt hpos ih =>
    have hs := L.sendNow wt.2 bs
    rw [L.wait] at hs
    obtain ⟨ih1, ih2⟩ := ih
    refine ⟨by omega, ?_⟩
    rw [ih2, hs, List.append_assoc]
    congr 1
    have : (Net.sendSome W r.w (List.drop r.sent bs) deadline tick' (acc + r.sent)).1.sent - acc
        = r.sent + ((Net.sendSome W r.w (List.drop r.sent bs) deadline tick' (acc + r.sent)).1.sent - (acc + r.sent)) := by omega
    rw [this, List.take_add]
  | case5 w bs tick acc wt hw tick' r hx hrest hlt hpos =>
    have hs := L.sendNow wt.2 bs
    rw [L.wait] at hs
    exact ⟨Nat.le_add_right _ _, by simpa using hs⟩
  | case6 w bs tick acc wt hw tick' r hx hrest hlt =>
    have hs := L.sendNow wt.2 bs
    rw [L.wait] at hs
    exact ⟨Nat.le_add_right _ _, by simpa using hs⟩

/-- the scripted world logs its raw stream -/
theorem Script.wireLog : WireLog Script.world Script.wire := by
  constructor
  · intro w d t
    simp only [Script.world, Script.wire]
    split
    · simp [wireOf]
    · split <;> simp [wireOf]
  · intro w n
    simp only [Script.world, Script.wire]
    split <;> simp [wireOf]
  · intro w bs
    simp only [Script.world, Script.wire]
    split
    · rename_i a rest heq
      cases a <;> simp [wireOf]
    · split <;> simp [wireOf]

/-! ### predicates on the world that every OS call keeps -/

structure WorldInv (W : World ω) (I : ω → Prop) : Prop where
  wait : ∀ w d t, I w → I (W.wait w d t).2
  send : ∀ w bs, I w → I (W.send w bs).2
  recv : ∀ w n, I w → I (W.recv w n).2

variable {I : ω → Prop}

theorem WorldInv.sendNow (V : WorldInv W I) (w : ω) (bs : Bytes) (h : I w) : I (sendNow W w bs).w := by
  have := V.send w bs h
  unfold Net.sendNow
  split
  · rename_i heq; rw [heq] at this; exact this
  · rename_i heq; rw [heq] at this; split <;> exact this

theorem WorldInv.recvNow (V : WorldInv W I) (w : ω) (n : Nat) (h : I w) : I (recvNow W w n).world := by
  have := V.recv w n h
  unfold Net.recvNow
  split
  · rename_i heq; rw [heq] at this; exact this
  · rename_i heq; rw [heq] at this; split <;> exact this

theorem WorldInv.receive (V : WorldInv W I) (w : ω) (n : Nat) (t : Int) (h : I w) : I (receive W w n t).world := by
  have := V.wait w .rd t h
  unfold Net.receive
  split
  · rename_i heq; rw [heq] at this; exact this
  · rename_i heq; rw [heq] at this; exact V.recvNow _ n this

theorem WorldInv.sendAll (V : WorldInv W I) (w : ω) (bs : Bytes) (acc : Nat) (h : I w) : I (sendAll W w bs acc).w := by
  fun_induction Net.sendAll W w bs acc with
  | case1 w bs acc r hx => exact V.sendNow _ bs (V.wait w .wr (-1) h)
  | case2 w bs acc r hx hrest => exact V.sendNow _ bs (V.wait w .wr (-1) h)
  | case3 w bs acc r hx hrest hpos ih => exact ih (V.sendNow _ bs (V.wait w .wr (-1) h))
  | case4 w bs acc r hx hrest hpos => exact V.sendNow _ bs (V.wait w .wr (-1) h)

theorem WorldInv.sendTry (V : WorldInv W I) (w : ω) (bs : Bytes) (h : I w) : I (sendTry W w bs).w := by
  have := V.wait w .wr 0 h
  unfold Net.sendTry
  split
  · rename_i heq; rw [heq] at this; exact this
  · rename_i heq; rw [heq] at this; exact V.sendNow _ bs this

theorem WorldInv.sendSome (V : WorldInv W I) (w : ω) (bs : Bytes) (deadline tick : Int) (acc : Nat) (h : I w) :
    I (sendSome W w bs deadline tick acc).1.w := by
  fun_induction Net.sendSome W w bs deadline tick acc with
  | case1 w bs tick acc wt hw => exact V.wait w .wr _ h
  | case2 w bs tick acc wt hw tick' r hx => exact V.sendNow _ bs (V.wait w .wr _ h)
  | case3 w bs tick acc wt hw tick' r hx hrest => exact V.sendNow _ bs (V.wait w .wr _ h)
  | case4 w bs tick acc wt hw tick' r hx hrest hlt hpos ih => exact ih (V.sendNow _ bs (V.wait w .wr _ h))
  | case5 w bs tick acc wt hw tick' r hx hrest hlt hpos => exact V.sendNow _ bs (V.wait w .wr _ h)
  | case6 w bs tick acc wt hw tick' r hx hrest hlt => exact V.sendNow _ bs (V.wait w .wr _ h)

theorem WorldInv.sendAny (V : WorldInv W I) (w : ω) (bs : Bytes) (t : Int) (h : I w) : I (Net.send W w bs t).w := by
  unfold Net.send
  split
  · exact V.sendAll w bs 0 h
  · split
    · exact V.sendTry w bs h
    · exact V.sendSome w bs _ _ 0 h

/-- every `send` in the call log carries MSG_NOSIGNAL -/
def AllNoSignal (calls : List Call) : Prop := ∀ bs a ns, Call.send bs a ns ∈ calls → ns = true

/-- the scripted world keeps "every send so far carried MSG_NOSIGNAL" - because the flag set extracted
from the source on this run contains it -/
theorem Script.noSignalInv : WorldInv Script.world (fun s => AllNoSignal s.calls) := by
  have hflag : sendNoSignal = true := by decide
  constructor
  · intro w d t h
    simp only [Script.world]
    split
    · intro bs a ns hm; simp only [List.mem_cons] at hm; rcases hm with hm | hm
      · cases hm
      · exact h bs a ns hm
    · split
      · intro bs a ns hm; simp only [List.mem_cons] at hm; rcases hm with hm | hm
        · cases hm
        · exact h bs a ns hm
      · intro bs a ns hm; simp only [List.mem_cons] at hm; rcases hm with hm | hm
        · cases hm
        · exact h bs a ns hm
  · intro w bs h
    simp only [Script.world]
    split
    · intro bs' a ns hm; simp only [List.mem_cons] at hm; rcases hm with hm | hm
      · cases hm; exact hflag
      · exact h bs' a ns hm
    · intro bs' a ns hm; simp only [List.mem_cons] at hm; rcases hm with hm | hm
      · cases hm; exact hflag
      · exact h bs' a ns hm
  · intro w n h
    simp only [Script.world]
    split
    · intro bs a ns hm; simp only [List.mem_cons] at hm; rcases hm with hm | hm
      · cases hm
      · exact h bs a ns hm
    · intro bs a ns hm; simp only [List.mem_cons] at hm; rcases hm with hm | hm
      · cases hm
      · exact h bs a ns hm

end SockModel.Net

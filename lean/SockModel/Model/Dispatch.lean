import SockModel.Model.AsyncQ
import SockModel.Generated.Consts
/-
Model of the driver's socket dispatch and of the receive / disconnect / connect routing
(src/driver_impl.cpp:147-166,200-286, src/socket_async_impl.cpp:123-162,230-245).

* `socks` is the `sockets` vector (parallel to `pfds[1..]`), in registration order.
* The environment holds, per TCP connection id, the bytes the peer sent that the library
  has not read yet (`inbox`), whether the peer closed / the connection was reset (`ended`,
  `rst`: EOF or the error follows the inbox), and per acceptor the queue of established
  connections not yet accepted (`backlog`).  Connection ids are allocated when the peer
  connects (so a peer can send before the connection is accepted).
* `revents` is what `poll` reports (assumption A-POLL: `POLLIN` iff data, EOF, error or a
  pending connection; `POLLOUT` iff requested; `POLLHUP|POLLERR` for a reset connection).
* `pick order` is the `if / else if` chain of `DoOneSocketTask`; the order of the tests is
  extracted from the source (`Consts.dispatchOrder`: 0 = POLLIN, 1 = POLLOUT, 2 = HUP|ERR).
* One `Driver::Step` = `stepSockets`: pipe readable ⇒ `Unbump` only; else the first socket
  in list order with an event gets exactly one task.
* The user handler invoked by the task may destroy any sockets (`hdl`).
-/
namespace SockModel.Dispatch
open SockModel.AsyncQ (Bytes)

inductive Kind where
  | tcp
  | acceptor
  deriving DecidableEq, Repr

structure Sock where
  id : Nat
  kind : Kind
  rxSize : Nat          -- rxBufSize (≥ 1)
  peerAddr : Nat        -- address cached at construction (tcp)
  deriving DecidableEq, Repr

structure Conn where
  inbox : Bytes := []
  ended : Bool := false
  rst : Bool := false
  stream : Bytes := []  -- ghost: everything the peer ever sent on this connection
  deriving Repr

inductive Reason where
  | eof      -- recv returned 0: "connection closed"
  | fail     -- recv failed: system_error
  | poll     -- "poll hangup/error"
  deriving DecidableEq, Repr

inductive Event where
  | data (s : Nat) (bytes : Bytes) (rx : Nat)            -- receive handler of socket s (rx: ghost, its rxBufSize)
  | disconnect (s : Nat) (addr : Nat) (r : Reason)       -- disconnect handler of socket s
  | connect (a : Nat) (c : Nat) (addr : Nat)             -- connect handler of acceptor a: connection c from addr
  deriving DecidableEq, Repr

def Event.sock : Event → Nat
  | .data s _ _ => s
  | .disconnect s _ _ => s
  | .connect a _ _ => a

inductive Task where
  | readable
  | writable
  | error
  deriving DecidableEq, Repr

structure Rev where
  pin : Bool
  pout : Bool
  perr : Bool
  deriving DecidableEq, Repr

/-- the `if(revents & POLLIN) … else if(revents & POLLOUT) … else if(revents & (POLLHUP|POLLERR))`
chain, in the order the tests are written -/
def pick : List Nat → Rev → Option Task
  | [], _ => none
  | 0 :: rest, r => if r.pin then some .readable else pick rest r
  | 1 :: rest, r => if r.pout then some .writable else pick rest r
  | 2 :: rest, r => if r.perr then some .error else pick rest r
  | _ :: rest, r => pick rest r

structure St where
  socks : List Sock := []
  conn : Nat → Conn := fun _ => {}
  backlog : Nat → List (Nat × Nat) := fun _ => []     -- acceptor id ↦ (connection id, peer address)
  wantOut : Nat → Bool := fun _ => false              -- POLLOUT requested (send queue non-empty, C02)
  nextId : Nat := 0
  log : List Event := []                              -- handler invocations, oldest first
  created : List Sock := []                           -- ghost: every socket ever registered
  made : List (Nat × Nat × Nat) := []                 -- ghost: every (acceptor, connection, address) established

def updC (f : Nat → Conn) (i : Nat) (v : Conn) : Nat → Conn := fun x => if x = i then v else f x
def updB {α} (f : Nat → α) (i : Nat) (v : α) : Nat → α := fun x => if x = i then v else f x

def St.revents (s : St) (k : Sock) : Rev :=
  match k.kind with
  | .tcp =>
    let c := s.conn k.id
    { pin := !c.inbox.isEmpty || c.ended, pout := s.wantOut k.id, perr := c.rst }
  | .acceptor => { pin := !(s.backlog k.id).isEmpty, pout := false, perr := false }

/-- the `for` loop of `DoOneSocketTask`: first socket in list order whose revents select a task -/
def firstTask (order : List Nat) (s : St) : List Sock → Option (Sock × Task)
  | [] => none
  | k :: rest =>
    match pick order (s.revents k) with
    | some t => some (k, t)
    | none => firstTask order s rest

/-- `AsyncUnregister(fd)` -/
def unregister (s : St) (id : Nat) : St := { s with socks := s.socks.filter (·.id ≠ id) }

/-- the user handler destroys these sockets (`~SocketAsyncImpl` → `AsyncUnregister`) -/
def destroyAll (s : St) (ids : List Nat) : St := ids.foldl unregister s

/-- size of the chunk one `recv` into `rx` bytes returns when `avail` bytes are queued; `chunk` is the
OS' choice (segmentation), clamped to what is possible -/
def chunkLen (chunk rx avail : Nat) : Nat := max 1 (min chunk (min rx avail))

/-- `DriverDisconnect`: unregister THEN call the handler with the cached address -/
def disconnect (s : St) (k : Sock) (r : Reason) (hdl : List Nat) : St :=
  let s1 := unregister s k.id
  destroyAll { s1 with log := s1.log ++ [.disconnect k.id k.peerAddr r] } hdl

/-- `DriverReceive` on a readable TCP socket -/
def driverReceive (s : St) (k : Sock) (chunk : Nat) (hdl : List Nat) : St :=
  let c := s.conn k.id
  if c.inbox.isEmpty then
    -- recv returns 0 (peer closed) or fails: runtime_error → onError → DriverDisconnect
    disconnect s k (if c.rst then .fail else .eof) hdl
  else
    let n := chunkLen chunk k.rxSize c.inbox.length
    destroyAll { s with conn := updC s.conn k.id { c with inbox := c.inbox.drop n },
                        log := s.log ++ [.data k.id (c.inbox.take n) k.rxSize] } hdl

/-- `DriverConnect`: accept one connection, re-listen, call the handler; the handler upgrades the
connection to an async socket on this driver (receive buffers of `rx` bytes) -/
def driverConnect (s : St) (k : Sock) (rx : Nat) (hdl : List Nat) : St :=
  match s.backlog k.id with
  | [] => s    -- accept fails (EAGAIN): silently discarded
  | (c, addr) :: rest =>
    let new : Sock := ⟨c, .tcp, max 1 rx, addr⟩
    destroyAll { s with backlog := updB s.backlog k.id rest,
                        socks := s.socks ++ [new], created := s.created ++ [new],
                        log := s.log ++ [.connect k.id c addr] } hdl

def doTask (s : St) (k : Sock) (t : Task) (chunk rx : Nat) (hdl : List Nat) : St :=
  match t, k.kind with
  | .readable, .tcp => driverReceive s k chunk hdl
  | .readable, .acceptor => driverConnect s k rx hdl
  | .writable, _ => { s with wantOut := updB s.wantOut k.id false }   -- DriverOnWritable: C02; no handler
  | .error, .tcp => disconnect s k .poll hdl
  | .error, .acceptor => s                                            -- accept errors are silently discarded

/-- `StepSockets` after `poll` returned -/
def stepSockets (order : List Nat) (s : St) (pipe : Bool) (chunk rx : Nat) (hdl : List Nat) : St :=
  if pipe then s   -- Unbump only
  else
    match firstTask order s s.socks with
    | none => s
    | some (k, t) => doTask s k t chunk rx hdl

inductive Op where
  | newClient (addr : Nat) (rx : Nat)             -- user: SocketTcpAsync connected to the peer at `addr`
  | newAcceptor                                   -- user: AcceptorAsync
  | peerConnect (a : Nat) (addr : Nat)            -- a peer at `addr` establishes a connection to acceptor `a`
  | peerSend (c : Nat) (bytes : Bytes)
  | peerClose (c : Nat)
  | peerRst (c : Nat)
  | wantSend (s : Nat)                            -- user: Send on socket s (arms POLLOUT)
  | destroy (s : Nat)                             -- user destroys socket s outside a handler
  | step (pipe : Bool) (chunk rx : Nat) (hdl : List Nat)
  deriving Repr

def apply (order : List Nat) (s : St) : Op → St
  | .newClient addr rx =>
    let new : Sock := ⟨s.nextId, .tcp, max 1 rx, addr⟩
    { s with socks := s.socks ++ [new], created := s.created ++ [new], nextId := s.nextId + 1 }
  | .newAcceptor =>
    let new : Sock := ⟨s.nextId, .acceptor, 1, 0⟩
    { s with socks := s.socks ++ [new], created := s.created ++ [new], nextId := s.nextId + 1 }
  | .peerConnect a addr =>
    if s.socks.any (fun k => k.id = a ∧ k.kind = .acceptor) then
      { s with backlog := updB s.backlog a (s.backlog a ++ [(s.nextId, addr)]),
               made := s.made ++ [(a, s.nextId, addr)], nextId := s.nextId + 1 }
    else s
  | .peerSend c bytes =>
    let k := s.conn c
    if k.ended then s   -- a peer that closed cannot send any more
    else { s with conn := updC s.conn c { k with inbox := k.inbox ++ bytes, stream := k.stream ++ bytes } }
  | .peerClose c => { s with conn := updC s.conn c { s.conn c with ended := true } }
  | .peerRst c => { s with conn := updC s.conn c { s.conn c with ended := true, rst := true } }
  | .wantSend i => if s.socks.any (·.id = i) then { s with wantOut := updB s.wantOut i true } else s
  | .destroy i => unregister s i
  | .step pipe chunk rx hdl => stepSockets order s pipe chunk rx hdl

def run (order : List Nat) (s : St) (ops : List Op) : St := ops.foldl (apply order) s

/-- bytes handed to the receive handler of socket `i`, concatenated in handler order -/
def dataOf (i : Nat) : List Event → Bytes
  | [] => []
  | .data s b _ :: rest => if s = i then b ++ dataOf i rest else dataOf i rest
  | _ :: rest => dataOf i rest

/-- connections reported by the connect handler of acceptor `a`, in order -/
def connectsOf (a : Nat) : List Event → List (Nat × Nat)
  | [] => []
  | .connect x c addr :: rest => if x = a then (c, addr) :: connectsOf a rest else connectsOf a rest
  | _ :: rest => connectsOf a rest

end SockModel.Dispatch

import SockModel.Model.ToDosLemmas
/-!
# Spec.C06 - the reference scheduler the check evaluates on the implementation, and the proof that
the model satisfies it for every history

The reference state knows nothing about the deque: it is a *bag* of `(id, due time, scheduling
sequence number)`.  From the op lines (and from the bodies of the tasks reported as run) it derives
what is pending; for every task invocation the implementation reports (`ran id at now`) it demands:
the task is scheduled at all (exactly once per scheduling, nothing after Cancel), `now ≥ due`
(never early), and no other pending task is due earlier or equally due but scheduled earlier
(due order, ties in scheduling order).  `./check C06` runs exactly these functions on the
implementation's transcript (`Drive/C06.lean` opens this namespace).

`model_accepted`: replaying the MODEL's own invocations through this checker never fails, for every
history of any length, every task body, every clock.  (The step-level clauses about the socket wait
are the C07 theorems `step_bounded`, `step_not_past_todo`, `step_full_wait`, and promptness is `prompt`.)
-/
namespace SockModel.ToDos.RefSched
open SockModel.ToDos SockModel.Deadline

structure Pending where
  id : Nat
  when : Int
  seq : Nat
  deriving DecidableEq, Repr

structure SpSt where
  pend : List Pending := []
  seq : Nat := 0
  now : Int := 0
  live : List Nat := []
  known : List Nat := []
  bodies : List (Nat × List BodyOp) := []

def SpSt.sched (sp : SpSt) (id : Nat) (w : Int) : SpSt :=
  { sp with pend := sp.pend.filter (·.id ≠ id) ++ [⟨id, w, sp.seq⟩], seq := sp.seq + 1 }

def SpSt.apply (sp : SpSt) : BodyOp → SpSt
  | .shift id w => if sp.live.contains id then sp.sched id w else sp
  | .shiftd id ms => if sp.live.contains id then sp.sched id (sp.now + ms * nsPerMs) else sp
  | .cancel id => if sp.live.contains id then { sp with pend := sp.pend.filter (·.id ≠ id) } else sp
  | .newAt id w => if sp.known.contains id then sp else
      { (sp.sched id w) with live := id :: sp.live, known := id :: sp.known }
  | .newIn id ms => if sp.known.contains id then sp else
      { (sp.sched id (sp.now + ms * nsPerMs)) with live := id :: sp.live, known := id :: sp.known }
  | .drop id => { sp with live := sp.live.filter (· ≠ id) }
  | .adv ns => { sp with now := sp.now + ns }
  | .stop => sp

/-- the implementation reports `ran id at now` -/
def SpSt.ran (sp : SpSt) (id : Nat) (now : Int) : Except String SpSt :=
  match sp.pend.find? (·.id = id) with
  | none => .error s!"task {id} invoked although it is not scheduled (twice / after Cancel)"
  | some p =>
    if now < p.when then .error s!"task {id} invoked at {now}, before its due time {p.when}"
    else
      match sp.pend.find? (fun q => q.when < p.when ∨ (q.when = p.when ∧ q.seq < p.seq)) with
      | some q => .error s!"task {id} (due {p.when}) invoked before task {q.id} (due {q.when}, scheduled earlier)"
      | none =>
        let sp := { sp with pend := sp.pend.filter (·.id ≠ id), now := now }
        let body := match sp.bodies.find? (·.1 = id) with | some (_, b) => b | none => []
        .ok (body.foldl SpSt.apply sp)

def SpSt.user (sp : SpSt) : Op → SpSt
  | .new id w body => if sp.known.contains id then sp else
      ({ sp with bodies := (id, body) :: sp.bodies }).apply (.newAt id w)
  | .newIn id ms body => if sp.known.contains id then sp else
      ({ sp with bodies := (id, body) :: sp.bodies }).apply (.newIn id ms)
  | .newIdle id body => if sp.known.contains id then sp else
      { sp with bodies := (id, body) :: sp.bodies, live := id :: sp.live, known := id :: sp.known }
  | .call op => sp.apply op
  | .clock ns => if ns ≥ sp.now then { sp with now := ns } else sp
  | .step _ => sp

/-! ## the model satisfies the reference scheduler -/

def key (e : Entry) : Pending := ⟨e.id, e.when, e.seq⟩

/-- simulation relation between model state and reference state -/
structure R (m : St) (sp : SpSt) : Prop where
  pend : sp.pend.Perm (m.todos.map key)
  seq : sp.seq = m.nextSeq
  now : sp.now = m.now
  live : sp.live = m.live
  known : sp.known = m.known
  bodies : sp.bodies = m.bodies

theorem insert_perm (l : List Entry) (e : Entry) : (insert l e).Perm (e :: l) := by
  induction l with
  | nil => simp [insert]
  | cons y ys ih =>
    unfold insert
    split
    · exact List.Perm.refl _
    · exact (List.Perm.cons y ih).trans (List.Perm.swap _ _ _)

theorem remove_eq_filter {l : List Entry} (id : Nat) (h : (ids l).Nodup) :
    remove l id = l.filter (fun e => e.id ≠ id) := by
  induction l with
  | nil => rfl
  | cons y ys ih =>
    simp only [ids, List.map_cons, List.nodup_cons] at h
    unfold remove
    split
    · rename_i heq
      have hno : ∀ e ∈ ys, e.id ≠ id := by
        intro e he h'
        apply h.1
        rw [heq, ← h']
        exact List.mem_map_of_mem he
      rw [List.filter_cons_of_neg (by simp [heq])]
      exact (List.filter_eq_self.mpr (by intro e he; simpa using hno e he)).symm
    · rename_i hne
      rw [List.filter_cons_of_pos (by simpa using hne), ih h.2]

theorem map_key_filter (l : List Entry) (id : Nat) :
    (l.map key).filter (fun p => p.id ≠ id) = (l.filter (fun e => e.id ≠ id)).map key := by
  induction l with
  | nil => rfl
  | cons y ys ih =>
    by_cases h : y.id = id
    · rw [List.map_cons, List.filter_cons_of_neg (by simp [key, h]), List.filter_cons_of_neg (by simp [h]), ih]
    · rw [List.map_cons, List.filter_cons_of_pos (by simp [key, h]), List.filter_cons_of_pos (by simp [h]), List.map_cons, ih]

theorem filter_absent {l : List Pending} {id : Nat} (h : ∀ p ∈ l, p.id ≠ id) :
    l.filter (fun p => p.id ≠ id) = l :=
  List.filter_eq_self.mpr (by intro p hp; simpa using h p hp)

/-- scheduling (construction with a due time, Shift) -/
theorem R_sched {m : St} {sp : SpSt} (inv : TInv m) (r : R m sp) (id : Nat) (w : Int) :
    R { m with todos := move m.todos id w m.nextSeq, nextSeq := m.nextSeq + 1 } (sp.sched id w) := by
  refine ⟨?_, by simp [SpSt.sched, r.seq], r.now, r.live, r.known, r.bodies⟩
  simp only [SpSt.sched, move]
  have h1 : (sp.pend.filter (fun p => p.id ≠ id)).Perm ((remove m.todos id).map key) := by
    rw [remove_eq_filter id inv.nodup, ← map_key_filter]
    exact r.pend.filter _
  have h2 := (insert_perm (remove m.todos id) ⟨id, w, m.nextSeq⟩).map key
  rw [r.seq]
  refine List.Perm.trans ?_ h2.symm
  simp only [List.map_cons, key]
  exact (List.perm_append_singleton _ _).trans (List.Perm.cons _ h1)

theorem R_cancel {m : St} {sp : SpSt} (inv : TInv m) (r : R m sp) (id : Nat) :
    R { m with todos := remove m.todos id } { sp with pend := sp.pend.filter (·.id ≠ id) } := by
  refine ⟨?_, r.seq, r.now, r.live, r.known, r.bodies⟩
  simp only
  rw [remove_eq_filter id inv.nodup, ← map_key_filter]
  exact r.pend.filter _

theorem contains_eq {l : List Nat} {x : Nat} : l.contains x = decide (x ∈ l) := by
  by_cases h : x ∈ l <;> simp [h]

theorem R_apply {m : St} {sp : SpSt} (inv : TInv m) (r : R m sp) (op : BodyOp) : R (applyOp m op) (sp.apply op) := by
  have hl : ∀ id, sp.live.contains id = decide (id ∈ m.live) := fun id => by rw [contains_eq, r.live]
  have hk : ∀ id, sp.known.contains id = decide (id ∈ m.known) := fun id => by rw [contains_eq, r.known]
  cases op with
  | shift id w =>
    simp only [applyOp, SpSt.apply, hl]
    by_cases h : id ∈ m.live
    · simp only [h, if_true, decide_true]; exact R_sched inv r id w
    · simp only [h, if_false, decide_false]
      exact r
  | shiftd id ms =>
    simp only [applyOp, SpSt.apply, hl]
    by_cases h : id ∈ m.live
    · simp only [h, if_true, decide_true]; rw [r.now]; exact R_sched inv r id _
    · simp only [h, if_false, decide_false]
      exact r
  | cancel id =>
    simp only [applyOp, SpSt.apply, hl]
    by_cases h : id ∈ m.live
    · simp only [h, if_true, decide_true]; exact R_cancel inv r id
    · simp only [h, if_false, decide_false]
      exact r
  | newAt id w =>
    simp only [applyOp, SpSt.apply, hk]
    by_cases h : id ∈ m.known
    · simp only [h, if_true, decide_true]; exact r
    · simp only [h, if_false, decide_false]
      have hid : id ∉ ids m.todos := fun hm => h (inv.known id hm)
      have hmove : move m.todos id w m.nextSeq = insert m.todos ⟨id, w, m.nextSeq⟩ := by
        unfold move
        rw [remove_eq_filter id inv.nodup]
        congr 1
        exact List.filter_eq_self.mpr (by
          intro e he
          simp only [ne_eq, decide_eq_true_eq]
          intro h'; apply hid; rw [← h']; exact List.mem_map_of_mem he)
      have := R_sched inv r id w
      rw [hmove] at this
      exact ⟨this.pend, this.seq, this.now, by simp [r.live], by simp [r.known], this.bodies⟩
  | newIn id ms =>
    simp only [applyOp, SpSt.apply, hk]
    by_cases h : id ∈ m.known
    · simp only [h, if_true, decide_true]; exact r
    · simp only [h, if_false, decide_false]
      have hid : id ∉ ids m.todos := fun hm => h (inv.known id hm)
      have hmove : move m.todos id (m.now + ms * nsPerMs) m.nextSeq = insert m.todos ⟨id, m.now + ms * nsPerMs, m.nextSeq⟩ := by
        unfold move
        rw [remove_eq_filter id inv.nodup]
        congr 1
        exact List.filter_eq_self.mpr (by
          intro e he
          simp only [ne_eq, decide_eq_true_eq]
          intro h'; apply hid; rw [← h']; exact List.mem_map_of_mem he)
      have := R_sched inv r id (m.now + ms * nsPerMs)
      rw [hmove] at this
      rw [r.now]
      exact ⟨this.pend, this.seq, this.now, by simp [r.live], by simp [r.known], this.bodies⟩
  | drop id => exact ⟨r.pend, r.seq, r.now, by simp [applyOp, SpSt.apply, r.live], r.known, r.bodies⟩
  | adv ns => exact ⟨r.pend, r.seq, by simp [applyOp, SpSt.apply, r.now], r.live, r.known, r.bodies⟩
  | stop => exact ⟨r.pend, r.seq, r.now, r.live, r.known, r.bodies⟩

theorem R_foldl {m : St} {sp : SpSt} (inv : TInv m) (r : R m sp) (ops : List BodyOp) :
    R (ops.foldl applyOp m) (ops.foldl SpSt.apply sp) := by
  induction ops generalizing m sp with
  | nil => exact r
  | cons op ops ih => exact ih (inv_applyOp inv op) (R_apply inv r op)

/-- in a list with distinct ids, `find?` by id returns the element with that id -/
theorem find_by_id {l : List Pending} (hnd : (l.map (·.id)).Nodup) {x : Pending} (hx : x ∈ l) :
    l.find? (fun p => p.id = x.id) = some x := by
  induction l with
  | nil => cases hx
  | cons y ys ih =>
    simp only [List.map_cons, List.nodup_cons] at hnd
    rcases List.mem_cons.mp hx with rfl | hx
    · simp
    · have hne : y.id ≠ x.id := by
        intro h; apply hnd.1; rw [h]; exact List.mem_map_of_mem hx
      rw [List.find?_cons_of_neg (by simpa using hne)]
      exact ih hnd.2 hx

theorem ids_key (l : List Entry) : (l.map key).map (·.id) = ids l := by
  simp [ids, key, List.map_map, Function.comp_def]

/-- one invocation by the model is accepted by the reference scheduler, and the relation is
re-established after the task body ran on both sides -/
theorem ran_accepted {m : St} {sp : SpSt} (inv : TInv m) (r : R m sp) (front : Entry) (rest : List Entry)
    (ht : m.todos = front :: rest) (hdue : front.when ≤ m.now) (dnow : Int) (hd : dnow = m.now) :
    ∃ sp', sp.ran front.id dnow = .ok sp' ∧
      R ((m.body front.id).foldl applyOp { m with todos := rest, log := .ran front.id front.when dnow rest front.seq :: m.log }) sp' := by
  have hs := inv.sorted; have hn := inv.nodup; have hlx := inv.lex
  rw [ht] at hs hn hlx
  have hs' := List.pairwise_cons.mp hs
  have hlx' := List.pairwise_cons.mp hlx
  have hperm := r.pend
  rw [ht] at hperm
  have hndp : (sp.pend.map (·.id)).Nodup := by
    have := (hperm.map (·.id)).nodup_iff.mpr (by rw [ids_key]; exact hn)
    exact this
  have hmem : key front ∈ sp.pend := hperm.mem_iff.mpr (by simp)
  have hfind : sp.pend.find? (fun p => p.id = front.id) = some (key front) := find_by_id hndp hmem
  have hnone : sp.pend.find? (fun q => q.when < (key front).when ∨ (q.when = (key front).when ∧ q.seq < (key front).seq)) = none := by
    apply List.find?_eq_none.mpr
    intro q hq hbad0
    have hbad := of_decide_eq_true hbad0
    have hq' := hperm.mem_iff.mp hq
    simp only [List.map_cons, List.mem_cons, List.mem_map] at hq'
    rcases hq' with rfl | ⟨e, he, rfl⟩
    · rcases hbad with hb | ⟨_, hb2⟩
      · exact absurd hb (Int.lt_irrefl _)
      · exact absurd hb2 (Nat.lt_irrefl _)
    · have h1 := hs'.1 e he
      have h2 := hlx'.1 e he
      rcases hbad with hb | ⟨hb1, hb2⟩
      · have hb' : e.when < front.when := hb
        omega
      · have hb1' : e.when = front.when := hb1
        have hb2' : e.seq < front.seq := hb2
        have := h2 hb1'.symm; omega
  -- the remaining bag after removing the invoked task
  have hrest : (sp.pend.filter (fun p => p.id ≠ front.id)).Perm (rest.map key) := by
    have h1 := hperm.filter (fun p => decide (p.id ≠ front.id))
    rw [List.map_cons, List.filter_cons_of_neg (by simp [key])] at h1
    have hno : ∀ p ∈ rest.map key, p.id ≠ front.id := by
      intro p hp h'
      have hmem : p.id ∈ ids rest := by rw [← ids_key]; exact List.mem_map_of_mem hp
      have hn' : front.id ∉ ids rest := by
        have := hn; simp only [ids, List.map_cons, List.nodup_cons] at this; exact this.1
      rw [h'] at hmem
      exact hn' hmem
    rw [filter_absent hno] at h1
    exact h1
  let m1 : St := { m with todos := rest, log := .ran front.id front.when dnow rest front.seq :: m.log }
  let sp1 : SpSt := { sp with pend := sp.pend.filter (·.id ≠ front.id), now := dnow }
  have inv1 : TInv m1 := by
    simp only [ids, List.map_cons, List.nodup_cons] at hn
    refine ⟨hs'.2, hn.2, ?_, inv.liveKnown, ?_, hlx'.2, ?_⟩
    · intro x hx; exact inv.known x (by rw [ht]; simp [ids] at hx ⊢; exact Or.inr hx)
    · intro ev hev
      rcases List.mem_cons.mp hev with rfl | hev
      · exact ⟨by omega, hs'.1, hn.1, fun e he heq => hlx'.1 e he heq.symm⟩
      · exact inv.logOk ev hev
    · intro e he; exact inv.seqLt e (by rw [ht]; exact List.mem_cons_of_mem _ he)
  have r1 : R m1 sp1 := ⟨hrest, r.seq, hd, r.live, r.known, r.bodies⟩
  have hbody : (match sp1.bodies.find? (·.1 = front.id) with | some (_, b) => b | none => []) = m.body front.id := by
    simp only [sp1, r.bodies, St.body]
    rfl
  refine ⟨(m.body front.id).foldl SpSt.apply sp1, ?_, R_foldl inv1 r1 _⟩
  unfold SpSt.ran
  rw [hfind]
  simp only
  rw [if_neg (by simp only [key]; omega), hnone]
  simp only
  rw [← hbody]

/-- the task invocations of a log segment, oldest first -/
def ransOf (evs : List Event) : List (Nat × Int) :=
  evs.reverse.filterMap fun | .ran id _ now _ _ => some (id, now) | _ => none

def replayRans (sp : SpSt) : List (Nat × Int) → Except String SpSt
  | [] => .ok sp
  | (id, now) :: rest => match sp.ran id now with | .ok sp' => replayRans sp' rest | .error e => .error e

theorem replayRans_append (sp : SpSt) (a b : List (Nat × Int)) :
    replayRans sp (a ++ b) = match replayRans sp a with | .ok sp' => replayRans sp' b | .error e => .error e := by
  induction a generalizing sp with
  | nil => rfl
  | cons x xs ih =>
    obtain ⟨id, now⟩ := x
    simp only [List.cons_append, replayRans]
    cases sp.ran id now with
    | ok sp' => exact ih sp'
    | error e => rfl

/-- the `StepTodos` loop: every invocation it makes is accepted -/
theorem stepTodos_accepted (fuel : Nat) (d : Deadline) (m : St) (sp : SpSt) (inv : TInv m) (r : R m sp)
    (hd : d.now = m.now) :
    ∃ pre sp', (stepTodos fuel d m).2.log = pre ++ m.log ∧ replayRans sp (ransOf pre) = .ok sp' ∧
      R (stepTodos fuel d m).2 sp' := by
  induction fuel generalizing d m sp with
  | zero => exact ⟨[.fuel], sp, rfl, rfl, ⟨r.pend, r.seq, r.now, r.live, r.known, r.bodies⟩⟩
  | succ fuel ih =>
    unfold stepTodos
    cases ht : m.todos with
    | nil => exact ⟨[], sp, by simp, rfl, r⟩
    | cons front rest =>
      simp only
      split
      · exact ⟨[], sp, by simp, rfl, r⟩
      · rename_i hdue
        have hdue' : front.when ≤ m.now := by omega
        obtain ⟨sp1, hran, r1⟩ := ran_accepted inv r front rest ht hdue' d.now hd
        -- invariant of the state after the body
        have hs := inv.sorted; have hn := inv.nodup; have hlx := inv.lex
        rw [ht] at hs hn hlx
        have hs' := List.pairwise_cons.mp hs
        have hlx' := List.pairwise_cons.mp hlx
        have inv1 : TInv { m with todos := rest, log := .ran front.id front.when d.now rest front.seq :: m.log } := by
          simp only [ids, List.map_cons, List.nodup_cons] at hn
          refine ⟨hs'.2, hn.2, ?_, inv.liveKnown, ?_, hlx'.2, ?_⟩
          · intro x hx; exact inv.known x (by rw [ht]; simp [ids] at hx ⊢; exact Or.inr hx)
          · intro ev hev
            rcases List.mem_cons.mp hev with rfl | hev
            · exact ⟨by omega, hs'.1, hn.1, fun e he heq => hlx'.1 e he heq.symm⟩
            · exact inv.logOk ev hev
          · intro e he; exact inv.seqLt e (by rw [ht]; exact List.mem_cons_of_mem _ he)
        have inv2 := inv_foldl_applyOp inv1 (m.body front.id)
        have hlog2 : ((m.body front.id).foldl applyOp
            { m with todos := rest, log := .ran front.id front.when d.now rest front.seq :: m.log }).log
            = .ran front.id front.when d.now rest front.seq :: m.log := by
          have : ∀ (ops : List BodyOp) (s0 : St), (ops.foldl applyOp s0).log = s0.log := by
            intro ops
            induction ops with
            | nil => intro s0; rfl
            | cons op ops ih2 =>
              intro s0
              simp only [List.foldl_cons]
              rw [ih2]
              cases op <;> simp only [applyOp] <;> (try split) <;> rfl
          exact this _ _
        have hone : replayRans sp (ransOf [.ran front.id front.when d.now rest front.seq]) = .ok sp1 := by
          simp only [ransOf, List.reverse_cons, List.reverse_nil, List.nil_append, List.filterMap_cons, List.filterMap_nil,
            replayRans, hran]
        split
        · exact ⟨[.ran front.id front.when d.now rest front.seq], sp1, by rw [hlog2]; rfl, hone, r1⟩
        · split
          · have htick : (d.tick ((m.body front.id).foldl applyOp
                { m with todos := rest, log := .ran front.id front.when d.now rest front.seq :: m.log }).now).now
                = ((m.body front.id).foldl applyOp
                { m with todos := rest, log := .ran front.id front.when d.now rest front.seq :: m.log }).now := by
              cases d <;> rfl
            obtain ⟨pre, sp', hlog, hrep, r'⟩ := ih _ _ sp1 inv2 r1 htick
            refine ⟨pre ++ [.ran front.id front.when d.now rest front.seq], sp', ?_, ?_, r'⟩
            · rw [hlog, hlog2]; simp
            · have : ransOf (pre ++ [.ran front.id front.when d.now rest front.seq])
                  = ransOf [.ran front.id front.when d.now rest front.seq] ++ ransOf pre := by
                simp [ransOf, List.filterMap_append]
              rw [this, replayRans_append, hone]
              exact hrep
          · exact ⟨[.ran front.id front.when d.now rest front.seq], sp1, by rw [hlog2]; rfl, hone, r1⟩

/-- replay a whole history: non-step ops update the reference state from the op line, a step feeds
the model's own invocations (in order) to the checker -/
def replay (clamp : Bool) (fuel : Nat) : St → SpSt → List Op → Except String SpSt
  | _, sp, [] => .ok sp
  | m, sp, op :: ops =>
    let m' := userOp clamp fuel m op
    match op with
    | .step _ =>
      match replayRans sp (ransOf (m'.log.take (m'.log.length - m.log.length))) with
      | .ok sp' => replay clamp fuel m' { sp' with now := m'.now } ops
      | .error e => .error e
    | _ => replay clamp fuel m' (sp.user op) ops

theorem R_user {m : St} {sp : SpSt} (clamp : Bool) (fuel : Nat) (inv : TInv m) (r : R m sp) (op : Op)
    (hns : ∀ t, op ≠ .step t) : R (userOp clamp fuel m op) (sp.user op) := by
  cases op with
  | new id w body =>
    have hk : sp.known.contains id = decide (id ∈ m.known) := by rw [contains_eq, r.known]
    by_cases h : id ∈ m.known
    · have hc : sp.known.contains id = true := by rw [hk]; simp [h]
      simp only [userOp, SpSt.user, if_pos h, hc, if_true]; exact r
    · have hc : sp.known.contains id = false := by rw [hk]; simp [h]
      simp only [userOp, SpSt.user, if_neg h, hc, Bool.false_eq_true, if_false]
      exact R_apply (m := { m with bodies := (id, body) :: m.bodies })
        (sp := { sp with bodies := (id, body) :: sp.bodies })
        ⟨inv.sorted, inv.nodup, inv.known, inv.liveKnown, inv.logOk, inv.lex, inv.seqLt⟩
        ⟨r.pend, r.seq, r.now, r.live, r.known, congrArg (List.cons (id, body)) r.bodies⟩ _
  | newIn id ms body =>
    have hk : sp.known.contains id = decide (id ∈ m.known) := by rw [contains_eq, r.known]
    by_cases h : id ∈ m.known
    · have hc : sp.known.contains id = true := by rw [hk]; simp [h]
      simp only [userOp, SpSt.user, if_pos h, hc, if_true]; exact r
    · have hc : sp.known.contains id = false := by rw [hk]; simp [h]
      simp only [userOp, SpSt.user, if_neg h, hc, Bool.false_eq_true, if_false]
      exact R_apply (m := { m with bodies := (id, body) :: m.bodies })
        (sp := { sp with bodies := (id, body) :: sp.bodies })
        ⟨inv.sorted, inv.nodup, inv.known, inv.liveKnown, inv.logOk, inv.lex, inv.seqLt⟩
        ⟨r.pend, r.seq, r.now, r.live, r.known, congrArg (List.cons (id, body)) r.bodies⟩ _
  | newIdle id body =>
    have hk : sp.known.contains id = decide (id ∈ m.known) := by rw [contains_eq, r.known]
    by_cases h : id ∈ m.known
    · have hc : sp.known.contains id = true := by rw [hk]; simp [h]
      simp only [userOp, SpSt.user, if_pos h, hc, if_true]; exact r
    · have hc : sp.known.contains id = false := by rw [hk]; simp [h]
      simp only [userOp, SpSt.user, if_neg h, hc, Bool.false_eq_true, if_false]
      exact ⟨r.pend, r.seq, r.now, by simp [r.live], by simp [r.known], by simp [r.bodies]⟩
  | call op => exact R_apply inv r op
  | clock ns =>
    simp only [userOp, SpSt.user, r.now]
    by_cases h : ns ≥ m.now
    · simp only [h, if_true]; exact ⟨r.pend, r.seq, rfl, r.live, r.known, r.bodies⟩
    · simp only [h, if_false]; exact r
  | step t => exact absurd rfl (hns t)

theorem R_pollSockets {m : St} {sp : SpSt} (clamp : Bool) (t : Int) (r : R m sp) :
    R (pollSockets clamp t m) { sp with now := (pollSockets clamp t m).now } := by
  have h : (pollSockets clamp t m).todos = m.todos ∧ (pollSockets clamp t m).nextSeq = m.nextSeq ∧
      (pollSockets clamp t m).live = m.live ∧ (pollSockets clamp t m).known = m.known ∧
      (pollSockets clamp t m).bodies = m.bodies := by
    unfold pollSockets
    generalize (if clamp = true then toMsec t else toMsecLegacy t) = ms
    simp only
    split
    · exact ⟨rfl, rfl, rfl, rfl, rfl⟩
    · split <;> exact ⟨rfl, rfl, rfl, rfl, rfl⟩
  exact ⟨by rw [h.1]; exact r.pend, by rw [h.2.1]; exact r.seq, rfl, by rw [h.2.2.1]; exact r.live,
    by rw [h.2.2.2.1]; exact r.known, by rw [h.2.2.2.2]; exact r.bodies⟩

theorem log_pollSockets' (clamp : Bool) (t : Int) (s : St) :
    ∃ ms, (pollSockets clamp t s).log = Event.poll ms :: s.log := by
  unfold pollSockets
  generalize (if clamp = true then toMsec t else toMsecLegacy t) = ms
  refine ⟨ms, ?_⟩
  simp only
  split
  · rfl
  · split <;> rfl

/-- **the reference scheduler that `./check C06` evaluates on the implementation accepts the model**:
for every history of construct / Shift / Cancel / drop / clock / Step operations with arbitrary task
bodies, every task invocation the model makes is (1) of a task that is scheduled, (2) not before its
due time, (3) the minimum of the pending bag by (due time, scheduling order). -/
theorem model_accepted (clamp : Bool) (fuel : Nat) (ops : List Op) :
    ∃ sp, replay clamp fuel {} {} ops = .ok sp := by
  suffices H : ∀ (m : St) (sp : SpSt), TInv m → R m sp → ∃ sp', replay clamp fuel m sp ops = .ok sp' from
    H {} {} inv_init ⟨List.Perm.refl _, rfl, rfl, rfl, rfl, rfl⟩
  induction ops with
  | nil => intro m sp _ _; exact ⟨sp, rfl⟩
  | cons op ops ih =>
    intro m sp inv r
    have inv' := inv_userOp clamp fuel inv op
    cases op with
    | step t =>
      simp only [replay]
      -- the step: either no ToDo pending (only a poll event) or the StepTodos loop followed by the poll
      have hstep : ∃ sp', replayRans sp (ransOf ((userOp clamp fuel m (.step t)).log.take
            ((userOp clamp fuel m (.step t)).log.length - m.log.length))) = .ok sp' ∧
          R (userOp clamp fuel m (.step t)) { sp' with now := (userOp clamp fuel m (.step t)).now } := by
        simp only [userOp, step]
        split
        · obtain ⟨ms, hms⟩ := log_pollSockets' clamp t m
          refine ⟨sp, ?_, R_pollSockets clamp t r⟩
          rw [hms]
          simp [ransOf, replayRans]
        · have hmake : (Deadline.make t m.now).now = m.now := by
            unfold Deadline.make; split
            · rfl
            · split <;> rfl
          obtain ⟨pre, sp1, hlog, hrep, r1⟩ := stepTodos_accepted fuel (Deadline.make t m.now) m sp inv r hmake
          obtain ⟨ms, hms⟩ := log_pollSockets' clamp (stepTodos fuel (Deadline.make t m.now) m).1
            (stepTodos fuel (Deadline.make t m.now) m).2
          refine ⟨sp1, ?_, R_pollSockets clamp _ r1⟩
          rw [hms, hlog]
          have : (Event.poll ms :: (pre ++ m.log)).take ((Event.poll ms :: (pre ++ m.log)).length - m.log.length)
              = Event.poll ms :: pre := by
            have hl : (Event.poll ms :: (pre ++ m.log)).length - m.log.length = (Event.poll ms :: pre).length := by
              simp only [List.length_cons, List.length_append]; omega
            rw [hl]
            have : Event.poll ms :: (pre ++ m.log) = (Event.poll ms :: pre) ++ m.log := rfl
            rw [this, List.take_left']
            rfl
          rw [this]
          have hr : ransOf (Event.poll ms :: pre) = ransOf pre := by
            simp [ransOf, List.filterMap_append]
          rw [hr]; exact hrep
      obtain ⟨sp', h1, r'⟩ := hstep
      rw [h1]
      exact ih _ _ inv' r'
    | new id w body => exact ih _ _ inv' (R_user clamp fuel inv r _ (by intro t h; cases h))
    | newIn id ms body => exact ih _ _ inv' (R_user clamp fuel inv r _ (by intro t h; cases h))
    | newIdle id body => exact ih _ _ inv' (R_user clamp fuel inv r _ (by intro t h; cases h))
    | call o => exact ih _ _ inv' (R_user clamp fuel inv r _ (by intro t h; cases h))
    | clock ns => exact ih _ _ inv' (R_user clamp fuel inv r _ (by intro t h; cases h))

end SockModel.ToDos.RefSched

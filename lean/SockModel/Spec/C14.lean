import SockModel.Model.FdLemmas
/-!
# Spec.C14 - the property as an executable predicate over typed observations, and the proof that
the model satisfies it for every history

`specStep` / `specRun` are what `./check C14` evaluates on the IMPLEMENTATION's transcript
(`Drive/C14.lean` only parses lines into `Obs` and calls these very functions).  They mention no model
state: only what was observed at the system-call boundary and at the API (calls with their answers,
closes, handler / future events, the outcome of every API call, the shim's ledger line) and the
observer's own book-keeping (`SpecSt.opened`: descriptors seen opened and not yet closed).

`model_satisfies_spec` shows that the model (`Model/Fd.lean`) can never be flagged by the predicate, for
every history of any length and every fault oracle - so a `spec` verdict on the implementation is a
genuine difference between implementation and model, the oracle is never stricter than the model, and
the clauses it checks are consequences of the model's definitions for all histories.
-/
namespace SockModel.Fd.Spec
open SockModel.Fd

/-! ## typed observations -/

def sysName : Sys → String
  | .socket => "socket" | .bind => "bind" | .listen => "listen" | .connect => "connect" | .accept => "accept"
  | .fcntl => "fcntl" | .setsockopt => "setsockopt" | .getsockopt => "getsockopt" | .getsockname => "getsockname"
  | .getpeername => "getpeername" | .send => "send" | .sendto => "sendto" | .recv => "recv" | .recvfrom => "recvfrom"
  | .poll => "poll" | .getaddrinfo => "getaddrinfo" | .getnameinfo => "getnameinfo"

/-- category of the exception seen at the API (`other`: anything else the harness printed) -/
inductive Cat where
  | system | address | logic | runtime | other (name : String)
  deriving DecidableEq, Repr

def Cat.name : Cat → String
  | .system => "system" | .address => "address" | .logic => "logic" | .runtime => "runtime" | .other n => n

/-- the category a failure of this call must be reported with -/
def catOf : Sys → Cat
  | .getaddrinfo | .getnameinfo => .address
  | _ => .system

/-- how the API call ended (`improper`: no / a malformed `outcome` line, kept for the message) -/
inductive Outcome where
  | ok
  | exn (cat : Cat) (code : Int)
  | improper (raw : List String)
  deriving DecidableEq, Repr

/-- as printed in the messages -/
def Outcome.words : Outcome → List String
  | .ok => ["ok"]
  | .exn c code => ["exn", c.name, toString code]
  | .improper raw => raw

def Outcome.isOk : Outcome → Bool
  | .ok => true
  | _ => false

def Outcome.isExn : Outcome → Bool
  | .exn .. => true
  | _ => false

inductive CallRes where
  | ok (newfd : Option Nat)
  | fail (code : Int)
  deriving DecidableEq, Repr

/-- one line of the shim's log: an intercepted call with its answer, a `close`, a ledger complaint -/
inductive Item where
  | call (c : Sys) (res : CallRes)
  | close (fd : Nat)
  | badclose (what : String)
  deriving DecidableEq, Repr

inductive EvKind where
  | receive | receiveFrom | connect | disconnect | futureValue | futureExn | futureBroken | other
  deriving DecidableEq, Repr

/-- a handler / future event; `text` is only quoted in messages -/
structure Ev where
  kind : EvKind
  text : String
  deriving DecidableEq, Repr

def Ev.isFailure (e : Ev) : Bool :=
  match e.kind with
  | .disconnect | .futureExn | .futureBroken => true
  | _ => false

def Ev.isReceive (e : Ev) : Bool :=
  match e.kind with
  | .receive | .receiveFrom => true
  | _ => false

def Ev.isDisconnect (e : Ev) : Bool := match e.kind with | .disconnect => true | _ => false
def Ev.isFutureExn (e : Ev) : Bool := match e.kind with | .futureExn => true | _ => false
def Ev.isDelivery (e : Ev) : Bool := match e.kind with | .receiveFrom | .connect => true | _ => false

inductive StepKind where
  | ctor | op | accept | consume | drive | other (name : String)
  deriving DecidableEq, Repr

def StepKind.name : StepKind → String
  | .ctor => "ctor" | .op => "op" | .accept => "accept" | .consume => "consume" | .drive => "drive" | .other n => n

def StepKind.isDrive : StepKind → Bool | .drive => true | _ => false
def StepKind.isConsume : StepKind → Bool | .consume => true | _ => false

/-- one faultable API call: what the shim logged while it ran, the events, how it ended -/
structure StepObs where
  kind : StepKind
  items : List Item := []
  evs : List Ev := []
  outcome : Outcome := .improper []
  deriving Repr

/-- the case: `scen` / `plan` are quoted in messages only; `discards` = the scenario's asynchronous socket is
a UDP socket or an acceptor, whose receive / accept failures inside `Step` the library drops on purpose -/
structure Ctx where
  scen : String := ""
  plan : List String := []
  discards : Bool := false

inductive Obs where
  /-- the harness child died (signal, sanitizer report, non-zero exit) -/
  | crash (what : String)
  /-- no `done` line -/
  | incomplete
  /-- start of a round: what the shim logged during the quiet set-up, the descriptors open afterwards -/
  | setup (items : List Item) (have_ : List Nat)
  | step (s : StepObs)
  /-- destruction of every object, then the shim's ledger line `(open, close errors)` -/
  | teardown (items : List Item) (ledger : Option (Nat × Nat))
  deriving Repr

/-! ## the predicate -/

def lbl (fd : Nat) : String := s!"fd{fd}"

/-- ledger book-keeping over the items of one phase: open set, descriptors opened / closed in this phase -/
structure Acc where
  opened : List Nat
  new : List Nat := []
  closed : List Nat := []

def applyItem (a : Acc) : Item → Except String Acc
  | .call _ (.ok (some nfd)) =>
    if a.opened.contains nfd then .error s!"descriptor {lbl nfd} opened twice"
    else .ok { opened := a.opened ++ [nfd], new := a.new ++ [nfd], closed := a.closed }
  | .call _ _ => .ok a
  | .close fd =>
    if a.opened.contains fd then .ok { opened := a.opened.erase fd, new := a.new, closed := a.closed ++ [fd] }
    else .error s!"close of {lbl fd}, which is not an open descriptor of the library (closed twice or foreign)"
  | .badclose what => .error s!"the shim's ledger reports: {what}"

def applyItems (a : Acc) : List Item → Except String Acc
  | [] => .ok a
  | it :: rest =>
    match applyItem a it with
    | .ok a' => applyItems a' rest
    | .error e => .error e

/-- the failing calls, in order -/
def failsOf : List Item → List (Sys × Int)
  | [] => []
  | .call c (.fail code) :: rest => (c, code) :: failsOf rest
  | _ :: rest => failsOf rest

/-- the exception carries the category and code of one of the failed calls -/
def matchesExn (fails : List (Sys × Int)) (out : Outcome) : Bool :=
  fails.any fun f => out == .exn (catOf f.1) f.2

def evTexts (evs : List Ev) : List String := evs.map (·.text)

/-- a call failed inside `Step`: the documented channel for it (result: the channel tag) -/
def driveClause (discards : Bool) (c : Sys) (fails : List (Sys × Int)) (s : StepObs) : Except String String :=
  if c == .poll || (c == .recvfrom && !discards) then
    if !matchesExn fails s.outcome then
      .error s!"{sysName c} failed inside Step but Step ended with {s.outcome.words}"
    else .ok "chan.exn"
  else if c == .recv then
    if !(s.outcome.isOk && s.evs.any Ev.isDisconnect) then
      .error s!"recv failed inside Step: expected the disconnect handler, saw {s.outcome.words} {evTexts s.evs}"
    else if s.evs.any Ev.isReceive then .error "receive handler called although recv failed"
    else .ok "chan.disconnect"
  else if c == .send || c == .sendto then
    if !(s.outcome.isOk && s.evs.any Ev.isFutureExn) then
      .error s!"{sysName c} failed inside Step: expected an exception in the send future, saw {s.outcome.words} {evTexts s.evs}"
    else .ok "chan.future"
  else if discards then
    -- deliberately discarded by the library (onError is a no-op for UDP sockets and acceptors)
    if !s.outcome.isOk then .error s!"{sysName c} failed inside Step (UDP/acceptor): Step ended with {s.outcome.words}"
    else if s.evs.any Ev.isDelivery then .error s!"handler invoked ({evTexts s.evs}) although {sysName c} failed"
    else .ok "chan.discard"
  else .error s!"unexpected failing call {sysName c} inside Step"

/-- a call failed inside a constructor / operation: an exception with the code of a failed call -/
def callClause (c : Sys) (fails : List (Sys × Int)) (s : StepObs) : Except String String :=
  if s.outcome.isOk then .error s!"{sysName c} failed but the call returned normally (bogus success)"
  else if !matchesExn fails s.outcome then
    .error s!"{sysName c} failed but the exception is {s.outcome.words}: not the code of a failed call"
  else .ok "chan.exn"

/-- "reported by an exception ... or, inside the driver, through the disconnect handler, the send future, or
an exception out of Step - never by ... a bogus success"; and no failure out of thin air (result: tags) -/
def reportClause (discards : Bool) (s : StepObs) : Except String (List String) :=
  match failsOf s.items with
  | [] =>
    -- no OS failure: the call must simply work ("the library remains usable", no bogus failure)
    if !s.outcome.isOk then .error s!"call failed ({s.outcome.words}) although no system call failed"
    else if s.evs.any Ev.isFailure then .error s!"failure event {evTexts s.evs} although no system call failed"
    else .ok []
  | (c, _) :: _ =>
    match (if s.kind.isDrive then driveClause discards c (failsOf s.items) s else callClause c (failsOf s.items) s) with
    | .error e => .error e
    | .ok chan => .ok [chan, s!"fault.{sysName c}"]

/-- "every descriptor the library opened has been closed exactly once (none leaked ... none that it does not
own)": `a` = the book-keeping after the items of the step -/
def ownClause (s : StepObs) (a : Acc) : Except String Unit :=
  let delivered := s.outcome.isOk && (failsOf s.items).isEmpty
  -- nothing is handed to the caller: everything opened by this call must be closed again by now
  match (if delivered then none else a.new.find? (fun fd => a.opened.contains fd)) with
  | some fd => .error s!"descriptor {lbl fd} opened by the failing call is still open when it returns ({s.outcome.words}): leak"
  | none =>
    match a.closed.find? (fun fd => !a.new.contains fd) with
    | some fd =>
      if s.kind.isConsume && s.outcome.isExn then .ok ()
      else .error s!"descriptor {lbl fd}, owned by a live object, was closed by a {s.kind.name} call ending in {s.outcome.words}"
    | none => .ok ()

structure SpecSt where
  /-- descriptors seen opened (or listed by `have`) and not yet closed -/
  opened : List Nat := []
  /-- evidence only: channels / failing calls met, newest first -/
  tags : List String := []

def specStepObs (discards : Bool) (st : SpecSt) (s : StepObs) : Except String SpecSt :=
  match applyItems { opened := st.opened } s.items with
  | .error e => .error e
  | .ok a =>
    match s.outcome with
    | .improper raw => .error s!"step without a proper outcome ({raw})"
    | _ =>
      match reportClause discards s with
      | .error e => .error e
      | .ok tags =>
        match ownClause s a with
        | .error e => .error e
        | .ok () => .ok { opened := a.opened, tags := tags ++ st.tags }

def specSetup (st : SpecSt) (items : List Item) (have_ : List Nat) : Except String SpecSt :=
  match applyItems { opened := [] } items with
  | .error e => .error e
  | .ok a =>
    -- descriptors opened quietly during setup
    .ok { opened := a.opened ++ have_.filter (fun f => !a.opened.contains f), tags := st.tags }

def specTeardown (st : SpecSt) (items : List Item) (ledger : Option (Nat × Nat)) : Except String SpecSt :=
  match applyItems { opened := st.opened } items with
  | .error e => .error e
  | .ok a =>
    if !a.opened.isEmpty then .error s!"descriptors {a.opened.map lbl} still open after every object was destroyed: leak"
    else match ledger with
      | some (0, 0) => .ok { opened := a.opened, tags := st.tags }
      | some (n, e) => .error s!"shim ledger after teardown: {n} descriptors open, {e} close errors"
      | none => .error "round without ledger line"

def specStep (ctx : Ctx) (st : SpecSt) : Obs → Except String SpecSt
  | .crash w => .error s!"crash while running {ctx.scen} with faults {ctx.plan}: {w}"
  | .incomplete => .error s!"scenario {ctx.scen} did not run to completion (faults {ctx.plan})"
  | .setup items have_ => (specSetup st items have_).mapError fun msg => s!"{ctx.scen} faults {ctx.plan}: {msg}"
  | .step s => (specStepObs ctx.discards st s).mapError fun msg => s!"{ctx.scen} faults {ctx.plan}: {msg}"
  | .teardown items ledger => (specTeardown st items ledger).mapError fun msg => s!"{ctx.scen} faults {ctx.plan}: {msg}"

def specRun (ctx : Ctx) (st : SpecSt) : List Obs → Except String SpecSt
  | [] => .ok st
  | o :: os =>
    match specStep ctx st o with
    | .ok st' => specRun ctx st' os
    | .error e => .error e

end SockModel.Fd.Spec

import SockModel.Model.FdLogLemmas
/-!
# Spec.C14 - the property as an executable predicate over typed observations, and the proof that
the model satisfies it for every history

`specStep` / `specRun` are what `./check C14` evaluates on the IMPLEMENTATION's transcript
(`Drive/C14.lean` only parses lines into `Obs` and calls these very functions).  They mention no model
state: only what was observed at the system-call boundary and at the API (calls with their answers,
closes, handler / future events, the outcome of every API call, the shim's ledger line) and the
observer's own book-keeping (`SpecSt.opened`: descriptors seen opened and not yet closed).

`model_satisfies_spec` shows that the model (`Model/Fd.lean`) can never be flagged by the predicate, for
every history of any length and every fault oracle - so a `spec` verdict on the implementation is a
genuine difference between implementation and model, the oracle is never stricter than the model, and
the clauses it checks are consequences of the model's definitions for all histories.
-/
namespace SockModel.Fd.Spec
open SockModel.Fd

/-! ## typed observations -/

def sysName : Sys → String
  | .socket => "socket" | .bind => "bind" | .listen => "listen" | .connect => "connect" | .accept => "accept"
  | .fcntl => "fcntl" | .setsockopt => "setsockopt" | .getsockopt => "getsockopt" | .getsockname => "getsockname"
  | .getpeername => "getpeername" | .send => "send" | .sendto => "sendto" | .recv => "recv" | .recvfrom => "recvfrom"
  | .poll => "poll" | .getaddrinfo => "getaddrinfo" | .getnameinfo => "getnameinfo"

/-- category of the exception seen at the API (`other`: anything else the harness printed) -/
inductive Cat where
  | system | address | logic | runtime | other (name : String)
  deriving DecidableEq, Repr

def Cat.name : Cat → String
  | .system => "system" | .address => "address" | .logic => "logic" | .runtime => "runtime" | .other n => n

/-- the category a failure of this call must be reported with -/
def catOf : Sys → Cat
  | .getaddrinfo | .getnameinfo => .address
  | _ => .system

/-- how the API call ended (`improper`: no / a malformed `outcome` line, kept for the message) -/
inductive Outcome where
  | ok
  | exn (cat : Cat) (code : Int)
  | improper (raw : List String)
  deriving DecidableEq, Repr

/-- as printed in the messages -/
def Outcome.words : Outcome → List String
  | .ok => ["ok"]
  | .exn c code => ["exn", c.name, toString code]
  | .improper raw => raw

def Outcome.improper? : Outcome → Option (List String)
  | .improper raw => some raw
  | _ => none

def Outcome.isOk : Outcome → Bool
  | .ok => true
  | _ => false

def Outcome.isExn : Outcome → Bool
  | .exn .. => true
  | _ => false

inductive CallRes where
  | ok (newfd : Option Nat)
  | fail (code : Int)
  deriving DecidableEq, Repr

/-- one line of the shim's log: an intercepted call with its answer, a `close`, a ledger complaint -/
inductive Item where
  | call (c : Sys) (res : CallRes)
  | close (fd : Nat)
  | badclose (what : String)
  deriving DecidableEq, Repr

inductive EvKind where
  | receive | receiveFrom | connect | disconnect | futureValue | futureExn | futureBroken | other
  deriving DecidableEq, Repr

/-- a handler / future event; `text` is only quoted in messages -/
structure Ev where
  kind : EvKind
  text : String
  deriving DecidableEq, Repr

def Ev.isFailure (e : Ev) : Bool :=
  match e.kind with
  | .disconnect | .futureExn | .futureBroken => true
  | _ => false

def Ev.isReceive (e : Ev) : Bool :=
  match e.kind with
  | .receive | .receiveFrom => true
  | _ => false

def Ev.isDisconnect (e : Ev) : Bool := match e.kind with | .disconnect => true | _ => false
def Ev.isFutureExn (e : Ev) : Bool := match e.kind with | .futureExn => true | _ => false
def Ev.isDelivery (e : Ev) : Bool := match e.kind with | .receiveFrom | .connect => true | _ => false

inductive StepKind where
  | ctor | op | accept | consume | drive | other (name : String)
  deriving DecidableEq, Repr

def StepKind.name : StepKind → String
  | .ctor => "ctor" | .op => "op" | .accept => "accept" | .consume => "consume" | .drive => "drive" | .other n => n

def StepKind.isDrive : StepKind → Bool | .drive => true | _ => false
def StepKind.isConsume : StepKind → Bool | .consume => true | _ => false

/-- one faultable API call: what the shim logged while it ran, the events, how it ended -/
structure StepObs where
  kind : StepKind
  items : List Item := []
  evs : List Ev := []
  outcome : Outcome := .improper []
  deriving Repr, DecidableEq

/-- the case: `scen` / `plan` are quoted in messages only; `discards` = the scenario's asynchronous socket is
a UDP socket or an acceptor, whose receive / accept failures inside `Step` the library drops on purpose -/
structure Ctx where
  scen : String := ""
  plan : List String := []
  discards : Bool := false

inductive Obs where
  /-- the harness child died (signal, sanitizer report, non-zero exit) -/
  | crash (what : String)
  /-- no `done` line -/
  | incomplete
  /-- start of a round: what the shim logged during the quiet set-up, the descriptors open afterwards -/
  | setup (items : List Item) (have_ : List Nat)
  | step (s : StepObs)
  /-- destruction of every object, then the shim's ledger line `(open, close errors)` -/
  | teardown (items : List Item) (ledger : Option (Nat × Nat))
  deriving Repr, DecidableEq

/-! ## the predicate -/

def lbl (fd : Nat) : String := s!"fd{fd}"

/-- ledger book-keeping over the items of one phase: open set, descriptors opened / closed in this phase -/
structure Acc where
  opened : List Nat
  new : List Nat := []
  closed : List Nat := []

def applyItem (a : Acc) : Item → Except String Acc
  | .call _ (.ok (some nfd)) =>
    if a.opened.contains nfd then .error s!"descriptor {lbl nfd} opened twice"
    else .ok { opened := a.opened ++ [nfd], new := a.new ++ [nfd], closed := a.closed }
  | .call _ _ => .ok a
  | .close fd =>
    if a.opened.contains fd then .ok { opened := a.opened.erase fd, new := a.new, closed := a.closed ++ [fd] }
    else .error s!"close of {lbl fd}, which is not an open descriptor of the library (closed twice or foreign)"
  | .badclose what => .error s!"the shim's ledger reports: {what}"

def applyItems (a : Acc) : List Item → Except String Acc
  | [] => .ok a
  | it :: rest =>
    match applyItem a it with
    | .ok a' => applyItems a' rest
    | .error e => .error e

def Item.fail? : Item → Option (Sys × Int)
  | .call c (.fail code) => some (c, code)
  | _ => none

/-- the failing calls, in order -/
def failsOf (items : List Item) : List (Sys × Int) := items.filterMap Item.fail?

/-- the exception carries the category and code of one of the failed calls -/
def matchesExn (fails : List (Sys × Int)) (out : Outcome) : Bool :=
  fails.any fun f => out == .exn (catOf f.1) f.2

def evTexts (evs : List Ev) : List String := evs.map (·.text)

/-- a call failed inside `Step`: the documented channel for it (result: the channel tag) -/
def driveClause (discards : Bool) (c : Sys) (fails : List (Sys × Int)) (s : StepObs) : Except String String :=
  if c == .poll || (c == .recvfrom && !discards) then
    if !matchesExn fails s.outcome then
      .error s!"{sysName c} failed inside Step but Step ended with {s.outcome.words}"
    else .ok "chan.exn"
  else if c == .recv then
    if !(s.outcome.isOk && s.evs.any Ev.isDisconnect) then
      .error s!"recv failed inside Step: expected the disconnect handler, saw {s.outcome.words} {evTexts s.evs}"
    else if s.evs.any Ev.isReceive then .error "receive handler called although recv failed"
    else .ok "chan.disconnect"
  else if c == .send || c == .sendto then
    if !(s.outcome.isOk && s.evs.any Ev.isFutureExn) then
      .error s!"{sysName c} failed inside Step: expected an exception in the send future, saw {s.outcome.words} {evTexts s.evs}"
    else .ok "chan.future"
  else if discards then
    -- deliberately discarded by the library (onError is a no-op for UDP sockets and acceptors)
    if !s.outcome.isOk then .error s!"{sysName c} failed inside Step (UDP/acceptor): Step ended with {s.outcome.words}"
    else if s.evs.any Ev.isDelivery then .error s!"handler invoked ({evTexts s.evs}) although {sysName c} failed"
    else .ok "chan.discard"
  else .error s!"unexpected failing call {sysName c} inside Step"

/-- a call failed inside a constructor / operation: an exception with the code of a failed call -/
def callClause (c : Sys) (fails : List (Sys × Int)) (s : StepObs) : Except String String :=
  if s.outcome.isOk then .error s!"{sysName c} failed but the call returned normally (bogus success)"
  else if !matchesExn fails s.outcome then
    .error s!"{sysName c} failed but the exception is {s.outcome.words}: not the code of a failed call"
  else .ok "chan.exn"

/-- "reported by an exception ... or, inside the driver, through the disconnect handler, the send future, or
an exception out of Step - never by ... a bogus success"; and no failure out of thin air (result: tags) -/
def reportClause (discards : Bool) (s : StepObs) : Except String (List String) :=
  match failsOf s.items with
  | [] =>
    -- no OS failure: the call must simply work ("the library remains usable", no bogus failure)
    if !s.outcome.isOk then .error s!"call failed ({s.outcome.words}) although no system call failed"
    else if s.evs.any Ev.isFailure then .error s!"failure event {evTexts s.evs} although no system call failed"
    else .ok []
  | (c, _) :: _ =>
    match (if s.kind.isDrive then driveClause discards c (failsOf s.items) s else callClause c (failsOf s.items) s) with
    | .error e => .error e
    | .ok chan => .ok [chan, s!"fault.{sysName c}"]

/-- a descriptor opened by a call that hands nothing to its caller and still open when it returns -/
def leakFd (s : StepObs) (a : Acc) : Option Nat :=
  if s.outcome.isOk && (failsOf s.items).isEmpty then none   -- delivered
  else a.new.find? (fun fd => a.opened.contains fd)

/-- a descriptor closed by the call although the call had not opened it -/
def strayFd (a : Acc) : Option Nat := a.closed.find? (fun fd => !a.new.contains fd)

/-- "every descriptor the library opened has been closed exactly once (none leaked ... none that it does not
own)": `a` = the book-keeping after the items of the step -/
def ownClause (s : StepObs) (a : Acc) : Except String Unit :=
  -- nothing is handed to the caller: everything opened by this call must be closed again by now
  match leakFd s a with
  | some fd => .error s!"descriptor {lbl fd} opened by the failing call is still open when it returns ({s.outcome.words}): leak"
  | none =>
    match strayFd a with
    | some fd =>
      if s.kind.isConsume && s.outcome.isExn then .ok ()
      else .error s!"descriptor {lbl fd}, owned by a live object, was closed by a {s.kind.name} call ending in {s.outcome.words}"
    | none => .ok ()

structure SpecSt where
  /-- descriptors seen opened (or listed by `have`) and not yet closed -/
  opened : List Nat := []
  /-- evidence only: channels / failing calls met, newest first -/
  tags : List String := []

def specStepObs (discards : Bool) (st : SpecSt) (s : StepObs) : Except String SpecSt :=
  match applyItems { opened := st.opened } s.items with
  | .error e => .error e
  | .ok a =>
    match s.outcome.improper? with
    | some raw => .error s!"step without a proper outcome ({raw})"
    | none =>
      match reportClause discards s with
      | .error e => .error e
      | .ok tags =>
        match ownClause s a with
        | .error e => .error e
        | .ok () => .ok { opened := a.opened, tags := tags ++ st.tags }

def specSetup (st : SpecSt) (items : List Item) (have_ : List Nat) : Except String SpecSt :=
  match applyItems { opened := [] } items with
  | .error e => .error e
  | .ok a =>
    -- descriptors opened quietly during setup
    .ok { opened := a.opened ++ have_.filter (fun f => !a.opened.contains f), tags := st.tags }

def specTeardown (st : SpecSt) (items : List Item) (ledger : Option (Nat × Nat)) : Except String SpecSt :=
  match applyItems { opened := st.opened } items with
  | .error e => .error e
  | .ok a =>
    if !a.opened.isEmpty then .error s!"descriptors {a.opened.map lbl} still open after every object was destroyed: leak"
    else match ledger with
      | some (0, 0) => .ok { opened := a.opened, tags := st.tags }
      | some (n, e) => .error s!"shim ledger after teardown: {n} descriptors open, {e} close errors"
      | none => .error "round without ledger line"

def specStep (ctx : Ctx) (st : SpecSt) : Obs → Except String SpecSt
  | .crash w => .error s!"crash while running {ctx.scen} with faults {ctx.plan}: {w}"
  | .incomplete => .error s!"scenario {ctx.scen} did not run to completion (faults {ctx.plan})"
  | .setup items have_ => (specSetup st items have_).mapError fun msg => s!"{ctx.scen} faults {ctx.plan}: {msg}"
  | .step s => (specStepObs ctx.discards st s).mapError fun msg => s!"{ctx.scen} faults {ctx.plan}: {msg}"
  | .teardown items ledger => (specTeardown st items ledger).mapError fun msg => s!"{ctx.scen} faults {ctx.plan}: {msg}"

def specRun (ctx : Ctx) (st : SpecSt) : List Obs → Except String SpecSt
  | [] => .ok st
  | o :: os =>
    match specStep ctx st o with
    | .ok st' => specRun ctx st' os
    | .error e => .error e

/-! ## the observations of the MODEL -/

/-- the segment of the log added between two ledgers, in time order -/
def newLog (L L' : Ledger) : List LogItem := (L'.log.take (L'.log.length - L.log.length)).reverse

/-- a log entry of the model as the shim would have printed it -/
def toItem : LogItem → Item
  | .call c _ _ (some n) => .call c (.ok (some n))
  | .call c _ (some e) none => .call c (.fail e)
  | .call c _ none none => .call c (.ok none)
  | .close fd => .close fd

def exnOutcome : Exn → Outcome
  | .system e => .exn .system e
  | .address e => .exn .address e
  | .logic => .exn .logic 0
  | .runtime => .exn .runtime 0

/-- handler / future events as the harness prints them; a discarded failure is invisible -/
def toEv : Fd.Ev → Option Ev
  | .receive _ => some ⟨.receive, "receive"⟩
  | .receiveFrom _ => some ⟨.receiveFrom, "receivefrom"⟩
  | .connect .. => some ⟨.connect, "connect"⟩
  | .disconnect _ => some ⟨.disconnect, "disconnect"⟩
  | .futureValue _ => some ⟨.futureValue, "future value"⟩
  | .futureExn _ => some ⟨.futureExn, "future exn"⟩
  | .discarded _ => none

/-- one faultable API call of a round -/
inductive Op where
  /-- a constructor / operation of the scenario set; the caller owns the descriptors of its result -/
  | prog (p : Prog)
  /-- a constructor taking over the descriptor `fd` of an rvalue socket the caller holds -/
  | consume (c : Consumer) (fd : Fd)
  /-- `Driver::Step(0)` on an arbitrary driver state -/
  | drive (d : DSt)

/-- quiet set-up (constructors run without faults), the steps; the teardown destroys everything held -/
structure Round where
  setup : List Prog := []
  steps : List Op := []

def progKind : Prog → StepKind
  | .addrCtor | .udpCtor | .tcpCtor | .acceptorCtor | .driverCtor => .ctor
  | .acceptorListen true _ => .accept
  | _ => .op

/-- the model side: the ledger and the descriptors the caller holds through the objects it was given -/
structure MSt where
  L : Ledger
  held : List Fd := []

def stepOf (kind : StepKind) (L L' : Ledger) (evs : List Fd.Ev) (out : Outcome) : Obs :=
  .step { kind := kind, items := (newLog L L').map toItem, evs := evs.filterMap toEv, outcome := out }

/-- one API call on the model and what an observer sees of it -/
def mStep (o : Oracle) (st : MSt) : Op → MSt × List Obs
  | .prog p =>
    match p.run o st.L with
    | (.ok a, L') => ({ L := L', held := st.held ++ a }, [stepOf (progKind p) st.L L' [] .ok])
    | (.error e, L') => ({ L := L', held := st.held }, [stepOf (progKind p) st.L L' [] (exnOutcome e)])
  | .consume c fd =>
    if fd ∈ st.held then
      match c.run fd o st.L with
      | (.ok a, L') => ({ L := L', held := st.held.erase fd ++ a }, [stepOf .consume st.L L' [] .ok])
      | (.error e, L') => ({ L := L', held := st.held.erase fd }, [stepOf .consume st.L L' [] (exnOutcome e)])
    else (st, [])     -- not performed: the caller has no such socket to hand over
  | .drive d =>
    match driverStep d o st.L with
    | (.ok out, L') => ({ L := L', held := st.held ++ out.fds }, [stepOf .drive st.L L' out.evs .ok])
    | (.error e, L') => ({ L := L', held := st.held }, [stepOf .drive st.L L' [] (exnOutcome e)])

def mSteps (o : Oracle) (st : MSt) : List Op → MSt × List Obs
  | [] => (st, [])
  | op :: ops => ((mSteps o (mStep o st op).1 ops).1, (mStep o st op).2 ++ (mSteps o (mStep o st op).1 ops).2)

def mSetup (o : Oracle) (st : MSt) : List Prog → MSt
  | [] => st
  | p :: ps =>
    match quiet p.run o st.L with
    | (.ok a, L') => mSetup o { L := L', held := st.held ++ a } ps
    | (.error _, L') => mSetup o { L := L', held := st.held } ps

def ledgerLine (L : Ledger) : Nat × Nat :=
  (L.live.length, (if L.closedTwice then 1 else 0) + (if L.closedForeign then 1 else 0))

/-- one round: set-up, `have` = the descriptors open afterwards, the steps, destruction of everything held,
the ledger line -/
def mRound (o : Oracle) (L : Ledger) (r : Round) : Ledger × List Obs :=
  let st1 := mSetup o { L := L } r.setup
  let st2 := mSteps o st1 r.steps
  let Ltd := (destroy st2.1.held o st2.1.L).2
  (Ltd, [Obs.setup ((newLog L st1.L).map toItem) st1.L.live] ++ st2.2 ++
        [Obs.teardown ((newLog st2.1.L Ltd).map toItem) (some (ledgerLine Ltd))])

/-- the observations the model produces for a history (a list of rounds) under the fault oracle `o` -/
def modelTrace (o : Oracle) (L : Ledger) : List Round → List Obs
  | [] => []
  | r :: rs => (mRound o L r).2 ++ modelTrace o (mRound o L r).1 rs

/-- what the scenario class promises about the histories (see `Ctx.discards`): in a scenario whose
asynchronous socket is a UDP socket / acceptor the driver is never `Stop`ped; in every other scenario no UDP
socket or acceptor attached to the driver is readable -/
def Op.ok (discards : Bool) : Op → Bool
  | .prog p => p.sane
  | .consume _ _ => true
  | .drive d => if discards then d.bumps == 0 else d.socks.all fun s => s.kind == .tcp || s.rx == 0

def Round.ok (discards : Bool) (r : Round) : Bool := r.setup.all Prog.sane && r.steps.all (Op.ok discards)

/-! ## the model satisfies the predicate -/

set_option linter.unusedSimpArgs false

theorem newLog_of_ext {L L' : Ledger} {seg : List LogItem} (h : L'.log = seg.reverse ++ L.log) :
    newLog L L' = seg := by
  unfold newLog
  rw [h]
  have hl : (seg.reverse ++ L.log).length - L.log.length = seg.reverse.length := by simp
  rw [hl, List.take_left' rfl, List.reverse_reverse]

theorem fail?_toItem (it : LogItem) : (toItem it).fail? = it.fail? := by
  cases it with
  | close fd => rfl
  | call c a f nf => cases nf <;> cases f <;> rfl

theorem failsOf_toItem (seg : List LogItem) : failsOf (seg.map toItem) = Fd.failsOf seg := by
  induction seg with
  | nil => rfl
  | cons it rest ih =>
    show List.filterMap Item.fail? (toItem it :: rest.map toItem) = List.filterMap LogItem.fail? (it :: rest)
    rw [List.filterMap_cons, List.filterMap_cons, fail?_toItem]
    have ih' : List.filterMap Item.fail? (rest.map toItem) = List.filterMap LogItem.fail? rest := ih
    rw [ih']

theorem opensOf_cons_close (g : Fd) (rest : List LogItem) : opensOf (.close g :: rest) = opensOf rest := rfl
theorem closesOf_cons_close (g : Fd) (rest : List LogItem) : closesOf (.close g :: rest) = g :: closesOf rest := rfl
theorem opensOf_cons_call (c : Sys) (a : Option Fd) (f : Option Errno) (rest : List LogItem) :
    opensOf (.call c a f none :: rest) = opensOf rest := rfl
theorem opensOf_cons_open (c : Sys) (a : Option Fd) (f : Option Errno) (k : Fd) (rest : List LogItem) :
    opensOf (.call c a f (some k) :: rest) = k :: opensOf rest := rfl
theorem closesOf_cons_call (c : Sys) (a : Option Fd) (f : Option Errno) (nf : Option Fd) (rest : List LogItem) :
    closesOf (.call c a f nf :: rest) = closesOf rest := rfl

/-- the observer's ledger book-keeping over the model's log is the replay of the log -/
theorem applyItems_replay {seg : List LogItem} : ∀ {l : List Fd} {n : Nat} {l' : List Fd} {n' : Nat} (an ac : List Nat),
    replay (l, n) seg = some (l', n') → (∀ x ∈ l, x < n) →
    applyItems { opened := l, new := an, closed := ac } (seg.map toItem) =
      .ok { opened := l', new := an ++ opensOf seg, closed := ac ++ closesOf seg } := by
  induction seg with
  | nil =>
    intro l n l' n' an ac h _
    simp only [replay] at h
    cases h
    simp [applyItems, opensOf, closesOf]
  | cons it rest ih =>
    intro l n l' n' an ac h hbelow
    cases it with
    | close g =>
      rw [replay_cons_close] at h
      split at h
      · rename_i hg
        have := ih an (ac ++ [g]) h (fun x hx => hbelow x (List.mem_of_mem_erase hx))
        simp only [List.map_cons, applyItems, toItem, applyItem]
        rw [if_pos (by simpa using hg)]
        simp only
        rw [this]
        simp [opensOf_cons_close, closesOf_cons_close, opensOf_cons_call, opensOf_cons_open, closesOf_cons_call]
      · cases h
    | call c a f nf =>
      cases nf with
      | none =>
        rw [replay_cons_call] at h
        have := ih an ac h hbelow
        cases f with
        | none =>
          simp only [List.map_cons, applyItems, toItem, applyItem]
          rw [this]
          simp [opensOf_cons_close, closesOf_cons_close, opensOf_cons_call, opensOf_cons_open, closesOf_cons_call]
        | some e =>
          simp only [List.map_cons, applyItems, toItem, applyItem]
          rw [this]
          simp [opensOf_cons_close, closesOf_cons_close, opensOf_cons_call, opensOf_cons_open, closesOf_cons_call]
      | some k =>
        rw [replay_cons_open] at h
        split at h
        · rename_i hk
          subst hk
          have hb' : ∀ x ∈ l ++ [k], x < k + 1 := by
            intro x hx
            rcases List.mem_append.mp hx with hx | hx
            · exact Nat.lt_succ_of_lt (hbelow x hx)
            · simp only [List.mem_singleton] at hx
              rw [hx]; exact Nat.lt_succ_self _
          have := ih (an ++ [k]) ac h hb'
          have hnot : ¬ (l.contains k = true) := by
            intro hc
            exact Nat.lt_irrefl _ (hbelow k (by simpa using hc))
          simp only [List.map_cons, applyItems, toItem, applyItem]
          rw [if_neg hnot]
          simp only
          rw [this]
          simp [opensOf_cons_close, closesOf_cons_close, opensOf_cons_call, opensOf_cons_open, closesOf_cons_call]
        · cases h

theorem specRun_append (ctx : Ctx) (st : SpecSt) (a b : List Obs) :
    specRun ctx st (a ++ b) = match specRun ctx st a with | .ok st' => specRun ctx st' b | .error e => .error e := by
  induction a generalizing st with
  | nil => rfl
  | cons o os ih =>
    simp only [List.cons_append, specRun]
    cases specStep ctx st o with
    | ok st' => exact ih st'
    | error e => rfl

/-- the ownership clause on a segment of the model's log that replays -/
theorem own_ok {L L' : Ledger} {seg : List LogItem} (hL : WF L)
    (hrep : replay (L.live, L.next) seg = some (L'.live, L'.next)) (s : StepObs)
    (hleak : (s.outcome.isOk && (failsOf s.items).isEmpty) = true ∨ ∀ x ∈ L'.live, x ∈ L.live)
    (hkeep : (∀ x ∈ L.live, x ∈ L'.live) ∨ (s.kind.isConsume && s.outcome.isExn) = true) :
    ownClause s { opened := L'.live, new := opensOf seg, closed := closesOf seg } = .ok () := by
  have h1 : leakFd s { opened := L'.live, new := opensOf seg, closed := closesOf seg } = none := by
    unfold leakFd
    rcases hleak with h | h
    · rw [if_pos h]
    · split
      · rfl
      · simp only
        rw [List.find?_eq_none]
        intro fd hfd hc
        have hge := (replay_opens_ge hrep).2 fd hfd
        have hlt := hL.below fd (h fd (by simpa using hc))
        exact Nat.lt_irrefl _ (Nat.lt_of_lt_of_le hlt hge)
  unfold ownClause
  rw [h1]
  simp only
  rcases hkeep with h | h
  · have h2 : strayFd { opened := L'.live, new := opensOf seg, closed := closesOf seg } = none := by
      unfold strayFd
      simp only
      rw [List.find?_eq_none]
      intro fd hfd hc
      have hno : fd ∉ opensOf seg := by simpa using hc
      have := replay_closed hrep hL.nodup hL.below hfd hno
      exact this.2 (h fd this.1)
    rw [h2]
  · cases strayFd { opened := L'.live, new := opensOf seg, closed := closesOf seg } with
    | none => rfl
    | some fd => simp only; rw [if_pos h]

theorem exnOutcome_exnFor (c : Sys) (code : Errno) : exnOutcome (exnFor c code) = .exn (catOf c) code := by
  cases c <;> rfl

theorem exnOutcome_isOk (e : Exn) : (exnOutcome e).isOk = false := by cases e <;> rfl
theorem exnOutcome_isExn (e : Exn) : (exnOutcome e).isExn = true := by cases e <;> rfl

theorem exnOutcome_proper (e : Exn) : (exnOutcome e).improper? = none := by cases e <;> rfl

/-- the reporting clause on a constructor / operation of the model -/
theorem report_call_ok {α : Type} (discards : Bool) (s : StepObs) (seg : List LogItem) (r : Except Exn α)
    (hitems : s.items = seg.map toItem) (hk : s.kind.isDrive = false) (hevs : s.evs = [])
    (hout : s.outcome = match r with | .ok _ => Outcome.ok | .error e => exnOutcome e) (hg : Good r seg) :
    ∃ tags, reportClause discards s = .ok tags := by
  unfold reportClause
  rw [hitems, failsOf_toItem]
  cases r with
  | ok a =>
    simp only at hout
    rw [hg.1]
    simp [hout, Outcome.isOk, hevs]
  | error e =>
    simp only at hout
    obtain ⟨p, hp, hpe⟩ := hg
    cases hfs : Fd.failsOf seg with
    | nil => rw [hfs] at hp; cases hp
    | cons q rest =>
      obtain ⟨c, code⟩ := q
      simp only [hk]
      have hm : matchesExn ((c, code) :: rest) s.outcome = true := by
        unfold matchesExn
        rw [List.any_eq_true]
        rw [hfs] at hp
        refine ⟨p, hp, ?_⟩
        rw [hout, ← hpe, exnOutcome_exnFor]
        simp
      have hiok : s.outcome.isOk = false := by rw [hout]; exact exnOutcome_isOk e
      simp [callClause, hiok, hm]

theorem toEv_noFailure {ev : Fd.Ev} (h : ev.reportsFailure = false) : ∀ e', toEv ev = some e' → e'.isFailure = false := by
  intro e' he
  cases ev <;> simp [toEv, Fd.Ev.reportsFailure] at he h <;> subst he <;> rfl

/-- the reporting clause on a `Step` of the model -/
theorem report_drive_ok (discards : Bool) (d : DSt) (hd : Op.ok discards (.drive d) = true)
    (s : StepObs) (seg : List LogItem) (r : Except Exn StepOut)
    (hitems : s.items = seg.map toItem) (hk : s.kind = .drive)
    (hevs : s.evs = (match r with | .ok out => out.evs | .error _ => []).filterMap toEv)
    (hout : s.outcome = match r with | .ok _ => Outcome.ok | .error e => exnOutcome e) (hq : DriveQ d r seg) :
    ∃ tags, reportClause discards s = .ok tags := by
  unfold reportClause
  rw [hitems, failsOf_toItem]
  simp only [Op.ok] at hd
  cases r with
  | error e =>
    simp only at hout hevs
    obtain ⟨c, code, hf, he, hc⟩ := hq
    subst he
    rw [hf]
    simp only [hk, StepKind.isDrive]
    have hm : matchesExn [(c, code)] s.outcome = true := by
      rcases hc with rfl | ⟨rfl, _⟩ <;> simp [matchesExn, hout, exnOutcome, catOf]
    have hcond : (c == Sys.poll || (c == Sys.recvfrom && !discards)) = true := by
      rcases hc with rfl | ⟨rfl, hb⟩
      · rfl
      · cases discards with
        | false => rfl
        | true => simp at hd; omega
    simp [driveClause, hcond, hm]
  | ok out =>
    simp only at hout hevs
    rcases hq with ⟨hf, hev⟩ | ⟨hfds, c, code, rest, fd, hf, hc⟩
    · rw [hf]
      have : s.evs.any Ev.isFailure = false := by
        rw [hevs, List.any_eq_false]
        intro e' he'
        rw [List.mem_filterMap] at he'
        obtain ⟨ev, hev1, hev2⟩ := he'
        simp [toEv_noFailure (hev ev hev1) e' hev2]
      simp [hout, Outcome.isOk, this]
    · rw [hf]
      simp only [hk, StepKind.isDrive]
      rcases hc with ⟨rfl, hevo⟩ | ⟨hsend, hevo⟩ | ⟨hdisc, hevo, hb, s0, hs0, hkind, hrx⟩
      · rw [hevo] at hevs
        simp [driveClause, hout, Outcome.isOk, hevs, toEv, Ev.isDisconnect, Ev.isReceive]
      · rw [hevo] at hevs
        rcases hsend with rfl | rfl <;>
          simp [driveClause, hout, Outcome.isOk, hevs, toEv, Ev.isFutureExn]
      · rw [hevo] at hevs
        have hdt : discards = true := by
          cases discards with
          | true => rfl
          | false =>
            exfalso
            simp only [Bool.false_eq_true, if_false, List.all_eq_true] at hd
            have := hd s0 hs0
            simp at this
            rcases this with h | h
            · exact hkind h
            · omega
        subst hdt
        rcases hdisc with rfl | rfl | rfl | rfl <;>
          simp [driveClause, hout, Outcome.isOk, hevs, toEv, Ev.isDelivery]

/-- what relates the observer's book-keeping to the model state -/
structure Rel (st : MSt) (sp : SpecSt) : Prop where
  wf : WF st.L
  opened : sp.opened = st.L.live
  nodup : st.held.Nodup
  held : ∀ fd, fd ∈ st.held ↔ fd ∈ st.L.live

theorem bad_of_wf {L : Ledger} (h : WF L) : L.bad = false := by
  simp [Ledger.bad, h.noTwice, h.noForeign]

/-- one observed step of the model is accepted, given its reporting clause and the two ledger facts -/
theorem stepObs_ok (ctx : Ctx) {o : Oracle} {L L' : Ledger} {seg : List LogItem} (hL : WF L) (hL' : WF L')
    (hext : Ext o L L' seg) (sp : SpecSt) (hop : sp.opened = L.live)
    (kind : StepKind) (evs : List Fd.Ev) (out : Outcome) (hproper : out.improper? = none)
    (hrep : ∃ tags, reportClause ctx.discards
      { kind := kind, items := seg.map toItem, evs := evs.filterMap toEv, outcome := out } = .ok tags)
    (hleak : (out.isOk && (failsOf (seg.map toItem)).isEmpty) = true ∨ ∀ x ∈ L'.live, x ∈ L.live)
    (hkeep : (∀ x ∈ L.live, x ∈ L'.live) ∨ (kind.isConsume && out.isExn) = true) :
    ∃ sp', specRun ctx sp [stepOf kind L L' evs out] = .ok sp' ∧ sp'.opened = L'.live := by
  obtain ⟨tags, htags⟩ := hrep
  have hrepl := hext.rep (bad_of_wf hL')
  have happ := applyItems_replay [] [] hrepl hL.below
  simp only [List.nil_append] at happ
  have hown := own_ok hL hrepl { kind := kind, items := seg.map toItem, evs := evs.filterMap toEv, outcome := out } hleak hkeep
  refine ⟨{ opened := L'.live, tags := tags ++ sp.tags }, ?_, rfl⟩
  simp only [specRun, specStep, stepOf, newLog_of_ext hext.log, specStepObs, hop, happ, hproper, htags, hown]
  rfl

theorem progKind_notDrive (p : Prog) : (progKind p).isDrive = false := by
  cases p <;> first | rfl | (rename_i r _; cases r <;> rfl)

theorem mem_of_eq_append {l l' new : List Fd} (h : l' = l ++ new) : ∀ x ∈ l, x ∈ l' := by
  intro x hx; rw [h]; exact List.mem_append_left _ hx

/-- the caller's descriptors after a call that returned the freshly opened `new` -/
theorem rel_grow {L' : Ledger} {held live new : List Fd} (hw : WF L') (hl : L'.live = live ++ new) (hnd : held.Nodup)
    (hh : ∀ fd, fd ∈ held ↔ fd ∈ live) : (held ++ new).Nodup ∧ ∀ fd, fd ∈ held ++ new ↔ fd ∈ L'.live := by
  have hnd' := hw.nodup
  rw [hl] at hnd'
  obtain ⟨_, h2, h3⟩ := List.nodup_append.mp hnd'
  refine ⟨List.nodup_append.mpr ⟨hnd, h2, ?_⟩, ?_⟩
  · intro a ha b hb
    exact h3 a ((hh a).mp ha) b hb
  · intro fd
    rw [hl, List.mem_append, List.mem_append, hh]

theorem mStep_ok (ctx : Ctx) (o : Oracle) (st : MSt) (sp : SpecSt) (hrel : Rel st sp) (op : Op)
    (hop : op.ok ctx.discards = true) :
    ∃ sp', specRun ctx sp (mStep o st op).2 = .ok sp' ∧ Rel (mStep o st op).1 sp' := by
  obtain ⟨hwf, hopen, hnd, hheld⟩ := hrel
  cases op with
  | prog p =>
    simp only [Op.ok] at hop
    cases hrun : p.run o st.L with
    | mk r L' =>
      obtain ⟨w', _, _, hlive⟩ := Prog.keepsLedger p o st.L hwf r L' hrun
      obtain ⟨seg, hext, hgood⟩ := Prog.good p hop o st.L r L' hrun
      cases r with
      | ok a =>
        obtain ⟨new, hl, ha, _⟩ := hlive
        subst ha
        obtain ⟨sp', h1, h2⟩ := stepObs_ok ctx hwf w' hext sp hopen (progKind p) [] .ok rfl
          (report_call_ok ctx.discards _ seg (.ok a) rfl (progKind_notDrive p) rfl rfl hgood)
          (.inl (by rw [failsOf_toItem, hgood.1]; rfl)) (.inl (mem_of_eq_append hl))
        have := rel_grow w' hl hnd hheld
        simp only [mStep, hrun]
        exact ⟨sp', h1, w', h2, this.1, this.2⟩
      | error e =>
        simp only at hlive
        obtain ⟨sp', h1, h2⟩ := stepObs_ok ctx hwf w' hext sp hopen (progKind p) [] (exnOutcome e) (exnOutcome_proper e)
          (report_call_ok ctx.discards _ seg (.error e : Except Exn (List Fd)) rfl (progKind_notDrive p) rfl rfl hgood)
          (.inr (by rw [hlive]; exact fun x hx => hx)) (.inl (by rw [hlive]; exact fun x hx => hx))
        simp only [mStep, hrun]
        exact ⟨sp', h1, w', h2, hnd, by rw [hlive]; exact hheld⟩
  | consume c fd =>
    by_cases hfd : fd ∈ st.held
    · have hfl : fd ∈ st.L.live := (hheld fd).mp hfd
      cases hrun : c.run fd o st.L with
      | mk r L' =>
        obtain ⟨w', _, _, hlive⟩ := Consumer.takesOver c fd o st.L hwf hfl r L' hrun
        obtain ⟨seg, hext, hgood⟩ := Consumer.good c fd o st.L r L' hrun
        cases r with
        | ok a =>
          obtain ⟨hl, ha, _⟩ := hlive
          subst ha
          obtain ⟨sp', h1, h2⟩ := stepObs_ok ctx hwf w' hext sp hopen .consume [] .ok rfl
            (report_call_ok ctx.discards _ seg (.ok [fd]) rfl rfl rfl rfl hgood)
            (.inl (by rw [failsOf_toItem, hgood.1]; rfl)) (.inl (by rw [hl]; exact fun x hx => hx))
          simp only [mStep, if_pos hfd, hrun]
          refine ⟨sp', h1, w', h2, ?_, ?_⟩
          · apply List.nodup_append.mpr
            refine ⟨hnd.erase _, by simp, ?_⟩
            intro a ha b hb
            simp only [List.mem_singleton] at hb
            subst hb
            intro hab
            subst hab
            exact (List.Nodup.mem_erase_iff hnd).mp ha |>.1 rfl
          · intro x
            rw [hl, ← hheld, List.mem_append, List.mem_singleton, List.Nodup.mem_erase_iff hnd]
            constructor
            · rintro (⟨_, h⟩ | rfl)
              · exact h
              · exact hfd
            · intro h
              by_cases hx : x = fd
              · exact .inr hx
              · exact .inl ⟨hx, h⟩
        | error e =>
          simp only at hlive
          obtain ⟨sp', h1, h2⟩ := stepObs_ok ctx hwf w' hext sp hopen .consume [] (exnOutcome e) (exnOutcome_proper e)
            (report_call_ok ctx.discards _ seg (.error e : Except Exn (List Fd)) rfl rfl rfl rfl hgood)
            (.inr (by rw [hlive]; exact fun x hx => List.mem_of_mem_erase hx))
            (.inr (by simp [StepKind.isConsume, exnOutcome_isExn]))
          simp only [mStep, if_pos hfd, hrun]
          refine ⟨sp', h1, w', h2, hnd.erase _, ?_⟩
          intro x
          rw [hlive, List.Nodup.mem_erase_iff hnd, List.Nodup.mem_erase_iff hwf.nodup, hheld]
    · simp only [mStep, if_neg hfd]
      exact ⟨sp, rfl, hwf, hopen, hnd, hheld⟩
  | drive d =>
    cases hrun : driverStep d o st.L with
    | mk r L' =>
      obtain ⟨w', _, _, hlive⟩ := Sp_driverStep d o st.L hwf r L' hrun
      obtain ⟨seg, hext, hq⟩ := Lg_driverStep d o st.L r L' hrun
      cases r with
      | ok out =>
        obtain ⟨new, hl, hfds, _⟩ := hlive
        have hleak : (Outcome.ok.isOk && (failsOf (seg.map toItem)).isEmpty) = true ∨ ∀ x ∈ L'.live, x ∈ st.L.live := by
          rcases hq with ⟨hf, _⟩ | ⟨hf, _⟩
          · exact .inl (by rw [failsOf_toItem, hf]; rfl)
          · refine .inr ?_
            rw [hl, ← hfds, hf, List.append_nil]
            exact fun x hx => hx
        obtain ⟨sp', h1, h2⟩ := stepObs_ok ctx hwf w' hext sp hopen .drive out.evs .ok rfl
          (report_drive_ok ctx.discards d hop _ seg (.ok out) rfl rfl rfl rfl hq)
          hleak (.inl (mem_of_eq_append hl))
        have := rel_grow w' (hfds ▸ hl) hnd hheld
        simp only [mStep, hrun]
        exact ⟨sp', h1, w', h2, this.1, this.2⟩
      | error e =>
        simp only at hlive
        obtain ⟨sp', h1, h2⟩ := stepObs_ok ctx hwf w' hext sp hopen .drive [] (exnOutcome e) (exnOutcome_proper e)
          (report_drive_ok ctx.discards d hop _ seg (.error e) rfl rfl rfl rfl hq)
          (.inr (by rw [hlive]; exact fun x hx => hx)) (.inl (by rw [hlive]; exact fun x hx => hx))
        simp only [mStep, hrun]
        exact ⟨sp', h1, w', h2, hnd, by rw [hlive]; exact hheld⟩

theorem mSteps_ok (ctx : Ctx) (o : Oracle) (ops : List Op) : ∀ (st : MSt) (sp : SpecSt), Rel st sp →
    (∀ op ∈ ops, op.ok ctx.discards = true) →
    ∃ sp', specRun ctx sp (mSteps o st ops).2 = .ok sp' ∧ Rel (mSteps o st ops).1 sp' := by
  induction ops with
  | nil => intro st sp hrel _; exact ⟨sp, rfl, hrel⟩
  | cons op ops ih =>
    intro st sp hrel hok
    obtain ⟨sp1, h1, r1⟩ := mStep_ok ctx o st sp hrel op (hok op List.mem_cons_self)
    obtain ⟨sp2, h2, r2⟩ := ih _ sp1 r1 (fun op' h => hok op' (List.mem_cons_of_mem _ h))
    refine ⟨sp2, ?_, r2⟩
    simp only [mSteps]
    rw [specRun_append, h1]
    exact h2

/-! ### set-up and teardown -/

theorem isClose_of_close? {it : LogItem} (h : it.close? = none) : it.isClose = false := by
  cases it <;> first | rfl | cases h

/-- a quiet constructor of the scenario set succeeds, closes nothing and leaves no trace in the log -/
theorem quiet_prog (p : Prog) (hp : p.sane = true) (o : Oracle) (L : Ledger) (hL : WF L) :
    ∃ a Lq, quiet p.run o L = (.ok a, Lq) ∧ WF Lq ∧ Lq.log = L.log ∧ Lq.live = L.live ++ a := by
  cases hrun : p.run (fun _ => none) L with
  | mk r L' =>
    obtain ⟨w', _, _, hlive⟩ := Prog.keepsLedger p _ L hL r L' hrun
    obtain ⟨seg, hext, hgood⟩ := Prog.good p hp _ L r L' hrun
    have hnofail : Fd.failsOf seg = [] := by
      rw [List.eq_nil_iff_forall_not_mem]
      intro q hq
      obtain ⟨i, hi⟩ := hext.orc q hq
      cases hi
    cases r with
    | error e =>
      obtain ⟨q, hq, _⟩ := hgood
      rw [hnofail] at hq
      cases hq
    | ok a =>
      obtain ⟨new, hl, ha, _⟩ := hlive
      subst ha
      have htake : L'.log.take (L'.log.length - L.log.length) = seg.reverse := by
        have := newLog_of_ext hext.log
        unfold newLog at this
        rw [← this, List.reverse_reverse]
      have hfilter : (seg.reverse).filter LogItem.isClose = [] := by
        rw [List.filter_eq_nil_iff]
        intro it hit
        have hc := hgood.2
        unfold closesOf at hc
        rw [List.filterMap_eq_nil_iff] at hc
        simp [isClose_of_close? (hc it (List.mem_reverse.mp hit))]
      refine ⟨a, { L' with pos := L.pos, trace := L.trace, nfault := L.nfault,
                           log := (L'.log.take (L'.log.length - L.log.length)).filter LogItem.isClose ++ L.log },
        by unfold quiet; rw [hrun], ⟨w'.nodup, w'.below, w'.noTwice, w'.noForeign⟩, ?_, hl⟩
      show (L'.log.take (L'.log.length - L.log.length)).filter LogItem.isClose ++ L.log = L.log
      rw [htake, hfilter, List.nil_append]

structure SetupInv (L0 : Ledger) (st : MSt) : Prop where
  wf : WF st.L
  nodup : st.held.Nodup
  held : ∀ fd, fd ∈ st.held ↔ fd ∈ st.L.live
  log : st.L.log = L0.log

theorem mSetup_inv (o : Oracle) (L0 : Ledger) (ps : List Prog) : ∀ (st : MSt), SetupInv L0 st →
    (∀ p ∈ ps, p.sane = true) → SetupInv L0 (mSetup o st ps) := by
  induction ps with
  | nil => intro st h _; exact h
  | cons p ps ih =>
    intro st h hs
    obtain ⟨a, Lq, hq, wq, hlog, hl⟩ := quiet_prog p (hs p List.mem_cons_self) o st.L h.wf
    simp only [mSetup, hq]
    apply ih _ _ (fun p' hp' => hs p' (List.mem_cons_of_mem _ hp'))
    have := rel_grow wq hl h.nodup h.held
    exact ⟨wq, this.1, this.2, by rw [hlog, h.log]⟩

theorem Lg_destroy (fds : List Fd) : Lg (destroy fds) (fun _ _ => True) := by
  induction fds with
  | nil => exact (Lg_pure ()).weaken (fun _ _ _ => trivial)
  | cons fd rest ih =>
    exact Lg_bind ih (fun _ => (Lg_closeFd fd).weaken (fun _ _ _ => trivial)) (fun _ _ _ => trivial) (fun _ _ _ _ _ _ => trivial)

/-- destroying distinct descriptors that are open closes exactly those -/
theorem destroy_all (o : Oracle) : ∀ (fds : List Fd) (L : Ledger), WF L → fds.Nodup → (∀ fd ∈ fds, fd ∈ L.live) →
    (destroy fds o L).1 = .ok () ∧ WF (destroy fds o L).2 ∧
      ∀ x, x ∈ (destroy fds o L).2.live ↔ (x ∈ L.live ∧ x ∉ fds) := by
  intro fds
  induction fds with
  | nil =>
    intro L hL _ _
    have : destroy [] o L = (.ok (), L) := rfl
    rw [this]
    exact ⟨rfl, hL, by simp⟩
  | cons fd rest ih =>
    intro L hL hnd hmem
    obtain ⟨hfd, hnd'⟩ := List.nodup_cons.mp hnd
    obtain ⟨h1, h2, h3⟩ := ih L hL hnd' (fun x hx => hmem x (List.mem_cons_of_mem _ hx))
    show ((destroy rest >>= fun _ => closeFd fd) o L).1 = _ ∧ WF ((destroy rest >>= fun _ => closeFd fd) o L).2 ∧
      ∀ x, x ∈ ((destroy rest >>= fun _ => closeFd fd) o L).2.live ↔ _
    rw [bind_run]
    cases hd : destroy rest o L with
    | mk r1 L1 =>
      rw [hd] at h1 h2 h3
      simp only at h1 h2 h3
      subst h1
      simp only [closeFd]
      have hin : fd ∈ L1.live := (h3 fd).mpr ⟨hmem fd List.mem_cons_self, hfd⟩
      obtain ⟨w, l, _, _⟩ := h2.close_mem hin
      refine ⟨by trivial, w, ?_⟩
      intro x
      rw [l, List.Nodup.mem_erase_iff h2.nodup, h3, List.mem_cons]
      constructor
      · rintro ⟨hx, hl, hr⟩
        exact ⟨hl, fun h => h.elim hx hr⟩
      · rintro ⟨hl, hr⟩
        exact ⟨fun h => hr (.inl h), hl, fun h => hr (.inr h)⟩

theorem mRound_ok (ctx : Ctx) (o : Oracle) (L : Ledger) (hL : WF L) (hempty : L.live = []) (r : Round)
    (hr : r.ok ctx.discards = true) (sp : SpecSt) :
    ∃ sp', specRun ctx sp (mRound o L r).2 = .ok sp' ∧ WF (mRound o L r).1 ∧ (mRound o L r).1.live = [] := by
  simp only [Round.ok, Bool.and_eq_true, List.all_eq_true] at hr
  -- set-up
  have hs := mSetup_inv o L r.setup { L := L } ⟨hL, List.nodup_nil, by simp [hempty], rfl⟩ hr.1
  have hlog0 : newLog L (mSetup o { L := L } r.setup).L = [] := newLog_of_ext (seg := []) (by simp [hs.log])
  have hrel1 : Rel (mSetup o { L := L } r.setup) { opened := (mSetup o { L := L } r.setup).L.live, tags := sp.tags } :=
    ⟨hs.wf, rfl, hs.nodup, hs.held⟩
  -- steps
  obtain ⟨sp2, h2, hrel2⟩ := mSteps_ok ctx o r.steps _ _ hrel1 hr.2
  -- teardown
  obtain ⟨_, wtd, htd⟩ := destroy_all o (mSteps o (mSetup o { L := L } r.setup) r.steps).1.held _ hrel2.wf hrel2.nodup
    (fun fd h => (hrel2.held fd).mp h)
  have hlive : (destroy (mSteps o (mSetup o { L := L } r.setup) r.steps).1.held o
      (mSteps o (mSetup o { L := L } r.setup) r.steps).1.L).2.live = [] := by
    rw [List.eq_nil_iff_forall_not_mem]
    intro x hx
    obtain ⟨h1, h2⟩ := (htd x).mp hx
    exact h2 ((hrel2.held x).mpr h1)
  obtain ⟨seg, hext, _⟩ := Lg_destroy (mSteps o (mSetup o { L := L } r.setup) r.steps).1.held o
    (mSteps o (mSetup o { L := L } r.setup) r.steps).1.L _ _ rfl
  have happ := applyItems_replay [] [] (hext.rep (bad_of_wf wtd)) hrel2.wf.below
  simp only [List.nil_append, hlive] at happ
  refine ⟨{ opened := [], tags := sp2.tags }, ?_, wtd, hlive⟩
  simp only [mRound]
  rw [specRun_append, specRun_append]
  have hsetup : specRun ctx sp [Obs.setup ((newLog L (mSetup o { L := L } r.setup).L).map toItem)
      (mSetup o { L := L } r.setup).L.live] = .ok { opened := (mSetup o { L := L } r.setup).L.live, tags := sp.tags } := by
    simp [specRun, specStep, specSetup, hlog0, applyItems, Except.mapError]
  rw [hsetup]
  simp only
  rw [h2]
  simp only [specRun, specStep, specTeardown, newLog_of_ext hext.log, hrel2.opened, happ, ledgerLine, hlive,
    wtd.noTwice, wtd.noForeign]
  rfl

/-- **The property predicate that `./check C14` evaluates on the implementation is a theorem of the model.**
For every fault oracle (any number of failing calls at any positions), every history - any number of rounds,
each with any quiet set-up constructors and any sequence of constructors / operations (`Prog`, with any
descriptor arguments and any number of partial writes), consuming constructors and driver steps on arbitrary
driver states - the observations the model produces are accepted by every clause of the predicate: failures
reported by an exception with the category and code of a failed call or, inside `Step`, through the
documented channel; no bogus success, no failure out of thin air; nothing a failing call opened is still
open when it returns; nothing closed that the call did not open (except by a throwing consuming
constructor); nothing closed twice; after the teardown nothing is open and the ledger is clean.
`Round.ok` (decidable): `query` is used with a socket call, and the scenario flag `ctx.discards` is truthful
(see `Op.ok`). -/
theorem model_satisfies_spec (ctx : Ctx) (o : Oracle) (history : List Round)
    (hok : ∀ r ∈ history, r.ok ctx.discards = true) :
    ∃ s, specRun ctx {} (modelTrace o {} history) = .ok s := by
  suffices H : ∀ (L : Ledger) (sp : SpecSt), WF L → L.live = [] → ∃ s, specRun ctx sp (modelTrace o L history) = .ok s from
    H {} {} WF.init rfl
  induction history with
  | nil => intro L sp _ _; exact ⟨sp, rfl⟩
  | cons r rs ih =>
    intro L sp hL hempty
    obtain ⟨sp1, h1, w1, e1⟩ := mRound_ok ctx o L hL hempty r (hok r List.mem_cons_self) sp
    obtain ⟨sp2, h2⟩ := ih (fun r' h => hok r' (List.mem_cons_of_mem _ h)) _ sp1 w1 e1
    refine ⟨sp2, ?_⟩
    simp only [modelTrace]
    rw [specRun_append, h1]
    exact h2

/-! ### non-vacuity -/

def demoDriver : DSt := { pipeFrom := 0, pipeTo := 1, socks := [{ fd := 2, kind := .tcp, rx := 1, sendQ := 1 }] }
def demoDriver2 : DSt := { pipeFrom := 0, pipeTo := 1, socks := [{ fd := 2, kind := .tcp, rx := 0, sendQ := 1 }] }

/-- two rounds: `Driver()` and `SocketTcp` quietly, then `SocketUdp`, two consuming constructors, `Step`, `Listen`
with an accepted connection, `Step`, a `Send` in two parts, `Driver()`, `LocalAddress`, a third consuming
constructor, `Address`; second round: `SocketUdp` quietly, `Acceptor`, two `Step`s -/
def demoHistory : List Round :=
  [ { setup := [.driverCtor, .tcpCtor],
      steps := [.prog .udpCtor, .consume (.buffered true) 3, .consume .tcpAsync 2, .drive demoDriver,
                .prog (.acceptorListen true 2), .drive demoDriver2, .prog (.tcpSend 2 1), .prog .driverCtor,
                .prog (.query .getsockname 2), .consume .acceptorAsync 3, .prog .addrCtor] },
    { setup := [.udpCtor], steps := [.prog .acceptorCtor, .drive demoDriver, .drive demoDriver2] } ]

def demoOracle (faults : List (Nat × Errno)) : Oracle := fun i => (faults.find? (·.1 == i)).map (·.2)

example : ∀ r ∈ demoHistory, r.ok false = true := by decide

/-- six faults: `getsockopt` of the buffered constructor (closes the consumed socket), `recv` inside `Step`
(disconnect handler), the second `fcntl` of the accepted socket (closed again, exception), `send` inside `Step`
(send future), the second `send` of a partial write, the second `socket` of `Driver()` (first pipe socket closed):
the trace (17 observations) is accepted; the tags name the channels, newest first -/
example : (match specRun {} {} (modelTrace (demoOracle [(5, 9), (8, 104), (13, 9), (15, 32), (19, 104), (22, 24)]) {} demoHistory) with
    | .ok s => s.tags
    | .error e => [e]) =
    ["chan.exn", "fault.socket", "chan.exn", "fault.send", "chan.future", "fault.send", "chan.exn", "fault.fcntl",
     "chan.disconnect", "fault.recv", "chan.exn", "fault.getsockopt"] := by decide +kernel

example : ((modelTrace (demoOracle [(1, 98), (2, -3)]) {} demoHistory).take 2) =
    [.setup [] [0, 1, 2],
     .step { kind := .ctor, items := [.call .socket (.ok (some 3)), .call .bind (.fail 98), .call .getnameinfo (.fail (-3)), .close 3],
             evs := [], outcome := .exn .address (-3) }] := by decide +kernel

/-- the hypothesis about the scenario flag is needed: a readable acceptor whose `accept` fails inside `Step`
(the library drops the failure on purpose) is only accepted in a scenario flagged `discards` ... -/
example : let h : List Round := [{ steps := [.drive { pipeFrom := 0, pipeTo := 1, socks := [{ fd := 2, kind := .acc, rx := 1 }] }] }]
    (match specRun { discards := false } {} (modelTrace (demoOracle [(1, 24)]) {} h) with | .ok _ => "" | .error e => e)
      = " faults []: unexpected failing call accept inside Step" ∧
    (match specRun { discards := true } {} (modelTrace (demoOracle [(1, 24)]) {} h) with | .ok s => s.tags | .error e => [e])
      = ["chan.discard", "fault.accept"] := by decide +kernel

/-- ... and in such a scenario a failing `recvfrom` of the signalling pipe (after `Stop`) would be an exception
out of `Step`, which the predicate does not expect there -/
example : let h : List Round := [{ steps := [.drive { pipeFrom := 0, pipeTo := 1, bumps := 1 }] }]
    (match specRun { discards := true } {} (modelTrace (demoOracle [(1, 12)]) {} h) with | .ok _ => "" | .error e => e)
      = " faults []: recvfrom failed inside Step (UDP/acceptor): Step ended with [exn, system, 12]" := by decide +kernel

/-- the predicate is not vacuous: a descriptor left open by a throwing constructor is a leak ... -/
example : (match specRun {} {} [.setup [] [],
      .step { kind := .ctor, items := [.call .socket (.ok (some 0)), .call .bind (.fail 98)], outcome := .exn .system 98 }] with | .ok _ => "" | .error e => e) =
    " faults []: descriptor fd0 opened by the failing call is still open when it returns ([exn, system, 98]): leak" := by
  decide +kernel

/-- ... a failed call answered by a normal return is a bogus success, a wrong code is not the code of a failed
call, a second close is flagged -/
example : (match specRun {} {} [.setup [] [3], .step { kind := .op, items := [.call .getsockopt (.fail 9)], outcome := .ok }] with | .ok _ => "" | .error e => e) =
    " faults []: getsockopt failed but the call returned normally (bogus success)" := by decide +kernel
example : (match specRun {} {} [.setup [] [3], .step { kind := .op, items := [.call .getsockopt (.fail 9)], outcome := .exn .system 22 }] with | .ok _ => "" | .error e => e) =
    " faults []: getsockopt failed but the exception is [exn, system, 22]: not the code of a failed call" := by decide +kernel
example : (match specRun {} {} [.setup [] [3], .teardown [.close 3, .close 3] (some (0, 0))] with | .ok _ => "" | .error e => e) =
    " faults []: close of fd3, which is not an open descriptor of the library (closed twice or foreign)" := by decide +kernel

end SockModel.Fd.Spec

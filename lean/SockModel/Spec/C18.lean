import SockModel.Model.TlsLemmas
import SockModel.Model.TlsBudget
import SockModel.Model.TlsLogLemmas
import SockModel.Model.HsEngine
/-!
# Spec.C18 - the run-time oracle of C18 as typed, total functions, and its link to the glue model

`./check C18` (and the TLS slices of `./check C01` / `./check C07`) evaluate a predicate on the transcript of the
implementation.  It lives here, apart from model and driver:

* typed observations `Obs` (one per transcript line that means something for the property), the observer's state
  `SpecSt` (observations only, no model state), `specStep` / `specRun` (structural recursion) for the clauses that are
  checked event by event, `specFinal` for the end-of-case clauses, `specCheck` = both;
* `Drive/C18.lean` only parses lines into `Obs` and calls these functions.

Clauses (message texts are those the driver has always printed):

event by event (`specStep`)
* C07 for TLS calls: a `Send`/`Receive` with timeout `T` issues only unlimited waits (`T < 0`), only zero waits
  (`T = 0`), or bounded waits whose sum stays within `T` (`T > 0`; under the virtual clock a wait that times out
  consumes exactly its argument);
* `Receive` / the receive handler deliver bytes only if the latest engine answer was `done` with `init_finished`,
  never from a peer that does not speak TLS, and the handler never gets an empty buffer;
* the disconnect handler runs at most once; every raw `send` carries `MSG_NOSIGNAL`;
* crash / hang / killed by a signal.

at the end (`specFinal`)
* wire (`wireClause`): no plaintext marker in the raw stream, the raw stream is a sequence of TLS records starting
  with ClientHello resp. ServerHello, TLS 1.2: no application-data record before ChangeCipherSpec; what a plain TCP
  peer read is TLS records and does not contain the marker;
* a non-TLS peer: zero bytes delivered, and the failure was reported (exception / disconnect handler);
* TLS <-> TLS: received is a prefix of what the peer sent, no failure reported on a healthy connection, the exchange
  is not stuck (`tls-pending-stall`, `exchange did not complete`), everything arrived, both handshakes finished.

The second half of the file composes the existing model functions (`Tls.receiveT`, `sendT`, `enqueue`, `aQuery`,
`aTask`; nothing is re-defined) into the scenario of the harness and proves that `specRun` accepts every trace of
the model (`model_satisfies_spec_partial`; see there for what is covered).
-/
namespace SockModel.Tls.Spec
open SockModel.Net SockModel.Tls

/-! ## typed observations -/

/-- whose event: the client endpoint, the server endpoint, anything else (a driver, the raw peer) -/
inductive Who where
  | c | s | other (name : String)
  deriving DecidableEq, Repr

def Who.name : Who → String
  | .c => "c"
  | .s => "s"
  | .other n => n

inductive ApiOp where
  | send | recv | other
  deriving DecidableEq, Repr

/-- how an API call ended: `n k` (bytes sent / received), an exception, anything else (`none`, `ok`) -/
inductive Ret where
  | n (k : Nat) | threw | other
  deriving DecidableEq, Repr

inductive Abort where
  | crash | hang | killed
  deriving DecidableEq, Repr

def Abort.msg : Abort → String
  | .crash => "crash: "
  | .hang => "hang: "
  | .killed => "process killed by a signal: "

/-- an endpoint as the `setup` line describes it -/
structure EpCfg where
  async : Bool
  rsz : Nat
  deriving DecidableEq, Repr

/-- the `state` line of an endpoint (`none` = key missing) -/
structure FinalState where
  tls12 : Bool := false
  sent : Option Nat := none
  failed : Bool := false
  init : Option Nat := none
  pending : Option Nat := none
  deriving DecidableEq, Repr

inductive Obs where
  /-- `setup …` op line: which endpoints are TLS sockets of the library, and whether the peer is a plain TCP peer -/
  | setup (c s : Option EpCfg) (plain : Bool)
  /-- `-> setup ok marker= cpay= spay=` -/
  | payload (marker cpay spay : Bytes)
  /-- `-> api who op T …` -/
  | api (who : Who) (op : ApiOp) (T : Option Int)
  /-- `-> os who poll dir t ready|timeout` -/
  | poll (who : Who) (t : Int) (ready : Bool)
  /-- `-> os who send len ns=… …` -/
  | send (who : Who) (noSignal : Bool)
  /-- `-> sslret who answer init=…` -/
  | sslret (who : Who) (done init : Bool)
  /-- `-> ret who …` -/
  | ret (who : Who) (r : Ret)
  /-- `-> rx who n`: the receive handler ran -/
  | rx (who : Who) (n : Nat)
  /-- `-> disc who …`: the disconnect handler ran -/
  | disc (who : Who)
  /-- `-> loopend done|stuck` -/
  | loopend (stuck : Bool)
  /-- `-> wire who hex`: every raw byte the endpoint passed to `send` -/
  | wire (who : Who) (bytes : Bytes)
  /-- `-> got who hex`: every byte the endpoint received through the API -/
  | got (who : Who) (bytes : Bytes)
  | state (who : Who) (st : FinalState)
  /-- `-> rawgot hex`: what the plain TCP peer read -/
  | rawgot (bytes : Bytes)
  | abort (kind : Abort) (text : String)
  deriving Repr

/-! ## the observer's state -/

structure EpSt where
  async : Bool := false
  rsz : Nat := 4096
  /-- the latest engine answer was `done` with `init_finished` -/
  lastDoneInit : Bool := false
  threw : Bool := false
  discSeen : Nat := 0
  recvOp : Bool := false
  /-- timeout of the synchronous Send/Receive in progress (C07 clauses) -/
  callT : Option Int := none
  /-- virtual ms its timed-out waits have consumed so far -/
  spent : Int := 0
  deriving Repr

/-- the end-of-case lines of one endpoint (the latest of each kind) -/
structure Fin where
  wire : Bytes := []
  got : Bytes := []
  st : FinalState := {}
  deriving Repr

structure SpecSt where
  c : Option EpSt := none
  s : Option EpSt := none
  plain : Bool := false
  marker : Bytes := []
  cpay : Bytes := []
  spay : Bytes := []
  /-- the latest `loopend` line said `stuck` -/
  stuck : Bool := false
  finC : Fin := {}
  finS : Fin := {}
  rawgot : Bytes := []
  deriving Repr

def SpecSt.ep? (s : SpecSt) : Who → Option EpSt
  | .c => s.c
  | .s => s.s
  | .other _ => none

def SpecSt.setEp (s : SpecSt) : Who → EpSt → SpecSt
  | .c, e => { s with c := some e }
  | .s, e => { s with s := some e }
  | .other _, _ => s

def SpecSt.fin (s : SpecSt) : Who → Fin
  | .c => s.finC
  | .s => s.finS
  | .other _ => {}

def SpecSt.setFin (s : SpecSt) : Who → Fin → SpecSt
  | .c, f => { s with finC := f }
  | .s, f => { s with finS := f }
  | .other _, _ => s

def mkEp (c : EpCfg) : EpSt := { async := c.async, rsz := c.rsz }

/-! ## the predicate, event by event -/

/-- C07 for the TLS socket: "negative = unlimited, zero = never blocks, positive = at most that long in total,
however many waits the handshake / the record layer needs"; under the virtual clock a wait that times out consumes
exactly its argument, one that finds the descriptor ready consumes nothing -/
def pollClause (who : Who) (ep : EpSt) (T : Int) (t : Int) (ready : Bool) : Except String EpSt :=
  if T < 0 then
    if t ≥ 0 then .error s!"{who.name}: call with unlimited timeout issued a bounded wait poll({t})" else .ok ep
  else if T = 0 then
    if t ≠ 0 then .error s!"{who.name}: call with timeout 0 issued a blocking wait poll({t})" else .ok ep
  else if t < 0 then .error s!"{who.name}: call with timeout {T} ms issued an unlimited wait"
  else if ep.spent + t > T then
    .error s!"{who.name}: call with timeout {T} ms waits poll({t}) after its earlier waits already consumed {ep.spent} ms: over budget"
  else .ok { ep with spent := ep.spent + (if ready then 0 else t) }

def retClause (who : Who) (plain : Bool) (ep : EpSt) : Ret → Except String EpSt
  | .n k =>
    if ep.recvOp ∧ k > 0 then
      if ¬ ep.lastDoneInit then
        .error s!"{who.name}: Receive delivered {k} bytes although the engine had not finished the handshake / not answered done"
      else if plain then .error s!"{who.name}: Receive delivered {k} bytes from a peer that does not speak TLS"
      else .ok { ep with callT := none }
    else .ok { ep with callT := none }
  | .threw => .ok { ep with threw := true, callT := none }
  | .other => .ok { ep with callT := none }

def rxClause (who : Who) (plain : Bool) (ep : EpSt) (n : Nat) : Except String EpSt :=
  if n = 0 then .error s!"{who.name}: receive handler invoked with an empty buffer"
  else if ¬ ep.lastDoneInit then
    .error s!"{who.name}: receive handler invoked with {n} bytes although the engine had not finished the handshake"
  else if plain then .error s!"{who.name}: receive handler delivered {n} bytes from a peer that does not speak TLS"
  else .ok ep

def discClause (who : Who) (ep : EpSt) : Except String EpSt :=
  if ep.discSeen ≥ 1 then .error s!"{who.name}: disconnect handler invoked twice"
  else .ok { ep with discSeen := ep.discSeen + 1 }

/-- apply a clause to the endpoint `who`, if the case has one -/
def onEp (s : SpecSt) (who : Who) (f : EpSt → Except String EpSt) : Except String SpecSt :=
  match s.ep? who with
  | none => .ok s
  | some ep =>
    match f ep with
    | .error m => .error m
    | .ok ep' => .ok (s.setEp who ep')

def specStep (s : SpecSt) : Obs → Except String SpecSt
  | .setup c sv plain => .ok { s with c := c.map mkEp, s := sv.map mkEp, plain := plain }
  | .payload marker cpay spay => .ok { s with marker := marker, cpay := cpay, spay := spay }
  | .api who op T =>
    onEp s who fun ep =>
      .ok { ep with recvOp := op == .recv, callT := if op == .other then none else T, spent := 0 }
  | .poll who t ready =>
    onEp s who fun ep =>
      match ep.callT with
      | none => .ok ep
      | some T => pollClause who ep T t ready
  | .send who ns => if ns then .ok s else .error s!"{who.name}: raw send without MSG_NOSIGNAL"
  | .sslret who done init => onEp s who fun ep => .ok { ep with lastDoneInit := done && init }
  | .ret who r => onEp s who fun ep => retClause who s.plain ep r
  | .rx who n => onEp s who fun ep => rxClause who s.plain ep n
  | .disc who => onEp s who fun ep => discClause who ep
  | .loopend stuck => .ok { s with stuck := stuck }
  | .wire who bytes => .ok (s.setFin who { s.fin who with wire := bytes })
  | .got who bytes => .ok (s.setFin who { s.fin who with got := bytes })
  | .state who st => .ok (s.setFin who { s.fin who with st := st })
  | .rawgot bytes => .ok { s with rawgot := bytes }
  | .abort kind text => .error (kind.msg ++ text)

def specRun (s : SpecSt) : List Obs → Except String SpecSt
  | [] => .ok s
  | o :: rest =>
    match specStep s o with
    | .error m => .error m
    | .ok s' => specRun s' rest

/-! ## the end-of-case clauses -/

def isInfix (pat s : Bytes) : Bool :=
  if pat.isEmpty then false else
  let rec go (s : Bytes) (fuel : Nat) : Bool :=
    match fuel with
    | 0 => false
    | fuel + 1 =>
      if pat.isPrefixOf s then true else
      match s with
      | [] => false
      | _ :: t => go t fuel
  go s (s.length + 1)

structure Rec where
  typ : Nat
  ver : Nat
  len : Nat
  first : Nat      -- first payload byte (handshake message type for a plaintext handshake record)
  complete : Bool

def parseRecords (bs : Bytes) : Except String (List Rec) :=
  let rec go (bs : Bytes) (fuel : Nat) (acc : List Rec) : Except String (List Rec) :=
    match fuel with
    | 0 => .ok acc.reverse
    | fuel + 1 =>
      match bs with
      | [] => .ok acc.reverse
      | t :: v1 :: v2 :: l1 :: l2 :: rest =>
        let typ := t.toNat
        let ver := v1.toNat * 256 + v2.toNat
        let len := l1.toNat * 256 + l2.toNat
        if typ < 20 ∨ typ > 23 then .error s!"record {acc.length}: content type {typ} is not a TLS record type"
        else if ver ≠ 0x0301 ∧ ver ≠ 0x0303 then .error s!"record {acc.length}: version {ver}"
        else if len > 16384 + 256 then .error s!"record {acc.length}: length {len}"
        else
          let first := match rest with | b :: _ => b.toNat | [] => 0
          if rest.length < len then .ok (⟨typ, ver, len, first, false⟩ :: acc).reverse
          else go (rest.drop len) fuel (⟨typ, ver, len, first, true⟩ :: acc)
      | _ => .ok acc.reverse   -- fewer than 5 bytes of a header at the very end
  go bs (bs.length + 1) []

/-- the raw stream one side wrote: TLS records; the first is a plaintext handshake record carrying
ClientHello (1) resp. ServerHello (2); in TLS 1.2 no application-data record precedes ChangeCipherSpec -/
def specWire (who : String) (isClient : Bool) (tls12 : Bool) (wire marker : Bytes) : Option String :=
  if isInfix marker wire then some s!"plaintext marker found in the raw stream written by {who}"
  else match parseRecords wire with
    | .error m => some s!"raw stream of {who} is not a sequence of TLS records: {m}"
    | .ok [] => none
    | .ok (r :: rest) =>
      if r.typ ≠ 22 then some s!"first record written by {who} has type {r.typ}, not handshake(22)"
      else if r.first ≠ (if isClient then 1 else 2) then
        some s!"first record written by {who} is handshake message {r.first}, expected {if isClient then "ClientHello" else "ServerHello"}"
      else if tls12 then
        let beforeCcs := rest.takeWhile (fun r => r.typ ≠ 20)
        if beforeCcs.length < rest.length ∧ beforeCcs.any (fun r => r.typ = 23) then
          some s!"application-data record written by {who} before ChangeCipherSpec (TLS 1.2)"
        else if ¬ rest.any (fun r => r.typ = 20) ∧ rest.any (fun r => r.typ = 23) then
          some s!"application-data record written by {who} without a preceding ChangeCipherSpec (TLS 1.2)"
        else none
      else none

/-- the endpoints of the case, client first -/
def SpecSt.eps (s : SpecSt) : List (Who × EpSt) :=
  (match s.c with | some e => [(Who.c, e)] | none => []) ++ (match s.s with | some e => [(Who.s, e)] | none => [])

def showOpt : Option Nat → String
  | none => ""
  | some n => toString n

def SpecSt.peerPay (s : SpecSt) (w : Who) : Bytes := if w == .c then s.spay else s.cpay

/-- the wire-level clauses: statements about the ENGINE's output (OpenSSL), which the glue only carries
(`Tls.plaintext_only_via_engine`) -/
def wireClause (s : SpecSt) : Option String :=
  match s.eps.findSome? (fun (p : Who × EpSt) =>
      specWire p.1.name (p.1 == .c) (s.fin p.1).st.tls12 (s.fin p.1).wire s.marker) with
  | some m => some m
  | none =>
    if isInfix s.marker s.rawgot then some "plaintext marker reached a plain TCP peer"
    else none

/-- a peer that does not speak TLS: exception / disconnect handler, zero bytes delivered; what the plain peer read
must itself be TLS records (an alert) or nothing -/
def plainClause (s : SpecSt) : Option String :=
  match s.eps.findSome? (fun (p : Who × EpSt) =>
      if (s.fin p.1).got ≠ [] then
        some s!"{p.1.name}: {(s.fin p.1).got.length} bytes delivered from a peer that does not speak TLS"
      else if ¬ (p.2.threw ∨ p.2.discSeen ≥ 1) then
        some s!"{p.1.name}: talking to a non-TLS peer was not reported (no exception, no disconnect handler)"
      else none) with
  | some m => some m
  | none =>
    match parseRecords s.rawgot with
    | .error m => some s!"the plain TCP peer read something that is not a TLS record: {m}"
    | .ok _ => none

/-- TLS <-> TLS: payload integrity, no failure on a healthy connection -/
def healthyClause (s : SpecSt) : Option String :=
  s.eps.findSome? fun (p : Who × EpSt) =>
    if ¬ (s.fin p.1).got.isPrefixOf (s.peerPay p.1) then
      some s!"{p.1.name}: received bytes are not a prefix of what the peer sent ({(s.fin p.1).got.length} bytes received)"
    -- (while a TLS Send is being retried the engine may already have transmitted records that the Send
    -- calls so far did not account for; the accounting is exact once the retries are through)
    else if p.2.threw ∨ p.2.discSeen > 0 ∨ (s.fin p.1).st.failed then
      some s!"{p.1.name}: failure reported (exception / disconnect / failed future) on a healthy TLS connection"
    else none

def stuckClause (s : SpecSt) : Option String :=
  if s.stuck then
    match s.eps.filter (fun (p : Who × EpSt) => p.2.async ∧ ((s.fin p.1).st.pending.getD 0) > 0) with
    | p :: _ =>
      some s!"tls-pending-stall: {p.1.name} (async, rxBufSize {p.2.rsz}) has {showOpt (s.fin p.1).st.pending} decrypted bytes pending inside the engine that the driver never delivers; received {(s.fin p.1).got.length}"
    | [] =>
      let inits := s.eps.map (fun (p : Who × EpSt) =>
        s!"{p.1.name}:init={showOpt (s.fin p.1).st.init},got={(s.fin p.1).got.length},sent={showOpt (s.fin p.1).st.sent}")
      some s!"exchange did not complete (handshake or payload stuck): {inits}"
  else none

/-- after the last op every payload must have arrived in full -/
def completeClause (s : SpecSt) : Option String :=
  s.eps.findSome? fun (p : Who × EpSt) =>
    if (s.fin p.1).got ≠ s.peerPay p.1 then
      some s!"{p.1.name}: received {(s.fin p.1).got.length} of {(s.peerPay p.1).length} bytes"
    else if (s.fin p.1).st.init ≠ some 1 then some s!"{p.1.name}: handshake not finished at the end"
    else none

def orElse (a : Option String) (b : Unit → Option String) : Option String :=
  match a with
  | some m => some m
  | none => b ()

/-- the end-of-case part of Spec.C18 -/
def specFinal (s : SpecSt) : Option String :=
  orElse (wireClause s) fun _ =>
    if s.plain then plainClause s
    else orElse (healthyClause s) fun _ => orElse (stuckClause s) fun _ => completeClause s

def Obs.isAbort : Obs → Bool
  | .abort _ _ => true
  | _ => false

def specCheck (obs : List Obs) : Except String Unit :=
  match specRun {} obs with
  | .error m => .error m
  | .ok s =>
    match specFinal s with
    | some m => .error m
    | none => .ok ()

/-! ## the model's observations

The scenario of the harness, composed from the existing model functions (nothing is re-defined): up to two
endpoints `c`, `s`, each the glue model of `Model/Tls.lean` (`St`) - a synchronous one is driven by
`Tls.sendT` / `Tls.receiveT` with any timeout, an asynchronous one by `Tls.enqueue` and driver steps
`Tls.aQuery` + `Tls.aTask` - over an ABSTRACT engine `E : Engine σ` and an ABSTRACT kernel `W : World ω`.
(One engine and one world for both endpoints is no restriction: their states are separate, and a sum type with a
flag in the state gives each side its own behaviour - as `Hs.engine` does with `Hs.client`.)  The kernel is
wrapped by `obsWorld`, which records what the shim of the harness records: every `poll` with its timeout, its answer
and the clock when it was issued, and every `send` (the flag set of the library's `send` is `Net.sendNoSignal`,
extracted from the source on every run). -/

section Model
variable {σ ω : Type}

/-- one OS call as the shim logs it -/
inductive OsRec where
  | wait (t : Int) (ready : Bool) (before : Int)
  | send
  deriving DecidableEq, Repr

/-- any world, with a log of its `poll`s and `send`s (newest first) -/
def obsWorld (W : World ω) : World (ω × List OsRec) where
  wait x d t := ((W.wait x.1 d t).1, ((W.wait x.1 d t).2, .wait t (W.wait x.1 d t).1 (W.now x.1) :: x.2))
  send x bs := ((W.send x.1 bs).1, ((W.send x.1 bs).2, .send :: x.2))
  recv x n := ((W.recv x.1 n).1, ((W.recv x.1 n).2, x.2))
  now x := W.now x.1

abbrev MSt (σ ω : Type) := St σ (ω × List OsRec)

/-- one endpoint of the model -/
structure Ep (σ ω : Type) where
  async : Bool
  rsz : Nat
  a : Async := {}
  st : MSt σ ω
  /-- everything handed to the application so far -/
  got : Bytes := []
  /-- an exception left a call / the disconnect handler ran (what the harness prints as `failed=`) -/
  failed : Bool := false

structure Sys (σ ω : Type) where
  c : Option (Ep σ ω) := none
  s : Option (Ep σ ω) := none
  plain : Bool := false
  marker : Bytes := []
  cpay : Bytes := []
  spay : Bytes := []

/-- configuration, kernel and engine -/
structure Env (σ ω : Type) where
  C : Cfg
  W : World ω
  E : Engine σ

def Ep.init (cfg : EpCfg) (e : σ) (w : ω) : Ep σ ω :=
  { async := cfg.async, rsz := cfg.rsz, st := { g := {}, e := e, w := (w, []) } }

def Sys.ep? (m : Sys σ ω) : Who → Option (Ep σ ω)
  | .c => m.c
  | .s => m.s
  | .other _ => none

def Sys.setEp (m : Sys σ ω) : Who → Ep σ ω → Sys σ ω
  | .c, e => { m with c := some e }
  | .s, e => { m with s := some e }
  | .other _, _ => m

/-- the logs of the call that is about to start are empty (ghost state only) -/
def fresh (s : MSt σ ω) : MSt σ ω := { s with g := { s.g with engCalls := [] }, w := (s.w.1, []) }

def osObs (who : Who) : OsRec → Obs
  | .wait t r _ => .poll who t r
  | .send => .send who sendNoSignal

def callObs (who : Who) (c : EngCall) : Obs := .sslret who c.ans.isDone c.initAfter

/-- what one call shows below (kernel) and beside (engine) the glue.  The two logs are separate in the model, so
the kernel events are listed first; the clauses on them touch disjoint parts of the observer's state. -/
def evObs (who : Who) (s : MSt σ ω) : List Obs :=
  s.w.2.reverse.map (osObs who) ++ s.g.engCalls.reverse.map (callObs who)

def sendRet (who : Who) : Out Nat → Obs
  | .ok n => .ret who (.n n)
  | .exn _ => .ret who .threw
  | .abort m => .abort .crash m

def recvRet (who : Who) : Out Bytes → Obs
  | .ok [] => .ret who .other
  | .ok (b :: bs) => .ret who (.n (b :: bs).length)
  | .exn _ => .ret who .threw
  | .abort m => .abort .crash m

def isExn {α : Type} : Out α → Bool
  | .exn _ => true
  | _ => false

def outBytes : Out Bytes → Bytes
  | .ok bs => bs
  | _ => []

/-- `Send(data, T)` of a synchronous endpoint -/
def epSend (V : Env σ ω) (who : Who) (ep : Ep σ ω) (data : Bytes) (T : Int) : Ep σ ω × List Obs :=
  let r := sendT V.C (obsWorld V.W) V.E (fresh ep.st) data T
  ({ ep with st := r.2, failed := ep.failed || isExn r.1 },
   .api who .send (some T) :: (evObs who r.2 ++ [sendRet who r.1]))

/-- `Receive(T)` of a synchronous endpoint into a buffer of `rsz` bytes -/
def epRecv (V : Env σ ω) (who : Who) (ep : Ep σ ω) (T : Int) : Ep σ ω × List Obs :=
  let r := receiveT V.C (obsWorld V.W) V.E (fresh ep.st) ep.rsz T
  ({ ep with st := r.2, got := ep.got ++ outBytes r.1, failed := ep.failed || isExn r.1 },
   .api who .recv (some T) :: (evObs who r.2 ++ [recvRet who r.1]))

/-- the driver of an asynchronous endpoint, as the transcript names it -/
def drv : Who → Who
  | .c => .other "dc"
  | .s => .other "ds"
  | w => w

def stepRet (who : Who) : Out Unit → Obs
  | .ok _ => .ret (drv who) .other
  | .exn _ => .ret (drv who) .threw
  | .abort m => .abort .crash m

/-- one `Driver::Step` that serves this asynchronous endpoint: `DriverQuery`, then `DoOneSocketTask` for what `poll`
reported (`first`: the socket is the one `QuerySockets` returned - decrypted data is held already) -/
def epStep (V : Env σ ω) (who : Who) (ep : Ep σ ω) (rev : REvents) (first : Bool) : Ep σ ω × List Obs :=
  let q := aQuery V.E { a := ep.a, s := fresh ep.st }
  let r := aTask V.C (obsWorld V.W) V.E ep.rsz q (if first then forcedRev V.E q rev else rev)
  let newD := (r.2.a.delivered.take (r.2.a.delivered.length - ep.a.delivered.length)).reverse
  let nd := r.2.a.disconnects - ep.a.disconnects
  ({ ep with a := r.2.a, st := r.2.s, got := ep.got ++ newD.flatten,
             failed := ep.failed || isExn r.1 || decide (0 < nd) },
   .api (drv who) .other none ::
     (evObs who r.2.s ++ newD.map (fun bs => Obs.rx who bs.length) ++ List.replicate nd (Obs.disc who) ++ [stepRet who r.1]))

/-- a history is a list of these, in any order and of any length -/
inductive Op where
  | send (who : Who) (data : Bytes) (T : Int)
  | recv (who : Who) (T : Int)
  | enq (who : Who) (buf : Bytes)
  | step (who : Who) (rev : REvents) (first : Bool)
  deriving Repr

/-- one operation; an operation the harness would not perform (no such endpoint, wrong API level) does nothing -/
def sysStep (V : Env σ ω) (m : Sys σ ω) : Op → Sys σ ω × List Obs
  | .send who data T =>
    match m.ep? who with
    | some ep => if ep.async then (m, []) else ((m.setEp who (epSend V who ep data T).1), (epSend V who ep data T).2)
    | none => (m, [])
  | .recv who T =>
    match m.ep? who with
    | some ep => if ep.async then (m, []) else ((m.setEp who (epRecv V who ep T).1), (epRecv V who ep T).2)
    | none => (m, [])
  | .enq who buf =>
    match m.ep? who with
    | some ep =>
      if ep.async then (m.setEp who { ep with a := (enqueue { a := ep.a, s := ep.st } buf).a }, []) else (m, [])
    | none => (m, [])
  | .step who rev first =>
    match m.ep? who with
    | some ep => if ep.async then ((m.setEp who (epStep V who ep rev first).1), (epStep V who ep rev first).2) else (m, [])
    | none => (m, [])

def modelOps (V : Env σ ω) (m : Sys σ ω) : List Op → Sys σ ω × List Obs
  | [] => (m, [])
  | op :: rest => ((modelOps V (sysStep V m op).1 rest).1, (sysStep V m op).2 ++ (modelOps V (sysStep V m op).1 rest).2)

def epCfg (ep : Ep σ ω) : EpCfg := ⟨ep.async, ep.rsz⟩

def setupObs (m : Sys σ ω) : List Obs :=
  [.setup (m.c.map epCfg) (m.s.map epCfg) m.plain, .payload m.marker m.cpay m.spay]

def epFinal (V : Env σ ω) (who : Who) (ep : Ep σ ω) : List Obs :=
  [.wire who ep.st.g.wire, .got who ep.got,
   .state who { init := some (if V.E.initFinished ep.st.e then 1 else 0), failed := ep.failed,
                pending := some (if V.E.pending ep.st.e then 1 else 0) }]

def finalObs (V : Env σ ω) (m : Sys σ ω) : List Obs :=
  (match m.c with | some ep => epFinal V .c ep | none => []) ++ (match m.s with | some ep => epFinal V .s ep | none => [])

/-- the observations of the MODEL for a history -/
def modelTrace (V : Env σ ω) (m : Sys σ ω) (history : List Op) : List Obs :=
  setupObs m ++ (modelOps V m history).2 ++ finalObs V (modelOps V m history).1

end Model

/-! ## the proof: `specRun` accepts every trace of the model -/

section Proof
variable {σ ω : Type}

theorem sendNoSignal_true : sendNoSignal = true := by decide

/-! ### running the predicate over pieces of a trace -/

theorem specRun_append (a : List Obs) : ∀ (s : SpecSt) (b : List Obs),
    specRun s (a ++ b) = match specRun s a with | .error m => .error m | .ok s' => specRun s' b := by
  induction a with
  | nil => intro s b; rfl
  | cons o rest ih =>
    intro s b
    simp only [List.cons_append, specRun]
    cases specStep s o with
    | error m => rfl
    | ok s' => exact ih s' b

theorem setEp_self {sp : SpecSt} {who : Who} {ep : EpSt} (h : sp.ep? who = some ep) : sp.setEp who ep = sp := by
  cases who <;> simp only [SpecSt.ep?, SpecSt.setEp] at h ⊢
  · cases sp; simp_all
  · cases sp; simp_all

theorem ep?_setEp {sp : SpecSt} {who : Who} {ep e : EpSt} (h : sp.ep? who = some ep) : (sp.setEp who e).ep? who = some e := by
  cases who <;> simp_all [SpecSt.ep?, SpecSt.setEp]

theorem setEp_setEp (sp : SpecSt) (who : Who) (a b : EpSt) : (sp.setEp who a).setEp who b = sp.setEp who b := by
  cases who <;> rfl

theorem plain_setEp (sp : SpecSt) (who : Who) (a : EpSt) : (sp.setEp who a).plain = sp.plain := by
  cases who <;> rfl

theorem onEp_some {sp : SpecSt} {who : Who} {ep : EpSt} (h : sp.ep? who = some ep) (f : EpSt → Except String EpSt) :
    onEp sp who f = match f ep with | .error m => .error m | .ok e => .ok (sp.setEp who e) := by
  unfold onEp; rw [h]

/-- the condition of `pollClause` -/
def waitCond (T spent t : Int) : Prop :=
  if T < 0 then t < 0 else if T = 0 then t = 0 else (0 ≤ t ∧ spent + t ≤ T)

def acc (T spent t : Int) (rd : Bool) : Int := if 0 < T then spent + (if rd then 0 else t) else spent

theorem pollClause_ok (who : Who) (ep : EpSt) (T t : Int) (rd : Bool) (h : waitCond T ep.spent t) :
    pollClause who ep T t rd = .ok { ep with spent := acc T ep.spent t rd } := by
  unfold waitCond at h
  unfold pollClause acc
  by_cases h1 : T < 0
  · rw [if_pos h1] at h
    have a : ¬ t ≥ 0 := by omega
    have b : ¬ 0 < T := by omega
    simp only [h1, a, b, if_true, if_false]
  · rw [if_neg h1] at h
    by_cases h2 : T = 0
    · rw [if_pos h2] at h
      subst h2
      subst h
      simp
    · rw [if_neg h2] at h
      have a : ¬ t < 0 := by omega
      have b : 0 < T := by omega
      have c : ¬ ep.spent + t > T := by omega
      simp only [h1, h2, a, b, c, if_true, if_false]

/-- the waits of a call, oldest first, satisfy the clause from `spent` on -/
def okO (T : Int) : Int → List OsRec → Prop
  | _, [] => True
  | sp, .send :: r => okO T sp r
  | sp, .wait t rd _ :: r => waitCond T sp t ∧ okO T (acc T sp t rd) r

theorem run_os (who : Who) (T : Int) : ∀ (l : List OsRec) (sp : SpecSt) (ep : EpSt) (tail : List Obs),
    sp.ep? who = some ep → ep.callT = some T → okO T ep.spent l →
    ∃ x, specRun sp (l.map (osObs who) ++ tail) = specRun (sp.setEp who { ep with spent := x }) tail := by
  intro l
  induction l with
  | nil => intro sp ep tail h _ _; exact ⟨ep.spent, by rw [setEp_self h]; rfl⟩
  | cons o rest ih =>
    intro sp ep tail h hT hok
    cases o with
    | send =>
      obtain ⟨x, hx⟩ := ih sp ep tail h hT hok
      refine ⟨x, ?_⟩
      simp only [List.map_cons, List.cons_append, specRun, osObs, specStep, sendNoSignal_true, if_true]
      exact hx
    | wait t rd b =>
      obtain ⟨hc, hrest⟩ := hok
      have hstep : specStep sp (.poll who t rd) = .ok (sp.setEp who { ep with spent := acc T ep.spent t rd }) := by
        have hp := pollClause_ok who ep T t rd hc
        simp only [specStep, onEp, h, hT, hp]
      obtain ⟨x, hx⟩ := ih (sp.setEp who { ep with spent := acc T ep.spent t rd }) { ep with spent := acc T ep.spent t rd } tail
        (ep?_setEp h) hT hrest
      refine ⟨x, ?_⟩
      simp only [List.map_cons, List.cons_append, specRun, osObs, hstep]
      rw [hx, setEp_setEp]

/-- outside a synchronous call (`callT = none`) the kernel events pass -/
theorem run_os_idle (who : Who) : ∀ (l : List OsRec) (sp : SpecSt) (tail : List Obs),
    (∀ ep, sp.ep? who = some ep → ep.callT = none) →
    specRun sp (l.map (osObs who) ++ tail) = specRun sp tail := by
  intro l
  induction l with
  | nil => intro sp tail _; rfl
  | cons o rest ih =>
    intro sp tail h
    cases o with
    | send =>
      simp only [List.map_cons, List.cons_append, specRun, osObs, specStep, sendNoSignal_true, if_true]
      exact ih sp tail h
    | wait t rd b =>
      have hstep : specStep sp (.poll who t rd) = .ok sp := by
        simp only [specStep, onEp]
        cases he : sp.ep? who with
        | none => rfl
        | some ep => simp only [h ep he, setEp_self he]
      simp only [List.map_cons, List.cons_append, specRun, osObs, hstep]
      exact ih sp tail h

/-- `lastDoneInit` after the engine answers `l` (oldest first) -/
def lastDI (d : Bool) : List EngCall → Bool
  | [] => d
  | c :: r => lastDI (c.ans.isDone && c.initAfter) r

theorem lastDI_snoc (d : Bool) (l : List EngCall) (c : EngCall) : lastDI d (l ++ [c]) = (c.ans.isDone && c.initAfter) := by
  induction l generalizing d with
  | nil => rfl
  | cons x r ih => exact ih _

theorem run_calls (who : Who) : ∀ (l : List EngCall) (sp : SpecSt) (ep : EpSt) (tail : List Obs),
    sp.ep? who = some ep →
    specRun sp (l.map (callObs who) ++ tail) = specRun (sp.setEp who { ep with lastDoneInit := lastDI ep.lastDoneInit l }) tail := by
  intro l
  induction l with
  | nil => intro sp ep tail h; rw [show ({ ep with lastDoneInit := lastDI ep.lastDoneInit [] } : EpSt) = ep from rfl, setEp_self h]; rfl
  | cons c rest ih =>
    intro sp ep tail h
    have hstep : specStep sp (callObs who c) = .ok (sp.setEp who { ep with lastDoneInit := c.ans.isDone && c.initAfter }) := by
      simp only [callObs, specStep]
      rw [onEp_some h]
    simp only [List.map_cons, List.cons_append, specRun, hstep]
    rw [ih _ { ep with lastDoneInit := c.ans.isDone && c.initAfter } tail (ep?_setEp h), setEp_setEp]
    rfl

/-! ### from the newest-first log of the model to the oldest-first run of the predicate -/

/-- what the timed-out waits of a log (any order) add up to -/
def spentOf : List OsRec → Int
  | [] => 0
  | .send :: r => spentOf r
  | .wait t rd _ :: r => spentOf r + (if rd then 0 else t)

/-- newest first: every wait satisfies the clause with what the OLDER waits consumed -/
def okN (T : Int) : List OsRec → Prop
  | [] => True
  | .send :: r => okN T r
  | .wait t _ _ :: r => waitCond T (if 0 < T then spentOf r else 0) t ∧ okN T r

def accL (T : Int) : Int → List OsRec → Int
  | sp, [] => sp
  | sp, .send :: r => accL T sp r
  | sp, .wait t rd _ :: r => accL T (acc T sp t rd) r

theorem accL_append (T : Int) (a b : List OsRec) : ∀ sp, accL T sp (a ++ b) = accL T (accL T sp a) b := by
  induction a with
  | nil => intro sp; rfl
  | cons x r ih => intro sp; cases x <;> simp only [List.cons_append, accL, ih]

theorem accL_rev (T : Int) (l : List OsRec) : accL T 0 l.reverse = if 0 < T then spentOf l else 0 := by
  induction l with
  | nil => simp [accL, spentOf]
  | cons x r ih =>
    rw [List.reverse_cons, accL_append, ih]
    cases x with
    | send => simp only [accL, spentOf]
    | wait t rd b =>
      simp only [accL, spentOf, acc]
      by_cases h : 0 < T <;> simp [h]

theorem okO_snoc (T : Int) (x : OsRec) : ∀ (l : List OsRec) (sp : Int), okO T sp l → okO T (accL T sp l) [x] → okO T sp (l ++ [x]) := by
  intro l
  induction l with
  | nil => intro sp _ h; exact h
  | cons y r ih =>
    intro sp h1 h2
    cases y with
    | send => exact ih sp h1 h2
    | wait t rd b => exact ⟨h1.1, ih _ h1.2 h2⟩

theorem okO_of_okN (T : Int) (l : List OsRec) (h : okN T l) : okO T 0 l.reverse := by
  induction l with
  | nil => trivial
  | cons x r ih =>
    rw [List.reverse_cons]
    cases x with
    | send => exact okO_snoc T _ _ _ (ih h) trivial
    | wait t rd b =>
      refine okO_snoc T _ _ _ (ih h.2) ?_
      rw [accL_rev]
      exact ⟨h.1, trivial⟩

/-! ### the kernel log and the wait log of `TlsLog` move in step; the virtual clock -/

/-- A-CLOCK of `Props/C18.lean` (`ClockOk`) and: a wait that times out has waited for its whole timeout (under the
virtual clock of the harness: exactly that long; the predicate's notion of "consumed" is this) -/
structure VClock (W : World ω) : Prop where
  ok : ClockOk W
  full : ∀ w d t, (W.wait w d t).1 = false → W.now w + t ≤ W.now (W.wait w d t).2

theorem VClock.obs {W : World ω} (h : VClock W) : ClockOk (obsWorld W) where
  wait_mono := fun x d t => h.ok.wait_mono x.1 d t
  wait_le := fun x d t ht => h.ok.wait_le x.1 d t ht
  send_now := fun x bs => h.ok.send_now x.1 bs
  recv_now := fun x n => h.ok.recv_now x.1 n

def waitPairs : List OsRec → List (Int × Int)
  | [] => []
  | .send :: r => waitPairs r
  | .wait t _ b :: r => (t, b) :: waitPairs r

/-- every wait was issued no earlier than entry + what the older waits consumed -/
def AllLB (c0 : Int) : List OsRec → Prop
  | [] => True
  | .send :: r => AllLB c0 r
  | .wait _ _ b :: r => c0 + spentOf r ≤ b ∧ AllLB c0 r

def LInv (W : World ω) (c0 : Int) (x : (ω × List OsRec) × List WaitRec) : Prop :=
  x.2.map (fun r => (r.timeout, r.before)) = waitPairs x.1.2 ∧ AllLB c0 x.1.2 ∧ c0 + spentOf x.1.2 ≤ W.now x.1.1

theorem lInv_world {W : World ω} (hW : VClock W) (c0 : Int) : WorldInv (logWorld (obsWorld W)) (LInv W c0) where
  wait := by
    intro x d t ⟨h1, h2, h3⟩
    refine ⟨?_, ⟨h3, h2⟩, ?_⟩
    · show (t, W.now x.1.1) :: x.2.map (fun r => (r.timeout, r.before)) = (t, W.now x.1.1) :: waitPairs x.1.2
      rw [h1]
    · show c0 + (spentOf x.1.2 + (if (W.wait x.1.1 d t).1 then 0 else t)) ≤ W.now (W.wait x.1.1 d t).2
      have hm := hW.ok.wait_mono x.1.1 d t
      cases hr : (W.wait x.1.1 d t).1 with
      | true => simp only [if_true]; omega
      | false => have := hW.full x.1.1 d t hr; simp only [Bool.false_eq_true, if_false]; omega
  send := by
    intro x bs ⟨h1, h2, h3⟩
    refine ⟨h1, h2, ?_⟩
    show c0 + spentOf x.1.2 ≤ W.now (W.send x.1.1 bs).2
    rw [hW.ok.send_now]; exact h3
  recv := by
    intro x n ⟨h1, h2, h3⟩
    refine ⟨h1, h2, ?_⟩
    show c0 + spentOf x.1.2 ≤ W.now (W.recv x.1.1 n).2
    rw [hW.ok.recv_now]; exact h3

/-- a predicate on the world that every OS call keeps is a frame predicate of the glue -/
theorem frame_of_worldInv {W : World ω} {I : ω → Prop} (V : WorldInv W I) : Frame W (fun s : St σ ω => I s.w) where
  core := by intro s s' h hc; rw [hc.1]; exact h
  wait := by intro s d h; exact V.wait s.w d _ h
  bioRead := by
    intro s n h
    obtain ⟨_, _, _, _, _, _, _, cw⟩ := bioRead_core (W := W) s n
    rcases cw with cw | cw
    · rw [cw]; exact V.recvNow s.w n h
    · rw [cw]; exact V.receive s.w n _ h
  bioWrite := by
    intro s bs h
    unfold Tls.bioWrite
    have nw : ∀ (s0 : St σ ω) (r : SendRes ω) (rem : Int), I r.w → I (noteWrite s0 bs r rem).2.w := by
      intro s0 r rem hr; unfold noteWrite; split <;> exact hr
    split
    · exact nw _ _ _ (V.sendNow _ bs h)
    · split
      · exact nw _ _ _ (V.sendAll _ bs 0 h)
      · split
        · exact nw _ _ _ (V.sendTry _ bs h)
        · exact nw _ _ _ (V.sendSome _ bs _ _ 0 h)

theorem okN_of (T c0 : Int) : ∀ (l : List OsRec), (0 < T → AllLB c0 l) →
    (∀ p ∈ waitPairs l, (T < 0 → p.1 < 0) ∧ (T = 0 → p.1 = 0) ∧ (0 < T → 0 ≤ p.1 ∧ p.1 ≤ T - (p.2 - c0))) → okN T l := by
  intro l
  induction l with
  | nil => intro _ _; trivial
  | cons x r ih =>
    intro hlb hp
    cases x with
    | send => exact ih hlb hp
    | wait t rd b =>
      have hr := ih (fun h => (hlb h).2) (fun p hm => hp p (List.mem_cons_of_mem _ hm))
      refine ⟨?_, hr⟩
      obtain ⟨p1, p2, p3⟩ := hp (t, b) (List.mem_cons_self ..)
      unfold waitCond
      by_cases h1 : T < 0
      · rw [if_pos h1]; exact p1 h1
      · rw [if_neg h1]
        by_cases h2 : T = 0
        · rw [if_pos h2]; exact p2 h2
        · have hT : 0 < T := by omega
          rw [if_neg h2, if_pos hT]
          have := (hlb hT).1
          have := p3 hT
          simp only at *
          omega

/-- the three budget theorems of `Props/C18.lean`, read off the kernel log -/
theorem polls_core {W : World ω} (c0 T : Int) (x : (ω × List OsRec) × List WaitRec) (hI : LInv W c0 x)
    (hb : ∀ r ∈ x.2, (T < 0 → r.timeout < 0) ∧ (T = 0 → r.timeout = 0) ∧
      (0 < T → 0 ≤ r.timeout ∧ r.timeout ≤ T - (r.before - c0))) : okN T x.1.2 := by
  obtain ⟨h1, h2, _⟩ := hI
  refine okN_of T c0 _ (fun _ => h2) ?_
  intro p hp
  rw [← h1] at hp
  obtain ⟨r, hr, rfl⟩ := List.mem_map.mp hp
  exact hb r hr

/-- the three budget frames of `Model/TlsBudget.lean` at the end of a call that started with empty logs -/
theorem polls_of_frames {W : World ω} (T c0 : Int) (sL : LSt σ (ω × List OsRec)) (hI : LInv W c0 sL.w)
    (h1 : T < 0 → UnlInv T [] sL) (h2 : T = 0 → ZeroInv (obsWorld W) [] c0 sL)
    (h3 : 0 < T → LimGood (obsWorld W) (c0 + T) [] sL ∨ LimWeak (obsWorld W) (c0 + T) [] sL) : okN T sL.w.1.2 := by
  refine polls_core c0 T sL.w hI ?_
  intro r hr
  refine ⟨?_, ?_, ?_⟩
  · intro hT
    obtain ⟨_, new, hn, ha⟩ := h1 hT
    rw [hn, List.append_nil] at hr
    rcases ha r hr with h | h <;> omega
  · intro hT
    obtain ⟨_, ⟨new, hn, ha⟩, _⟩ := h2 hT
    rw [hn, List.append_nil] at hr
    exact ha r hr
  · intro hT
    have key : LogAll (InBudget (c0 + T)) [] sL.w.2 := by
      rcases h3 hT with h | h
      · exact h.2.2.1
      · exact h.2.2
    obtain ⟨new, hn, ha⟩ := key
    rw [hn, List.append_nil] at hr
    obtain ⟨a, b⟩ := ha r hr
    exact ⟨a, by omega⟩

theorem lInv_start {W : World ω} (s : MSt σ ω) (hs : s.w.2 = []) : LInv W (W.now s.w.1) (withLog s ([] : List WaitRec)).w := by
  show LInv W (W.now s.w.1) (s.w, [])
  refine ⟨?_, ?_, ?_⟩
  · rw [hs]; rfl
  · rw [hs]; trivial
  · rw [hs]; show W.now s.w.1 + 0 ≤ W.now s.w.1; omega

theorem recv_polls (V : Env σ ω) (hW : VClock V.W) (hFS : V.E.FailStop) (s : MSt σ ω) (hs : s.w.2 = [])
    (hp : s.g.pendingError = none) (n : Nat) (T : Int) :
    okN T (receiveT V.C (obsWorld V.W) V.E s n T).2.w.2 := by
  have hu := (receiveT_unlog V.C (obsWorld V.W) V.E (withLog s []) n T).2
  have hw : (receiveT V.C (obsWorld V.W) V.E s n T).2.w =
      (receiveT V.C (logWorld (obsWorld V.W)) V.E (withLog s []) n T).2.w.1 := (congrArg (fun z => z.w) hu).symm
  rw [hw]
  have F := frame_of_worldInv (σ := σ) (lInv_world hW (V.W.now s.w.1))
  have hI := F.receiveT V.C V.E (withLog s []) n T (lInv_start s hs)
  refine polls_of_frames T (V.W.now s.w.1) _ hI ?_ ?_ ?_
  · intro hT
    exact post_same ((unlFrame (σ := σ) (obsWorld V.W) V.E T hT []).receiveT V.C (withLog s []) n T ⟨rfl, LogAll.refl _⟩)
  · intro hT
    subst hT
    exact post_same ((zeroFrame (σ := σ) (obsWorld V.W) V.E [] (V.W.now s.w.1)).receiveT V.C (withLog s []) n 0
      ⟨rfl, LogAll.refl _, fun _ => rfl⟩)
  · intro hT
    have h := (limFrame (σ := σ) hW.obs V.E hFS (V.W.now s.w.1 + T) []).receiveT V.C (withLog s []) n T
      ⟨Int.le_of_lt hT, Int.le_refl _, LogAll.refl _, hp⟩
    rcases h with h | ⟨h, _⟩
    · exact Or.inl h
    · exact Or.inr h

theorem send_polls (V : Env σ ω) (hW : VClock V.W) (hFS : V.E.FailStop) (s : MSt σ ω) (hs : s.w.2 = [])
    (hp : s.g.pendingError = none) (data : Bytes) (T : Int) :
    okN T (sendT V.C (obsWorld V.W) V.E s data T).2.w.2 := by
  have hu := (sendT_unlog V.C (obsWorld V.W) V.E (withLog s []) data T).2
  have hw : (sendT V.C (obsWorld V.W) V.E s data T).2.w =
      (sendT V.C (logWorld (obsWorld V.W)) V.E (withLog s []) data T).2.w.1 := (congrArg (fun z => z.w) hu).symm
  rw [hw]
  have F := frame_of_worldInv (σ := σ) (lInv_world hW (V.W.now s.w.1))
  have hI := F.sendT V.C V.E (withLog s []) data T (lInv_start s hs)
  refine polls_of_frames T (V.W.now s.w.1) _ hI ?_ ?_ ?_
  · intro hT
    exact post_same ((unlFrame (σ := σ) (obsWorld V.W) V.E T hT []).sendT V.C (withLog s []) data T ⟨rfl, LogAll.refl _⟩)
  · intro hT
    subst hT
    exact post_same ((zeroFrame (σ := σ) (obsWorld V.W) V.E [] (V.W.now s.w.1)).sendT V.C (withLog s []) data 0
      ⟨rfl, LogAll.refl _, fun _ => rfl⟩)
  · intro hT
    have h := (limFrame (σ := σ) hW.obs V.E hFS (V.W.now s.w.1 + T) []).sendT V.C (withLog s []) data T
      ⟨Int.le_of_lt hT, Int.le_refl _, LogAll.refl _, hp⟩
    rcases h with h | ⟨h, _⟩
    · exact Or.inl h
    · exact Or.inr h

/-- with a fail-stop engine no callback failure stays stashed across calls (`Props/C18.lean: no_failure_left_stashed`) -/
theorem stash_none (V : Env σ ω) (hFS : V.E.FailStop) (s : MSt σ ω) (hp : s.g.pendingError = none) :
    (∀ n t, (receiveT V.C (obsWorld V.W) V.E s n t).2.g.pendingError = none) ∧
    (∀ d t, (sendT V.C (obsWorld V.W) V.E s d t).2.g.pendingError = none) := by
  have F := noStashFrame (obsWorld V.W) V.E hFS
  have fin : ∀ {α : Type} {o : Out α} {s' : MSt σ ω},
      Post (fun s : MSt σ ω => s.g.pendingError = none) (fun _ => True) o s' → s'.g.pendingError = none := by
    intro α o s' h
    rcases h with h | ⟨_, h, _⟩ <;> exact h
  exact ⟨fun n t => fin (F.receiveT V.C s n t hp), fun d t => fin (F.sendT V.C s d t hp)⟩

/-! ### what a `Read` that hands out bytes leaves in the engine-call log -/

theorem readRound_done {W : World ω} (C : Cfg) (E : Engine σ) (Q : SslAns → Bytes → σ → Prop)
    (size : Nat) (hq : ∀ s, AllLeaves Q (E.sslRead s size)) (i : Nat) (s s' : St σ ω) (bs : Bytes)
    (h : readRound C W E size i s = (some (.ok bs), s')) :
    bs = [] ∨ ∃ k rest, Q (.done k) bs s'.e ∧ s'.g.engCalls = ⟨true, [], .done k, E.initFinished s'.e⟩ :: rest := by
  have hs := interp_spec (W := W) Q _ (hq s.e) s
  unfold readRound at h
  rcases hi : interp W s (E.sslRead s.e size) with ⟨o, s1⟩
  rw [hi] at h hs
  cases o with
  | exn e => simp at h
  | abort m => simp at h
  | ok p =>
    obtain ⟨ans, out⟩ := p
    simp only at h
    cases ans with
    | done k =>
      simp only [Prod.mk.injEq, Option.some.injEq, Out.ok.injEq] at h
      obtain ⟨h1, h2⟩ := h
      subst h1; subst h2
      right
      exact ⟨k, s1.g.engCalls, hs.2.2.1 _ _ rfl, rfl⟩
    | _ =>
      simp only at h
      split at h
      · simp at h
      · simp at h
      · simp only [Prod.mk.injEq, Option.some.injEq, Out.ok.injEq] at h
        left; exact h.1.symm
      · split at h <;> simp at h

theorem readLoop_done {W : World ω} (C : Cfg) (E : Engine σ) (Q : SslAns → Bytes → σ → Prop)
    (size : Nat) (hq : ∀ s, AllLeaves Q (E.sslRead s size)) :
    ∀ (i : Nat) (s s' : St σ ω) (bs : Bytes), readLoop C W E size i s = (.ok bs, s') →
      bs = [] ∨ ∃ k rest, Q (.done k) bs s'.e ∧ s'.g.engCalls = ⟨true, [], .done k, E.initFinished s'.e⟩ :: rest := by
  intro i
  induction i with
  | zero => intro s s' bs h; simp only [readLoop, Prod.mk.injEq, Out.ok.injEq] at h; left; exact h.1.symm
  | succ i ih =>
    intro s s' bs h
    unfold readLoop at h
    split at h
    · rename_i o s1 heq
      simp only [Prod.mk.injEq] at h
      obtain ⟨rfl, rfl⟩ := h
      exact readRound_done C E Q size hq i s _ bs heq
    · rename_i s1 heq
      exact ih s1 s' bs h

theorem tlsRead_done {W : World ω} (C : Cfg) (E : Engine σ) (Q : SslAns → Bytes → σ → Prop)
    (size : Nat) (hq : ∀ s, AllLeaves Q (E.sslRead s size)) (s s' : St σ ω) (bs : Bytes)
    (h : tlsRead C W E s size = (.ok bs, s')) :
    bs = [] ∨ ∃ k rest, Q (.done k) bs s'.e ∧ s'.g.engCalls = ⟨true, [], .done k, E.initFinished s'.e⟩ :: rest := by
  unfold tlsRead at h
  split at h
  · exact readLoop_done C E Q size hq _ _ s' bs h
  · simp only [Prod.mk.injEq, Out.ok.injEq] at h; left; exact h.1.symm
  · simp at h
  · simp at h

theorem receiveT_done {W : World ω} (C : Cfg) (E : Engine σ) (Q : SslAns → Bytes → σ → Prop)
    (size : Nat) (hq : ∀ s, AllLeaves Q (E.sslRead s size)) (s s' : St σ ω) (t : Int) (bs : Bytes) (hbs : bs ≠ [])
    (h : receiveT C W E s size t = (.ok bs, s')) :
    ∃ k rest, Q (.done k) bs s'.e ∧ s'.g.engCalls = ⟨true, [], .done k, E.initFinished s'.e⟩ :: rest := by
  unfold receiveT at h
  split at h
  · split at h
    · simp at h
    · split at h <;> (simp only [Prod.mk.injEq, Out.ok.injEq] at h; exact absurd h.1.symm hbs)
  · rcases tlsRead_done C E Q size hq _ s' bs h with h0 | h0
    · exact absurd h0 hbs
    · exact h0

theorem receiveReadable_done {W : World ω} (C : Cfg) (E : Engine σ) (Q : SslAns → Bytes → σ → Prop)
    (size : Nat) (hq : ∀ s, AllLeaves Q (E.sslRead s size)) (s s' : St σ ω) (bs : Bytes) (hbs : bs ≠ [])
    (h : receiveReadable C W E s size = (.ok bs, s')) :
    ∃ k rest, Q (.done k) bs s'.e ∧ s'.g.engCalls = ⟨true, [], .done k, E.initFinished s'.e⟩ :: rest := by
  unfold receiveReadable at h
  split at h
  · split at h <;> (simp only [Prod.mk.injEq, Out.ok.injEq] at h; exact absurd h.1.symm hbs)
  · rcases tlsRead_done C E Q size hq _ s' bs h with h0 | h0
    · exact absurd h0 hbs
    · exact h0

/-! ### one synchronous call -/

/-- **the engine contract (A-SSL)** the theorem needs, decidable on finite instances:
* `read`: an `SSL_read` hands out plaintext (`done`) only once the handshake is finished, and never when the peer does
  not speak TLS (the `plain` scenarios);
* `failStop` (`Model/TlsBudget.lean`): after a failed BIO callback the engine makes no further BIO call and reports
  no success, and it never writes zero bytes - needed by the limited budget (`Props/C18.lean:
  stale_budget_after_callback_failure`, `stale_budget_after_empty_write` show what happens otherwise). -/
structure EngOk (E : Engine σ) (plain : Bool) : Prop where
  read : ∀ s n, AllLeaves (fun a _ s' => a.isDone = true → (E.initFinished s' = true ∧ plain = false)) (E.sslRead s n)
  failStop : E.FailStop

theorem api_step (sp : SpecSt) (who : Who) (e : EpSt) (h : sp.ep? who = some e) (isRecv : Bool) (T : Int) :
    specStep sp (.api who (if isRecv then .recv else .send) (some T)) =
      .ok (sp.setEp who { e with recvOp := isRecv, callT := some T, spent := 0 }) := by
  cases isRecv <;> simp [specStep, onEp, h] <;> rfl

theorem specRun_cons_ok {s s' : SpecSt} {o : Obs} (h : specStep s o = .ok s') (rest : List Obs) :
    specRun s (o :: rest) = specRun s' rest := by
  simp only [specRun, h]

theorem ok_recv (V : Env σ ω) (hW : VClock V.W) {plain : Bool} (hE : EngOk V.E plain) (who : Who) (ep : Ep σ ω) (T : Int)
    (sp : SpecSt) (e : EpSt) (tail : List Obs) (hsp : sp.ep? who = some e) (hpl : sp.plain = plain)
    (hst : ep.st.g.pendingError = none)
    (hna : ∀ m, (receiveT V.C (obsWorld V.W) V.E (fresh ep.st) ep.rsz T).1 ≠ .abort m) :
    ∃ e', specRun sp ((epRecv V who ep T).2 ++ tail) = specRun (sp.setEp who e') tail ∧
      e'.async = e.async ∧ e'.discSeen = e.discSeen ∧ e'.callT = none ∧
      (epRecv V who ep T).1.st.g.pendingError = none := by
  have hpoll := recv_polls V hW hE.failStop (fresh ep.st) rfl hst ep.rsz T
  have hstash := (stash_none V hE.failStop (fresh ep.st) hst).1 ep.rsz T
  have hdone := fun bs s' hbs h => receiveT_done (W := obsWorld V.W) V.C V.E _ ep.rsz (fun s => hE.read s ep.rsz) (fresh ep.st) s' T bs hbs h
  simp only [epRecv]
  generalize receiveT V.C (obsWorld V.W) V.E (fresh ep.st) ep.rsz T = r at hpoll hstash hna hdone
  let e1 : EpSt := { e with recvOp := true, callT := some T, spent := 0 }
  have h1 : specStep sp (.api who .recv (some T)) = .ok (sp.setEp who e1) := api_step sp who e hsp true T
  obtain ⟨x, hx⟩ := run_os who T r.2.w.2.reverse (sp.setEp who e1) e1
    (r.2.g.engCalls.reverse.map (callObs who) ++ ([recvRet who r.1] ++ tail)) (ep?_setEp hsp) rfl (okO_of_okN T _ hpoll)
  let e2 : EpSt := { e1 with spent := x }
  have hc := run_calls who r.2.g.engCalls.reverse ((sp.setEp who e1).setEp who e2) e2 ([recvRet who r.1] ++ tail)
    (ep?_setEp (ep?_setEp hsp))
  let e3 : EpSt := { e2 with lastDoneInit := lastDI e2.lastDoneInit r.2.g.engCalls.reverse }
  have hrun : specRun sp (.api who .recv (some T) :: (evObs who r.2 ++ [recvRet who r.1]) ++ tail) =
      specRun (sp.setEp who e3) ([recvRet who r.1] ++ tail) := by
    rw [List.cons_append, specRun_cons_ok h1]
    rw [show (evObs who r.2 ++ [recvRet who r.1]) ++ tail = r.2.w.2.reverse.map (osObs who) ++
      (r.2.g.engCalls.reverse.map (callObs who) ++ ([recvRet who r.1] ++ tail)) by simp only [evObs, List.append_assoc]]
    rw [hx, hc, setEp_setEp, setEp_setEp]
  rw [hrun]
  have he3 : (sp.setEp who e3).ep? who = some e3 := ep?_setEp hsp
  have hret : ∀ (e4 : EpSt) (rr : Ret), recvRet who r.1 = .ret who rr → retClause who plain e3 rr = .ok e4 →
      specRun (sp.setEp who e3) ([recvRet who r.1] ++ tail) = specRun (sp.setEp who e4) tail := by
    intro e4 rr hxr h4
    have hstep : specStep (sp.setEp who e3) (.ret who rr) = .ok (sp.setEp who e4) := by
      simp only [specStep]
      rw [onEp_some he3, plain_setEp, hpl, h4]
      simp only [setEp_setEp]
    rw [hxr]
    exact specRun_cons_ok hstep tail
  rcases r with ⟨o, s'⟩
  cases o with
  | abort m => exact absurd rfl (hna m)
  | exn ex =>
    exact ⟨{ e3 with threw := true, callT := none }, hret _ .threw rfl rfl, rfl, rfl, rfl, hstash⟩
  | ok bs =>
    cases bs with
    | nil => exact ⟨{ e3 with callT := none }, hret _ .other rfl rfl, rfl, rfl, rfl, hstash⟩
    | cons b bs =>
      obtain ⟨k, rest, hQ, hcalls⟩ := hdone (b :: bs) s' (by simp) rfl
      obtain ⟨hq, hp⟩ := hQ rfl
      have hl : lastDI e.lastDoneInit (s'.g.engCalls.reverse) = true := by
        rw [hcalls, List.reverse_cons, lastDI_snoc]
        simp [SslAns.isDone, hq]
      refine ⟨{ e3 with callT := none }, hret _ (.n (b :: bs).length) rfl ?_, rfl, rfl, rfl, hstash⟩
      subst hp
      simp only [retClause]
      simp [e3, e2, e1, hl]

theorem ok_send (V : Env σ ω) (hW : VClock V.W) {plain : Bool} (hE : EngOk V.E plain) (who : Who) (ep : Ep σ ω)
    (data : Bytes) (T : Int) (sp : SpecSt) (e : EpSt) (tail : List Obs) (hsp : sp.ep? who = some e)
    (hst : ep.st.g.pendingError = none)
    (hna : ∀ m, (sendT V.C (obsWorld V.W) V.E (fresh ep.st) data T).1 ≠ .abort m) :
    ∃ e', specRun sp ((epSend V who ep data T).2 ++ tail) = specRun (sp.setEp who e') tail ∧
      e'.async = e.async ∧ e'.discSeen = e.discSeen ∧ e'.callT = none ∧
      (epSend V who ep data T).1.st.g.pendingError = none := by
  have hpoll := send_polls V hW hE.failStop (fresh ep.st) rfl hst data T
  have hstash := (stash_none V hE.failStop (fresh ep.st) hst).2 data T
  simp only [epSend]
  generalize sendT V.C (obsWorld V.W) V.E (fresh ep.st) data T = r at hpoll hstash hna
  let e1 : EpSt := { e with recvOp := false, callT := some T, spent := 0 }
  have h1 : specStep sp (.api who .send (some T)) = .ok (sp.setEp who e1) := api_step sp who e hsp false T
  obtain ⟨x, hx⟩ := run_os who T r.2.w.2.reverse (sp.setEp who e1) e1
    (r.2.g.engCalls.reverse.map (callObs who) ++ ([sendRet who r.1] ++ tail)) (ep?_setEp hsp) rfl (okO_of_okN T _ hpoll)
  let e2 : EpSt := { e1 with spent := x }
  have hc := run_calls who r.2.g.engCalls.reverse ((sp.setEp who e1).setEp who e2) e2 ([sendRet who r.1] ++ tail)
    (ep?_setEp (ep?_setEp hsp))
  let e3 : EpSt := { e2 with lastDoneInit := lastDI e2.lastDoneInit r.2.g.engCalls.reverse }
  have hrun : specRun sp (.api who .send (some T) :: (evObs who r.2 ++ [sendRet who r.1]) ++ tail) =
      specRun (sp.setEp who e3) ([sendRet who r.1] ++ tail) := by
    rw [List.cons_append, specRun_cons_ok h1]
    rw [show (evObs who r.2 ++ [sendRet who r.1]) ++ tail = r.2.w.2.reverse.map (osObs who) ++
      (r.2.g.engCalls.reverse.map (callObs who) ++ ([sendRet who r.1] ++ tail)) by simp only [evObs, List.append_assoc]]
    rw [hx, hc, setEp_setEp, setEp_setEp]
  rw [hrun]
  have he3 : (sp.setEp who e3).ep? who = some e3 := ep?_setEp hsp
  have hret : ∀ (e4 : EpSt) (rr : Ret), sendRet who r.1 = .ret who rr → retClause who sp.plain e3 rr = .ok e4 →
      specRun (sp.setEp who e3) ([sendRet who r.1] ++ tail) = specRun (sp.setEp who e4) tail := by
    intro e4 rr hxr h4
    have hstep : specStep (sp.setEp who e3) (.ret who rr) = .ok (sp.setEp who e4) := by
      simp only [specStep]
      rw [onEp_some he3, plain_setEp, h4]
      simp only [setEp_setEp]
    rw [hxr]
    exact specRun_cons_ok hstep tail
  rcases r with ⟨o, s'⟩
  cases o with
  | abort m => exact absurd rfl (hna m)
  | exn ex => exact ⟨{ e3 with threw := true, callT := none }, hret _ .threw rfl rfl, rfl, rfl, rfl, hstash⟩
  | ok n =>
    refine ⟨{ e3 with callT := none }, hret _ (.n n) rfl ?_, rfl, rfl, rfl, hstash⟩
    simp [retClause, e3, e2, e1]

/-! ### one step of the driver on an asynchronous endpoint -/

theorem driverQuery_keeps (E : Engine σ) (s : St σ ω) (po : Bool) :
    (driverQuery E s po).2.g.engCalls = s.g.engCalls ∧ (driverQuery E s po).2.w = s.w := by
  unfold driverQuery
  split
  · split
    · exact ⟨rfl, rfl⟩
    · split <;> exact ⟨rfl, rfl⟩
  · split <;> exact ⟨rfl, rfl⟩

theorem aQuery_fields (E : Engine σ) (x : ASt σ ω) :
    (aQuery E x).a.delivered = x.a.delivered ∧ (aQuery E x).a.disconnects = x.a.disconnects ∧
    (aQuery E x).a.registered = x.a.registered ∧ (aQuery E x).s.g.engCalls = x.s.g.engCalls ∧ (aQuery E x).s.w = x.s.w := by
  unfold aQuery
  split
  · exact ⟨rfl, rfl, rfl, rfl, rfl⟩
  · have hk := driverQuery_keeps E x.s x.a.pollOut
    rcases hq : driverQuery E x.s x.a.pollOut with ⟨po, s'⟩
    rw [hq] at hk
    exact ⟨rfl, rfl, rfl, hk.1, hk.2⟩

/-- what a task does to the ghost lists the observations are read from: at most one buffer is delivered - a non-empty
one, after an engine answer `done` with the handshake finished and a TLS peer -, at most one disconnect, and only
of a registered socket, which it unregisters -/
theorem aTask_facts {W : World ω} (C : Cfg) (E : Engine σ) {plain : Bool} (hE : EngOk E plain) (rsz : Nat)
    (x : ASt σ ω) (rev : REvents) :
    let r := aTask C W E rsz x rev
    (r.2.a.delivered = x.a.delivered ∨
      ∃ bs k rest, bs ≠ [] ∧ r.2.a.delivered = bs :: x.a.delivered ∧ plain = false ∧
        r.2.s.g.engCalls = ⟨true, [], .done k, true⟩ :: rest) ∧
    ((r.2.a.disconnects = x.a.disconnects ∧ (r.2.a.registered = true → x.a.registered = true)) ∨
      (x.a.registered = true ∧ r.2.a.disconnects = x.a.disconnects + 1 ∧ r.2.a.registered = false ∧
        r.2.a.delivered = x.a.delivered)) := by
  intro r
  show (_ ∨ _) ∧ (_ ∨ _)
  simp only [r]
  unfold aTask
  by_cases hreg : x.a.registered = true
  · rw [if_neg (by simp [hreg])]
    split
    · -- readable
      unfold aReadable
      split
      · exact ⟨Or.inl rfl, Or.inl ⟨rfl, fun h => h⟩⟩
      · rename_i bs s' hne heq
        have hbs : bs ≠ [] := hne
        obtain ⟨k, rest, hQ, hcalls⟩ := receiveReadable_done C E _ rsz (fun s => hE.read s rsz) x.s s' bs hbs heq
        obtain ⟨hq, hp⟩ := hQ rfl
        refine ⟨Or.inr ⟨bs, k, rest, hbs, rfl, hp, ?_⟩, Or.inl ⟨rfl, fun h => h⟩⟩
        rw [hcalls, hq]
      · split
        · exact ⟨Or.inl rfl, Or.inr ⟨hreg, rfl, rfl, rfl⟩⟩
        · exact ⟨Or.inl rfl, Or.inl ⟨rfl, fun h => h⟩⟩
      · exact ⟨Or.inl rfl, Or.inl ⟨rfl, fun h => h⟩⟩
    · split
      · -- writable
        unfold aWritable
        split
        · split <;> exact ⟨Or.inl rfl, Or.inl ⟨rfl, fun h => h⟩⟩
        · split
          · split <;> exact ⟨Or.inl rfl, Or.inl ⟨rfl, fun h => h⟩⟩
          · split <;> exact ⟨Or.inl rfl, Or.inl ⟨rfl, fun h => h⟩⟩
          · exact ⟨Or.inl rfl, Or.inl ⟨rfl, fun h => h⟩⟩
      · split
        · exact ⟨Or.inl rfl, Or.inr ⟨hreg, rfl, rfl, rfl⟩⟩
        · exact ⟨Or.inl rfl, Or.inl ⟨rfl, fun h => h⟩⟩
  · rw [if_pos (by simp [hreg])]
    exact ⟨Or.inl rfl, Or.inl ⟨rfl, fun h => h⟩⟩

theorem drv_none (sp : SpecSt) (who : Who) : sp.ep? (drv who) = none := by cases who <;> rfl

theorem rx_ok (sp : SpecSt) (who : Who) (e : EpSt) (n : Nat) (h : sp.ep? who = some e) (hl : e.lastDoneInit = true)
    (hp : sp.plain = false) (hn : n ≠ 0) : specStep sp (.rx who n) = .ok sp := by
  simp only [specStep]
  rw [onEp_some h]
  simp [rxClause, hn, hl, hp, setEp_self h]

theorem disc_ok (sp : SpecSt) (who : Who) (e : EpSt) (h : sp.ep? who = some e) (h0 : e.discSeen = 0) :
    specStep sp (.disc who) = .ok (sp.setEp who { e with discSeen := 1 }) := by
  simp only [specStep]
  rw [onEp_some h]
  simp [discClause, h0]

theorem ok_step (V : Env σ ω) {plain : Bool} (hE : EngOk V.E plain) (who : Who) (ep : Ep σ ω) (rev : REvents) (first : Bool)
    (sp : SpecSt) (e : EpSt) (tail : List Obs) (hsp : sp.ep? who = some e) (hpl : sp.plain = plain)
    (hidle : e.callT = none) (hdisc : e.discSeen = ep.a.disconnects) (hreg : ep.a.registered = true → ep.a.disconnects = 0)
    (hna : ∀ o ∈ (epStep V who ep rev first).2, o.isAbort = false) :
    ∃ e', specRun sp ((epStep V who ep rev first).2 ++ tail) = specRun (sp.setEp who e') tail ∧
      e'.async = e.async ∧ e'.callT = none ∧ e'.discSeen = (epStep V who ep rev first).1.a.disconnects ∧
      ((epStep V who ep rev first).1.a.registered = true → (epStep V who ep rev first).1.a.disconnects = 0) := by
  simp only [epStep] at hna ⊢
  have hq := aQuery_fields V.E ({ a := ep.a, s := fresh ep.st } : ASt σ (ω × List OsRec))
  generalize aQuery V.E { a := ep.a, s := fresh ep.st } = q at hq hna ⊢
  obtain ⟨q1, q2, q3, _, _⟩ := hq
  simp only at q1 q2 q3
  have hf := aTask_facts (W := obsWorld V.W) V.C V.E hE ep.rsz q (if first = true then forcedRev V.E q rev else rev)
  dsimp only at hf
  generalize aTask V.C (obsWorld V.W) V.E ep.rsz q (if first = true then forcedRev V.E q rev else rev) = r at hf hna ⊢
  obtain ⟨hD, hX⟩ := hf
  rw [q1] at hD
  rw [q2, q3] at hX
  -- the driver's own lines and the events of the task
  let e2 : EpSt := { e with lastDoneInit := lastDI e.lastDoneInit r.2.s.g.engCalls.reverse }
  have hhead : ∀ (RX DISC : List Obs), specRun sp (.api (drv who) .other none ::
        (evObs who r.2.s ++ RX ++ DISC ++ [stepRet who r.1]) ++ tail) =
      specRun (sp.setEp who e2) (RX ++ (DISC ++ ([stepRet who r.1] ++ tail))) := by
    intro RX DISC
    have h1 : specStep sp (.api (drv who) .other none) = .ok sp := by simp [specStep, onEp, drv_none]
    rw [List.cons_append, specRun_cons_ok h1]
    rw [show (evObs who r.2.s ++ RX ++ DISC ++ [stepRet who r.1]) ++ tail = r.2.s.w.2.reverse.map (osObs who) ++
      (r.2.s.g.engCalls.reverse.map (callObs who) ++ (RX ++ (DISC ++ ([stepRet who r.1] ++ tail)))) by
        simp only [evObs, List.append_assoc]]
    rw [run_os_idle who _ sp _ (by intro ep' h'; rw [hsp] at h'; cases h'; exact hidle)]
    rw [run_calls who _ sp e _ hsp]
  have he2 : (sp.setEp who e2).ep? who = some e2 := ep?_setEp hsp
  have hretok : ∀ (sp' : SpecSt), specRun sp' ([stepRet who r.1] ++ tail) = specRun sp' tail := by
    intro sp'
    have hnr : (stepRet who r.1).isAbort = false := hna _ (by simp)
    have : specStep sp' (stepRet who r.1) = .ok sp' := by
      rcases r with ⟨o, x'⟩
      cases o with
      | ok u => simp [stepRet, specStep, onEp, drv_none]
      | exn ex => simp [stepRet, specStep, onEp, drv_none]
      | abort m => simp [stepRet, Obs.isAbort] at hnr
    exact specRun_cons_ok this tail
  rcases hD with hD | ⟨bs, k, rest, hbs, hD, hpf, hcalls⟩
  · -- nothing delivered
    have hnew : (r.2.a.delivered.take (r.2.a.delivered.length - ep.a.delivered.length)).reverse = [] := by
      rw [hD]; simp
    rw [hnew]
    rcases hX with ⟨hX, hX2⟩ | ⟨hr, hX, hX2, _⟩
    · have hnd : r.2.a.disconnects - ep.a.disconnects = 0 := by omega
      rw [hnd]
      refine ⟨e2, ?_, rfl, hidle, ?_, ?_⟩
      · have := hhead [] []
        simp only [List.map_nil, List.append_nil, List.replicate_zero, List.nil_append] at this ⊢
        rw [this, hretok]
      · show e.discSeen = r.2.a.disconnects; omega
      · intro h; have := hreg (hX2 h); show r.2.a.disconnects = 0; omega
    · have hnd : r.2.a.disconnects - ep.a.disconnects = 1 := by omega
      rw [hnd]
      have h0 : e2.discSeen = 0 := by show e.discSeen = 0; have := hreg hr; omega
      refine ⟨{ e2 with discSeen := 1 }, ?_, rfl, hidle, ?_, ?_⟩
      · have := hhead [] [.disc who]
        simp only [List.map_nil, List.append_nil, List.nil_append, List.replicate_one] at this ⊢
        rw [this]
        rw [show [Obs.disc who] ++ ([stepRet who r.1] ++ tail) = Obs.disc who :: ([stepRet who r.1] ++ tail) from rfl]
        rw [specRun_cons_ok (disc_ok _ who e2 he2 h0), hretok, setEp_setEp]
      · show 1 = r.2.a.disconnects; have := hreg hr; omega
      · intro h; rw [hX2] at h; cases h
  · -- one buffer delivered
    have hnew : (r.2.a.delivered.take (r.2.a.delivered.length - ep.a.delivered.length)).reverse = [bs] := by
      rw [hD]; simp
    rw [hnew]
    have hl : e2.lastDoneInit = true := by
      show lastDI e.lastDoneInit r.2.s.g.engCalls.reverse = true
      rw [hcalls, List.reverse_cons, lastDI_snoc]; rfl
    have hlen : bs.length ≠ 0 := by
      intro h; exact hbs (List.eq_nil_of_length_eq_zero h)
    rcases hX with ⟨hX, hX2⟩ | ⟨_, _, _, hsame⟩
    · have hnd : r.2.a.disconnects - ep.a.disconnects = 0 := by omega
      rw [hnd]
      refine ⟨e2, ?_, rfl, hidle, ?_, ?_⟩
      · have := hhead [.rx who bs.length] []
        simp only [List.map_cons, List.map_nil, List.append_nil, List.replicate_zero, List.nil_append] at this ⊢
        rw [this]
        rw [show [Obs.rx who bs.length] ++ ([stepRet who r.1] ++ tail) = Obs.rx who bs.length :: ([stepRet who r.1] ++ tail) from rfl]
        rw [specRun_cons_ok (rx_ok _ who e2 _ he2 hl (by rw [plain_setEp, hpl, hpf]) hlen), hretok]
      · show e.discSeen = r.2.a.disconnects; omega
      · intro h; have := hreg (hX2 h); show r.2.a.disconnects = 0; omega
    · rw [hD, q1] at hsame
      exact absurd hsame (List.cons_ne_self _ _)

/-! ### the simulation relation, induction over the history, the theorem -/

structure EpRel (m : Ep σ ω) (e : EpSt) : Prop where
  async : e.async = m.async
  idle : m.async = true → e.callT = none
  disc : m.async = true → e.discSeen = m.a.disconnects
  reg : m.a.registered = true → m.a.disconnects = 0
  stash : m.async = false → m.st.g.pendingError = none

def OptRel : Option (Ep σ ω) → Option EpSt → Prop
  | none, none => True
  | some a, some b => EpRel a b
  | _, _ => False

structure Rel (m : Sys σ ω) (sp : SpecSt) : Prop where
  plain : sp.plain = m.plain
  c : OptRel m.c sp.c
  s : OptRel m.s sp.s

theorem optRel_some {a : Ep σ ω} {o : Option EpSt} (h : OptRel (some a) o) : ∃ e, o = some e ∧ EpRel a e := by
  cases o with
  | none => exact absurd h (by simp [OptRel])
  | some e => exact ⟨e, rfl, h⟩

theorem rel_get {m : Sys σ ω} {sp : SpecSt} (hR : Rel m sp) {who : Who} {a : Ep σ ω} (h : m.ep? who = some a) :
    ∃ e, sp.ep? who = some e ∧ EpRel a e := by
  cases who with
  | c => simp only [Sys.ep?] at h; have := hR.c; rw [h] at this; exact optRel_some this
  | s => simp only [Sys.ep?] at h; have := hR.s; rw [h] at this; exact optRel_some this
  | other n => simp [Sys.ep?] at h

theorem rel_set {m : Sys σ ω} {sp : SpecSt} (hR : Rel m sp) {who : Who} {a a' : Ep σ ω} {e' : EpSt}
    (h : m.ep? who = some a) (hr : EpRel a' e') : Rel (m.setEp who a') (sp.setEp who e') := by
  cases who with
  | c => exact ⟨hR.plain, hr, hR.s⟩
  | s => exact ⟨hR.plain, hR.c, hr⟩
  | other n => simp [Sys.ep?] at h

theorem plain_setEpM (m : Sys σ ω) (who : Who) (a : Ep σ ω) : (m.setEp who a).plain = m.plain := by
  cases who <;> rfl

theorem step_ok (V : Env σ ω) (hW : VClock V.W) (m : Sys σ ω) (hE : EngOk V.E m.plain) (sp : SpecSt) (op : Op)
    (tail : List Obs) (hR : Rel m sp) (hna : ∀ o ∈ (sysStep V m op).2, o.isAbort = false) :
    ∃ sp', specRun sp ((sysStep V m op).2 ++ tail) = specRun sp' tail ∧ Rel (sysStep V m op).1 sp' ∧
      (sysStep V m op).1.plain = m.plain := by
  cases op with
  | send who data T =>
    simp only [sysStep] at hna ⊢
    cases hm : m.ep? who with
    | none => exact ⟨sp, rfl, hR, rfl⟩
    | some ep =>
      rw [hm] at hna
      simp only at hna ⊢
      by_cases ha : ep.async = true
      · rw [if_pos ha]; exact ⟨sp, rfl, hR, rfl⟩
      · rw [if_neg ha] at hna ⊢
        have ha' : ep.async = false := by simpa using ha
        obtain ⟨e, he, hr⟩ := rel_get hR hm
        have hno : ∀ mm, (sendT V.C (obsWorld V.W) V.E (fresh ep.st) data T).1 ≠ .abort mm := by
          intro mm hmm
          have := hna (sendRet who (sendT V.C (obsWorld V.W) V.E (fresh ep.st) data T).1) (by simp [epSend])
          rw [hmm] at this
          simp [sendRet, Obs.isAbort] at this
        obtain ⟨e', hrun, h1, h2, h3, h4⟩ := ok_send V hW hE who ep data T sp e tail he (hr.stash ha') hno
        refine ⟨sp.setEp who e', hrun, rel_set hR hm ⟨by rw [h1, hr.async]; rfl, ?_, ?_, hr.reg, fun _ => h4⟩, plain_setEpM _ _ _⟩
        · intro h; simp [epSend, ha'] at h
        · intro h; simp [epSend, ha'] at h
  | recv who T =>
    simp only [sysStep] at hna ⊢
    cases hm : m.ep? who with
    | none => exact ⟨sp, rfl, hR, rfl⟩
    | some ep =>
      rw [hm] at hna
      simp only at hna ⊢
      by_cases ha : ep.async = true
      · rw [if_pos ha]; exact ⟨sp, rfl, hR, rfl⟩
      · rw [if_neg ha] at hna ⊢
        have ha' : ep.async = false := by simpa using ha
        obtain ⟨e, he, hr⟩ := rel_get hR hm
        have hno : ∀ mm, (receiveT V.C (obsWorld V.W) V.E (fresh ep.st) ep.rsz T).1 ≠ .abort mm := by
          intro mm hmm
          have := hna (recvRet who (receiveT V.C (obsWorld V.W) V.E (fresh ep.st) ep.rsz T).1) (by simp [epRecv])
          rw [hmm] at this
          simp [recvRet, Obs.isAbort] at this
        obtain ⟨e', hrun, h1, h2, h3, h4⟩ := ok_recv V hW hE who ep T sp e tail he hR.plain (hr.stash ha') hno
        refine ⟨sp.setEp who e', hrun, rel_set hR hm ⟨by rw [h1, hr.async]; rfl, ?_, ?_, hr.reg, fun _ => h4⟩, plain_setEpM _ _ _⟩
        · intro h; simp [epRecv, ha'] at h
        · intro h; simp [epRecv, ha'] at h
  | enq who buf =>
    simp only [sysStep]
    cases hm : m.ep? who with
    | none => exact ⟨sp, rfl, hR, rfl⟩
    | some ep =>
      simp only
      by_cases ha : ep.async = true
      · rw [if_pos ha]
        obtain ⟨e, he, hr⟩ := rel_get hR hm
        refine ⟨sp, rfl, ?_, plain_setEpM _ _ _⟩
        have := rel_set (e' := e) hR hm (a' := { ep with a := (enqueue { a := ep.a, s := ep.st } buf).a })
          ⟨hr.async, hr.idle, hr.disc, hr.reg, hr.stash⟩
        rw [setEp_self he] at this
        exact this
      · rw [if_neg ha]; exact ⟨sp, rfl, hR, rfl⟩
  | step who rev first =>
    simp only [sysStep] at hna ⊢
    cases hm : m.ep? who with
    | none => exact ⟨sp, rfl, hR, rfl⟩
    | some ep =>
      rw [hm] at hna
      simp only at hna ⊢
      by_cases ha : ep.async = true
      · rw [if_pos ha] at hna ⊢
        obtain ⟨e, he, hr⟩ := rel_get hR hm
        obtain ⟨e', hrun, h1, h2, h3, h4⟩ := ok_step V hE who ep rev first sp e tail he hR.plain (hr.idle ha) (hr.disc ha)
          hr.reg hna
        refine ⟨sp.setEp who e', hrun, rel_set hR hm ⟨by rw [h1, hr.async]; rfl, fun _ => h2, fun _ => h3, h4, ?_⟩,
          plain_setEpM _ _ _⟩
        intro h; simp [epStep, ha] at h
      · rw [if_neg ha]; exact ⟨sp, rfl, hR, rfl⟩

theorem run_ok (V : Env σ ω) (hW : VClock V.W) : ∀ (hist : List Op) (m : Sys σ ω) (sp : SpecSt) (tail : List Obs),
    EngOk V.E m.plain → Rel m sp → (∀ o ∈ (modelOps V m hist).2, o.isAbort = false) →
    ∃ sp', specRun sp ((modelOps V m hist).2 ++ tail) = specRun sp' tail ∧ Rel (modelOps V m hist).1 sp' := by
  intro hist
  induction hist with
  | nil => intro m sp tail _ hR _; exact ⟨sp, rfl, hR⟩
  | cons op rest ih =>
    intro m sp tail hE hR hna
    simp only [modelOps] at hna ⊢
    obtain ⟨sp1, h1, hR1, hp1⟩ := step_ok V hW m hE sp op ((modelOps V (sysStep V m op).1 rest).2 ++ tail) hR
      (fun o ho => hna o (List.mem_append_left _ ho))
    obtain ⟨sp2, h2, hR2⟩ := ih (sysStep V m op).1 sp1 tail (by rw [hp1]; exact hE) hR1
      (fun o ho => hna o (List.mem_append_right _ ho))
    exact ⟨sp2, by rw [List.append_assoc, h1, h2], hR2⟩

/-- a socket nobody has used yet -/
def Ep.Fresh (ep : Ep σ ω) : Prop := ep.a.disconnects = 0 ∧ ep.st.g.pendingError = none

def Sys.Fresh (m : Sys σ ω) : Prop := (∀ ep, m.c = some ep → ep.Fresh) ∧ (∀ ep, m.s = some ep → ep.Fresh)

theorem Ep.init_fresh (cfg : EpCfg) (e : σ) (w : ω) : (Ep.init cfg e w).Fresh := ⟨rfl, rfl⟩

theorem optRel_init (o : Option (Ep σ ω)) (h : ∀ ep, o = some ep → ep.Fresh) :
    OptRel o ((o.map epCfg).map mkEp) := by
  cases o with
  | none => trivial
  | some ep =>
    obtain ⟨h1, h2⟩ := h ep rfl
    exact ⟨rfl, fun _ => rfl, fun _ => h1.symm, fun _ => h1, fun _ => h2⟩

theorem final_ok (V : Env σ ω) (m : Sys σ ω) (sp : SpecSt) : ∃ sp', specRun sp (finalObs V m) = .ok sp' := by
  unfold finalObs
  cases m.c <;> cases m.s <;> simp [epFinal, specRun, specStep]

/-- **model_satisfies_spec_partial.**  `specRun` - every clause that `./check C18` evaluates event by event -
accepts every trace of the glue model: for

* every configuration `V.C` of the glue (round limit, asserts on / off, the legacy variants),
* every kernel `V.W` with the virtual clock of the harness (`VClock`: A-CLOCK of `Props/C18.lean`, and a wait that
  times out has waited for its whole timeout), answering anything (readiness, short / failed sends, any segmentation,
  errors, end of stream),
* every engine `V.E` under the contract `EngOk` (plaintext is handed out only after `init_finished` and never when the
  peer does not speak TLS; fail-stop) - any state type, any adaptive interaction tree: the handshake may take any
  course, stall, fail, never finish,
* every starting state of the two endpoints (client / server, each synchronous or asynchronous or absent, TLS or plain
  TCP peer) that is `Fresh`,
* every history, of any length: `Send(data, T)` / `Receive(T)` with any timeout `T` (negative, zero, positive) on the
  synchronous endpoints, `Send(buffer)` and driver steps with any `poll` result (including `DriverQuery`'s "received
  data is held already") on the asynchronous ones, in any interleaving of the two sides,

in which no `assert` of the glue fires (`hna`; a firing assert is a crash and IS rejected by the predicate - the
asserts encode preconditions: `assert(i < handshakeStepsMax)` - the engine does not answer WANT_READ / WANT_WRITE
`handshakeStepsMax` times in one call although `poll` reported the descriptor ready each time; `assert(timeout >= 0)` -
an unlimited `Receive` is not left with nothing, see `Tls.tls_unlimited_receive_never_nothing`; the `pendingSend` assert -
a `Send` that was cut short is retried with the same bytes, OpenSSL's retry rule).

Hence, for all these histories: the waits of a call with `T < 0` are unlimited, with `T = 0` zero, with `T > 0`
non-negative and within `T` in sum (however many handshake rounds, BIO calls and partial sends); `Receive` and the
receive handler deliver only after an engine answer `done` with the handshake finished, never from a non-TLS peer,
never an empty buffer; the disconnect handler runs at most once; every raw `send` carries MSG_NOSIGNAL.

`_partial`: the END-OF-CASE clauses (`specFinal`) are not covered - see the comment below. -/
theorem model_satisfies_spec_partial (V : Env σ ω) (hW : VClock V.W) (m0 : Sys σ ω) (hE : EngOk V.E m0.plain)
    (h0 : m0.Fresh) (history : List Op) (hna : ∀ o ∈ modelTrace V m0 history, o.isAbort = false) :
    ∃ s, specRun {} (modelTrace V m0 history) = .ok s := by
  let sp0 : SpecSt := { c := (m0.c.map epCfg).map mkEp, s := (m0.s.map epCfg).map mkEp, plain := m0.plain,
                        marker := m0.marker, cpay := m0.cpay, spay := m0.spay }
  have hR0 : Rel m0 sp0 := ⟨rfl, optRel_init m0.c h0.1, optRel_init m0.s h0.2⟩
  obtain ⟨sp1, h1, _⟩ := run_ok V hW history m0 sp0 (finalObs V (modelOps V m0 history).1) hE hR0
    (fun o ho => hna o (by simp only [modelTrace, List.mem_append]; exact Or.inl (Or.inr ho)))
  obtain ⟨sp2, h2⟩ := final_ok V (modelOps V m0 history).1 sp1
  refine ⟨sp2, ?_⟩
  have hs : specRun {} (modelTrace V m0 history) =
      specRun sp0 ((modelOps V m0 history).2 ++ finalObs V (modelOps V m0 history).1) := by
    simp only [modelTrace, setupObs, List.cons_append, List.nil_append, List.append_assoc, specRun, specStep]
    rfl
  rw [hs, h1, h2]

/-
FULL STATEMENT (not proved):

  theorem model_satisfies_spec : ∀ V m0 history, … → ∃ s, specRun {} (modelTrace V m0 history) = .ok s ∧ specFinal s = none

What is missing is `specFinal s = none`.  Its clauses are not statements about ONE endpoint's glue over an arbitrary
engine and kernel, but about the two engines, the two kernels and the schedule together:
* `wireClause` (marker, record framing, ClientHello / ServerHello first, TLS 1.2 record order) is about the bytes the
  ENGINE hands to the write BIO.  What the glue contributes is proved for every history:
  `Tls.plaintext_only_via_engine` (the raw stream is exactly the accepted prefixes of the engine's BIO writes; the
  `wire` observation of `modelTrace` is that ghost field).  The clause itself stays a check on the implementation.
* "received is a prefix of what the peer sent / everything arrived" needs an engine that decrypts to what the peer's
  engine was given and a channel that carries bytes (the reference composition `Hs.Sys` counts bytes only);
* "no failure on a healthy connection", "exchange not stuck", "handshake finished at the end", "a non-TLS peer is
  reported" are liveness / health statements: the model proves them for one composition and schedule only
  (`Hs.handshake_completes_partial`: both endpoints synchronous, timeout 0, polling schedule, reference engine, healthy
  channel); for the other pairings they rest on the implementation matrix.  With an abstract engine they would be
  hypotheses that assume the conclusion.
`specFinal` is evaluated on model traces in the `example`s below.
-/

end Proof

/-! ## examples: the hypotheses are satisfiable, the predicate rejects bad traces -/

section Examples

/-- the scripted kernel of `Model/TlsBudget.lean` has the virtual clock -/
theorem TW.vclock : VClock TW.world where
  ok := TW.clockOk
  full := by
    intro w d t hr
    simp only [TW.world] at hr ⊢
    split at hr
    · rename_i rdy el rest heq
      simp only [heq]
      simp only [Bool.or_eq_false_iff, decide_eq_false_iff_not] at hr
      obtain ⟨h1, h2⟩ := hr
      subst h1
      simp only [Bool.false_or, TW.elapsed]
      have h3 : decide (t < 0) = false := by simpa using h2
      rw [if_neg h2, h3]
      simp
    · rename_i heq
      simp only [heq]
      simp only [decide_eq_false_iff_not] at hr
      have h3 : decide (t < 0) = false := by simpa using hr
      simp only [TW.elapsed, if_neg hr, h3]
      simp

/-- a small engine: round 1 writes a hello and reads the reply (WANT_READ until it is there), later rounds read
application data; after a failed callback it answers SSL_ERROR_SYSCALL at once; it never writes zero bytes -/
def demoEngine : Engine Nat where
  sslRead st n :=
    if st = 0 then
      .bioWrite [22, 3, 1] (fun r => match r with
        | none => .ret .syscallErr [] st
        | some _ => .bioRead n (fun r => match r with
          | none => .ret .syscallErr [] st
          | some [] => .ret .wantRead [] st
          | some _ => .ret .wantRead [] 1))
    else
      .bioRead n (fun r => match r with
        | none => .ret .syscallErr [] st
        | some [] => .ret .wantRead [] st
        | some bs => .ret (.done bs.length) bs st)
  sslWrite st d :=
    if d = [] then .ret (.done 0) [] st
    else .bioWrite d (fun r => match r with
      | none => .ret .syscallErr [] st
      | some 0 => .ret .wantWrite [] st
      | some m => .ret (.done m) [] st)
  initFinished st := st != 0

theorem demoEngine_ok : EngOk demoEngine false where
  read := by
    intro s n
    unfold demoEngine
    simp only
    split
    · refine .bioWrite ?_
      intro r; cases r with
      | none => exact .ret (by simp [SslAns.isDone])
      | some m =>
        refine .bioRead ?_
        intro r; cases r with
        | none => exact .ret (by simp [SslAns.isDone])
        | some bs => cases bs <;> exact .ret (by simp [SslAns.isDone])
    · rename_i hs
      refine .bioRead ?_
      intro r; cases r with
      | none => exact .ret (by simp [SslAns.isDone])
      | some bs =>
        cases bs with
        | nil => exact .ret (by simp [SslAns.isDone])
        | cons b bs => exact .ret (by intro _; simp [hs])
  failStop := by
    constructor
    · intro s n
      unfold demoEngine
      simp only
      split
      · refine .bioWrite (by simp) ?_ ⟨_, _, _, rfl, rfl⟩
        intro m
        refine .bioRead ?_ ⟨_, _, _, rfl, rfl⟩
        intro bs; cases bs <;> exact .ret
      · refine .bioRead ?_ ⟨_, _, _, rfl, rfl⟩
        intro bs; cases bs <;> exact .ret
    · intro s d
      unfold demoEngine
      simp only
      split
      · exact .ret
      · rename_i hd
        refine .bioWrite hd ?_ ⟨_, _, _, rfl, rfl⟩
        intro m; cases m <;> exact .ret

def demoEnv : Env Nat TW := { C := Cfg.current, W := TW.world, E := demoEngine }

/-- a synchronous client and an asynchronous server, each with its own scripted kernel -/
def demoSys : Sys Nat TW :=
  { c := some (Ep.init ⟨false, 16⟩ 0 { waits := [(true, 0), (false, 0), (true, 7), (true, 2), (true, 0)],
                                         recvs := [.data [22, 3, 2], .data [7, 8, 9], .data [5], .data []] }),
    s := some (Ep.init ⟨true, 16⟩ 0 { waits := [(true, 0)], recvs := [.data [22, 3, 2], .data [1, 2]] }),
    cpay := [1, 2], spay := [7, 8, 9, 5] }

/-- client: `Receive` with the timeouts 0, 0, 50, -1, 50 - handshake rounds under a zero budget (hello written, reply not
there / there: WANT_READ, zero waits), a 50 ms wait that times out followed by a zero wait, an unlimited wait, three
bytes delivered after `done`; server: driver steps - readable (handshake), readable (two bytes to the receive handler),
idle, HUP (disconnect handler), and later steps that must not call it again (the socket is unregistered); operations
on an endpoint that does not exist or of the wrong API level do nothing.  58 observations. -/
def demoHist : List Op :=
  [.recv .c 0, .step .s { rd := true } false, .recv .c 0, .recv .c 50, .step .s { rd := true } false,
   .recv .c (-1), .step .s {} false, .step .s { hupErr := true } false, .recv .c 50, .step .s { hupErr := true } false,
   .step .s { rd := true } true, .send (.other "x") [1] 0, .enq .c [1]]

set_option maxRecDepth 100000 in
example : ∀ o ∈ modelTrace demoEnv demoSys demoHist, o.isAbort = false := by decide

set_option maxRecDepth 100000 in
example : ∃ s, specRun {} (modelTrace demoEnv demoSys demoHist) = .ok s :=
  model_satisfies_spec_partial demoEnv TW.vclock demoSys demoEngine_ok
    ⟨fun _ h => by cases h; exact Ep.init_fresh _ _ _, fun _ h => by cases h; exact Ep.init_fresh _ _ _⟩ demoHist (by decide)


set_option maxRecDepth 100000 in
example : (modelTrace demoEnv demoSys demoHist).length = 58 := by decide

def rejects (t : List Obs) : Bool :=
  match specCheck t with
  | .ok _ => false
  | .error _ => true

def twoSync : Obs := .setup (some ⟨false, 16⟩) (some ⟨false, 16⟩) false

/-- the seeded change C07_r4_agentH (`BioRead` without the write-back): `Receive(50)` waits 50 ms twice -/
example : rejects [twoSync, .api .c .recv (some 50), .poll .c 50 false, .sslret .c false false, .poll .c 50 false] = true := by decide
/-- a bounded wait inside an unlimited call, a blocking wait inside a zero call -/
example : rejects [twoSync, .api .c .send (some (-1)), .poll .c 30 false] = true := by decide
example : rejects [twoSync, .api .s .recv (some 0), .poll .s 1 true] = true := by decide
/-- bytes delivered although the engine has not finished the handshake (`SocketTlsImpl::Receive` not overriding) -/
example : rejects [twoSync, .api .c .recv (some 0), .sslret .c true false, .ret .c (.n 5)] = true := by decide
/-- bytes delivered from a peer that does not speak TLS -/
example : rejects [.setup none (some ⟨true, 16⟩) true, .sslret .s true true, .rx .s 5] = true := by decide
/-- the disconnect handler twice; an empty buffer to the receive handler; a send without MSG_NOSIGNAL; a crash -/
example : rejects [.setup (some ⟨true, 16⟩) none false, .disc .c, .disc .c] = true := by decide
example : rejects [.setup (some ⟨true, 16⟩) none false, .sslret .c true true, .rx .c 0] = true := by decide
example : rejects [twoSync, .send .s false] = true := by decide
example : rejects [twoSync, .abort .crash "exit=-6 Assertion `i < handshakeStepsMax' failed."] = true := by decide
/-- end-of-case clauses: the marker on the wire, a payload that did not arrive, a stuck exchange, a failure on a
healthy connection -/
example : rejects [twoSync, .payload [1, 2] [] [], .wire .c [22, 3, 1, 0, 2, 1, 2]] = true := by decide
example : rejects [twoSync, .payload [] [1] [], .state .c { init := some 1 }, .state .s { init := some 1 }] = true := by decide
example : rejects [twoSync, .loopend true, .state .c { init := some 1 }, .state .s { init := some 1 }] = true := by decide
example : rejects [twoSync, .api .c .recv (some 0), .ret .c .threw, .state .c { init := some 1 }, .state .s { init := some 1 }] = true := by
  decide
set_option maxHeartbeats 2000000 in
/-- and a complete healthy case is accepted -/
example : rejects [twoSync, .payload [] [1] [2], .api .c .send (some 0), .poll .c 0 true, .send .c true, .sslret .c true true,
    .ret .c (.n 1), .api .s .recv (some 50), .poll .s 50 true, .sslret .s true true, .ret .s (.n 1), .loopend false,
    .got .c [2], .state .c { init := some 1 }, .got .s [1], .state .s { init := some 1 }] = false := by decide

/-- the hypothesis "no assert fires" is needed: an engine that answers WANT_READ for ever while `poll` reports the
descriptor ready runs into `assert(i < handshakeStepsMax)` (compare `Tls.unlimited_receive_needs_blocking_engine`);
the model's trace then ends in a crash, which the predicate rejects -/
def stubbornEngine : Engine Unit where
  sslRead _ _ := .ret .wantRead [] ()
  sslWrite _ _ := .ret .wantRead [] ()
  initFinished _ := false

set_option maxRecDepth 100000 in
example : rejects (modelTrace { C := Cfg.current, W := TW.world, E := stubbornEngine }
    { c := some (Ep.init ⟨false, 16⟩ () { waits := List.replicate 12 (true, 0) }) } [.recv .c 50]) = true := by decide

end Examples

end SockModel.Tls.Spec

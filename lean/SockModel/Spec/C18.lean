import SockModel.Model.TlsLemmas
import SockModel.Model.TlsBudget
import SockModel.Model.TlsLogLemmas
import SockModel.Model.HsEngine
/-!
# Spec.C18 - the run-time oracle of C18 as typed, total functions, and its link to the glue model

`./check C18` (and the TLS slices of `./check C01` / `./check C07`) evaluate a predicate on the transcript of the
implementation.  It lives here, apart from model and driver:

* typed observations `Obs` (one per transcript line that means something for the property), the observer's state
  `SpecSt` (observations only, no model state), `specStep` / `specRun` (structural recursion) for the clauses that are
  checked event by event, `specFinal` for the end-of-case clauses, `specCheck` = both;
* `Drive/C18.lean` only parses lines into `Obs` and calls these functions.

Clauses (message texts are those the driver has always printed):

event by event (`specStep`)
* C07 for TLS calls: a `Send`/`Receive` with timeout `T` issues only unlimited waits (`T < 0`), only zero waits
  (`T = 0`), or bounded waits whose sum stays within `T` (`T > 0`; under the virtual clock a wait that times out
  consumes exactly its argument);
* `Receive` / the receive handler deliver bytes only if the latest engine answer was `done` with `init_finished`,
  never from a peer that does not speak TLS, and the handler never gets an empty buffer;
* the disconnect handler runs at most once; every raw `send` carries `MSG_NOSIGNAL`;
* crash / hang / killed by a signal.

at the end (`specFinal`)
* wire (`wireClause`): no plaintext marker in the raw stream, the raw stream is a sequence of TLS records starting
  with ClientHello resp. ServerHello, TLS 1.2: no application-data record before ChangeCipherSpec; what a plain TCP
  peer read is TLS records and does not contain the marker;
* a non-TLS peer: zero bytes delivered, and the failure was reported (exception / disconnect handler);
* TLS <-> TLS: received is a prefix of what the peer sent, no failure reported on a healthy connection, the exchange
  is not stuck (`tls-pending-stall`, `exchange did not complete`), everything arrived, both handshakes finished.

The second half of the file composes the existing model functions (`Tls.receiveT`, `sendT`, `enqueue`, `aQuery`,
`aTask`; nothing is re-defined) into the scenario of the harness and proves that `specRun` accepts every trace of
the model (`model_satisfies_spec_partial`; see there for what is covered).
-/
namespace SockModel.Tls.Spec
open SockModel.Net SockModel.Tls

/-! ## typed observations -/

/-- whose event: the client endpoint, the server endpoint, anything else (a driver, the raw peer) -/
inductive Who where
  | c | s | other (name : String)
  deriving DecidableEq, Repr

def Who.name : Who → String
  | .c => "c"
  | .s => "s"
  | .other n => n

inductive ApiOp where
  | send | recv | other
  deriving DecidableEq, Repr

/-- how an API call ended: `n k` (bytes sent / received), an exception, anything else (`none`, `ok`) -/
inductive Ret where
  | n (k : Nat) | threw | other
  deriving DecidableEq, Repr

inductive Abort where
  | crash | hang | killed
  deriving DecidableEq, Repr

def Abort.msg : Abort → String
  | .crash => "crash: "
  | .hang => "hang: "
  | .killed => "process killed by a signal: "

/-- an endpoint as the `setup` line describes it -/
structure EpCfg where
  async : Bool
  rsz : Nat
  deriving DecidableEq, Repr

/-- the `state` line of an endpoint (`none` = key missing) -/
structure FinalState where
  tls12 : Bool := false
  sent : Option Nat := none
  failed : Bool := false
  init : Option Nat := none
  pending : Option Nat := none
  deriving DecidableEq, Repr

inductive Obs where
  /-- `setup …` op line: which endpoints are TLS sockets of the library, and whether the peer is a plain TCP peer -/
  | setup (c s : Option EpCfg) (plain : Bool)
  /-- `-> setup ok marker= cpay= spay=` -/
  | payload (marker cpay spay : Bytes)
  /-- `-> api who op T …` -/
  | api (who : Who) (op : ApiOp) (T : Option Int)
  /-- `-> os who poll dir t ready|timeout` -/
  | poll (who : Who) (t : Int) (ready : Bool)
  /-- `-> os who send len ns=… …` -/
  | send (who : Who) (noSignal : Bool)
  /-- `-> sslret who answer init=…` -/
  | sslret (who : Who) (done init : Bool)
  /-- `-> ret who …` -/
  | ret (who : Who) (r : Ret)
  /-- `-> rx who n`: the receive handler ran -/
  | rx (who : Who) (n : Nat)
  /-- `-> disc who …`: the disconnect handler ran -/
  | disc (who : Who)
  /-- `-> loopend done|stuck` -/
  | loopend (stuck : Bool)
  /-- `-> wire who hex`: every raw byte the endpoint passed to `send` -/
  | wire (who : Who) (bytes : Bytes)
  /-- `-> got who hex`: every byte the endpoint received through the API -/
  | got (who : Who) (bytes : Bytes)
  | state (who : Who) (st : FinalState)
  /-- `-> rawgot hex`: what the plain TCP peer read -/
  | rawgot (bytes : Bytes)
  | abort (kind : Abort) (text : String)
  deriving Repr

/-! ## the observer's state -/

structure EpSt where
  async : Bool := false
  rsz : Nat := 4096
  /-- the latest engine answer was `done` with `init_finished` -/
  lastDoneInit : Bool := false
  threw : Bool := false
  discSeen : Nat := 0
  recvOp : Bool := false
  /-- timeout of the synchronous Send/Receive in progress (C07 clauses) -/
  callT : Option Int := none
  /-- virtual ms its timed-out waits have consumed so far -/
  spent : Int := 0
  deriving Repr

/-- the end-of-case lines of one endpoint (the latest of each kind) -/
structure Fin where
  wire : Bytes := []
  got : Bytes := []
  st : FinalState := {}
  deriving Repr

structure SpecSt where
  c : Option EpSt := none
  s : Option EpSt := none
  plain : Bool := false
  marker : Bytes := []
  cpay : Bytes := []
  spay : Bytes := []
  /-- the latest `loopend` line said `stuck` -/
  stuck : Bool := false
  finC : Fin := {}
  finS : Fin := {}
  rawgot : Bytes := []
  deriving Repr

def SpecSt.ep? (s : SpecSt) : Who → Option EpSt
  | .c => s.c
  | .s => s.s
  | .other _ => none

def SpecSt.setEp (s : SpecSt) : Who → EpSt → SpecSt
  | .c, e => { s with c := some e }
  | .s, e => { s with s := some e }
  | .other _, _ => s

def SpecSt.fin (s : SpecSt) : Who → Fin
  | .c => s.finC
  | .s => s.finS
  | .other _ => {}

def SpecSt.setFin (s : SpecSt) : Who → Fin → SpecSt
  | .c, f => { s with finC := f }
  | .s, f => { s with finS := f }
  | .other _, _ => s

def mkEp (c : EpCfg) : EpSt := { async := c.async, rsz := c.rsz }

/-! ## the predicate, event by event -/

/-- C07 for the TLS socket: "negative = unlimited, zero = never blocks, positive = at most that long in total,
however many waits the handshake / the record layer needs"; under the virtual clock a wait that times out consumes
exactly its argument, one that finds the descriptor ready consumes nothing -/
def pollClause (who : Who) (ep : EpSt) (T : Int) (t : Int) (ready : Bool) : Except String EpSt :=
  if T < 0 then
    if t ≥ 0 then .error s!"{who.name}: call with unlimited timeout issued a bounded wait poll({t})" else .ok ep
  else if T = 0 then
    if t ≠ 0 then .error s!"{who.name}: call with timeout 0 issued a blocking wait poll({t})" else .ok ep
  else if t < 0 then .error s!"{who.name}: call with timeout {T} ms issued an unlimited wait"
  else if ep.spent + t > T then
    .error s!"{who.name}: call with timeout {T} ms waits poll({t}) after its earlier waits already consumed {ep.spent} ms: over budget"
  else .ok { ep with spent := ep.spent + (if ready then 0 else t) }

def retClause (who : Who) (plain : Bool) (ep : EpSt) : Ret → Except String EpSt
  | .n k =>
    if ep.recvOp ∧ k > 0 then
      if ¬ ep.lastDoneInit then
        .error s!"{who.name}: Receive delivered {k} bytes although the engine had not finished the handshake / not answered done"
      else if plain then .error s!"{who.name}: Receive delivered {k} bytes from a peer that does not speak TLS"
      else .ok { ep with callT := none }
    else .ok { ep with callT := none }
  | .threw => .ok { ep with threw := true, callT := none }
  | .other => .ok { ep with callT := none }

def rxClause (who : Who) (plain : Bool) (ep : EpSt) (n : Nat) : Except String EpSt :=
  if n = 0 then .error s!"{who.name}: receive handler invoked with an empty buffer"
  else if ¬ ep.lastDoneInit then
    .error s!"{who.name}: receive handler invoked with {n} bytes although the engine had not finished the handshake"
  else if plain then .error s!"{who.name}: receive handler delivered {n} bytes from a peer that does not speak TLS"
  else .ok ep

def discClause (who : Who) (ep : EpSt) : Except String EpSt :=
  if ep.discSeen ≥ 1 then .error s!"{who.name}: disconnect handler invoked twice"
  else .ok { ep with discSeen := ep.discSeen + 1 }

/-- apply a clause to the endpoint `who`, if the case has one -/
def onEp (s : SpecSt) (who : Who) (f : EpSt → Except String EpSt) : Except String SpecSt :=
  match s.ep? who with
  | none => .ok s
  | some ep =>
    match f ep with
    | .error m => .error m
    | .ok ep' => .ok (s.setEp who ep')

def specStep (s : SpecSt) : Obs → Except String SpecSt
  | .setup c sv plain => .ok { s with c := c.map mkEp, s := sv.map mkEp, plain := plain }
  | .payload marker cpay spay => .ok { s with marker := marker, cpay := cpay, spay := spay }
  | .api who op T =>
    onEp s who fun ep =>
      .ok { ep with recvOp := op == .recv, callT := if op == .other then none else T, spent := 0 }
  | .poll who t ready =>
    onEp s who fun ep =>
      match ep.callT with
      | none => .ok ep
      | some T => pollClause who ep T t ready
  | .send who ns => if ns then .ok s else .error s!"{who.name}: raw send without MSG_NOSIGNAL"
  | .sslret who done init => onEp s who fun ep => .ok { ep with lastDoneInit := done && init }
  | .ret who r => onEp s who fun ep => retClause who s.plain ep r
  | .rx who n => onEp s who fun ep => rxClause who s.plain ep n
  | .disc who => onEp s who fun ep => discClause who ep
  | .loopend stuck => .ok { s with stuck := stuck }
  | .wire who bytes => .ok (s.setFin who { s.fin who with wire := bytes })
  | .got who bytes => .ok (s.setFin who { s.fin who with got := bytes })
  | .state who st => .ok (s.setFin who { s.fin who with st := st })
  | .rawgot bytes => .ok { s with rawgot := bytes }
  | .abort kind text => .error (kind.msg ++ text)

def specRun (s : SpecSt) : List Obs → Except String SpecSt
  | [] => .ok s
  | o :: rest =>
    match specStep s o with
    | .error m => .error m
    | .ok s' => specRun s' rest

/-! ## the end-of-case clauses -/

def isInfix (pat s : Bytes) : Bool :=
  if pat.isEmpty then false else
  let rec go (s : Bytes) (fuel : Nat) : Bool :=
    match fuel with
    | 0 => false
    | fuel + 1 =>
      if pat.isPrefixOf s then true else
      match s with
      | [] => false
      | _ :: t => go t fuel
  go s (s.length + 1)

structure Rec where
  typ : Nat
  ver : Nat
  len : Nat
  first : Nat      -- first payload byte (handshake message type for a plaintext handshake record)
  complete : Bool

def parseRecords (bs : Bytes) : Except String (List Rec) :=
  let rec go (bs : Bytes) (fuel : Nat) (acc : List Rec) : Except String (List Rec) :=
    match fuel with
    | 0 => .ok acc.reverse
    | fuel + 1 =>
      match bs with
      | [] => .ok acc.reverse
      | t :: v1 :: v2 :: l1 :: l2 :: rest =>
        let typ := t.toNat
        let ver := v1.toNat * 256 + v2.toNat
        let len := l1.toNat * 256 + l2.toNat
        if typ < 20 ∨ typ > 23 then .error s!"record {acc.length}: content type {typ} is not a TLS record type"
        else if ver ≠ 0x0301 ∧ ver ≠ 0x0303 then .error s!"record {acc.length}: version {ver}"
        else if len > 16384 + 256 then .error s!"record {acc.length}: length {len}"
        else
          let first := match rest with | b :: _ => b.toNat | [] => 0
          if rest.length < len then .ok (⟨typ, ver, len, first, false⟩ :: acc).reverse
          else go (rest.drop len) fuel (⟨typ, ver, len, first, true⟩ :: acc)
      | _ => .ok acc.reverse   -- fewer than 5 bytes of a header at the very end
  go bs (bs.length + 1) []

/-- the raw stream one side wrote: TLS records; the first is a plaintext handshake record carrying
ClientHello (1) resp. ServerHello (2); in TLS 1.2 no application-data record precedes ChangeCipherSpec -/
def specWire (who : String) (isClient : Bool) (tls12 : Bool) (wire marker : Bytes) : Option String :=
  if isInfix marker wire then some s!"plaintext marker found in the raw stream written by {who}"
  else match parseRecords wire with
    | .error m => some s!"raw stream of {who} is not a sequence of TLS records: {m}"
    | .ok [] => none
    | .ok (r :: rest) =>
      if r.typ ≠ 22 then some s!"first record written by {who} has type {r.typ}, not handshake(22)"
      else if r.first ≠ (if isClient then 1 else 2) then
        some s!"first record written by {who} is handshake message {r.first}, expected {if isClient then "ClientHello" else "ServerHello"}"
      else if tls12 then
        let beforeCcs := rest.takeWhile (fun r => r.typ ≠ 20)
        if beforeCcs.length < rest.length ∧ beforeCcs.any (fun r => r.typ = 23) then
          some s!"application-data record written by {who} before ChangeCipherSpec (TLS 1.2)"
        else if ¬ rest.any (fun r => r.typ = 20) ∧ rest.any (fun r => r.typ = 23) then
          some s!"application-data record written by {who} without a preceding ChangeCipherSpec (TLS 1.2)"
        else none
      else none

/-- the endpoints of the case, client first -/
def SpecSt.eps (s : SpecSt) : List (Who × EpSt) :=
  (match s.c with | some e => [(Who.c, e)] | none => []) ++ (match s.s with | some e => [(Who.s, e)] | none => [])

def showOpt : Option Nat → String
  | none => ""
  | some n => toString n

def SpecSt.peerPay (s : SpecSt) (w : Who) : Bytes := if w == .c then s.spay else s.cpay

/-- the wire-level clauses: statements about the ENGINE's output (OpenSSL), which the glue only carries
(`Tls.plaintext_only_via_engine`) -/
def wireClause (s : SpecSt) : Option String :=
  match s.eps.findSome? (fun (p : Who × EpSt) =>
      specWire p.1.name (p.1 == .c) (s.fin p.1).st.tls12 (s.fin p.1).wire s.marker) with
  | some m => some m
  | none =>
    if isInfix s.marker s.rawgot then some "plaintext marker reached a plain TCP peer"
    else none

/-- a peer that does not speak TLS: exception / disconnect handler, zero bytes delivered; what the plain peer read
must itself be TLS records (an alert) or nothing -/
def plainClause (s : SpecSt) : Option String :=
  match s.eps.findSome? (fun (p : Who × EpSt) =>
      if (s.fin p.1).got ≠ [] then
        some s!"{p.1.name}: {(s.fin p.1).got.length} bytes delivered from a peer that does not speak TLS"
      else if ¬ (p.2.threw ∨ p.2.discSeen ≥ 1) then
        some s!"{p.1.name}: talking to a non-TLS peer was not reported (no exception, no disconnect handler)"
      else none) with
  | some m => some m
  | none =>
    match parseRecords s.rawgot with
    | .error m => some s!"the plain TCP peer read something that is not a TLS record: {m}"
    | .ok _ => none

/-- TLS <-> TLS: payload integrity, no failure on a healthy connection -/
def healthyClause (s : SpecSt) : Option String :=
  s.eps.findSome? fun (p : Who × EpSt) =>
    if ¬ (s.fin p.1).got.isPrefixOf (s.peerPay p.1) then
      some s!"{p.1.name}: received bytes are not a prefix of what the peer sent ({(s.fin p.1).got.length} bytes received)"
    -- (while a TLS Send is being retried the engine may already have transmitted records that the Send
    -- calls so far did not account for; the accounting is exact once the retries are through)
    else if p.2.threw ∨ p.2.discSeen > 0 ∨ (s.fin p.1).st.failed then
      some s!"{p.1.name}: failure reported (exception / disconnect / failed future) on a healthy TLS connection"
    else none

def stuckClause (s : SpecSt) : Option String :=
  if s.stuck then
    match s.eps.filter (fun (p : Who × EpSt) => p.2.async ∧ ((s.fin p.1).st.pending.getD 0) > 0) with
    | p :: _ =>
      some s!"tls-pending-stall: {p.1.name} (async, rxBufSize {p.2.rsz}) has {showOpt (s.fin p.1).st.pending} decrypted bytes pending inside the engine that the driver never delivers; received {(s.fin p.1).got.length}"
    | [] =>
      let inits := s.eps.map (fun (p : Who × EpSt) =>
        s!"{p.1.name}:init={showOpt (s.fin p.1).st.init},got={(s.fin p.1).got.length},sent={showOpt (s.fin p.1).st.sent}")
      some s!"exchange did not complete (handshake or payload stuck): {inits}"
  else none

/-- after the last op every payload must have arrived in full -/
def completeClause (s : SpecSt) : Option String :=
  s.eps.findSome? fun (p : Who × EpSt) =>
    if (s.fin p.1).got ≠ s.peerPay p.1 then
      some s!"{p.1.name}: received {(s.fin p.1).got.length} of {(s.peerPay p.1).length} bytes"
    else if (s.fin p.1).st.init ≠ some 1 then some s!"{p.1.name}: handshake not finished at the end"
    else none

def orElse (a : Option String) (b : Unit → Option String) : Option String :=
  match a with
  | some m => some m
  | none => b ()

/-- the end-of-case part of Spec.C18 -/
def specFinal (s : SpecSt) : Option String :=
  orElse (wireClause s) fun _ =>
    if s.plain then plainClause s
    else orElse (healthyClause s) fun _ => orElse (stuckClause s) fun _ => completeClause s

def specCheck (obs : List Obs) : Except String Unit :=
  match specRun {} obs with
  | .error m => .error m
  | .ok s =>
    match specFinal s with
    | some m => .error m
    | none => .ok ()

end SockModel.Tls.Spec

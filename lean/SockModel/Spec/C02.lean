import SockModel.Model.AsyncQLemmas
/-!
# Spec.C02 - the property as an executable predicate over typed observations, and the proof that the
model satisfies it for every history

`specStep` / `specRun` / `specRunL` are what `./check C02` evaluates on the IMPLEMENTATION's transcript
(`Drive/C02.lean` parses the transcript lines into `Obs` and calls these very functions).  The
predicate is an *ideal FIFO pipeline fed with the same OS answers*: it keeps the buffers whose future
must still be pending (`pend`, in `Send` order, the front one with its unsent remainder), the expected
letter of every future (`status`), and the bytes the OS accepted that the peer has not read yet (`acc`).
It mentions no model state (`POLLOUT`, `wasEmpty`, `pendingArm`, ... do not occur).

`modelObs` / `modelTrace` are the observations the MODEL (`Model/AsyncQ.lean`, the very `step` function
the theorems of `Props/C02.lean` are about) produces for a history of API operations with arbitrary
environment answers.  `model_satisfies_spec` proves that `specRun` accepts every such trace - so a spec
failure on the implementation is a genuine difference between implementation and model (or a kernel
that answers 0 to an unscripted `send`), and every clause of the predicate is a consequence of the
model's definitions for histories of any length.

The multi-threaded runs (`mt ...` lines: several producer threads and a `Run()` thread) are judged by
the byte-stream parser `specMt` of the driver; its verdict enters here only as `Obs.external`.
-/
namespace SockModel.AsyncQ

def fnv (bs : Bytes) : UInt64 :=
  bs.foldl (fun h b => (h ^^^ b.toUInt64) * 1099511628211) 14695981039346656037

/-! ## typed observations -/

/-- one intercepted `send()` of the socket under test: bytes offered, result -/
inductive Sys where
  | sent (len r : Nat)
  | fail (len : Nat)
  deriving Repr, BEq, DecidableEq

/-- `st fut=<letters> ret=<ids>`: state of every future in creation order (p=pending v=value
e=exception b=broken) and the buffers found back in the send pool, in the order they were found -/
structure StObs where
  futs : String
  ret : List Nat
  deriving Repr

/-- what the harness reports for one operation (`none` = the observation line is missing) -/
inductive Obs where
  /-- `sock N _`: socket with a send pool of `N` buffers -/
  | sock (poolN : Nat)
  /-- `send id size` went through: buffer `bytes` handed to `Send`, then the state -/
  | send (id : Nat) (bytes : Bytes) (st : Option StObs)
  /-- `send id size` but the pool had no buffer: `Send` was not called -/
  | nobuf
  /-- `step <script>`: one `Driver::Step(0)`; `zero` = the harness scripted a 0 return for the next
  `send()`; the intercepted `send()` calls; whether the receive / disconnect handler ran; the exception
  that left `Step`, if any; then the state -/
  | step (zero : Bool) (sys : List Sys) (data disconnect : Bool) (thrown : Option String) (st : Option StObs)
  /-- `drain`: the peer read `n` bytes with FNV-1a hash `h` -/
  | drain (wire : Option (Nat × Nat))
  | peerclose
  /-- `destroy`: the socket object is destroyed, then the state -/
  | destroy (st : Option StObs)
  /-- the harness process died or hung inside this operation -/
  | crash (what : String)
  /-- an operation line the parser could not read -/
  | malformed (msg : String)
  /-- verdict of a clause evaluated outside this module (multi-threaded stream parser `specMt` of the
  driver; a crash reported between operations): `some msg` = violated -/
  | external (failure : Option String)
  deriving Repr

/-! ## the property on observations only -/

structure SElem where
  id : Nat
  rest : Bytes
  deriving Repr

structure SpecSt where
  poolN : Nat := 0
  pend : List SElem := []                 -- Sends whose future must still be pending, in Send order
  status : List (Nat × Char) := []        -- expected future letter per id, creation order
  acc : Bytes := []                       -- accepted by the OS, not yet read by the peer
  connected : Bool := true
  peerClosed : Bool := false
  destroyed : Bool := false
  deriving Repr

def SpecSt.setStatus (sp : SpecSt) (id : Nat) (c : Char) : SpecSt :=
  { sp with status := sp.status.map fun (i, x) => if i = id then (i, c) else (i, x) }

def SpecSt.letters (sp : SpecSt) : String := String.ofList (sp.status.map (·.2))
def SpecSt.resolvedIds (sp : SpecSt) : List Nat := (sp.status.filter (·.2 ≠ 'p')).map (·.1)

def sameSet (a b : List Nat) : Bool := a.all b.contains && b.all a.contains && a.length == b.length

/-- "Each returned future becomes ready exactly once: with a value only after every byte of its buffer
(and of all earlier buffers) was accepted by the OS, with an exception if transmitting it failed, or as a
broken promise if the socket is destroyed first" and "the buffer goes back to its pool only after its
last byte was handed to the OS (or the send failed), and no later than the end of the driver step in
which its future resolves": after every operation the futures are exactly those of the ideal pipeline
and the buffers back in the pool are exactly those whose future is resolved. -/
def SpecSt.checkState (sp : SpecSt) : Option StObs → Except String Unit
  | some o =>
    if o.futs ≠ sp.letters then
      .error s!"futures are {o.futs} but an ideal FIFO pipeline fed with the same OS answers has {sp.letters} (p=pending v=value e=exception b=broken)"
    else if ¬ sameSet o.ret sp.resolvedIds then
      .error s!"buffers back in the pool {o.ret} differ from the buffers whose future is resolved {sp.resolvedIds}"
    else .ok ()
  | none => .error "missing state observation"

/-- one `send()` seen during a step, applied to the ideal pipeline -/
def SpecSt.sys (sp : SpecSt) (zeroScripted : Bool) : Sys → Except String SpecSt
  | .sent _ r =>
    match sp.pend with
    | [] => .error "a send() was issued although no buffer is queued"
    | e :: rest =>
      if r > e.rest.length then .error s!"the OS accepted {r} bytes of a buffer that has only {e.rest.length} left"
      else if r = e.rest.length then
        .ok ({ sp with pend := rest, acc := sp.acc ++ e.rest }.setStatus e.id 'v')
      else if r = 0 ∧ ¬ zeroScripted then .error "send() returned 0"
      else .ok { sp with pend := { e with rest := e.rest.drop r } :: rest, acc := sp.acc ++ e.rest.take r }
  | .fail _ =>
    match sp.pend with
    | [] => .error "a send() was issued although no buffer is queued"
    | e :: rest => .ok ({ sp with pend := rest }.setStatus e.id 'e')

def SpecSt.sysAll (sp : SpecSt) (zeroScripted : Bool) : List Sys → Except String SpecSt
  | [] => .ok sp
  | s :: ss => match sp.sys zeroScripted s with
    | .ok sp' => sp'.sysAll zeroScripted ss
    | .error m => .error m

/-- an exception may leave `Step` only when the harness scripted a 0 return of `send()` for a
non-empty buffer (`SendSome` turns that into a `logic_error`) -/
def stepThrow (zero : Bool) (sys : List Sys) : Option String → Option String
  | some t =>
    let okThrow : Bool := zero && (match sys with | [.sent l 0] => decide (l > 0) | _ => false)
    if ¬ okThrow then some s!"Step threw: {t}" else none
  | none => none

def specStep (sp : SpecSt) : Obs → Except String SpecSt
  | .crash c => .error s!"crash: {c}"
  | .malformed m => .error m
  | .external (some m) => .error m
  | .external none => .ok sp
  | .sock n => .ok { sp with poolN := n }
  | .nobuf => .ok sp
  | .send id bytes st =>
    let sp' := { sp with pend := sp.pend ++ [SElem.mk id bytes], status := sp.status ++ [(id, 'p')] }
    match sp'.checkState st with
    | .error m => .error m
    | .ok _ => .ok sp'
  | .step zero sys data disconnect thrown st =>
    if data then .error "receive handler invoked although the peer never sent"
    else if disconnect ∧ ¬ sp.peerClosed then .error "disconnect handler invoked although the peer did not close"
    else if sys.length > 1 then .error "more than one send() in one driver step"
    else
      match sp.sysAll zero sys with
      | .error m => .error m
      | .ok sp1 =>
        match stepThrow zero sys thrown with
        | some m => .error m
        | none =>
          let sp2 := if disconnect then { sp1 with connected := false } else sp1
          -- "does not stay pending while the driver runs and the peer reads"
          if sys.isEmpty ∧ ¬ disconnect ∧ sp2.connected ∧ ¬ sp2.peerClosed ∧ ¬ sp2.destroyed ∧ sp2.pend ≠ [] ∧ sp2.acc.isEmpty then
            .error "a buffer is queued, the peer has read everything, yet Step made no send attempt (future stays pending)"
          else
            match sp2.checkState st with
            | .error m => .error m
            | .ok _ => .ok sp2
  | .drain (some (n, h)) =>
    -- the peer may lag behind the OS (it read fewer bytes than were accepted so far): what it read must be
    -- exactly the next bytes of the FIFO concatenation; the rest stays expected
    if n > sp.acc.length ∨ h ≠ (fnv (sp.acc.take n)).toNat then
      .error s!"peer read {n} bytes (hash {h}); the FIFO concatenation of what the OS accepted continues with {sp.acc.length} bytes (hash of the first {min n sp.acc.length}: {fnv (sp.acc.take n)})"
    else .ok { sp with acc := sp.acc.drop n }
  | .drain none => .error "missing wire observation"
  | .peerclose => .ok { sp with peerClosed := true }
  | .destroy st =>
    let sp' := { sp with pend := [], destroyed := true,
                         status := sp.status.map fun (i, c) => if c = 'p' then (i, 'b') else (i, c) }
    match sp'.checkState st with
    | .error m => .error m
    | .ok _ => .ok sp'

def specRun (sp : SpecSt) : List Obs → Except String SpecSt
  | [] => .ok sp
  | o :: os => match specStep sp o with
    | .ok sp' => specRun sp' os
    | .error m => .error m

/-- `specRun` with the operation line attached to each observation, for the message of the check
(`some l`: "after 'l': ..."; `none`: message as it is) -/
def specRunL (sp : SpecSt) : List (Option String × Obs) → Except String SpecSt
  | [] => .ok sp
  | (l, o) :: os => match specStep sp o with
    | .ok sp' => specRunL sp' os
    | .error m => .error (match l with | some l => s!"after '{l}': {m}" | none => m)

/-- the labelled run accepts exactly when `specRun` accepts the observations -/
theorem specRunL_ok (sp : SpecSt) (l : List (Option String × Obs)) (sp' : SpecSt) :
    specRunL sp l = .ok sp' ↔ specRun sp (l.map (·.2)) = .ok sp' := by
  induction l generalizing sp with
  | nil => simp [specRunL, specRun]
  | cons x xs ih =>
    obtain ⟨t, o⟩ := x
    simp only [specRunL, specRun, List.map_cons]
    cases specStep sp o with
    | ok s1 => exact ih s1
    | error m => simp

/-! ## the observations the MODEL produces -/

def letter : Fut → Char
  | .none => '?' | .pending => 'p' | .value => 'v' | .exn => 'e' | .broken => 'b'

/-- the state observation of a model state: futures in creation order, returned buffers -/
def stObs (m : St) : StObs :=
  { futs := String.ofList ((m.enqd.map (·.1)).map fun i => letter (m.fut i)), ret := m.returned }

/-- what the environment contributes to one `Driver::Step(0)` -/
structure Poll where
  /-- `poll` reports the peer's close (only possible once the peer has closed) -/
  hup : Bool
  /-- `poll` reports the socket writable although accepted bytes are still unread by the peer
  (it must report it when the peer has read everything: assumption 3 of `props/c02.py`) -/
  out : Bool
  /-- answer of the OS to the `send()` of this step, if one is made -/
  ans : Ans
  /-- the harness scripted a 0 return -/
  zero : Bool
  deriving Repr

/-- API-level history: what one thread can do with one `SocketTcpAsync` and its driver, together with
everything the environment decides (pool exhaustion, poll readiness, `send()` answers incl. short
writes and failures, how much the peer reads, when it closes) -/
inductive Op where
  | sock (poolN : Nat)
  | send (id : Nat) (bytes : Bytes)
  | nobuf
  | step (p : Poll)
  | drain (n : Nat)
  | peerclose
  | destroy
  deriving Repr

/-- model state + environment: how much of the wire the peer has read, whether it closed -/
structure MSt where
  m : St := {}
  drained : Nat := 0
  peerClosed : Bool := false

/-- `Send` = `DoSendEnqueue` then (if the queue was empty) `AsyncWantSend`, on one thread -/
def mSend (m : St) (id : Nat) (bytes : Bytes) : St := step (step m (.enq 0 id bytes)) (.arm 0)

/-- the `POLLOUT` branch of `DoOneSocketTask`: `DriverOnWritable`, then `events &= ~POLLOUT` if it said so -/
def mWritable (m : St) (a : Ans) : St := step (step m (.writable a)) .disarm

/-- the `send()` call the model makes on front element `e` with answer `a`, as the shim would log it -/
def sysOf (e : Elem) : Ans → Sys
  | .accept k => .sent e.rest.length (min k e.rest.length)
  | .fail => .fail e.rest.length

/-- `SendSome` throws `logic_error` when `send()` returns 0 for a non-empty buffer -/
def thrownOf (e : Elem) : Ans → Option String
  | .accept 0 => if e.rest.length > 0 then some "logic unexpected send result" else none
  | _ => none

def modelObs (c : MSt) : Op → MSt × List Obs
  | .sock n => (c, [.sock n])
  | .nobuf => (c, [.nobuf])
  | .send id bytes =>
    -- not performed on a destroyed socket; ids are labels chosen by the caller, distinct by construction
    if c.m.destroyed ∨ c.m.fut id ≠ .none ∨ 0 ∈ c.m.pendingArm then (c, [])
    else
      let m' := mSend c.m id bytes
      ({ c with m := m' }, [.send id bytes (some (stObs m'))])
  | .step p =>
    if c.m.registered ∧ ¬ c.m.destroyed ∧ c.peerClosed ∧ p.hup then
      -- POLLIN first: receive fails, `DriverDisconnect`: `AsyncUnregister`, disconnect handler
      let m' := step c.m .unregister
      ({ c with m := m' }, [.step p.zero [] false true none (some (stObs m'))])
    else if c.m.registered ∧ c.m.armed ∧ ¬ c.m.destroyed ∧ (p.out ∨ (c.m.wire.length = c.drained ∧ ¬ c.peerClosed)) then
      let m' := mWritable c.m p.ans
      match c.m.q with
      | [] => ({ c with m := m' }, [.step p.zero [] false false none (some (stObs m'))])
      | e :: _ => ({ c with m := m' }, [.step p.zero [sysOf e p.ans] false false (thrownOf e p.ans) (some (stObs m'))])
    else (c, [.step p.zero [] false false none (some (stObs c.m))])
  | .drain n =>
    let k := min n (c.m.wire.length - c.drained)
    ({ c with drained := c.drained + k }, [.drain (some (k, (fnv ((c.m.wire.drop c.drained).take k)).toNat))])
  | .peerclose => ({ c with peerClosed := true }, [.peerclose])
  | .destroy =>
    if c.m.destroyed then (c, [])
    else
      let m' := step c.m .destroy
      ({ c with m := m' }, [.destroy (some (stObs m'))])

def modelTrace (c : MSt) : List Op → List Obs
  | [] => []
  | op :: ops => (modelObs c op).2 ++ modelTrace (modelObs c op).1 ops

def modelRun (c : MSt) : List Op → MSt
  | [] => c
  | op :: ops => modelRun (modelObs c op).1 ops

/-! ## the model satisfies the spec -/

/-- the expected letters of the ideal pipeline = the model's futures, in creation order -/
def statusOf (m : St) : List (Nat × Char) := m.enqd.map fun p => (p.1, letter (m.fut p.1))

@[simp] theorem letter_pending : letter .pending = 'p' := rfl
@[simp] theorem letter_value : letter .value = 'v' := rfl
@[simp] theorem letter_exn : letter .exn = 'e' := rfl
@[simp] theorem letter_broken : letter .broken = 'b' := rfl

theorem letter_resolved {f : Fut} (h : f.resolved = true) : letter f ≠ 'p' := by
  cases f <;> simp [Fut.resolved] at h <;> simp [letter]

theorem filter_map_all {α} (l : List α) (f : α → Nat × Char) (h : ∀ a ∈ l, (f a).2 ≠ 'p') :
    ((l.map f).filter (fun x => x.2 ≠ 'p')).map (·.1) = l.map (fun a => (f a).1) := by
  induction l with
  | nil => rfl
  | cons a as ih =>
    have ha := h a (by simp)
    simp only [List.map_cons, List.filter_cons, ha, ne_eq, not_false_eq_true, decide_true, ↓reduceIte]
    rw [ih (fun x hx => h x (by simp [hx]))]

theorem filter_map_none {α} (l : List α) (f : α → Nat × Char) (h : ∀ a ∈ l, (f a).2 = 'p') :
    (l.map f).filter (fun x => x.2 ≠ 'p') = [] := by
  induction l with
  | nil => rfl
  | cons a as ih =>
    have ha := h a (by simp)
    simp only [List.map_cons, List.filter_cons, ha, ne_eq, not_true_eq_false, decide_false]
    exact ih (fun x hx => h x (by simp [hx]))

/-- the buffers whose future is resolved in the ideal pipeline are exactly the returned ones, in order -/
theorem resolvedIds_eq {m : St} (h : QInv m) (sp : SpecSt) (hs : sp.status = statusOf m) :
    sp.resolvedIds = m.returned := by
  unfold SpecSt.resolvedIds
  have h1 : ((m.done.map fun d => (fun p : Nat × Bytes => (p.1, letter (m.fut p.1))) (d.id, d.full)).filter
      (fun x => x.2 ≠ 'p')).map (·.1) = m.done.map (·.id) := by
    rw [filter_map_all]
    intro d hd
    have := h.futd d hd
    show letter (m.fut d.id) ≠ 'p'
    rw [this.1]
    exact letter_resolved this.2.1
  have h2 : (m.q.map fun e => (fun p : Nat × Bytes => (p.1, letter (m.fut p.1))) (e.id, e.full)).filter
      (fun x => x.2 ≠ 'p') = [] := by
    rw [filter_map_none]
    intro e he
    show letter (m.fut e.id) = 'p'
    rw [h.futq e he]; rfl
  rw [hs, statusOf, h.enqd, List.map_append, List.filter_append, List.map_append, h.ret, List.map_map, List.map_map]
  simp only [Function.comp_def]
  rw [h1, h2]
  simp

theorem sameSet_self (l : List Nat) : sameSet l l = true := by
  simp [sameSet]

/-- the state observation of a model state is accepted by an observer whose expected letters are the
model's futures -/
theorem check_ok {m : St} (h : QInv m) (sp : SpecSt) (hs : sp.status = statusOf m) :
    sp.checkState (some (stObs m)) = .ok () := by
  have hl : (stObs m).futs = sp.letters := by
    simp [stObs, SpecSt.letters, hs, statusOf, List.map_map, Function.comp_def]
  have hr : sameSet (stObs m).ret sp.resolvedIds = true := by
    rw [resolvedIds_eq h sp hs]; exact sameSet_self _
  simp [SpecSt.checkState, hl, hr]

theorem statusOf_upd (enqd : List (Nat × Bytes)) (fut : Nat → Fut) (id : Nat) (v : Fut) :
    (enqd.map fun p => (p.1, letter (fut p.1))).map (fun (i, x) => if i = id then (i, letter v) else (i, x))
      = enqd.map fun p => (p.1, letter (upd fut id v p.1)) := by
  rw [List.map_map]
  apply List.map_congr_left
  intro p _
  simp only [Function.comp_apply, upd]
  split <;> rfl

/-- what relates the observer's book-keeping to the model state between two operations -/
structure Rel (c : MSt) (sp : SpecSt) : Prop where
  inv : QInv c.m
  /-- the driver is not inside `DoOneSocketTask` -/
  idle : c.m.drvDisarm = false
  /-- no `Send` is between its two critical sections -/
  noArm : c.m.pendingArm = []
  pend : sp.pend = c.m.q.map fun e => ⟨e.id, e.rest⟩
  status : sp.status = statusOf c.m
  acc : sp.acc = c.m.wire.drop c.drained
  drained : c.drained ≤ c.m.wire.length
  conn : c.m.registered = (sp.connected && !sp.destroyed)
  destr : sp.destroyed = c.m.destroyed
  closed : sp.peerClosed = c.peerClosed

theorem rel_init : Rel {} {} := by
  refine ⟨inv_init, rfl, rfl, rfl, rfl, rfl, ?_, rfl, rfl, rfl⟩
  simp

theorem specRun_append (sp : SpecSt) (a b : List Obs) :
    specRun sp (a ++ b) = match specRun sp a with | .ok sp' => specRun sp' b | .error e => .error e := by
  induction a generalizing sp with
  | nil => rfl
  | cons o os ih =>
    simp only [List.cons_append, specRun]
    cases specStep sp o with
    | ok s' => exact ih s'
    | error e => rfl

theorem specRun_single {sp sp' : SpecSt} {o : Obs} (h : specStep sp o = .ok sp') : specRun sp [o] = .ok sp' := by
  simp [specRun, h]

/-- the OS does not answer 0 to an unscripted `send()` (a clause of the spec about the kernel, not
about the library: "send() returned 0") -/
def Op.sane : Op → Prop
  | .step p => p.ans = .accept 0 → p.zero = true
  | _ => True

instance : DecidablePred Op.sane := fun op => by
  cases op <;> simp only [Op.sane] <;> infer_instance

theorem step_disarm_fields (s : St) :
    (step s .disarm).drvDisarm = false ∧ (step s .disarm).q = s.q ∧ (step s .disarm).wire = s.wire ∧
    (step s .disarm).fut = s.fut ∧ (step s .disarm).returned = s.returned ∧ (step s .disarm).enqd = s.enqd ∧
    (step s .disarm).registered = s.registered ∧ (step s .disarm).destroyed = s.destroyed ∧
    (step s .disarm).pendingArm = s.pendingArm := by
  simp only [step]
  split
  · simp
  · rename_i h
    simp at h
    simp [h]

/-- `Send` on a live socket between two driver steps -/
theorem mSend_fields {m : St} (id : Nat) (b : Bytes) (hd : m.destroyed = false) (hf : m.fut id = .none)
    (hp : m.pendingArm = []) (hdis : m.drvDisarm = false) :
    (mSend m id b).q = m.q ++ [⟨id, [], b⟩] ∧ (mSend m id b).fut = upd m.fut id .pending ∧
    (mSend m id b).enqd = m.enqd ++ [(id, b)] ∧ (mSend m id b).pendingArm = [] ∧
    (mSend m id b).drvDisarm = false ∧ (mSend m id b).wire = m.wire ∧ (mSend m id b).returned = m.returned ∧
    (mSend m id b).registered = m.registered ∧ (mSend m id b).destroyed = false := by
  unfold mSend
  cases hq : m.q.isEmpty <;> simp [step, hd, hf, hp, hdis, hq]

theorem ok_send {c : MSt} {sp : SpecSt} (hrel : Rel c sp) (id : Nat) (b : Bytes) :
    ∃ sp', specRun sp (modelObs c (.send id b)).2 = .ok sp' ∧ Rel (modelObs c (.send id b)).1 sp' := by
  simp only [modelObs]
  split
  · exact ⟨sp, rfl, hrel⟩
  · rename_i hc
    simp only [not_or, Decidable.not_not] at hc
    obtain ⟨hd, hf, _⟩ := hc
    have hd' : c.m.destroyed = false := by simpa using hd
    obtain ⟨fq, ff, fe, fp, fdis, fw, fr, freg, fdes⟩ := mSend_fields id b hd' hf hrel.noArm hrel.idle
    have hinv : QInv (mSend c.m id b) := inv_step (inv_step hrel.inv _) _
    have hfresh := fresh_of_none hrel.inv hf
    let sp' : SpecSt := { sp with pend := sp.pend ++ [SElem.mk id b], status := sp.status ++ [(id, 'p')] }
    have hst : sp'.status = statusOf (mSend c.m id b) := by
      simp only [statusOf, fe, ff, List.map_append, List.map_cons, List.map_nil, upd_same, sp', letter_pending]
      rw [hrel.status, statusOf]
      congr 1
      apply List.map_congr_left
      intro p hp
      have : p.1 ≠ id := by intro he; apply hfresh; rw [← he]; exact List.mem_map_of_mem hp
      rw [upd_other _ _ _ _ this]
    refine ⟨sp', specRun_single ?_, ?_⟩
    · simp only [specStep]
      rw [check_ok hinv sp' hst]
    · exact ⟨hinv, fdis, fp, by simp [sp', fq, hrel.pend], hst, by simp [sp', fw, hrel.acc],
        by rw [fw]; exact hrel.drained, by rw [freg]; exact hrel.conn, by rw [fdes]; simp [sp', hrel.destr, hd'],
        hrel.closed⟩

theorem ok_drain {c : MSt} {sp : SpecSt} (hrel : Rel c sp) (n : Nat) :
    ∃ sp', specRun sp (modelObs c (.drain n)).2 = .ok sp' ∧ Rel (modelObs c (.drain n)).1 sp' := by
  simp only [modelObs]
  have hk : min n (c.m.wire.length - c.drained) ≤ sp.acc.length := by
    rw [hrel.acc, List.length_drop]; exact Nat.min_le_right _ _
  refine ⟨{ sp with acc := sp.acc.drop (min n (c.m.wire.length - c.drained)) }, specRun_single ?_, ?_⟩
  · simp only [specStep]
    rw [if_neg]
    intro h
    rcases h with h | h
    · omega
    · apply h; rw [hrel.acc]
  · refine ⟨hrel.inv, hrel.idle, hrel.noArm, hrel.pend, hrel.status, ?_, ?_, hrel.conn, hrel.destr, hrel.closed⟩
    · simp [hrel.acc, List.drop_drop]
    · have := hrel.drained
      show c.drained + min n (c.m.wire.length - c.drained) ≤ c.m.wire.length
      omega

theorem destroy_fields {m : St} (hd : m.destroyed = false) (hdis : m.drvDisarm = false) :
    (step m .destroy).q = [] ∧ (step m .destroy).fut = (fun i => if m.fut i = .pending then .broken else m.fut i) ∧
    (step m .destroy).enqd = m.enqd ∧ (step m .destroy).pendingArm = [] ∧ (step m .destroy).drvDisarm = false ∧
    (step m .destroy).wire = m.wire ∧ (step m .destroy).registered = false ∧ (step m .destroy).destroyed = true := by
  simp [step, hd, hdis]

theorem ok_destroy {c : MSt} {sp : SpecSt} (hrel : Rel c sp) :
    ∃ sp', specRun sp (modelObs c .destroy).2 = .ok sp' ∧ Rel (modelObs c .destroy).1 sp' := by
  simp only [modelObs]
  split
  · exact ⟨sp, rfl, hrel⟩
  · rename_i hd
    have hd' : c.m.destroyed = false := by simpa using hd
    obtain ⟨fq, ff, fe, fp, fdis, fw, freg, fdes⟩ := destroy_fields hd' hrel.idle
    have hinv : QInv (step c.m .destroy) := inv_step hrel.inv _
    let sp' : SpecSt := { sp with pend := [], destroyed := true,
                                  status := sp.status.map fun (i, c) => if c = 'p' then (i, 'b') else (i, c) }
    have hst : sp'.status = statusOf (step c.m .destroy) := by
      simp only [statusOf, fe, ff, sp']
      rw [hrel.status, statusOf, List.map_map]
      apply List.map_congr_left
      intro p _
      simp only [Function.comp_apply]
      cases c.m.fut p.1 <;> simp [letter]
    refine ⟨sp', specRun_single ?_, ?_⟩
    · simp only [specStep]
      rw [check_ok hinv sp' hst]
    · exact ⟨hinv, fdis, fp, by simp [sp', fq], hst, by simp [sp', fw, hrel.acc], by rw [fw]; exact hrel.drained,
        by simp [sp', freg], by simp [sp', fdes], hrel.closed⟩

theorem unregister_fields {m : St} (hd : m.destroyed = false) (hdis : m.drvDisarm = false) :
    (step m .unregister).q = m.q ∧ (step m .unregister).fut = m.fut ∧
    (step m .unregister).enqd = m.enqd ∧ (step m .unregister).pendingArm = m.pendingArm ∧
    (step m .unregister).drvDisarm = false ∧ (step m .unregister).wire = m.wire ∧
    (step m .unregister).registered = false ∧ (step m .unregister).destroyed = false ∧
    (step m .unregister).returned = m.returned := by
  simp [step, hd, hdis]

theorem writable_enabled {m : St} (a : Ans) (hd : m.destroyed = false) (hr : m.registered = true)
    (ha : m.armed = true) (hdis : m.drvDisarm = false) :
    step m (.writable a) = match m.q with
      | [] => { m with drvDisarm := true }
      | e :: rest => driverSend m e rest a := by
  simp only [step]
  rw [if_neg (by simp [hd, hr, ha, hdis])]
  cases m.q <;> rfl

theorem mWritable_fields (m : St) (a : Ans) :
    (mWritable m a).drvDisarm = false ∧ (mWritable m a).q = (step m (.writable a)).q ∧
    (mWritable m a).wire = (step m (.writable a)).wire ∧ (mWritable m a).fut = (step m (.writable a)).fut ∧
    (mWritable m a).returned = (step m (.writable a)).returned ∧ (mWritable m a).enqd = (step m (.writable a)).enqd ∧
    (mWritable m a).registered = (step m (.writable a)).registered ∧
    (mWritable m a).destroyed = (step m (.writable a)).destroyed ∧
    (mWritable m a).pendingArm = (step m (.writable a)).pendingArm := step_disarm_fields _

theorem thrownOf_pos (e : Elem) {k : Nat} (hk : k ≠ 0) : thrownOf e (.accept k) = none := by
  cases k with
  | zero => exact absurd rfl hk
  | succ k => rfl

theorem thrownOf_full (e : Elem) {k : Nat} (hk : e.rest.length ≤ k) : thrownOf e (.accept k) = none := by
  cases k with
  | zero =>
    have : e.rest.length = 0 := by omega
    simp [thrownOf, this]
  | succ k => rfl

theorem thrownOf_zero (e : Elem) (h : 0 < e.rest.length) : thrownOf e (.accept 0) = some "logic unexpected send result" := by
  simp [thrownOf, h]

theorem statusOf_congr {m m' : St} (he : m'.enqd = m.enqd) (hf : m'.fut = m.fut) : statusOf m' = statusOf m := by
  simp [statusOf, he, hf]

/-- a step with exactly one `send()`, no handler -/
theorem specStep_send1 {sp sp1 : SpecSt} {zero : Bool} {y : Sys} {thrown : Option String} {st : Option StObs}
    (h1 : sp.sys zero y = .ok sp1) (ht : stepThrow zero [y] thrown = none) (hc : sp1.checkState st = .ok ()) :
    specStep sp (.step zero [y] false false thrown st) = .ok sp1 := by
  simp [specStep, SpecSt.sysAll, h1, ht, hc]

theorem rel_of_writable {c : MSt} {sp sp' : SpecSt} {m' : St} (hrel : Rel c sp) (hinv : QInv m')
    (hdis : m'.drvDisarm = false) (hp : m'.pendingArm = c.m.pendingArm) (hreg : m'.registered = c.m.registered)
    (hdes : m'.destroyed = c.m.destroyed) (hpend : sp'.pend = m'.q.map fun e => ⟨e.id, e.rest⟩)
    (hst : sp'.status = statusOf m') (hacc : sp'.acc = m'.wire.drop c.drained) (hdr : c.drained ≤ m'.wire.length)
    (hconn : sp'.connected = sp.connected) (hd : sp'.destroyed = sp.destroyed) (hpc : sp'.peerClosed = sp.peerClosed) :
    Rel { c with m := m' } sp' :=
  ⟨hinv, hdis, by rw [hp]; exact hrel.noArm, hpend, hst, hacc, hdr, by rw [hreg, hconn, hd]; exact hrel.conn,
    by rw [hd, hdes]; exact hrel.destr, by rw [hpc]; exact hrel.closed⟩

theorem ok_step {c : MSt} {sp : SpecSt} (hrel : Rel c sp) (p : Poll) (hs : p.ans = .accept 0 → p.zero = true) :
    ∃ sp', specRun sp (modelObs c (.step p)).2 = .ok sp' ∧ Rel (modelObs c (.step p)).1 sp' := by
  obtain ⟨hup, out, ans, zero⟩ := p
  simp only [modelObs] at hs ⊢
  split
  · -- the peer's close is noticed: unregister, disconnect handler
    rename_i h
    obtain ⟨hreg, hdes, hpc, _⟩ := h
    have hd' : c.m.destroyed = false := by simpa using hdes
    obtain ⟨fq, ff, fe, fp, fdis, fw, freg, fdes, fr⟩ := unregister_fields hd' hrel.idle
    have hinv : QInv (step c.m .unregister) := inv_step hrel.inv _
    let sp' : SpecSt := { sp with connected := false }
    have hst : sp'.status = statusOf (step c.m .unregister) := by
      rw [statusOf_congr fe ff]; exact hrel.status
    refine ⟨sp', specRun_single ?_, ?_⟩
    · have hpc' : sp.peerClosed = true := by rw [hrel.closed]; exact hpc
      simp [specStep, SpecSt.sysAll, stepThrow, hpc']
      rw [check_ok hinv]
      · simp [sp', hpc']
      · exact hst
    · exact ⟨hinv, fdis, by rw [fp]; exact hrel.noArm, by rw [fq]; exact hrel.pend, hst, by rw [fw]; exact hrel.acc,
        by rw [fw]; exact hrel.drained, by simp [sp', freg], by rw [fdes, ← hd']; exact hrel.destr, hrel.closed⟩
  · split
    · -- POLLOUT: `DriverOnWritable`, one `send()` on the front buffer
      rename_i _ h
      obtain ⟨hreg, harm, hdes, _⟩ := h
      have hd' : c.m.destroyed = false := by simpa using hdes
      have hw := writable_enabled ans hd' hreg harm hrel.idle
      have hinv : QInv (mWritable c.m ans) := inv_step (inv_step hrel.inv _) _
      obtain ⟨gdis, gq, gw, gf, gr, ge, greg, gdes, gp⟩ := mWritable_fields c.m ans
      cases hq : c.m.q with
      | nil =>
        rw [hq] at hw
        rw [hw] at gq gw gf gr ge greg gdes gp
        simp only at gq gw gf gr ge greg gdes gp
        have hpend : sp.pend = [] := by rw [hrel.pend, hq]; rfl
        have hst : sp.status = statusOf (mWritable c.m ans) := by
          rw [statusOf_congr ge gf]; exact hrel.status
        refine ⟨sp, specRun_single ?_, ?_⟩
        · simp [specStep, SpecSt.sysAll, stepThrow, hpend]
          rw [check_ok hinv _ hst]
        · exact ⟨hinv, gdis, by rw [gp]; exact hrel.noArm, by rw [gq, hpend]; rfl, hst, by rw [gw]; exact hrel.acc,
            by rw [gw]; exact hrel.drained, by rw [greg]; exact hrel.conn, by rw [gdes]; exact hrel.destr, hrel.closed⟩
      | cons e rest =>
        rw [hq] at hw
        have hpend : sp.pend = ⟨e.id, e.rest⟩ :: rest.map (fun (e : Elem) => (⟨e.id, e.rest⟩ : SElem)) := by
          rw [hrel.pend, hq]; rfl
        cases ans with
        | fail =>
          simp only [driverSend] at hw
          rw [hw] at gq gw gf gr ge greg gdes gp
          dsimp only at gq gw gf gr ge greg gdes gp
          let sp1 : SpecSt := ({ sp with pend := rest.map (fun (e : Elem) => (⟨e.id, e.rest⟩ : SElem)) }).setStatus e.id 'e'
          have hst : sp1.status = statusOf (mWritable c.m .fail) := by
            simp only [sp1, SpecSt.setStatus, statusOf, ge, gf]
            rw [hrel.status, statusOf]
            exact statusOf_upd _ _ _ .exn
          refine ⟨sp1, specRun_single (specStep_send1 ?_ rfl (check_ok hinv _ hst)),
            rel_of_writable hrel hinv gdis gp greg gdes ?_ hst ?_ ?_ rfl rfl rfl⟩
          · simp [SpecSt.sys, hpend, sysOf, sp1]
          · simp [sp1, SpecSt.setStatus, gq]
          · simp [sp1, SpecSt.setStatus, gw, hrel.acc]
          · rw [gw]; exact hrel.drained
        | accept k =>
          by_cases hk : e.rest.length ≤ k
          · -- the whole remainder was accepted: value, pop
            simp only [driverSend, if_pos hk] at hw
            rw [hw] at gq gw gf gr ge greg gdes gp
            dsimp only at gq gw gf gr ge greg gdes gp
            have hmin : min k e.rest.length = e.rest.length := Nat.min_eq_right hk
            let sp1 : SpecSt := ({ sp with pend := rest.map (fun (e : Elem) => (⟨e.id, e.rest⟩ : SElem)),
                                           acc := sp.acc ++ e.rest }).setStatus e.id 'v'
            have hst : sp1.status = statusOf (mWritable c.m (.accept k)) := by
              simp only [sp1, SpecSt.setStatus, statusOf, ge, gf]
              rw [hrel.status, statusOf]
              exact statusOf_upd _ _ _ .value
            refine ⟨sp1, specRun_single (specStep_send1 ?_ ?_ (check_ok hinv _ hst)),
              rel_of_writable hrel hinv gdis gp greg gdes ?_ hst ?_ ?_ rfl rfl rfl⟩
            · simp [SpecSt.sys, hpend, sysOf, sp1, hmin]
            · rw [thrownOf_full e hk]; rfl
            · simp [sp1, SpecSt.setStatus, gq]
            · simp only [sp1, SpecSt.setStatus, gw]
              rw [List.drop_append_of_le_length hrel.drained, hrel.acc]
            · rw [gw, List.length_append]; have := hrel.drained; omega
          · by_cases hk0 : k = 0
            · -- scripted 0 return for a non-empty buffer: `logic_error` leaves Step, nothing changes
              subst hk0
              have hlen : 0 < e.rest.length := by omega
              have hz : zero = true := hs rfl
              simp only [driverSend, if_neg hk, if_true] at hw
              rw [hw] at gq gw gf gr ge greg gdes gp
              let sp1 : SpecSt := { sp with pend := { (⟨e.id, e.rest⟩ : SElem) with rest := e.rest.drop 0 } ::
                                                      rest.map (fun (e : Elem) => (⟨e.id, e.rest⟩ : SElem)),
                                            acc := sp.acc ++ e.rest.take 0 }
              have hst : sp1.status = statusOf (mWritable c.m (.accept 0)) := by
                rw [statusOf_congr ge gf]; exact hrel.status
              refine ⟨sp1, specRun_single (specStep_send1 ?_ ?_ (check_ok hinv _ hst)),
                rel_of_writable hrel hinv gdis gp greg gdes ?_ hst ?_ ?_ rfl rfl rfl⟩
              · have h1 : ¬ (0 = e.rest.length) := by omega
                simp [SpecSt.sys, hpend, sysOf, sp1, hz, h1]
              · rw [thrownOf_zero e hlen]
                simp [stepThrow, sysOf, hz, hlen]
              · simp [sp1, gq, hq]
              · simp [sp1, gw, hrel.acc]
              · rw [gw]; exact hrel.drained
            · -- partial write: the accepted prefix is erased, the buffer stays at the front
              have hlt : k < e.rest.length := by omega
              simp only [driverSend, if_neg hk, if_neg hk0] at hw
              rw [hw] at gq gw gf gr ge greg gdes gp
              dsimp only at gq gw gf gr ge greg gdes gp
              have hmin : min k e.rest.length = k := Nat.min_eq_left (by omega)
              let sp1 : SpecSt := { sp with pend := { (⟨e.id, e.rest⟩ : SElem) with rest := e.rest.drop k } ::
                                                      rest.map (fun (e : Elem) => (⟨e.id, e.rest⟩ : SElem)),
                                            acc := sp.acc ++ e.rest.take k }
              have hst : sp1.status = statusOf (mWritable c.m (.accept k)) := by
                rw [statusOf_congr ge gf]; exact hrel.status
              refine ⟨sp1, specRun_single (specStep_send1 ?_ ?_ (check_ok hinv _ hst)),
                rel_of_writable hrel hinv gdis gp greg gdes ?_ hst ?_ ?_ rfl rfl rfl⟩
              · have h1 : ¬ (k > e.rest.length) := by omega
                have h2 : ¬ (k = e.rest.length) := by omega
                simp [SpecSt.sys, hpend, sysOf, sp1, hmin, h1, h2, hk0]
              · rw [thrownOf_pos e hk0]; rfl
              · simp [sp1, gq]
              · simp only [sp1, gw]
                rw [List.drop_append_of_le_length hrel.drained, hrel.acc]
              · rw [gw, List.length_append]; have := hrel.drained; omega
    · -- nothing to do for this socket
      rename_i hnhup hnw
      refine ⟨sp, specRun_single ?_, hrel⟩
      have hlive : ¬ (sp.connected = true ∧ sp.peerClosed = false ∧ sp.destroyed = false ∧ ¬ sp.pend = [] ∧ sp.acc = []) := by
        intro ⟨hc, hpc, hdes', hpend, hacc⟩
        apply hnw
        have hreg : c.m.registered = true := by rw [hrel.conn, hc, hdes']; rfl
        have hq : c.m.q ≠ [] := by
          intro hq; apply hpend; rw [hrel.pend, hq]; rfl
        have harm : c.m.armed = true := by
          rcases hrel.inv.armedInv hreg hq with h | h
          · exact h
          · exact absurd hrel.noArm h
        refine ⟨hreg, harm, by rw [← hrel.destr, hdes']; simp, Or.inr ⟨?_, by rw [← hrel.closed, hpc]; simp⟩⟩
        have h1 : (c.m.wire.drop c.drained).length = 0 := by
          rw [← hrel.acc, hacc]; rfl
        rw [List.length_drop] at h1
        have := hrel.drained
        omega
      simp [specStep, SpecSt.sysAll, stepThrow]
      rw [if_neg hlive, check_ok hrel.inv sp hrel.status]

/-- one operation: the spec accepts the model's observations and the relation is re-established -/
theorem spec_step_ok {c : MSt} {sp : SpecSt} (hrel : Rel c sp) (op : Op) (hs : op.sane) :
    ∃ sp', specRun sp (modelObs c op).2 = .ok sp' ∧ Rel (modelObs c op).1 sp' := by
  cases op with
  | sock n =>
    exact ⟨{ sp with poolN := n }, rfl, ⟨hrel.inv, hrel.idle, hrel.noArm, hrel.pend, hrel.status, hrel.acc,
      hrel.drained, hrel.conn, hrel.destr, hrel.closed⟩⟩
  | nobuf => exact ⟨sp, rfl, hrel⟩
  | send id b => exact ok_send hrel id b
  | step p => exact ok_step hrel p hs
  | drain n => exact ok_drain hrel n
  | peerclose =>
    exact ⟨{ sp with peerClosed := true }, rfl, ⟨hrel.inv, hrel.idle, hrel.noArm, hrel.pend, hrel.status, hrel.acc,
      hrel.drained, hrel.conn, hrel.destr, rfl⟩⟩
  | destroy => exact ok_destroy hrel

/-- **The property predicate that the check evaluates on the implementation is a theorem of the
model**: for every history of `Send`s (any ids and contents, empty buffers included), driver steps with
arbitrary poll readiness and arbitrary answers of the OS to the `send()` (full, every short count,
failure, scripted zero), peer reads of any size, peer close, pool exhaustion and destruction, in any
order and of any length, the model's own observations are accepted by every clause of `Spec.C02`:
futures exactly those of the ideal FIFO pipeline after every operation (value only when this and all
earlier buffers were accepted completely, exception exactly for the buffer whose `send()` failed,
broken exactly for those pending at destruction, never changing afterwards), buffers back in the pool
exactly those with a resolved future, the peer's byte stream the FIFO concatenation of what the OS
accepted, at most one `send()` per step and only with a buffer queued, no handler without cause, no
exception out of `Step` except for the scripted zero, and a `send()` attempt whenever a buffer is
queued on a connected socket whose peer has read everything ("does not stay pending").

The only hypothesis is about the kernel, not the library: an unscripted `send()` does not answer 0
(`Op.sane`; the spec has a clause "send() returned 0" for it). -/
theorem model_satisfies_spec (ops : List Op) (hs : ∀ op ∈ ops, op.sane) :
    ∃ sp, specRun {} (modelTrace {} ops) = .ok sp := by
  suffices H : ∀ (c : MSt) (sp : SpecSt), Rel c sp → ∃ sp', specRun sp (modelTrace c ops) = .ok sp' from
    H {} {} rel_init
  induction ops with
  | nil => intro c sp _; exact ⟨sp, rfl⟩
  | cons op ops ih =>
    intro c sp hrel
    obtain ⟨sp1, h1, hrel1⟩ := spec_step_ok hrel op (hs op (by simp))
    obtain ⟨sp2, h2⟩ := ih (fun o ho => hs o (by simp [ho])) _ sp1 hrel1
    refine ⟨sp2, ?_⟩
    simp only [modelTrace]
    rw [specRun_append, h1]
    exact h2

/-- the same for the labelled run the driver uses -/
theorem model_satisfies_specL (ops : List Op) (hs : ∀ op ∈ ops, op.sane) (label : Obs → Option String) :
    ∃ sp, specRunL {} ((modelTrace {} ops).map fun o => (label o, o)) = .ok sp := by
  obtain ⟨sp, h⟩ := model_satisfies_spec ops hs
  refine ⟨sp, (specRunL_ok _ _ _).mpr ?_⟩
  simpa [List.map_map, Function.comp_def] using h

/-- a concrete history (used by the non-vacuity examples of `Props/C02.lean`): partial write, scripted zero (exception out of Step), lagging
peer, failed send of an empty buffer, queue runs empty and is refilled, pool exhausted, a step while the
kernel reports "not writable", peer close noticed by a step, Send on the unregistered socket, destroy
with a pending buffer, a step afterwards -/
def specDemo : List Op :=
  [.sock 2, .send 1 [1, 2, 3], .send 2 [], .step ⟨false, false, .accept 2, false⟩,
   .step ⟨false, true, .accept 0, true⟩, .drain 1, .step ⟨false, true, .accept 7, false⟩,
   .step ⟨false, true, .fail, false⟩, .send 3 [9], .nobuf, .step ⟨false, false, .accept 1, false⟩, .drain 5,
   .step ⟨false, false, .accept 1, false⟩, .peerclose, .send 4 [4, 4], .step ⟨true, false, .accept 1, false⟩,
   .step ⟨false, true, .accept 1, false⟩, .destroy, .step ⟨false, true, .accept 1, false⟩]

end SockModel.AsyncQ

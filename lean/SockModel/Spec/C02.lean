import SockModel.Model.AsyncQLemmas
/-!
# Spec.C02 - the property as an executable predicate over typed observations, and the proof that the
model satisfies it for every history

`specStep` / `specRun` / `specRunL` are what `./check C02` evaluates on the IMPLEMENTATION's transcript
(`Drive/C02.lean` parses the transcript lines into `Obs` and calls these very functions).  The
predicate is an *ideal FIFO pipeline fed with the same OS answers*: it keeps the buffers whose future
must still be pending (`pend`, in `Send` order, the front one with its unsent remainder), the expected
letter of every future (`status`), and the bytes the OS accepted that the peer has not read yet (`acc`).
It mentions no model state (`POLLOUT`, `wasEmpty`, `pendingArm`, ... do not occur).

`modelObs` / `modelTrace` are the observations the MODEL (`Model/AsyncQ.lean`, the very `step` function
the theorems of `Props/C02.lean` are about) produces for a history of API operations with arbitrary
environment answers.  `model_satisfies_spec` proves that `specRun` accepts every such trace - so a spec
failure on the implementation is a genuine difference between implementation and model (or a kernel
that answers 0 to an unscripted `send`), and every clause of the predicate is a consequence of the
model's definitions for histories of any length.

The multi-threaded runs (`mt ...` lines: several producer threads and a `Run()` thread) are judged by
the byte-stream parser `specMt` of the driver; its verdict enters here only as `Obs.external`.
-/
namespace SockModel.AsyncQ

def fnv (bs : Bytes) : UInt64 :=
  bs.foldl (fun h b => (h ^^^ b.toUInt64) * 1099511628211) 14695981039346656037

/-! ## typed observations -/

/-- one intercepted `send()` of the socket under test: bytes offered, result -/
inductive Sys where
  | sent (len r : Nat)
  | fail (len : Nat)
  deriving Repr, BEq, DecidableEq

/-- `st fut=<letters> ret=<ids>`: state of every future in creation order (p=pending v=value
e=exception b=broken) and the buffers found back in the send pool, in the order they were found -/
structure StObs where
  futs : String
  ret : List Nat
  deriving Repr

/-- what the harness reports for one operation (`none` = the observation line is missing) -/
inductive Obs where
  /-- `sock N _`: socket with a send pool of `N` buffers -/
  | sock (poolN : Nat)
  /-- `send id size` went through: buffer `bytes` handed to `Send`, then the state -/
  | send (id : Nat) (bytes : Bytes) (st : Option StObs)
  /-- `send id size` but the pool had no buffer: `Send` was not called -/
  | nobuf
  /-- `step <script>`: one `Driver::Step(0)`; `zero` = the harness scripted a 0 return for the next
  `send()`; the intercepted `send()` calls; whether the receive / disconnect handler ran; the exception
  that left `Step`, if any; then the state -/
  | step (zero : Bool) (sys : List Sys) (data disconnect : Bool) (thrown : Option String) (st : Option StObs)
  /-- `drain`: the peer read `n` bytes with FNV-1a hash `h` -/
  | drain (wire : Option (Nat × Nat))
  | peerclose
  /-- `destroy`: the socket object is destroyed, then the state -/
  | destroy (st : Option StObs)
  /-- the harness process died or hung inside this operation -/
  | crash (what : String)
  /-- an operation line the parser could not read -/
  | malformed (msg : String)
  /-- verdict of a clause evaluated outside this module (multi-threaded stream parser `specMt` of the
  driver; a crash reported between operations): `some msg` = violated -/
  | external (failure : Option String)
  deriving Repr

/-! ## the property on observations only -/

structure SElem where
  id : Nat
  rest : Bytes
  deriving Repr

structure SpecSt where
  poolN : Nat := 0
  pend : List SElem := []                 -- Sends whose future must still be pending, in Send order
  status : List (Nat × Char) := []        -- expected future letter per id, creation order
  acc : Bytes := []                       -- accepted by the OS, not yet read by the peer
  connected : Bool := true
  peerClosed : Bool := false
  destroyed : Bool := false
  deriving Repr

def SpecSt.setStatus (sp : SpecSt) (id : Nat) (c : Char) : SpecSt :=
  { sp with status := sp.status.map fun (i, x) => if i = id then (i, c) else (i, x) }

def SpecSt.letters (sp : SpecSt) : String := String.ofList (sp.status.map (·.2))
def SpecSt.resolvedIds (sp : SpecSt) : List Nat := (sp.status.filter (·.2 ≠ 'p')).map (·.1)

def sameSet (a b : List Nat) : Bool := a.all b.contains && b.all a.contains && a.length == b.length

/-- "Each returned future becomes ready exactly once: with a value only after every byte of its buffer
(and of all earlier buffers) was accepted by the OS, with an exception if transmitting it failed, or as a
broken promise if the socket is destroyed first" and "the buffer goes back to its pool only after its
last byte was handed to the OS (or the send failed), and no later than the end of the driver step in
which its future resolves": after every operation the futures are exactly those of the ideal pipeline
and the buffers back in the pool are exactly those whose future is resolved. -/
def SpecSt.checkState (sp : SpecSt) : Option StObs → Except String Unit
  | some o =>
    if o.futs ≠ sp.letters then
      .error s!"futures are {o.futs} but an ideal FIFO pipeline fed with the same OS answers has {sp.letters} (p=pending v=value e=exception b=broken)"
    else if ¬ sameSet o.ret sp.resolvedIds then
      .error s!"buffers back in the pool {o.ret} differ from the buffers whose future is resolved {sp.resolvedIds}"
    else .ok ()
  | none => .error "missing state observation"

/-- one `send()` seen during a step, applied to the ideal pipeline -/
def SpecSt.sys (sp : SpecSt) (zeroScripted : Bool) : Sys → Except String SpecSt
  | .sent _ r =>
    match sp.pend with
    | [] => .error "a send() was issued although no buffer is queued"
    | e :: rest =>
      if r > e.rest.length then .error s!"the OS accepted {r} bytes of a buffer that has only {e.rest.length} left"
      else if r = e.rest.length then
        .ok ({ sp with pend := rest, acc := sp.acc ++ e.rest }.setStatus e.id 'v')
      else if r = 0 ∧ ¬ zeroScripted then .error "send() returned 0"
      else .ok { sp with pend := { e with rest := e.rest.drop r } :: rest, acc := sp.acc ++ e.rest.take r }
  | .fail _ =>
    match sp.pend with
    | [] => .error "a send() was issued although no buffer is queued"
    | e :: rest => .ok ({ sp with pend := rest }.setStatus e.id 'e')

def SpecSt.sysAll (sp : SpecSt) (zeroScripted : Bool) : List Sys → Except String SpecSt
  | [] => .ok sp
  | s :: ss => match sp.sys zeroScripted s with
    | .ok sp' => sp'.sysAll zeroScripted ss
    | .error m => .error m

/-- an exception may leave `Step` only when the harness scripted a 0 return of `send()` for a
non-empty buffer (`SendSome` turns that into a `logic_error`) -/
def stepThrow (zero : Bool) (sys : List Sys) : Option String → Option String
  | some t =>
    let okThrow : Bool := zero && (match sys with | [.sent l 0] => decide (l > 0) | _ => false)
    if ¬ okThrow then some s!"Step threw: {t}" else none
  | none => none

def specStep (sp : SpecSt) : Obs → Except String SpecSt
  | .crash c => .error s!"crash: {c}"
  | .malformed m => .error m
  | .external (some m) => .error m
  | .external none => .ok sp
  | .sock n => .ok { sp with poolN := n }
  | .nobuf => .ok sp
  | .send id bytes st =>
    let sp' := { sp with pend := sp.pend ++ [SElem.mk id bytes], status := sp.status ++ [(id, 'p')] }
    match sp'.checkState st with
    | .error m => .error m
    | .ok _ => .ok sp'
  | .step zero sys data disconnect thrown st =>
    if data then .error "receive handler invoked although the peer never sent"
    else if disconnect ∧ ¬ sp.peerClosed then .error "disconnect handler invoked although the peer did not close"
    else if sys.length > 1 then .error "more than one send() in one driver step"
    else
      match sp.sysAll zero sys with
      | .error m => .error m
      | .ok sp1 =>
        match stepThrow zero sys thrown with
        | some m => .error m
        | none =>
          let sp2 := if disconnect then { sp1 with connected := false } else sp1
          -- "does not stay pending while the driver runs and the peer reads"
          if sys.isEmpty ∧ ¬ disconnect ∧ sp2.connected ∧ ¬ sp2.peerClosed ∧ ¬ sp2.destroyed ∧ sp2.pend ≠ [] ∧ sp2.acc.isEmpty then
            .error "a buffer is queued, the peer has read everything, yet Step made no send attempt (future stays pending)"
          else
            match sp2.checkState st with
            | .error m => .error m
            | .ok _ => .ok sp2
  | .drain (some (n, h)) =>
    -- the peer may lag behind the OS (it read fewer bytes than were accepted so far): what it read must be
    -- exactly the next bytes of the FIFO concatenation; the rest stays expected
    if n > sp.acc.length ∨ h ≠ (fnv (sp.acc.take n)).toNat then
      .error s!"peer read {n} bytes (hash {h}); the FIFO concatenation of what the OS accepted continues with {sp.acc.length} bytes (hash of the first {min n sp.acc.length}: {fnv (sp.acc.take n)})"
    else .ok { sp with acc := sp.acc.drop n }
  | .drain none => .error "missing wire observation"
  | .peerclose => .ok { sp with peerClosed := true }
  | .destroy st =>
    let sp' := { sp with pend := [], destroyed := true,
                         status := sp.status.map fun (i, c) => if c = 'p' then (i, 'b') else (i, c) }
    match sp'.checkState st with
    | .error m => .error m
    | .ok _ => .ok sp'

def specRun (sp : SpecSt) : List Obs → Except String SpecSt
  | [] => .ok sp
  | o :: os => match specStep sp o with
    | .ok sp' => specRun sp' os
    | .error m => .error m

/-- `specRun` with the operation line attached to each observation, for the message of the check
(`some l`: "after 'l': ..."; `none`: message as it is) -/
def specRunL (sp : SpecSt) : List (Option String × Obs) → Except String SpecSt
  | [] => .ok sp
  | (l, o) :: os => match specStep sp o with
    | .ok sp' => specRunL sp' os
    | .error m => .error (match l with | some l => s!"after '{l}': {m}" | none => m)

/-- the labelled run accepts exactly when `specRun` accepts the observations -/
theorem specRunL_ok (sp : SpecSt) (l : List (Option String × Obs)) (sp' : SpecSt) :
    specRunL sp l = .ok sp' ↔ specRun sp (l.map (·.2)) = .ok sp' := by
  induction l generalizing sp with
  | nil => simp [specRunL, specRun]
  | cons x xs ih =>
    obtain ⟨t, o⟩ := x
    simp only [specRunL, specRun, List.map_cons]
    cases specStep sp o with
    | ok s1 => exact ih s1
    | error m => simp

/-! ## the observations the MODEL produces -/

def letter : Fut → Char
  | .none => '?' | .pending => 'p' | .value => 'v' | .exn => 'e' | .broken => 'b'

/-- the state observation of a model state: futures in creation order, returned buffers -/
def stObs (m : St) : StObs :=
  { futs := String.ofList ((m.enqd.map (·.1)).map fun i => letter (m.fut i)), ret := m.returned }

/-- what the environment contributes to one `Driver::Step(0)` -/
structure Poll where
  /-- `poll` reports the peer's close (only possible once the peer has closed) -/
  hup : Bool
  /-- `poll` reports the socket writable although accepted bytes are still unread by the peer
  (it must report it when the peer has read everything: assumption 3 of `props/c02.py`) -/
  out : Bool
  /-- answer of the OS to the `send()` of this step, if one is made -/
  ans : Ans
  /-- the harness scripted a 0 return -/
  zero : Bool
  deriving Repr

/-- API-level history: what one thread can do with one `SocketTcpAsync` and its driver, together with
everything the environment decides (pool exhaustion, poll readiness, `send()` answers incl. short
writes and failures, how much the peer reads, when it closes) -/
inductive Op where
  | sock (poolN : Nat)
  | send (id : Nat) (bytes : Bytes)
  | nobuf
  | step (p : Poll)
  | drain (n : Nat)
  | peerclose
  | destroy
  deriving Repr

/-- model state + environment: how much of the wire the peer has read, whether it closed -/
structure MSt where
  m : St := {}
  drained : Nat := 0
  peerClosed : Bool := false

/-- `Send` = `DoSendEnqueue` then (if the queue was empty) `AsyncWantSend`, on one thread -/
def mSend (m : St) (id : Nat) (bytes : Bytes) : St := step (step m (.enq 0 id bytes)) (.arm 0)

/-- the `POLLOUT` branch of `DoOneSocketTask`: `DriverOnWritable`, then `events &= ~POLLOUT` if it said so -/
def mWritable (m : St) (a : Ans) : St := step (step m (.writable a)) .disarm

/-- the `send()` call the model makes on front element `e` with answer `a`, as the shim would log it -/
def sysOf (e : Elem) : Ans → Sys
  | .accept k => .sent e.rest.length (min k e.rest.length)
  | .fail => .fail e.rest.length

/-- `SendSome` throws `logic_error` when `send()` returns 0 for a non-empty buffer -/
def thrownOf (e : Elem) : Ans → Option String
  | .accept 0 => if e.rest.length > 0 then some "logic unexpected send result" else none
  | _ => none

def modelObs (c : MSt) : Op → MSt × List Obs
  | .sock n => (c, [.sock n])
  | .nobuf => (c, [.nobuf])
  | .send id bytes =>
    -- not performed on a destroyed socket; ids are labels chosen by the caller, distinct by construction
    if c.m.destroyed ∨ c.m.fut id ≠ .none ∨ 0 ∈ c.m.pendingArm then (c, [])
    else
      let m' := mSend c.m id bytes
      ({ c with m := m' }, [.send id bytes (some (stObs m'))])
  | .step p =>
    if c.m.registered ∧ ¬ c.m.destroyed ∧ c.peerClosed ∧ p.hup then
      -- POLLIN first: receive fails, `DriverDisconnect`: `AsyncUnregister`, disconnect handler
      let m' := step c.m .unregister
      ({ c with m := m' }, [.step p.zero [] false true none (some (stObs m'))])
    else if c.m.registered ∧ c.m.armed ∧ ¬ c.m.destroyed ∧ (p.out ∨ (c.m.wire.length = c.drained ∧ ¬ c.peerClosed)) then
      let m' := mWritable c.m p.ans
      match c.m.q with
      | [] => ({ c with m := m' }, [.step p.zero [] false false none (some (stObs m'))])
      | e :: _ => ({ c with m := m' }, [.step p.zero [sysOf e p.ans] false false (thrownOf e p.ans) (some (stObs m'))])
    else (c, [.step p.zero [] false false none (some (stObs c.m))])
  | .drain n =>
    let k := min n (c.m.wire.length - c.drained)
    ({ c with drained := c.drained + k }, [.drain (some (k, (fnv ((c.m.wire.drop c.drained).take k)).toNat))])
  | .peerclose => ({ c with peerClosed := true }, [.peerclose])
  | .destroy =>
    if c.m.destroyed then (c, [])
    else
      let m' := step c.m .destroy
      ({ c with m := m' }, [.destroy (some (stObs m'))])

def modelTrace (c : MSt) : List Op → List Obs
  | [] => []
  | op :: ops => (modelObs c op).2 ++ modelTrace (modelObs c op).1 ops

def modelRun (c : MSt) : List Op → MSt
  | [] => c
  | op :: ops => modelRun (modelObs c op).1 ops

end SockModel.AsyncQ

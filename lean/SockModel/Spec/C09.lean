import SockModel.Model.UdpLemmas
/-!
# Spec.C09 - the property as an executable predicate over typed observations, the composed UDP
model, and the proof that the model satisfies the predicate for every history

`specStep` / `specRun` are what `./check C09` evaluates on the IMPLEMENTATION's transcript
(`Drive/C09.lean` parses every op line with its `->` observation lines into one `Obs` and calls exactly
these functions).  The reference book-keeping (`SpecSt`) mentions no model state: it is derived from
the operations the harness performed and the results the implementation reported - per receiver the
datagrams that must still be reported (in order), per async socket the datagrams that must still be
handed to the OS (in order), per async message the letter its future must show.

`sysStep` composes the existing model functions of `Model/Udp.lean` (`sendTo`, `netStep`,
`receiveFrom`, `tqStep`; nothing is re-defined) into one system of sockets on one driver - the
composition the driver replays next to the implementation - and `modelTrace` lists the observations
this model produces for an arbitrary history of operations.  `model_satisfies_spec`: `specRun`
accepts `modelTrace` of every history.  So a `spec` verdict on the implementation is provably a
difference between implementation and model; the oracle is never stricter than the model.
-/
namespace SockModel.Udp
open SockModel.AsyncQ (Bytes Fut upd upd_same upd_other)

/-! ## vocabulary shared by spec, model and driver -/

/-- payload of message `id` (the harness' `Pat`, `harness/scen/udp.cpp`) -/
def pat (id j : Nat) : UInt8 := UInt8.ofNat ((id * 37 + j * 11 + (j / 251) * 3 + 1) % 256)
def content (id size : Nat) : Bytes := (List.range size).map (pat id)
/-- FNV-1a, the hash the harness prints instead of the payload -/
def fnv (bs : Bytes) : UInt64 :=
  bs.foldl (fun h b => (h ^^^ b.toUInt64) * 1099511628211) 14695981039346656037

theorem content_length (id size : Nat) : (content id size).length = size := by simp [content]

inductive Kind where
  | basic | buff | async
  deriving DecidableEq, Repr

def Kind.name : Kind → String
  | .basic => "basic" | .buff => "buff" | .async => "async"

/-- what the harness tells the OS shim to answer to the one `sendto` / wait of a `sendto` line -/
inductive Script where
  | pass | fail (e : Nat) | short (k : Nat) | timeout
  deriving DecidableEq, Repr

structure SockInfo where
  i : Nat
  kind : Kind
  rx : Nat          -- `rxBufSize` of the buffered / async level (0 = taken from SO_RCVBUF)
  deriving DecidableEq, Repr

def noLimit : Nat := 2 ^ 40
def maxPayload (fam : Nat) : Nat := if fam = 6 then 65527 else 65507
/-- bytes of room of a receive on socket `s`: the caller's `size` (basic) or `rxBufSize` -/
def room (s : SockInfo) (size : Nat) : Nat :=
  if s.kind = .basic then size else if s.rx = 0 then noLimit else s.rx

def futLetter : Fut → Char
  | .none => '?' | .pending => 'p' | .value => 'v' | .exn => 'e' | .broken => 'b'

def sameSet (a b : List Nat) : Bool := a.all b.contains && b.all a.contains && a.length == b.length

/-! ## typed observations -/

/-- result of a synchronous `SendTo` -/
inductive SendObs where
  | ret (n : Nat)
  | throwSystem (errno : Nat)
  | throwLogic
  | other (msg : String)        -- anything else (the text is the verdict message)
  deriving DecidableEq, Repr

/-- reported source of a datagram: ordinal of a bound socket, or something unknown -/
inductive Src where
  | ord (n : Nat)
  | unknown (txt : String)
  deriving DecidableEq, Repr

instance : ToString Src := ⟨fun | .ord n => toString n | .unknown t => t⟩

/-- the `st fut=... ret=...` line: letter of every async future (in `SendTo` order), message ids
whose buffer is back in the pool -/
structure StObs where
  futs : List Char
  ret : List Nat
  deriving DecidableEq, Repr

/-- result of the one `sendto` of a `DriverSendTo` as seen at the libc boundary -/
inductive SysRes where
  | full                 -- returned the length it was given
  | fail                 -- returned -1
  | other (txt : String)
  deriving DecidableEq, Repr

/-- what one `Driver::Step(0)` did -/
inductive StepEv where
  | nothing
  | recv (i len hash : Nat) (src : Src)       -- receive handler of socket `i` ran
  | sendto (i len : Nat) (res : SysRes)       -- socket `i` issued one `sendto` of `len` bytes
  | many                                      -- more than one socket task
  | threw (txt : String)
  deriving DecidableEq, Repr

inductive RecvObs where
  | got (len hash : Nat) (src : Src)
  | none
  | skipped                                   -- unlimited receive not attempted: socket not readable
  | failed (txt : String)
  deriving DecidableEq, Repr

/-- one operation of the harness together with what the implementation was observed to do -/
inductive Obs where
  | fam (f : Nat)
  | sock (i : Nat) (kind : Kind) (rx : Nat)
  | sendto (i j m len : Nat) (t : Int) (sc : Script) (r : SendObs)
  | asendNoBuf                                              -- harness pool empty: no `SendTo` happened
  | asend (i j m len : Nat) (st : StObs)
  | step (ev : StepEv) (st : StObs)
  | recv (i size : Nat) (t : Int) (r : RecvObs)
  | destroy (i : Nat) (st : StObs)
  | abort (txt : String)                                    -- crash / hang
  deriving DecidableEq, Repr

/-! ## the property on the observations -/

structure SpecSt where
  fam : Nat := 4
  socks : List SockInfo := []
  /-- per receiver: datagrams `(payload, sender)` still to be reported, in order -/
  expect : Nat → List (Bytes × Nat) := fun _ => []
  /-- async message id ↦ the letter its future must show -/
  status : List (Nat × Char) := []
  /-- per async socket: queued `(message id, len, dst)`, oldest first -/
  pendq : Nat → List (Nat × Nat × Nat) := fun _ => []

def SpecSt.sock (s : SpecSt) (i : Nat) : Option SockInfo := s.socks.find? (·.i = i)
def SpecSt.letters (s : SpecSt) : List Char := s.status.map (·.2)
def SpecSt.resolvedIds (s : SpecSt) : List Nat := (s.status.filter (·.2 ≠ 'p')).map (·.1)
def SpecSt.deliver (s : SpecSt) (src dst : Nat) (p : Bytes) : SpecSt :=
  { s with expect := updL s.expect dst (s.expect dst ++ [(p, src)]) }
def setLetter (st : List (Nat × Char)) (m : Nat) (c : Char) : List (Nat × Char) :=
  st.map fun x => if x.1 = m then (x.1, c) else x

/-- "SendTo returns the full size, or 0 only when a limited timeout expired, never a partial
count" (and throws exactly when the OS failed).  `.ok sent`: did a datagram leave? -/
def specSendTo (fam len : Nat) (t : Int) (sc : Script) : SendObs → Except String Bool
  | .ret n =>
    if sc = .timeout ∧ t ≥ 0 then
      (if n = 0 then .ok false else .error s!"SendTo returned {n} although its wait timed out")
    else if n = len then .ok true
    else if n = 0 then .error s!"SendTo({len} bytes, timeout {t}) returned 0 although the wait did not time out"
    else .error s!"SendTo({len} bytes) returned the partial count {n}"
  | .throwSystem e =>
    match sc with
    | .fail e' => if e = e' then .ok false else .error s!"SendTo reports errno {e}, the OS failed with {e'}"
    | _ =>
      if len > maxPayload fam ∧ e = 90 then .ok false
      else .error s!"SendTo({len} bytes) threw system_error {e} although the OS accepted the datagram"
  | .throwLogic =>
    match sc with
    | .short k =>
      if k < len ∧ ¬ len > maxPayload fam then .ok true
      else .error "logic_error although sendto returned the full size"
    | _ => .error "SendTo threw logic_error"
  | .other msg => .error msg

/-- the state line: "a future has a value iff its datagram was handed to the OS ..." -/
def specState (s : SpecSt) (st : StObs) : Option String :=
  if st.futs ≠ s.letters then
    some s!"futures are {String.ofList st.futs}, expected {String.ofList s.letters} (a future has a value iff its datagram was handed to the OS, an exception iff its sendto failed, later ones not held up)"
  else if ¬ sameSet st.ret s.resolvedIds then
    some s!"buffers back in the pool {st.ret} differ from the resolved futures {s.resolvedIds}"
  else none

/-- a report `(len, hash, src)` of receiver `i` with `room` bytes of room against the next expected datagram -/
def specReport (s : SpecSt) (i room len hash : Nat) (src : Src) : Except String SpecSt :=
  match s.expect i with
  | [] => .error s!"socket {i} reports a datagram ({len} bytes from {src}) although none is outstanding (duplicate or invented)"
  | (p, sender) :: rest =>
    let want := p.take room
    if len ≠ want.length ∨ hash ≠ (fnv want).toNat then
      .error s!"socket {i} reports {len} bytes (hash {hash}); the next datagram sent to it has {p.length} bytes, with {room} bytes of room the report must be its first {want.length} bytes (hash {fnv want})"
    else if src ≠ .ord sender then
      .error s!"socket {i} reports source {src}, the datagram was sent by socket {sender}"
    else .ok { s with expect := updL s.expect i rest }

def specEv (s : SpecSt) : StepEv → Except String SpecSt
  | .threw txt => .error s!"Step threw ({txt}); a failed datagram must only affect its own future"
  | .many => .error "more than one socket task in one step"
  | .nothing =>
    -- "later datagrams are not held up": nothing may be left to do
    match (s.socks.filter (·.kind = .async)).find? (fun k => !(s.expect k.i).isEmpty || !(s.pendq k.i).isEmpty) with
    | some k => .error s!"Step did nothing although socket {k.i} has a datagram to {if (s.expect k.i).isEmpty then "send (held up)" else "receive"}"
    | none => .ok s
  | .recv i len hash src =>
    match s.sock i with
    | none => .error s!"unknown socket {i}"
    | some k => specReport s i (room k 0) len hash src
  | .sendto i len res =>
    match s.pendq i with
    | [] => .error s!"socket {i} issued a sendto although nothing is queued"
    | (m, mlen, dst) :: more =>
      if mlen ≠ len then .error s!"socket {i} sent {len} bytes, its oldest queued datagram has {mlen} (order / boundaries)"
      else
        match res with
        | .other txt => .error s!"sendto returned {txt}"
        | .full =>
          .ok ({ s with pendq := updL s.pendq i more, status := setLetter s.status m 'v' }.deliver i dst (content m len))
        | .fail => .ok { s with pendq := updL s.pendq i more, status := setLetter s.status m 'e' }

def specRecv (s : SpecSt) (i size : Nat) (t : Int) (r : RecvObs) : Except String SpecSt :=
  match s.sock i with
  | none => .error s!"unknown socket {i}"
  | some k =>
    match r with
    | .got len hash src => specReport s i (room k size) len hash src
    | .none =>
      if ¬ (s.expect i).isEmpty then
        .error s!"socket {i} reports nothing although {(s.expect i).length} datagram(s) sent to it are outstanding (loss)"
      else if t < 0 then .error "an unlimited ReceiveFrom returned nullopt"
      else .ok s
    | .skipped =>
      if ¬ (s.expect i).isEmpty then
        .error s!"socket {i} is not readable although {(s.expect i).length} datagram(s) sent to it are outstanding (loss)"
      else .ok s
    | .failed txt => .error s!"ReceiveFrom failed: {txt}"

def withState (s : SpecSt) (st : StObs) : Except String SpecSt :=
  match specState s st with
  | some msg => .error msg
  | none => .ok s

def specStep (s : SpecSt) : Obs → Except String SpecSt
  | .abort txt => .error txt
  | .fam f => .ok { s with fam := f }
  | .sock i kind rx => .ok { s with socks := s.socks ++ [⟨i, kind, rx⟩] }
  | .sendto i j m len t sc r =>
    match specSendTo s.fam len t sc r with
    | .error msg => .error msg
    | .ok sent => .ok (if sent then s.deliver i j (content m len) else s)
  | .asendNoBuf => .ok s
  | .asend i j m len st =>
    withState { s with status := s.status ++ [(m, 'p')], pendq := updL s.pendq i (s.pendq i ++ [(m, len, j)]) } st
  | .step ev st =>
    match specEv s ev with
    | .error msg => .error msg
    | .ok s' => withState s' st
  | .recv i size t r => specRecv s i size t r
  | .destroy i st =>
    let dead := (s.pendq i).map (·.1)
    withState { s with socks := s.socks.filter (·.i ≠ i), pendq := updL s.pendq i [], expect := updL s.expect i [],
                       status := s.status.map (fun x => if dead.contains x.1 then (x.1, 'b') else x) } st

def specRun (s : SpecSt) : List Obs → Except String SpecSt
  | [] => .ok s
  | o :: os => match specStep s o with | .ok s' => specRun s' os | .error e => .error e

/-! ## the composed model: sockets of the three API levels on one driver

State = the datagram network (`Net`), one `SendToQ` (`TQ`) per socket ordinal, the live sockets in
registration order and the async message ids in `SendTo` order.  An operation that the harness would
not perform (`can` in `harness/scen/udp.cpp`: unknown / destroyed socket, synchronous call on an async
socket, re-used message id; additionally: a socket ordinal is never re-used) changes nothing and
produces no observation. -/

structure Sys where
  fam : Nat := 4
  socks : List SockInfo := []       -- live sockets, registration order
  gone : List Nat := []             -- ordinals of destroyed sockets
  net : Net := {}
  tq : Nat → TQ := fun _ => {}
  ids : List (Nat × Nat) := []      -- (message id, async socket) in `SendTo` order

inductive Op where
  | fam (f : Nat)
  | sock (i : Nat) (kind : Kind) (rx : Nat)
  /-- `SendTo(payload m of len bytes, address of j, timeout t)` on socket `i`, OS scripted with `sc` -/
  | sendto (i j m len : Nat) (t : Int) (sc : Script)
  /-- async `SendTo`; `nobuf`: the harness has no buffer left (environment's choice) -/
  | asend (i j m len : Nat) (nobuf : Bool)
  /-- `Driver::Step(0)`; `osFail`: answer of the OS to a `sendto` issued in this step, if any -/
  | step (osFail : Bool)
  | recv (i size : Nat) (t : Int)
  | destroy (i : Nat)
  deriving Repr

def updT (f : Nat → TQ) (i : Nat) (v : TQ) : Nat → TQ := fun x => if x = i then v else f x

/-- OS answers determined by the script and by the kernel's size limit (`EMSGSIZE`) -/
def osWait (sc : Script) : WaitAns := if sc = .timeout then .timedOut else .ready
def osSend (fam len : Nat) : Script → SendAns
  | .fail _ => .fail
  | .short k => if len > maxPayload fam then .fail else .accept (min k len)
  | _ => if len > maxPayload fam then .fail else .accept len
def osErrno : Script → Nat
  | .fail e => e
  | _ => 90

def Sys.sock (s : Sys) (i : Nat) : Option SockInfo := s.socks.find? (·.i = i)
def Sys.letters (s : Sys) : List Char := s.ids.map fun x => futLetter ((s.tq x.2).fut x.1)
/-- message ids whose buffer went back to the pool (`TQ.returned`), in `SendTo` order -/
def Sys.ret (s : Sys) : List Nat := (s.ids.filter fun x => (s.tq x.2).returned.contains x.1).map (·.1)
def Sys.st (s : Sys) : StObs := ⟨s.letters, s.ret⟩
/-- the socket the driver serves in this step: first async socket in registration order with an
event (readable: a datagram is queued; writable: `POLLOUT` armed) -/
def Sys.pick (s : Sys) : Option SockInfo :=
  (s.socks.filter (·.kind = .async)).find? (fun k => !(s.net.chan k.i).isEmpty || (s.tq k.i).armed)

def sendObsOf (sc : Script) : SendRes → SendObs
  | .ret n => .ret n
  | .logicError => .throwLogic
  | .systemError => .throwSystem (osErrno sc)

def reportObs (r : Report) : Nat × Nat × Src := (r.payload.length, (fnv r.payload).toNat, .ord r.src)

def sysStep (s : Sys) : Op → Sys × List Obs
  | .fam f => if s.socks = [] then ({ s with fam := f }, [.fam f]) else (s, [])
  | .sock i kind rx =>
    if (s.sock i).isSome ∨ i ∈ s.gone then (s, [])
    else ({ s with socks := s.socks ++ [⟨i, kind, rx⟩] }, [.sock i kind rx])
  | .sendto i j m len t sc =>
    match s.sock i, s.sock j with
    | some k, some _ =>
      if k.kind = .async then (s, [])
      else
        let r := sendTo len t (osWait sc) (osSend s.fam len sc)
        (if r.2 then { s with net := netStep s.net (.deliver i j (content m len)) } else s,
         [.sendto i j m len t sc (sendObsOf sc r.1)])
    | _, _ => (s, [])
  | .asend i j m len nobuf =>
    match s.sock i, s.sock j with
    | some k, some _ =>
      if k.kind ≠ .async ∨ m ∈ s.ids.map (·.1) then (s, [])
      else if nobuf then (s, [.asendNoBuf])
      else
        let s' := { s with tq := updT s.tq i (tqStep (s.tq i) (.enq m (content m len) j)), ids := s.ids ++ [(m, i)] }
        (s', [.asend i j m len s'.st])
    | _, _ => (s, [])
  | .step osFail =>
    match s.pick with
    | none => (s, [.step .nothing s.st])
    | some k =>
      match s.net.chan k.i with
      | d :: _ =>
        let rep := receiveFrom d (room k 0)
        let s' := { s with net := netStep s.net (.recv k.i (room k 0)) }
        (s', [.step (.recv k.i rep.payload.length (fnv rep.payload).toNat (.ord rep.src)) s'.st])
      | [] =>
        match (s.tq k.i).q with
        | [] => (s, [.step .nothing s.st])     -- unreachable: armed implies a queued element (`TInv.armedInv`)
        | e :: _ =>
          let s' := { s with tq := updT s.tq k.i (tqStep (s.tq k.i) (.writable (if osFail then .fail else .ok))),
                             net := if osFail then s.net else netStep s.net (.deliver k.i e.dst e.payload) }
          (s', [.step (.sendto k.i e.payload.length (if osFail then .fail else .full)) s'.st])
  | .recv i size t =>
    match s.sock i with
    | none => (s, [])
    | some k =>
      if k.kind = .async then (s, [])
      else
        match s.net.chan i with
        | [] => (s, [.recv i size t (if t < 0 then .skipped else .none)])
        | d :: _ =>
          let rep := receiveFrom d (room k size)
          ({ s with net := netStep s.net (.recv i (room k size)) },
           [.recv i size t (.got rep.payload.length (fnv rep.payload).toNat (.ord rep.src))])
  | .destroy i =>
    match s.sock i with
    | none => (s, [])
    | some _ =>
      let s' := { s with socks := s.socks.filter (·.i ≠ i), gone := i :: s.gone,
                         tq := updT s.tq i (tqStep (s.tq i) .destroy) }
      (s', [.destroy i s'.st])

/-- the observations the MODEL produces for a history -/
def modelTrace (s : Sys) : List Op → List Obs
  | [] => []
  | op :: ops => (sysStep s op).2 ++ modelTrace (sysStep s op).1 ops

/-! ## the model satisfies the spec -/

@[simp] theorem updT_same (f : Nat → TQ) (i : Nat) (v : TQ) : updT f i v i = v := by simp [updT]
theorem updT_other (f : Nat → TQ) (i : Nat) (v : TQ) (x : Nat) (h : x ≠ i) : updT f i v x = f x := by
  simp [updT, h]

/-- how the observer sees a queued datagram / a queued async element -/
def dg (d : Dgram) : Bytes × Nat := (d.payload, d.src)
def el (x : Nat × Nat × Nat) : TElem := ⟨x.1, content x.1 x.2.1, x.2.2⟩

/-- what the observer's book-keeping knows about the model state -/
structure Rel (m : Sys) (s : SpecSt) : Prop where
  fam : s.fam = m.fam
  socks : s.socks = m.socks
  expect : ∀ i, i ∉ m.gone → s.expect i = (m.net.chan i).map dg
  pendq : ∀ i, (m.tq i).q = (s.pendq i).map el
  status : s.status = m.ids.map (fun x => (x.1, futLetter ((m.tq x.2).fut x.1)))

/-- invariant of the composed model (every reachable state) -/
structure SInv (m : Sys) : Prop where
  tinv : ∀ i, TInv (m.tq i)
  live : ∀ k ∈ m.socks, k.i ∉ m.gone
  destr : ∀ i, (m.tq i).destroyed = true → i ∈ m.gone
  nodupSocks : (m.socks.map (·.i)).Nodup
  nodupIds : (m.ids.map (·.1)).Nodup
  own : ∀ i, ∀ e ∈ (m.tq i).enqd, (e.id, i) ∈ m.ids
  idsFut : ∀ x ∈ m.ids, (m.tq x.2).fut x.1 ≠ .none

theorem rel_init : Rel {} {} := ⟨rfl, rfl, fun _ _ => rfl, fun _ => rfl, rfl⟩
theorem sinv_init : SInv {} := by
  refine ⟨fun _ => tInv_init, ?_, ?_, List.nodup_nil, List.nodup_nil, ?_, ?_⟩
  · intro k hk; cases hk
  · intro i h; cases h
  · intro i e he; cases he
  · intro x hx; cases hx

theorem sameSet_refl (a : List Nat) : sameSet a a = true := by
  simp [sameSet]

theorem sock_mem {m : Sys} {i : Nat} {k : SockInfo} (h : m.sock i = some k) : k ∈ m.socks ∧ k.i = i := by
  unfold Sys.sock at h
  exact ⟨List.mem_of_find?_eq_some h, by simpa using List.find?_some h⟩

theorem letter_p {f : Fut} (hf : f ≠ .none) : (futLetter f ≠ 'p') = (f.resolved = true) := by
  cases f <;> simp [futLetter, Fut.resolved] at hf ⊢

theorem state_ok {m : Sys} {s : SpecSt} (inv : SInv m) (rel : Rel m s) : specState s m.st = none := by
  have h1 : s.letters = m.letters := by
    simp [SpecSt.letters, Sys.letters, rel.status, List.map_map, Function.comp_def]
  have h2 : s.resolvedIds = m.ret := by
    simp only [SpecSt.resolvedIds, Sys.ret, rel.status, List.filter_map, List.map_map]
    congr 1
    apply List.filter_congr
    intro x hx
    have hne := inv.idsFut x hx
    have ht := inv.tinv x.2
    simp only [Function.comp_def]
    have : (x.1 ∈ (m.tq x.2).returned) ↔ ((m.tq x.2).fut x.1).resolved = true := by
      constructor
      · intro hm
        rw [ht.ret] at hm
        obtain ⟨d, hd, hdx⟩ := List.mem_map.mp hm
        rw [← hdx, (ht.futd d hd).1]; exact (ht.futd d hd).2
      · intro hr
        have hin : x.1 ∈ (m.tq x.2).enqd.map (·.id) := by
          apply Classical.byContradiction
          intro hn; exact hne (ht.futn x.1 hn)
        rw [ht.ids] at hin
        rcases List.mem_append.mp hin with hm | hm
        · rw [ht.ret]; exact hm
        · obtain ⟨e, he, hex⟩ := List.mem_map.mp hm
          rw [← hex, ht.futq e he] at hr; simp [Fut.resolved] at hr
    have hl := letter_p hne
    by_cases hr : ((m.tq x.2).fut x.1).resolved = true
    · have hm := this.mpr hr
      simp [hm, hl, hr]
    · have hm : ¬ (x.1 ∈ (m.tq x.2).returned) := fun h => hr (this.mp h)
      simp [hm, hl, hr]
  simp only [specState, Sys.st, h1, h2, ne_eq, not_true_eq_false, if_false, sameSet_refl]

theorem withState_ok {m : Sys} {s : SpecSt} (inv : SInv m) (rel : Rel m s) : withState s m.st = .ok s := by
  simp [withState, state_ok inv rel]


/-! ### frames of `tqStep` -/

theorem tq_enq {s : TQ} {id : Nat} (p : Bytes) (dst : Nat) (hd : s.destroyed = false) (hf : s.fut id = .none) :
    tqStep s (.enq id p dst) =
      { s with q := s.q ++ [⟨id, p, dst⟩], armed := true, fut := upd s.fut id .pending, enqd := s.enqd ++ [⟨id, p, dst⟩] } := by
  simp [tqStep, hd, hf]

theorem tq_writable_q {s : TQ} {e : TElem} {rest : List TElem} (hd : s.destroyed = false) (ha : s.armed = true)
    (hq : s.q = e :: rest) (a : TAns) :
    (tqStep s (.writable a)).q = rest ∧
    (tqStep s (.writable a)).fut = upd s.fut e.id (match a with | .ok => .value | .fail => .exn) := by
  cases a <;> simp [tqStep, hd, ha, hq]

theorem tq_destroy {s : TQ} (hd : s.destroyed = false) :
    (tqStep s .destroy).q = [] ∧ (tqStep s .destroy).destroyed = true ∧
    (tqStep s .destroy).fut = fun i => if s.fut i = .pending then .broken else s.fut i := by
  simp [tqStep, hd]

theorem tq_destroyed_enq (s : TQ) (id : Nat) (p : Bytes) (dst : Nat) :
    (tqStep s (.enq id p dst)).destroyed = s.destroyed := by
  simp only [tqStep]; split <;> rfl

theorem tq_destroyed_writable (s : TQ) (a : TAns) : (tqStep s (.writable a)).destroyed = s.destroyed := by
  simp only [tqStep]; split
  · rfl
  · split
    · rfl
    · cases a <;> rfl

theorem tq_enqd_writable (s : TQ) (a : TAns) : (tqStep s (.writable a)).enqd = s.enqd := by
  simp only [tqStep]; split
  · rfl
  · split
    · rfl
    · cases a <;> rfl

theorem tq_enqd_destroy (s : TQ) : (tqStep s .destroy).enqd = s.enqd := by
  simp only [tqStep]; split <;> rfl

theorem tq_fut_ne_none (s : TQ) (a : TAct) (m : Nat) (h : s.fut m ≠ .none) : (tqStep s a).fut m ≠ .none := by
  cases a with
  | enq id p dst =>
    simp only [tqStep]; split
    · exact h
    · simp only [upd]; split
      · simp
      · exact h
  | writable an =>
    simp only [tqStep]; split
    · exact h
    · split
      · exact h
      · cases an <;> (simp only [upd]; split <;> first | exact h | simp)
  | destroy =>
    simp only [tqStep]; split
    · exact h
    · simp only; split
      · simp
      · exact h

/-! ### the pieces of one operation -/

theorem sinv_net {m : Sys} (inv : SInv m) (n : Net) : SInv { m with net := n } :=
  ⟨inv.tinv, inv.live, inv.destr, inv.nodupSocks, inv.nodupIds, inv.own, inv.idsFut⟩

theorem rel_deliver {m : Sys} {s : SpecSt} (rel : Rel m s) (i j : Nat) (p : Bytes) :
    Rel { m with net := netStep m.net (.deliver i j p) } (s.deliver i j p) := by
  refine ⟨rel.fam, rel.socks, ?_, rel.pendq, rel.status⟩
  intro x hx
  simp only [SpecSt.deliver, netStep]
  by_cases h : x = j
  · subst h; simp [rel.expect x hx, dg]
  · rw [updL_other _ _ _ _ h, updL_other _ _ _ _ h]; exact rel.expect x hx

theorem report_ok {m : Sys} {s : SpecSt} (rel : Rel m s) {i : Nat} (hi : i ∉ m.gone) {d : Dgram} {rest : List Dgram}
    (hc : m.net.chan i = d :: rest) (rm : Nat) :
    ∃ s', specReport s i rm (receiveFrom d rm).payload.length (fnv (receiveFrom d rm).payload).toNat (.ord (receiveFrom d rm).src) = .ok s' ∧
      Rel { m with net := netStep m.net (.recv i rm) } s' := by
  have he : s.expect i = (d.payload, d.src) :: rest.map dg := by rw [rel.expect i hi, hc]; rfl
  refine ⟨{ s with expect := updL s.expect i (rest.map dg) }, ?_, ?_⟩
  · simp [specReport, he, receiveFrom]
  · refine ⟨rel.fam, rel.socks, ?_, rel.pendq, rel.status⟩
    intro x hx
    simp only [netStep, hc]
    by_cases h : x = i
    · subst h; simp
    · rw [updL_other _ _ _ _ h, updL_other _ _ _ _ h]; exact rel.expect x hx

set_option linter.unusedSimpArgs false in
theorem sendTo_spec (fam len : Nat) (t : Int) (sc : Script) :
    specSendTo fam len t sc (sendObsOf sc (sendTo len t (osWait sc) (osSend fam len sc)).1)
      = .ok (sendTo len t (osWait sc) (osSend fam len sc)).2 := by
  by_cases hbig : len > maxPayload fam <;> by_cases ht : 0 ≤ t <;> cases sc with
  | pass => simp [sendTo, sendNow, osWait, osSend, sendObsOf, specSendTo, osErrno, hbig, ht]
  | fail e => simp [sendTo, sendNow, osWait, osSend, sendObsOf, specSendTo, osErrno, hbig, ht]
  | timeout => simp [sendTo, sendNow, osWait, osSend, sendObsOf, specSendTo, osErrno, hbig, ht]
  | short k =>
    by_cases hk : k < len
    · have : min k len ≠ len := by omega
      simp [sendTo, sendNow, osWait, osSend, sendObsOf, specSendTo, osErrno, hbig, ht, hk, this]
    · have : min k len = len := by omega
      simp [sendTo, sendNow, osWait, osSend, sendObsOf, specSendTo, osErrno, hbig, ht, hk, this]


theorem specRun_single {s s' : SpecSt} {o : Obs} (h : specStep s o = .ok s') : specRun s [o] = .ok s' := by
  simp [specRun, h]

theorem find_of_nodup {l : List SockInfo} (h : (l.map (·.i)).Nodup) {k : SockInfo} (hk : k ∈ l) :
    l.find? (·.i = k.i) = some k := by
  induction l with
  | nil => cases hk
  | cons y ys ih =>
    simp only [List.map_cons, List.nodup_cons] at h
    rcases List.mem_cons.mp hk with rfl | hk'
    · simp
    · have hne : y.i ≠ k.i := by
        intro he; apply h.1; rw [he]; exact List.mem_map_of_mem (f := (·.i)) hk'
      rw [List.find?_cons_of_neg (by simpa using hne)]
      exact ih h.2 hk'

theorem sock_of_mem {m : Sys} (inv : SInv m) {k : SockInfo} (hk : k ∈ m.socks) : m.sock k.i = some k :=
  find_of_nodup inv.nodupSocks hk

theorem spec_sock {m : Sys} {s : SpecSt} (rel : Rel m s) (i : Nat) : s.sock i = m.sock i := by
  simp [SpecSt.sock, Sys.sock, rel.socks]

theorem live_tq {m : Sys} (inv : SInv m) {k : SockInfo} (hk : k ∈ m.socks) : (m.tq k.i).destroyed = false := by
  cases hd : (m.tq k.i).destroyed with
  | false => rfl
  | true => exact absurd (inv.destr _ hd) (inv.live k hk)

theorem tinv_upd {m : Sys} (inv : SInv m) (i : Nat) (a : TAct) (x : Nat) :
    TInv (updT m.tq i (tqStep (m.tq i) a) x) := by
  by_cases h : x = i
  · subst h; rw [updT_same]; exact tInv_step (inv.tinv x) a
  · rw [updT_other _ _ _ _ h]; exact inv.tinv x

theorem fut_upd_ne {m : Sys} (i : Nat) (a : TAct) (x : Nat × Nat) (h : (m.tq x.2).fut x.1 ≠ .none) :
    (updT m.tq i (tqStep (m.tq i) a) x.2).fut x.1 ≠ .none := by
  by_cases hx : x.2 = i
  · rw [hx, updT_same]; rw [hx] at h; exact tq_fut_ne_none _ a _ h
  · rw [updT_other _ _ _ _ hx]; exact h

/-- the queue of a live socket is non-empty iff `POLLOUT` is armed iff the observer has a pending entry -/
theorem armed_iff {m : Sys} {s : SpecSt} (inv : SInv m) (rel : Rel m s) {k : SockInfo} (hk : k ∈ m.socks) :
    (m.tq k.i).armed = !(s.pendq k.i).isEmpty := by
  have hd := live_tq inv hk
  have ha := (inv.tinv k.i).armedInv hd
  have hq := rel.pendq k.i
  cases hp : s.pendq k.i with
  | nil =>
    rw [hp] at hq
    cases harm : (m.tq k.i).armed with
    | false => rfl
    | true => exact absurd hq (ha.mp harm)
  | cons x xs =>
    rw [hp] at hq
    have : (m.tq k.i).q ≠ [] := by rw [hq]; simp
    simp [ha.mpr this]

theorem expect_empty {m : Sys} {s : SpecSt} (inv : SInv m) (rel : Rel m s) {k : SockInfo} (hk : k ∈ m.socks) :
    (s.expect k.i).isEmpty = (m.net.chan k.i).isEmpty := by
  rw [rel.expect k.i (inv.live k hk)]; simp


theorem step_fam {m : Sys} {s : SpecSt} (inv : SInv m) (rel : Rel m s) (f : Nat) :
    ∃ s', specRun s (sysStep m (.fam f)).2 = .ok s' ∧ Rel (sysStep m (.fam f)).1 s' ∧ SInv (sysStep m (.fam f)).1 := by
  simp only [sysStep]
  split
  · exact ⟨{ s with fam := f }, rfl, ⟨rfl, rel.socks, rel.expect, rel.pendq, rel.status⟩,
      ⟨inv.tinv, inv.live, inv.destr, inv.nodupSocks, inv.nodupIds, inv.own, inv.idsFut⟩⟩
  · exact ⟨s, rfl, rel, inv⟩

theorem step_sock {m : Sys} {s : SpecSt} (inv : SInv m) (rel : Rel m s) (i : Nat) (kind : Kind) (rx : Nat) :
    ∃ s', specRun s (sysStep m (.sock i kind rx)).2 = .ok s' ∧ Rel (sysStep m (.sock i kind rx)).1 s' ∧
      SInv (sysStep m (.sock i kind rx)).1 := by
  simp only [sysStep]
  split
  · exact ⟨s, rfl, rel, inv⟩
  · rename_i hc
    simp only [not_or] at hc
    have hnone : ∀ k ∈ m.socks, k.i ≠ i := by
      intro k hk he
      have := sock_of_mem inv hk
      rw [he] at this
      rw [this] at hc; simp at hc
    refine ⟨{ s with socks := s.socks ++ [⟨i, kind, rx⟩] }, rfl,
      ⟨rel.fam, by simp [rel.socks], rel.expect, rel.pendq, rel.status⟩, ?_⟩
    refine ⟨inv.tinv, ?_, inv.destr, ?_, inv.nodupIds, inv.own, inv.idsFut⟩
    · intro k hk
      simp only [List.mem_append, List.mem_singleton] at hk
      rcases hk with hk | rfl
      · exact inv.live k hk
      · exact hc.2
    · simp only [List.map_append, List.map_cons, List.map_nil]
      rw [List.nodup_append]
      refine ⟨inv.nodupSocks, by simp, ?_⟩
      intro a ha b hb
      simp only [List.mem_singleton] at hb
      subst hb
      obtain ⟨k, hk, rfl⟩ := List.mem_map.mp ha
      exact hnone k hk

theorem step_sendto {m : Sys} {s : SpecSt} (inv : SInv m) (rel : Rel m s) (i j mm len : Nat) (t : Int) (sc : Script) :
    ∃ s', specRun s (sysStep m (.sendto i j mm len t sc)).2 = .ok s' ∧ Rel (sysStep m (.sendto i j mm len t sc)).1 s' ∧
      SInv (sysStep m (.sendto i j mm len t sc)).1 := by
  simp only [sysStep]
  split
  · split
    · exact ⟨s, rfl, rel, inv⟩
    · have hs := sendTo_spec m.fam len t sc
      cases hd : (sendTo len t (osWait sc) (osSend m.fam len sc)).2 with
      | false =>
        rw [hd] at hs
        refine ⟨s, ?_, by simpa using rel, by simpa using inv⟩
        apply specRun_single
        simp [specStep, rel.fam, hs]
      | true =>
        rw [hd] at hs
        refine ⟨s.deliver i j (content mm len), ?_, by simpa using rel_deliver rel i j _, by simpa using sinv_net inv _⟩
        apply specRun_single
        simp [specStep, rel.fam, hs]
  · exact ⟨s, rfl, rel, inv⟩

theorem step_recv {m : Sys} {s : SpecSt} (inv : SInv m) (rel : Rel m s) (i size : Nat) (t : Int) :
    ∃ s', specRun s (sysStep m (.recv i size t)).2 = .ok s' ∧ Rel (sysStep m (.recv i size t)).1 s' ∧
      SInv (sysStep m (.recv i size t)).1 := by
  simp only [sysStep]
  split
  · exact ⟨s, rfl, rel, inv⟩
  · rename_i k hk
    have hmem := sock_mem hk
    have hgone : i ∉ m.gone := by have := inv.live k hmem.1; rwa [hmem.2] at this
    split
    · exact ⟨s, rfl, rel, inv⟩
    · split
      · rename_i hc
        have he : s.expect i = [] := by rw [rel.expect i hgone, hc]; rfl
        refine ⟨s, ?_, rel, inv⟩
        apply specRun_single
        by_cases ht : t < 0 <;> simp [specStep, specRecv, spec_sock rel, hk, he, ht]
      · rename_i d rest hc
        obtain ⟨s', h1, h2⟩ := report_ok rel hgone hc (room k size)
        refine ⟨s', ?_, h2, sinv_net inv _⟩
        apply specRun_single
        simp only [specStep, specRecv, spec_sock rel, hk]
        exact h1


/-- an id that is not registered has no future in any queue -/
theorem fut_none_of_fresh {m : Sys} (inv : SInv m) {mm : Nat} (h : mm ∉ m.ids.map (·.1)) (i : Nat) :
    (m.tq i).fut mm = .none := by
  apply (inv.tinv i).futn
  intro hm
  obtain ⟨e, he, rfl⟩ := List.mem_map.mp hm
  exact h (List.mem_map_of_mem (f := (·.1)) (inv.own i e he))

theorem step_asend {m : Sys} {s : SpecSt} (inv : SInv m) (rel : Rel m s) (i j mm len : Nat) (nobuf : Bool) :
    ∃ s', specRun s (sysStep m (.asend i j mm len nobuf)).2 = .ok s' ∧ Rel (sysStep m (.asend i j mm len nobuf)).1 s' ∧
      SInv (sysStep m (.asend i j mm len nobuf)).1 := by
  simp only [sysStep]
  split
  · rename_i k k' hk hk'
    split
    · exact ⟨s, rfl, rel, inv⟩
    · rename_i hc
      simp only [not_or, Decidable.not_not] at hc
      obtain ⟨_, hfresh⟩ := hc
      split
      · exact ⟨s, rfl, rel, inv⟩
      · have hmem := sock_mem hk
        have hdes : (m.tq i).destroyed = false := by have := live_tq inv hmem.1; rwa [hmem.2] at this
        have hnone := fut_none_of_fresh inv hfresh i
        have htq := tq_enq (content mm len) j hdes hnone
        -- the new model and observer states
        let m' : Sys := { m with tq := updT m.tq i (tqStep (m.tq i) (.enq mm (content mm len) j)), ids := m.ids ++ [(mm, i)] }
        let s1 : SpecSt := { s with status := s.status ++ [(mm, 'p')], pendq := updL s.pendq i (s.pendq i ++ [(mm, len, j)]) }
        have hfut_old : ∀ x ∈ m.ids, (m'.tq x.2).fut x.1 = (m.tq x.2).fut x.1 := by
          intro x hx
          have hne : x.1 ≠ mm := by intro he; apply hfresh; rw [← he]; exact List.mem_map_of_mem (f := (·.1)) hx
          show (updT m.tq i _ x.2).fut x.1 = _
          by_cases hxi : x.2 = i
          · rw [hxi, updT_same, htq]; exact upd_other _ _ _ _ hne
          · rw [updT_other _ _ _ _ hxi]
        have rel' : Rel m' s1 := by
          refine ⟨rel.fam, rel.socks, rel.expect, ?_, ?_⟩
          · intro x
            show (updT m.tq i _ x).q = (updL s.pendq i _ x).map el
            by_cases hx : x = i
            · subst hx; rw [updT_same, updL_same, htq]; simp [rel.pendq x, el]
            · rw [updT_other _ _ _ _ hx, updL_other _ _ _ _ hx]; exact rel.pendq x
          · show s.status ++ [(mm, 'p')] = (m.ids ++ [(mm, i)]).map _
            rw [List.map_append, rel.status]
            congr 1
            · apply List.map_congr_left
              intro x hx
              rw [hfut_old x hx]
            · show _ = [(mm, futLetter ((updT m.tq i _ i).fut mm))]
              rw [updT_same, htq]; simp [futLetter]
        have inv' : SInv m' := by
          refine ⟨tinv_upd inv i _, inv.live, ?_, inv.nodupSocks, ?_, ?_, ?_⟩
          · intro x hx
            by_cases hxi : x = i
            · subst hxi
              have : (updT m.tq x (tqStep (m.tq x) (.enq mm (content mm len) j)) x).destroyed = true := hx
              rw [updT_same, tq_destroyed_enq, hdes] at this; cases this
            · have : (updT m.tq i (tqStep (m.tq i) (.enq mm (content mm len) j)) x).destroyed = true := hx
              rw [updT_other _ _ _ _ hxi] at this; exact inv.destr x this
          · show ((m.ids ++ [(mm, i)]).map (·.1)).Nodup
            rw [List.map_append, List.nodup_append]
            refine ⟨inv.nodupIds, by simp, ?_⟩
            intro a ha b hb
            simp only [List.map_cons, List.map_nil, List.mem_singleton] at hb
            subst hb
            intro he; subst he; exact hfresh ha
          · intro x e he
            show (e.id, x) ∈ m.ids ++ [(mm, i)]
            have he' : e ∈ (updT m.tq i (tqStep (m.tq i) (.enq mm (content mm len) j)) x).enqd := he
            by_cases hxi : x = i
            · subst hxi
              rw [updT_same, htq] at he'
              simp only [List.mem_append, List.mem_singleton] at he'
              rcases he' with h | h
              · exact List.mem_append_left _ (inv.own x e h)
              · subst h; simp
            · rw [updT_other _ _ _ _ hxi] at he'
              exact List.mem_append_left _ (inv.own x e he')
          · intro x hx
            have hx' : x ∈ m.ids ++ [(mm, i)] := hx
            rcases List.mem_append.mp hx' with h | h
            · rw [hfut_old x h]; exact inv.idsFut x h
            · simp only [List.mem_singleton] at h
              subst h
              show (updT m.tq i _ i).fut mm ≠ .none
              rw [updT_same, htq]; simp
        refine ⟨s1, ?_, rel', inv'⟩
        apply specRun_single
        simp only [specStep]
        exact withState_ok inv' rel'
  · exact ⟨s, rfl, rel, inv⟩


theorem pair_unique {l : List (Nat × Nat)} (h : (l.map (·.1)).Nodup) {a b c : Nat} (hb : (a, b) ∈ l) (hc : (a, c) ∈ l) :
    b = c := by
  induction l with
  | nil => cases hb
  | cons y ys ih =>
    simp only [List.map_cons, List.nodup_cons] at h
    rcases List.mem_cons.mp hb with hb | hb <;> rcases List.mem_cons.mp hc with hc | hc
    · rw [← hb] at hc; exact (Prod.mk.inj hc).2.symm
    · exfalso; apply h.1; rw [← hb]; exact List.mem_map_of_mem (f := (·.1)) hc
    · exfalso; apply h.1; rw [← hc]; exact List.mem_map_of_mem (f := (·.1)) hb
    · exact ih h.2 hb hc

theorem q_ids {m : Sys} {s : SpecSt} (rel : Rel m s) (i : Nat) : (m.tq i).q.map (·.id) = (s.pendq i).map (·.1) := by
  rw [rel.pendq i, List.map_map]; rfl

/-- in the queue of socket `i`: exactly the registered ids whose future is pending -/
theorem pending_iff {m : Sys} (inv : SInv m) (i mm : Nat) :
    (m.tq i).fut mm = .pending ↔ mm ∈ (m.tq i).q.map (·.id) := by
  have ht := inv.tinv i
  constructor
  · intro hp
    have hin : mm ∈ (m.tq i).enqd.map (·.id) := by
      apply Classical.byContradiction
      intro hn; rw [ht.futn mm hn] at hp; cases hp
    rw [ht.ids] at hin
    rcases List.mem_append.mp hin with hm | hm
    · obtain ⟨d, hd, rfl⟩ := List.mem_map.mp hm
      have := ht.futd d hd
      rw [hp] at this
      have h2 := this.2; rw [← this.1] at h2; simp [Fut.resolved] at h2
    · exact hm
  · intro hm
    obtain ⟨e, he, rfl⟩ := List.mem_map.mp hm
    exact ht.futq e he

theorem q_owned {m : Sys} (inv : SInv m) {i : Nat} {e : TElem} (he : e ∈ (m.tq i).q) : (e.id, i) ∈ m.ids := by
  apply inv.own i e
  rw [(inv.tinv i).enqd]; exact List.mem_append_right _ he

theorem step_destroy {m : Sys} {s : SpecSt} (inv : SInv m) (rel : Rel m s) (i : Nat) :
    ∃ s', specRun s (sysStep m (.destroy i)).2 = .ok s' ∧ Rel (sysStep m (.destroy i)).1 s' ∧
      SInv (sysStep m (.destroy i)).1 := by
  simp only [sysStep]
  split
  · exact ⟨s, rfl, rel, inv⟩
  · rename_i k hk
    have hmem := sock_mem hk
    have hdes : (m.tq i).destroyed = false := by have := live_tq inv hmem.1; rwa [hmem.2] at this
    obtain ⟨hq', hd', hf'⟩ := tq_destroy hdes
    let m' : Sys := { m with socks := m.socks.filter (·.i ≠ i), gone := i :: m.gone,
                             tq := updT m.tq i (tqStep (m.tq i) .destroy) }
    let s1 : SpecSt := { s with socks := s.socks.filter (·.i ≠ i), pendq := updL s.pendq i [], expect := updL s.expect i [],
                                status := s.status.map (fun x => if ((s.pendq i).map (·.1)).contains x.1 then (x.1, 'b') else x) }
    have rel' : Rel m' s1 := by
      refine ⟨rel.fam, ?_, ?_, ?_, ?_⟩
      · show s.socks.filter _ = m.socks.filter _
        rw [rel.socks]
      · intro x hx
        have hx' : x ∉ i :: m.gone := hx
        simp only [List.mem_cons, not_or] at hx'
        show updL s.expect i [] x = _
        rw [updL_other _ _ _ _ hx'.1]; exact rel.expect x hx'.2
      · intro x
        show (updT m.tq i _ x).q = (updL s.pendq i [] x).map el
        by_cases hx : x = i
        · subst hx; rw [updT_same, updL_same, hq']; rfl
        · rw [updT_other _ _ _ _ hx, updL_other _ _ _ _ hx]; exact rel.pendq x
      · show s.status.map _ = m.ids.map _
        rw [rel.status, List.map_map]
        apply List.map_congr_left
        intro x hx
        simp only [Function.comp_def, List.contains_eq_mem, ← q_ids rel i]
        show (if decide (x.1 ∈ (m.tq i).q.map (·.id)) = true then (x.1, 'b') else (x.1, futLetter ((m.tq x.2).fut x.1)))
              = (x.1, futLetter ((updT m.tq i (tqStep (m.tq i) .destroy) x.2).fut x.1))
        by_cases hxi : x.2 = i
        · rw [hxi, updT_same, hf']
          by_cases hp : x.1 ∈ (m.tq i).q.map (·.id)
          · have := (pending_iff inv i x.1).mpr hp
            simp [hp, this, futLetter]
          · have : (m.tq i).fut x.1 ≠ .pending := fun h => hp ((pending_iff inv i x.1).mp h)
            simp [hp, this]
        · rw [updT_other _ _ _ _ hxi]
          have hp : x.1 ∉ (m.tq i).q.map (·.id) := by
            intro hm
            obtain ⟨e, he, hex⟩ := List.mem_map.mp hm
            have h1 := q_owned inv he
            rw [hex] at h1
            have h2 : (x.1, x.2) ∈ m.ids := hx
            exact hxi (pair_unique inv.nodupIds h2 h1)
          simp [hp]
    have inv' : SInv m' := by
      refine ⟨tinv_upd inv i _, ?_, ?_, ?_, inv.nodupIds, ?_, fun x hx => fut_upd_ne i _ x (inv.idsFut x hx)⟩
      · intro k' hk'
        have hk2 : k' ∈ m.socks.filter (·.i ≠ i) := hk'
        rw [List.mem_filter] at hk2
        show k'.i ∉ i :: m.gone
        simp only [List.mem_cons, not_or]
        exact ⟨by simpa using hk2.2, inv.live k' hk2.1⟩
      · intro x hx
        show x ∈ i :: m.gone
        by_cases hxi : x = i
        · subst hxi; simp
        · have : (updT m.tq i (tqStep (m.tq i) .destroy) x).destroyed = true := hx
          rw [updT_other _ _ _ _ hxi] at this
          exact List.mem_cons_of_mem _ (inv.destr x this)
      · show ((m.socks.filter (·.i ≠ i)).map (·.i)).Nodup
        exact List.Nodup.sublist (List.Sublist.map _ List.filter_sublist) inv.nodupSocks
      · intro x e he
        have he' : e ∈ (updT m.tq i (tqStep (m.tq i) .destroy) x).enqd := he
        by_cases hxi : x = i
        · subst hxi; rw [updT_same, tq_enqd_destroy] at he'; exact inv.own x e he'
        · rw [updT_other _ _ _ _ hxi] at he'; exact inv.own x e he'
    refine ⟨s1, ?_, rel', inv'⟩
    apply specRun_single
    simp only [specStep]
    exact withState_ok inv' rel'


theorem pick_mem {m : Sys} {k : SockInfo} (h : m.pick = some k) :
    k ∈ m.socks ∧ (!(m.net.chan k.i).isEmpty || (m.tq k.i).armed) = true := by
  unfold Sys.pick at h
  have h1 := List.mem_of_find?_eq_some h
  have h2 := List.find?_some h
  exact ⟨(List.mem_filter.mp h1).1, h2⟩

theorem step_step {m : Sys} {s : SpecSt} (inv : SInv m) (rel : Rel m s) (osFail : Bool) :
    ∃ s', specRun s (sysStep m (.step osFail)).2 = .ok s' ∧ Rel (sysStep m (.step osFail)).1 s' ∧
      SInv (sysStep m (.step osFail)).1 := by
  simp only [sysStep]
  split
  · -- no socket has an event: the observer must have nothing outstanding on any async socket
    rename_i hpick
    refine ⟨s, ?_, rel, inv⟩
    apply specRun_single
    have hnone : (s.socks.filter (·.kind = .async)).find? (fun k => !(s.expect k.i).isEmpty || !(s.pendq k.i).isEmpty) = none := by
      rw [List.find?_eq_none]
      intro k hk
      rw [rel.socks] at hk
      have hks := (List.mem_filter.mp hk).1
      have hp := List.find?_eq_none.mp hpick k hk
      rw [expect_empty inv rel hks, ← armed_iff inv rel hks]
      exact hp
    simp only [specStep, specEv, hnone]
    exact withState_ok inv rel
  · rename_i k hpick
    obtain ⟨hks, hev⟩ := pick_mem hpick
    have hgone := inv.live k hks
    have hsock : s.sock k.i = some k := by rw [spec_sock rel]; exact sock_of_mem inv hks
    split
    · -- readable: the receive handler runs
      rename_i d rest hc
      obtain ⟨s', h1, h2⟩ := report_ok rel hgone hc (room k 0)
      have inv' := sinv_net inv (netStep m.net (.recv k.i (room k 0)))
      refine ⟨s', ?_, h2, inv'⟩
      apply specRun_single
      simp only [specStep, specEv, hsock, h1]
      exact withState_ok inv' h2
    · rename_i hc
      have harm : (m.tq k.i).armed = true := by simpa [hc] using hev
      have hdes := live_tq inv hks
      split
      · rename_i hq
        exact absurd hq (((inv.tinv k.i).armedInv hdes).mp harm)
      · -- writable: one `sendto` of the oldest queued datagram
        rename_i e erest hq
        have hpq := rel.pendq k.i
        rw [hq] at hpq
        cases hp : s.pendq k.i with
        | nil => rw [hp] at hpq; cases hpq
        | cons x more =>
          obtain ⟨mm, mlen, dst⟩ := x
          rw [hp] at hpq
          simp only [List.map_cons, List.cons.injEq] at hpq
          obtain ⟨he, hrest⟩ := hpq
          have heid : e.id = mm := by rw [he]; rfl
          have hedst : e.dst = dst := by rw [he]; rfl
          have hepl : e.payload = content mm mlen := by rw [he]; rfl
          have hlen : e.payload.length = mlen := by rw [hepl, content_length]
          obtain ⟨hq', hf'⟩ := tq_writable_q hdes harm hq (if osFail then .fail else .ok)
          let tq' := updT m.tq k.i (tqStep (m.tq k.i) (.writable (if osFail then .fail else .ok)))
          let lt : Char := if osFail then 'e' else 'v'
          -- observer and model after the queue / future update, before the delivery
          let m1 : Sys := { m with tq := tq' }
          let s1 : SpecSt := { s with pendq := updL s.pendq k.i more, status := setLetter s.status mm lt }
          have hown : (mm, k.i) ∈ m.ids := by
            have := q_owned inv (i := k.i) (e := e) (by rw [hq]; simp)
            rwa [heid] at this
          have rel1 : Rel m1 s1 := by
            refine ⟨rel.fam, rel.socks, rel.expect, ?_, ?_⟩
            · intro x
              show (updT m.tq k.i _ x).q = (updL s.pendq k.i more x).map el
              by_cases hx : x = k.i
              · subst hx; rw [updT_same, updL_same, hq', hrest]
              · rw [updT_other _ _ _ _ hx, updL_other _ _ _ _ hx]; exact rel.pendq x
            · show setLetter s.status mm lt = m.ids.map _
              rw [rel.status]
              simp only [setLetter, List.map_map]
              apply List.map_congr_left
              intro x hx
              simp only [Function.comp_def]
              show (if x.1 = mm then (x.1, lt) else (x.1, futLetter ((m.tq x.2).fut x.1)))
                    = (x.1, futLetter ((updT m.tq k.i (tqStep (m.tq k.i) (.writable (if osFail then .fail else .ok))) x.2).fut x.1))
              by_cases hxm : x.1 = mm
              · have hx2 : x.2 = k.i := by
                  have h2 : (mm, x.2) ∈ m.ids := by rw [← hxm]; exact hx
                  exact pair_unique inv.nodupIds h2 hown
                rw [hx2, updT_same, hf', hxm, ← heid, upd_same]
                cases osFail <;> simp [lt, futLetter]
              · by_cases hxi : x.2 = k.i
                · rw [hxi, updT_same, hf', upd_other _ _ _ _ (by rw [heid]; exact hxm)]
                  simp [hxm]
                · rw [updT_other _ _ _ _ hxi]; simp [hxm]
          have inv1 : SInv m1 := by
            refine ⟨tinv_upd inv k.i _, inv.live, ?_, inv.nodupSocks, inv.nodupIds, ?_,
              fun x hx => fut_upd_ne k.i _ x (inv.idsFut x hx)⟩
            · intro x hx
              have : (updT m.tq k.i (tqStep (m.tq k.i) (.writable (if osFail then .fail else .ok))) x).destroyed = true := hx
              by_cases hxi : x = k.i
              · rw [hxi, updT_same, tq_destroyed_writable, hdes] at this; cases this
              · rw [updT_other _ _ _ _ hxi] at this; exact inv.destr x this
            · intro x e' he'
              have he2 : e' ∈ (updT m.tq k.i (tqStep (m.tq k.i) (.writable (if osFail then .fail else .ok))) x).enqd := he'
              by_cases hxi : x = k.i
              · rw [hxi, updT_same, tq_enqd_writable] at he2; rw [hxi]; exact inv.own k.i e' he2
              · rw [updT_other _ _ _ _ hxi] at he2; exact inv.own x e' he2
          cases osFail with
          | true =>
            refine ⟨s1, ?_, rel1, inv1⟩
            apply specRun_single
            simp only [specStep, specEv, hp, hlen, ne_eq, not_true_eq_false, if_false]
            exact withState_ok inv1 rel1
          | false =>
            have rel2 := rel_deliver rel1 k.i e.dst e.payload
            have inv2 := sinv_net inv1 (netStep m.net (.deliver k.i e.dst e.payload))
            refine ⟨s1.deliver k.i e.dst e.payload, ?_, rel2, inv2⟩
            apply specRun_single
            simp only [specStep, specEv, hp, hlen, ne_eq, not_true_eq_false, if_false]
            simp only [Bool.false_eq_true, if_false]
            rw [← hedst, ← hepl]
            exact withState_ok inv2 rel2


/-- one operation: the spec accepts the model's observations and relation + invariant are re-established -/
theorem spec_step_ok {m : Sys} {s : SpecSt} (inv : SInv m) (rel : Rel m s) (op : Op) :
    ∃ s', specRun s (sysStep m op).2 = .ok s' ∧ Rel (sysStep m op).1 s' ∧ SInv (sysStep m op).1 := by
  cases op with
  | fam f => exact step_fam inv rel f
  | sock i kind rx => exact step_sock inv rel i kind rx
  | sendto i j mm len t sc => exact step_sendto inv rel i j mm len t sc
  | asend i j mm len nobuf => exact step_asend inv rel i j mm len nobuf
  | step osFail => exact step_step inv rel osFail
  | recv i size t => exact step_recv inv rel i size t
  | destroy i => exact step_destroy inv rel i

theorem specRun_append (s : SpecSt) (a b : List Obs) :
    specRun s (a ++ b) = match specRun s a with | .ok s' => specRun s' b | .error e => .error e := by
  induction a generalizing s with
  | nil => rfl
  | cons o os ih =>
    simp only [List.cons_append, specRun]
    cases specStep s o with
    | ok s' => exact ih s'
    | error e => rfl

/-- **The property predicate that `./check C09` evaluates on the implementation is a theorem of the
model.**  For every history - any list, of any length, of `fam` / socket creation (three API levels,
any `rxBufSize`) / synchronous `SendTo` (any sender, receiver, size, timeout, OS script) / asynchronous
`SendTo` / `Driver::Step` (any OS answer to its `sendto`) / `ReceiveFrom` (any size, timeout) / socket
destruction operations with arbitrary arguments, operations the harness would not perform being
no-ops - the observations of the composed model are accepted by every clause of `specStep`: results
of `SendTo` (full size, 0 only after an expired limited wait, errno of the failed `sendto`,
`logic_error` only for a short count), every report = the prefix that fits of the oldest outstanding
datagram with its sender (nothing invented, duplicated, lost or reordered, empty datagrams included),
no `nullopt` from an unlimited receive or while something is outstanding, one socket task per step,
the async socket sends its oldest queued datagram with its length, a step does nothing only if
nothing is outstanding (not held up by a failed one), every future shows the letter it must and the
buffers back in the pool are those of the resolved futures.  No hypothesis. -/
theorem model_satisfies_spec (history : List Op) : ∃ s, specRun {} (modelTrace {} history) = .ok s := by
  suffices H : ∀ (m : Sys) (s : SpecSt), SInv m → Rel m s → ∃ s', specRun s (modelTrace m history) = .ok s' from
    H {} {} sinv_init rel_init
  induction history with
  | nil => intro m s _ _; exact ⟨s, rfl⟩
  | cons op ops ih =>
    intro m s inv rel
    obtain ⟨s1, h1, rel1, inv1⟩ := spec_step_ok inv rel op
    obtain ⟨s2, h2⟩ := ih _ s1 inv1 rel1
    refine ⟨s2, ?_⟩
    simp only [modelTrace]
    rw [specRun_append, h1]
    exact h2

/-! ### a concrete history (all three levels; truncation, empty datagram, time-out, short count, errno, a failed
async element followed by a sent one, a broken promise, refused operations) and what the model
observes; evaluated by the kernel -/

def demoHistory : List Op :=
  [.fam 4, .sock 1 .async 7, .sock 2 .basic 0, .sock 3 .buff 100,
   .asend 1 2 1 3 false, .asend 1 2 2 5 false, .asend 1 3 3 0 false, .asend 1 2 1 5 false, .asend 1 2 9 1 true,
   .sendto 2 1 4 10 (-1) .pass, .sendto 3 2 5 17 50 .timeout, .sendto 2 3 6 9 0 (.short 4), .sendto 3 3 7 1 0 (.fail 105),
   .step false, .step false, .step true, .step false, .step false,
   .recv 2 2 0, .recv 2 100 (-1), .recv 2 100 5, .recv 3 0 0, .recv 3 0 0, .recv 1 5 0,
   .asend 1 3 8 2 false, .destroy 1, .sock 1 .basic 0, .step false, .destroy 2, .recv 2 1 0]

example : (modelTrace {} demoHistory).length = 26 := by decide +kernel

example : (modelTrace {} demoHistory).drop 12 =
    [.step (.recv 1 7 2962951841184519493 (.ord 2)) ⟨['p', 'p', 'p'], []⟩,
     .step (.sendto 1 3 .full) ⟨['v', 'p', 'p'], [1]⟩,
     .step (.sendto 1 5 .fail) ⟨['v', 'e', 'p'], [1, 2]⟩,
     .step (.sendto 1 0 .full) ⟨['v', 'e', 'v'], [1, 2, 3]⟩,
     .step .nothing ⟨['v', 'e', 'v'], [1, 2, 3]⟩,
     .recv 2 2 0 (.got 2 558177006538808824 (.ord 1)),
     .recv 2 100 (-1) .skipped,
     .recv 2 100 5 .none,
     .recv 3 0 0 (.got 9 17964257846755983942 (.ord 2)),
     .recv 3 0 0 (.got 0 14695981039346656037 (.ord 1)),
     .asend 1 3 8 2 ⟨['v', 'e', 'v', 'p'], [1, 2, 3]⟩,
     .destroy 1 ⟨['v', 'e', 'v', 'b'], [1, 2, 3, 8]⟩,
     .step .nothing ⟨['v', 'e', 'v', 'b'], [1, 2, 3, 8]⟩,
     .destroy 2 ⟨['v', 'e', 'v', 'b'], [1, 2, 3, 8]⟩] := by decide +kernel

/-- the spec run on this trace ends with the expected letters and nothing outstanding -/
example : (match specRun {} (modelTrace {} demoHistory) with
    | .ok s => (s.status, s.expect 2, s.pendq 1)
    | .error _ => ([], [], [])) = ([(1, 'v'), (2, 'e'), (3, 'v'), (8, 'b')], [], []) := by decide +kernel

/-- the predicate is not vacuous: a duplicated report is rejected -/
example : (match specRun {} [.sock 1 .basic 0, .sock 2 .basic 0, .sendto 1 2 1 0 0 .pass (.ret 0),
      .recv 2 5 0 (.got 0 14695981039346656037 (.ord 1)), .recv 2 5 0 (.got 0 14695981039346656037 (.ord 1))] with
    | .ok _ => true | .error _ => false) = false := by decide +kernel

end SockModel.Udp

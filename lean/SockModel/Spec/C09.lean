import SockModel.Model.UdpLemmas
/-!
# Spec.C09 - the property as an executable predicate over typed observations, the composed UDP
model, and the proof that the model satisfies the predicate for every history

`specStep` / `specRun` are what `./check C09` evaluates on the IMPLEMENTATION's transcript
(`Drive/C09.lean` parses every op line with its `->` observation lines into one `Obs` and calls exactly
these functions).  The reference book-keeping (`SpecSt`) mentions no model state: it is derived from
the operations the harness performed and the results the implementation reported - per receiver the
datagrams that must still be reported (in order), per async socket the datagrams that must still be
handed to the OS (in order), per async message the letter its future must show.

`sysStep` composes the existing model functions of `Model/Udp.lean` (`sendTo`, `netStep`,
`receiveFrom`, `tqStep`; nothing is re-defined) into one system of sockets on one driver - the
composition the driver replays next to the implementation - and `modelTrace` lists the observations
this model produces for an arbitrary history of operations.  `model_satisfies_spec`: `specRun`
accepts `modelTrace` of every history.  So a `spec` verdict on the implementation is provably a
difference between implementation and model; the oracle is never stricter than the model.
-/
namespace SockModel.Udp
open SockModel.AsyncQ (Bytes Fut upd upd_same upd_other)

/-! ## vocabulary shared by spec, model and driver -/

/-- payload of message `id` (the harness' `Pat`, `harness/scen/udp.cpp`) -/
def pat (id j : Nat) : UInt8 := UInt8.ofNat ((id * 37 + j * 11 + (j / 251) * 3 + 1) % 256)
def content (id size : Nat) : Bytes := (List.range size).map (pat id)
/-- FNV-1a, the hash the harness prints instead of the payload -/
def fnv (bs : Bytes) : UInt64 :=
  bs.foldl (fun h b => (h ^^^ b.toUInt64) * 1099511628211) 14695981039346656037

theorem content_length (id size : Nat) : (content id size).length = size := by simp [content]

inductive Kind where
  | basic | buff | async
  deriving DecidableEq, Repr

def Kind.name : Kind → String
  | .basic => "basic" | .buff => "buff" | .async => "async"

/-- what the harness tells the OS shim to answer to the one `sendto` / wait of a `sendto` line -/
inductive Script where
  | pass | fail (e : Nat) | short (k : Nat) | timeout
  deriving DecidableEq, Repr

structure SockInfo where
  i : Nat
  kind : Kind
  rx : Nat          -- `rxBufSize` of the buffered / async level (0 = taken from SO_RCVBUF)
  deriving DecidableEq, Repr

def noLimit : Nat := 2 ^ 40
def maxPayload (fam : Nat) : Nat := if fam = 6 then 65527 else 65507
/-- bytes of room of a receive on socket `s`: the caller's `size` (basic) or `rxBufSize` -/
def room (s : SockInfo) (size : Nat) : Nat :=
  if s.kind = .basic then size else if s.rx = 0 then noLimit else s.rx

def futLetter : Fut → Char
  | .none => '?' | .pending => 'p' | .value => 'v' | .exn => 'e' | .broken => 'b'

def sameSet (a b : List Nat) : Bool := a.all b.contains && b.all a.contains && a.length == b.length

/-! ## typed observations -/

/-- result of a synchronous `SendTo` -/
inductive SendObs where
  | ret (n : Nat)
  | throwSystem (errno : Nat)
  | throwLogic
  | other (msg : String)        -- anything else (the text is the verdict message)
  deriving DecidableEq, Repr

/-- reported source of a datagram: ordinal of a bound socket, or something unknown -/
inductive Src where
  | ord (n : Nat)
  | unknown (txt : String)
  deriving DecidableEq, Repr

instance : ToString Src := ⟨fun | .ord n => toString n | .unknown t => t⟩

/-- the `st fut=... ret=...` line: letter of every async future (in `SendTo` order), message ids
whose buffer is back in the pool -/
structure StObs where
  futs : List Char
  ret : List Nat
  deriving DecidableEq, Repr

/-- result of the one `sendto` of a `DriverSendTo` as seen at the libc boundary -/
inductive SysRes where
  | full                 -- returned the length it was given
  | fail                 -- returned -1
  | other (txt : String)
  deriving DecidableEq, Repr

/-- what one `Driver::Step(0)` did -/
inductive StepEv where
  | nothing
  | recv (i len hash : Nat) (src : Src)       -- receive handler of socket `i` ran
  | sendto (i len : Nat) (res : SysRes)       -- socket `i` issued one `sendto` of `len` bytes
  | many                                      -- more than one socket task
  | threw (txt : String)
  deriving DecidableEq, Repr

inductive RecvObs where
  | got (len hash : Nat) (src : Src)
  | none
  | skipped                                   -- unlimited receive not attempted: socket not readable
  | failed (txt : String)
  deriving DecidableEq, Repr

/-- one operation of the harness together with what the implementation was observed to do -/
inductive Obs where
  | fam (f : Nat)
  | sock (i : Nat) (kind : Kind) (rx : Nat)
  | sendto (i j m len : Nat) (t : Int) (sc : Script) (r : SendObs)
  | asendNoBuf                                              -- harness pool empty: no `SendTo` happened
  | asend (i j m len : Nat) (st : StObs)
  | step (ev : StepEv) (st : StObs)
  | recv (i size : Nat) (t : Int) (r : RecvObs)
  | destroy (i : Nat) (st : StObs)
  | abort (txt : String)                                    -- crash / hang
  deriving DecidableEq, Repr

/-! ## the property on the observations -/

structure SpecSt where
  fam : Nat := 4
  socks : List SockInfo := []
  /-- per receiver: datagrams `(payload, sender)` still to be reported, in order -/
  expect : Nat → List (Bytes × Nat) := fun _ => []
  /-- async message id ↦ the letter its future must show -/
  status : List (Nat × Char) := []
  /-- per async socket: queued `(message id, len, dst)`, oldest first -/
  pendq : Nat → List (Nat × Nat × Nat) := fun _ => []

def SpecSt.sock (s : SpecSt) (i : Nat) : Option SockInfo := s.socks.find? (·.i = i)
def SpecSt.letters (s : SpecSt) : List Char := s.status.map (·.2)
def SpecSt.resolvedIds (s : SpecSt) : List Nat := (s.status.filter (·.2 ≠ 'p')).map (·.1)
def SpecSt.deliver (s : SpecSt) (src dst : Nat) (p : Bytes) : SpecSt :=
  { s with expect := updL s.expect dst (s.expect dst ++ [(p, src)]) }
def setLetter (st : List (Nat × Char)) (m : Nat) (c : Char) : List (Nat × Char) :=
  st.map fun x => if x.1 = m then (x.1, c) else x

/-- "SendTo returns the full size, or 0 only when a limited timeout expired, never a partial
count" (and throws exactly when the OS failed).  `.ok sent`: did a datagram leave? -/
def specSendTo (fam len : Nat) (t : Int) (sc : Script) : SendObs → Except String Bool
  | .ret n =>
    if sc = .timeout ∧ t ≥ 0 then
      (if n = 0 then .ok false else .error s!"SendTo returned {n} although its wait timed out")
    else if n = len then .ok true
    else if n = 0 then .error s!"SendTo({len} bytes, timeout {t}) returned 0 although the wait did not time out"
    else .error s!"SendTo({len} bytes) returned the partial count {n}"
  | .throwSystem e =>
    match sc with
    | .fail e' => if e = e' then .ok false else .error s!"SendTo reports errno {e}, the OS failed with {e'}"
    | _ =>
      if len > maxPayload fam ∧ e = 90 then .ok false
      else .error s!"SendTo({len} bytes) threw system_error {e} although the OS accepted the datagram"
  | .throwLogic =>
    match sc with
    | .short k =>
      if k < len ∧ ¬ len > maxPayload fam then .ok true
      else .error "logic_error although sendto returned the full size"
    | _ => .error "SendTo threw logic_error"
  | .other msg => .error msg

/-- the state line: "a future has a value iff its datagram was handed to the OS ..." -/
def specState (s : SpecSt) (st : StObs) : Option String :=
  if st.futs ≠ s.letters then
    some s!"futures are {String.ofList st.futs}, expected {String.ofList s.letters} (a future has a value iff its datagram was handed to the OS, an exception iff its sendto failed, later ones not held up)"
  else if ¬ sameSet st.ret s.resolvedIds then
    some s!"buffers back in the pool {st.ret} differ from the resolved futures {s.resolvedIds}"
  else none

/-- a report `(len, hash, src)` of receiver `i` with `room` bytes of room against the next expected datagram -/
def specReport (s : SpecSt) (i room len hash : Nat) (src : Src) : Except String SpecSt :=
  match s.expect i with
  | [] => .error s!"socket {i} reports a datagram ({len} bytes from {src}) although none is outstanding (duplicate or invented)"
  | (p, sender) :: rest =>
    let want := p.take room
    if len ≠ want.length ∨ hash ≠ (fnv want).toNat then
      .error s!"socket {i} reports {len} bytes (hash {hash}); the next datagram sent to it has {p.length} bytes, with {room} bytes of room the report must be its first {want.length} bytes (hash {fnv want})"
    else if src ≠ .ord sender then
      .error s!"socket {i} reports source {src}, the datagram was sent by socket {sender}"
    else .ok { s with expect := updL s.expect i rest }

def specEv (s : SpecSt) : StepEv → Except String SpecSt
  | .threw txt => .error s!"Step threw ({txt}); a failed datagram must only affect its own future"
  | .many => .error "more than one socket task in one step"
  | .nothing =>
    -- "later datagrams are not held up": nothing may be left to do
    match (s.socks.filter (·.kind = .async)).find? (fun k => !(s.expect k.i).isEmpty || !(s.pendq k.i).isEmpty) with
    | some k => .error s!"Step did nothing although socket {k.i} has a datagram to {if (s.expect k.i).isEmpty then "send (held up)" else "receive"}"
    | none => .ok s
  | .recv i len hash src =>
    match s.sock i with
    | none => .error s!"unknown socket {i}"
    | some k => specReport s i (room k 0) len hash src
  | .sendto i len res =>
    match s.pendq i with
    | [] => .error s!"socket {i} issued a sendto although nothing is queued"
    | (m, mlen, dst) :: more =>
      if mlen ≠ len then .error s!"socket {i} sent {len} bytes, its oldest queued datagram has {mlen} (order / boundaries)"
      else
        match res with
        | .other txt => .error s!"sendto returned {txt}"
        | .full =>
          .ok ({ s with pendq := updL s.pendq i more, status := setLetter s.status m 'v' }.deliver i dst (content m len))
        | .fail => .ok { s with pendq := updL s.pendq i more, status := setLetter s.status m 'e' }

def specRecv (s : SpecSt) (i size : Nat) (t : Int) (r : RecvObs) : Except String SpecSt :=
  match s.sock i with
  | none => .error s!"unknown socket {i}"
  | some k =>
    match r with
    | .got len hash src => specReport s i (room k size) len hash src
    | .none =>
      if ¬ (s.expect i).isEmpty then
        .error s!"socket {i} reports nothing although {(s.expect i).length} datagram(s) sent to it are outstanding (loss)"
      else if t < 0 then .error "an unlimited ReceiveFrom returned nullopt"
      else .ok s
    | .skipped =>
      if ¬ (s.expect i).isEmpty then
        .error s!"socket {i} is not readable although {(s.expect i).length} datagram(s) sent to it are outstanding (loss)"
      else .ok s
    | .failed txt => .error s!"ReceiveFrom failed: {txt}"

def withState (s : SpecSt) (st : StObs) : Except String SpecSt :=
  match specState s st with
  | some msg => .error msg
  | none => .ok s

def specStep (s : SpecSt) : Obs → Except String SpecSt
  | .abort txt => .error txt
  | .fam f => .ok { s with fam := f }
  | .sock i kind rx => .ok { s with socks := s.socks ++ [⟨i, kind, rx⟩] }
  | .sendto i j m len t sc r =>
    match specSendTo s.fam len t sc r with
    | .error msg => .error msg
    | .ok sent => .ok (if sent then s.deliver i j (content m len) else s)
  | .asendNoBuf => .ok s
  | .asend i j m len st =>
    withState { s with status := s.status ++ [(m, 'p')], pendq := updL s.pendq i (s.pendq i ++ [(m, len, j)]) } st
  | .step ev st =>
    match specEv s ev with
    | .error msg => .error msg
    | .ok s' => withState s' st
  | .recv i size t r => specRecv s i size t r
  | .destroy i st =>
    let dead := (s.pendq i).map (·.1)
    withState { s with socks := s.socks.filter (·.i ≠ i), pendq := updL s.pendq i [], expect := updL s.expect i [],
                       status := s.status.map (fun x => if dead.contains x.1 then (x.1, 'b') else x) } st

def specRun (s : SpecSt) : List Obs → Except String SpecSt
  | [] => .ok s
  | o :: os => match specStep s o with | .ok s' => specRun s' os | .error e => .error e

/-! ## the composed model: sockets of the three API levels on one driver

State = the datagram network (`Net`), one `SendToQ` (`TQ`) per socket ordinal, the live sockets in
registration order and the async message ids in `SendTo` order.  An operation that the harness would
not perform (`can` in `harness/scen/udp.cpp`: unknown / destroyed socket, synchronous call on an async
socket, re-used message id; additionally: a socket ordinal is never re-used) changes nothing and
produces no observation. -/

structure Sys where
  fam : Nat := 4
  socks : List SockInfo := []       -- live sockets, registration order
  gone : List Nat := []             -- ordinals of destroyed sockets
  net : Net := {}
  tq : Nat → TQ := fun _ => {}
  ids : List (Nat × Nat) := []      -- (message id, async socket) in `SendTo` order

inductive Op where
  | fam (f : Nat)
  | sock (i : Nat) (kind : Kind) (rx : Nat)
  /-- `SendTo(payload m of len bytes, address of j, timeout t)` on socket `i`, OS scripted with `sc` -/
  | sendto (i j m len : Nat) (t : Int) (sc : Script)
  /-- async `SendTo`; `nobuf`: the harness has no buffer left (environment's choice) -/
  | asend (i j m len : Nat) (nobuf : Bool)
  /-- `Driver::Step(0)`; `osFail`: answer of the OS to a `sendto` issued in this step, if any -/
  | step (osFail : Bool)
  | recv (i size : Nat) (t : Int)
  | destroy (i : Nat)
  deriving Repr

def updT (f : Nat → TQ) (i : Nat) (v : TQ) : Nat → TQ := fun x => if x = i then v else f x

/-- OS answers determined by the script and by the kernel's size limit (`EMSGSIZE`) -/
def osWait (sc : Script) : WaitAns := if sc = .timeout then .timedOut else .ready
def osSend (fam len : Nat) : Script → SendAns
  | .fail _ => .fail
  | .short k => if len > maxPayload fam then .fail else .accept (min k len)
  | _ => if len > maxPayload fam then .fail else .accept len
def osErrno : Script → Nat
  | .fail e => e
  | _ => 90

def Sys.sock (s : Sys) (i : Nat) : Option SockInfo := s.socks.find? (·.i = i)
def Sys.letters (s : Sys) : List Char := s.ids.map fun x => futLetter ((s.tq x.2).fut x.1)
/-- message ids whose buffer went back to the pool (`TQ.returned`), in `SendTo` order -/
def Sys.ret (s : Sys) : List Nat := (s.ids.filter fun x => (s.tq x.2).returned.contains x.1).map (·.1)
def Sys.st (s : Sys) : StObs := ⟨s.letters, s.ret⟩
/-- the socket the driver serves in this step: first async socket in registration order with an
event (readable: a datagram is queued; writable: `POLLOUT` armed) -/
def Sys.pick (s : Sys) : Option SockInfo :=
  (s.socks.filter (·.kind = .async)).find? (fun k => !(s.net.chan k.i).isEmpty || (s.tq k.i).armed)

def sendObsOf (sc : Script) : SendRes → SendObs
  | .ret n => .ret n
  | .logicError => .throwLogic
  | .systemError => .throwSystem (osErrno sc)

def reportObs (r : Report) : Nat × Nat × Src := (r.payload.length, (fnv r.payload).toNat, .ord r.src)

def sysStep (s : Sys) : Op → Sys × List Obs
  | .fam f => if s.socks = [] then ({ s with fam := f }, [.fam f]) else (s, [])
  | .sock i kind rx =>
    if (s.sock i).isSome ∨ i ∈ s.gone then (s, [])
    else ({ s with socks := s.socks ++ [⟨i, kind, rx⟩] }, [.sock i kind rx])
  | .sendto i j m len t sc =>
    match s.sock i, s.sock j with
    | some k, some _ =>
      if k.kind = .async then (s, [])
      else
        let r := sendTo len t (osWait sc) (osSend s.fam len sc)
        (if r.2 then { s with net := netStep s.net (.deliver i j (content m len)) } else s,
         [.sendto i j m len t sc (sendObsOf sc r.1)])
    | _, _ => (s, [])
  | .asend i j m len nobuf =>
    match s.sock i, s.sock j with
    | some k, some _ =>
      if k.kind ≠ .async ∨ m ∈ s.ids.map (·.1) then (s, [])
      else if nobuf then (s, [.asendNoBuf])
      else
        let s' := { s with tq := updT s.tq i (tqStep (s.tq i) (.enq m (content m len) j)), ids := s.ids ++ [(m, i)] }
        (s', [.asend i j m len s'.st])
    | _, _ => (s, [])
  | .step osFail =>
    match s.pick with
    | none => (s, [.step .nothing s.st])
    | some k =>
      match s.net.chan k.i with
      | d :: _ =>
        let rep := receiveFrom d (room k 0)
        let s' := { s with net := netStep s.net (.recv k.i (room k 0)) }
        (s', [.step (.recv k.i rep.payload.length (fnv rep.payload).toNat (.ord rep.src)) s'.st])
      | [] =>
        match (s.tq k.i).q with
        | [] => (s, [.step .nothing s.st])     -- unreachable: armed implies a queued element (`TInv.armedInv`)
        | e :: _ =>
          let s' := { s with tq := updT s.tq k.i (tqStep (s.tq k.i) (.writable (if osFail then .fail else .ok))),
                             net := if osFail then s.net else netStep s.net (.deliver k.i e.dst e.payload) }
          (s', [.step (.sendto k.i e.payload.length (if osFail then .fail else .full)) s'.st])
  | .recv i size t =>
    match s.sock i with
    | none => (s, [])
    | some k =>
      if k.kind = .async then (s, [])
      else
        match s.net.chan i with
        | [] => (s, [.recv i size t (if t < 0 then .skipped else .none)])
        | d :: _ =>
          let rep := receiveFrom d (room k size)
          ({ s with net := netStep s.net (.recv i (room k size)) },
           [.recv i size t (.got rep.payload.length (fnv rep.payload).toNat (.ord rep.src))])
  | .destroy i =>
    match s.sock i with
    | none => (s, [])
    | some _ =>
      let s' := { s with socks := s.socks.filter (·.i ≠ i), gone := i :: s.gone,
                         tq := updT s.tq i (tqStep (s.tq i) .destroy) }
      (s', [.destroy i s'.st])

/-- the observations the MODEL produces for a history -/
def modelTrace (s : Sys) : List Op → List Obs
  | [] => []
  | op :: ops => (sysStep s op).2 ++ modelTrace (sysStep s op).1 ops

end SockModel.Udp

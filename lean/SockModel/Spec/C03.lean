import SockModel.Model.DispatchLemmas
/-!
# Spec.C03 - the property as an executable predicate over typed observations, and the proof that
the model satisfies it for every history

`specStep` / `specRun` are what `./check C03` evaluates on the IMPLEMENTATION's transcript
(`Drive/C03.lean` parses the transcript lines into `Obs` and calls these very functions).  They
mention no model state: the reference book-keeping (`SpecSt`) is derived from the observations alone -
per connection the stream the peer sent, the number of bytes delivered, whether the peer ended it,
whether the library has an asynchronous socket for it, whether that socket is gone (disconnected or
destroyed), its receive-buffer size and the address it was created for; per acceptor the established
connections not yet reported; per socket the number of queued sends.

`model_satisfies_spec`: replaying the MODEL's own observations (`modelTrace`) through `specRun` never
fails, for every history of any length.  So a `spec` failure on the implementation is provably a
difference between implementation and model, the oracle is never stricter than the model, and every
clause it checks (one task per step, chunk bounds, in-order data, disconnect only after the peer ended
and everything was delivered, with the cached address, nothing after disconnect / destruction,
connect exactly once in order with the right address and socket, no idle step while anything is owed)
is a consequence of the model for all histories.
-/
namespace SockModel.Dispatch.Spec
open SockModel.AsyncQ (Bytes)
open SockModel.Dispatch

/-- the hash the harness prints for a chunk (FNV-1a, 64 bit; `harness/scen/async_events.cpp: Fnv`) -/
def fnv (bs : Bytes) : UInt64 :=
  bs.foldl (fun h b => (h ^^^ b.toUInt64) * 1099511628211) 14695981039346656037

/-- a token of the transcript that is normally a number (peer ordinal = address, hash): the number,
or the text as printed when it is not one (`?host:...`, `?unusable`) -/
inductive Tok where
  | ord (n : Nat)
  | other (text : String)
  deriving DecidableEq, Repr

def Tok.text : Tok → String
  | .ord n => toString n
  | .other t => t

instance : ToString Tok := ⟨Tok.text⟩

/-- what the harness prints for a socket whose peer address cannot be obtained -/
def unusable : Tok := .other "?unusable"

/-- one handler invocation as recorded by the harness handlers -/
inductive Ev where
  | data (i len : Nat) (hash : Tok)                      -- receive handler of socket i: chunk length and hash
  | disconnect (i : Nat) (addr : Tok) (reason : String)  -- disconnect handler of socket i (reason: descriptive only)
  | connect (a : Nat) (sock addr : Tok)                  -- connect handler of acceptor a: peer of the socket handed over, address reported
  | bad (msg : String)                                   -- an `ev` line the driver could not parse (never produced by the model)
  deriving Repr

structure EvObs where
  ev : Ev
  onStepThread : Bool := true     -- the handler ran on the thread executing Step
  text : String := ""             -- the observation as printed (used in messages only)
  deriving Repr

/-- everything observed during one `Driver::Step` -/
structure StepObs where
  rx : Nat                              -- receive-buffer size the connect handler configures (harness setting in force)
  threw : Option String := none         -- Step threw: text of the exception
  evs : List EvObs := []                -- handler invocations, in order
  sends : List (Option Nat) := []       -- `send` system calls on library sockets (socket ordinal if well-formed)
  destroyed : List Nat := []            -- sockets destroyed by the handlers that ran
  deriving Repr

/-- typed observations: the operations the harness performed (they are inputs the observer knows)
and what it observed during each Step -/
inductive Obs where
  | client (i : Nat) (addr : Tok) (rx : Nat)   -- library client socket i connected to the peer at `addr`, rx buffers of `rx` bytes
  | acceptor (a : Nat)                         -- library acceptor a
  | pconnect (a i : Nat) (addr : Tok)          -- a peer at `addr` established connection i to acceptor a
  | send (i : Nat) (bytes : Bytes)             -- the peer of connection i sent `bytes`
  | close (i : Nat)                            -- the peer of connection i closed or reset
  | arm (i : Nat)                              -- user queued a send on socket i
  | destroy (i : Nat)                          -- user destroyed socket / acceptor i (outside handlers)
  | outside                                    -- handler invocations / an exception were observed after an operation other than Step
  | step (o : StepObs)
  deriving Repr

/-- reference bookkeeping of one connection (observations only) -/
structure SConn where
  i : Nat
  addr : Tok := .ord i            -- the address the socket was / will be created for
  stream : Bytes := []
  delivered : Nat := 0
  ended : Bool := false
  registered : Bool := false      -- the library has an async socket for it
  gone : Bool := false            -- disconnected or destroyed: no handler may run any more
  rx : Nat := 1
  deriving Repr

structure SAcc where
  a : Nat
  waiting : List (Nat × Tok) := []   -- established, not yet reported connections (ordinal, peer address)
  gone : Bool := false
  deriving Repr

structure SpecSt where
  conns : List SConn := []
  accs : List SAcc := []
  arm : List (Nat × Nat) := []          -- socket ordinal ↦ queued sends

def lookup {α} (l : List (Nat × α)) (k : Nat) : Option α := (l.find? (·.1 = k)).map (·.2)

def SpecSt.conn (c : SpecSt) (i : Nat) : Option SConn := c.conns.find? (·.i = i)
def SpecSt.setConn (c : SpecSt) (k : SConn) : SpecSt :=
  { c with conns := if c.conns.any (·.i = k.i) then c.conns.map (fun x => if x.i = k.i then k else x) else c.conns ++ [k] }
def SpecSt.acc (c : SpecSt) (a : Nat) : Option SAcc := c.accs.find? (·.a = a)
def SpecSt.setAcc (c : SpecSt) (k : SAcc) : SpecSt :=
  { c with accs := if c.accs.any (·.a = k.a) then c.accs.map (fun x => if x.a = k.a then k else x) else c.accs ++ [k] }

/-- is socket `i` a live registered socket (reference view)? -/
def SpecSt.live (c : SpecSt) (i : Nat) : Bool :=
  match c.conn i with | some k => k.registered && !k.gone | none => false

/-- is anything owed to a live socket (reference view)? -/
def SpecSt.owed (c : SpecSt) : Option String :=
  match c.conns.find? (fun k => k.registered ∧ ¬ k.gone ∧ (k.delivered < k.stream.length ∨ k.ended)) with
  | some k => some s!"connection {k.i} has {k.stream.length - k.delivered} undelivered byte(s){if k.ended then " and an unreported close" else ""}"
  | none =>
    match c.accs.find? (fun a => ¬ a.gone ∧ ¬ a.waiting.isEmpty) with
    | some a => some s!"acceptor {a.a} has {a.waiting.length} unreported connection(s)"
    | none =>
      match c.arm.find? (fun (i, n) => decide (n > 0) && c.live i) with
      | some (i, _) => some s!"socket {i} has a queued send"
      | none => none

/-- mark sockets destroyed (by the user, possibly inside a handler) in the reference bookkeeping -/
def SpecSt.markDestroyed (c : SpecSt) (j : Nat) : SpecSt :=
  let c := match c.conn j with
    | some k => if k.registered then c.setConn { k with gone := true } else c
    | none => c
  match c.acc j with
  | some a => c.setAcc { a with gone := true }
  | none => c

/-- a `send` system call on socket `i` was observed: one queued send is consumed -/
def SpecSt.wrote (c : SpecSt) (i : Nat) : SpecSt :=
  { c with arm := (c.arm.filter (fun x => x.1 ≠ i)) ++ [(i, (lookup c.arm i).getD 0 - 1)] }

/-- the receive handler of socket `i` got `len` bytes with hash `hash` -/
def specData (c : SpecSt) (i len : Nat) (hash : Tok) : Except String SpecSt :=
  match c.conn i with
  | none => .error s!"receive handler for unknown socket {i}"
  | some k =>
    if k.gone then .error s!"receive handler of socket {i} ran after its disconnect / destruction"
    else if len = 0 then .error s!"receive handler of socket {i} got an empty chunk"
    else if len > k.rx then .error s!"receive handler of socket {i} got {len} bytes, more than its buffer size {k.rx}"
    else
      let want := (k.stream.drop k.delivered).take len
      if want.length ≠ len ∨ hash ≠ .ord (fnv want).toNat then
        .error s!"receive handler of socket {i} got {len} bytes (hash {hash}) that are not the next bytes the peer sent (offset {k.delivered} of {k.stream.length})"
      else .ok (c.setConn { k with delivered := k.delivered + len })

/-- the disconnect handler of socket `i` ran with address `addr` -/
def specDisconnect (c : SpecSt) (i : Nat) (addr : Tok) (reason : String) : Except String SpecSt :=
  match c.conn i with
  | none => .error s!"disconnect handler for unknown socket {i}"
  | some k =>
    if k.gone then .error s!"disconnect handler of socket {i} ran a second time / after destruction"
    else if ¬ k.ended then .error s!"disconnect handler of socket {i} ran ({reason}) although the peer neither closed nor reset"
    else if k.delivered ≠ k.stream.length then
      .error s!"disconnect handler of socket {i} ran with {k.stream.length - k.delivered} byte(s) the peer sent before closing still undelivered"
    else if addr ≠ k.addr then .error s!"disconnect handler of socket {i} got address {addr}, the socket was created for {k.addr}"
    else .ok (c.setConn { k with gone := true })

/-- the connect handler of acceptor `a` ran: socket connected to `sock`, reported address `addr`;
the handler upgrades the connection to an async socket with buffers of `rx` bytes -/
def specConnect (c : SpecSt) (rx a : Nat) (sock addr : Tok) : Except String SpecSt :=
  match c.acc a with
  | none => .error s!"connect handler for unknown acceptor {a}"
  | some k =>
    if k.gone then .error s!"connect handler of acceptor {a} ran after its destruction"
    else match k.waiting with
      | [] => .error s!"connect handler of acceptor {a} ran although no connection is waiting (duplicate)"
      | (i, waddr) :: more =>
        if addr ≠ waddr then .error s!"connect handler of acceptor {a} reports peer {addr}, the next established connection is {i}"
        else if sock ≠ .ord i ∧ ¬ (sock = unusable ∧ ((c.conn i).map (·.ended)).getD false) then
          .error s!"connect handler of acceptor {a}: the socket handed over is connected to {sock}, not to {i}"
        else
          let c := c.setAcc { k with waiting := more }
          .ok (match c.conn i with | some x => c.setConn { x with registered := true, rx := rx } | none => c)

def specEv (c : SpecSt) (rx : Nat) : Ev → Except String SpecSt
  | .data i len hash => specData c i len hash
  | .disconnect i addr reason => specDisconnect c i addr reason
  | .connect a sock addr => specConnect c rx a sock addr
  | .bad msg => .error msg

/-- what one Step is allowed to show -/
def specStepObs (c : SpecSt) (o : StepObs) : Except String SpecSt :=
  match o.threw with
  | some x => .error s!"Step threw: {x}"
  | none =>
  if o.evs.length + o.sends.length > 1 then
    .error s!"more than one socket task in one step ({o.evs.length} handler calls, {o.sends.length} sends)"
  else
  match o.evs.find? (fun e => !e.onStepThread) with
  | some e => .error s!"handler ran on a thread other than the one executing Step: {e.text}"
  | none =>
  let res : Except String SpecSt :=
    match o.evs with
    | [] =>
      if o.sends.isEmpty then
        match c.owed with
        | some what => .error s!"Step did nothing although {what}"
        | none => .ok c
      else .ok c
    | [e] => specEv c o.rx e.ev
    | _ => .error "more than one handler call"    -- unreachable: excluded above
  match res with
  | .error msg => .error msg
  | .ok c =>
    let c := o.destroyed.foldl SpecSt.markDestroyed c
    .ok (match o.sends with | [some i] => c.wrote i | _ => c)

def specStep (c : SpecSt) : Obs → Except String SpecSt
  | .client i addr rx => .ok (c.setConn { i := i, addr := addr, registered := true, rx := rx })
  | .acceptor a => .ok (c.setAcc { a := a })
  | .pconnect a i addr =>
    let c := match c.acc a with | some k => c.setAcc { k with waiting := k.waiting ++ [(i, addr)] } | none => c
    .ok (c.setConn { i := i, addr := addr })
  | .send i bytes =>
    .ok (match c.conn i with | some k => c.setConn { k with stream := k.stream ++ bytes } | none => c)
  | .close i =>
    .ok (match c.conn i with | some k => c.setConn { k with ended := true } | none => c)
  | .arm i => .ok { c with arm := (c.arm.filter (·.1 ≠ i)) ++ [(i, (lookup c.arm i).getD 0 + 1)] }
  | .destroy i => .ok (c.markDestroyed i)
  | .outside => .error "a handler ran / an exception escaped outside Step"
  | .step o => specStepObs c o

def specRun (c : SpecSt) : List Obs → Except String SpecSt
  | [] => .ok c
  | o :: os => match specStep c o with | .ok c' => specRun c' os | .error e => .error e

end SockModel.Dispatch.Spec

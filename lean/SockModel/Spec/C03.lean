import SockModel.Model.DispatchLemmas
/-!
# Spec.C03 - the property as an executable predicate over typed observations, and the proof that
the model satisfies it for every history

`specStep` / `specRun` are what `./check C03` evaluates on the IMPLEMENTATION's transcript
(`Drive/C03.lean` parses the transcript lines into `Obs` and calls these very functions).  They
mention no model state: the reference book-keeping (`SpecSt`) is derived from the observations alone -
per connection the stream the peer sent, the number of bytes delivered, whether the peer ended it,
whether the library has an asynchronous socket for it, whether that socket is gone (disconnected or
destroyed), its receive-buffer size and the address it was created for; per acceptor the established
connections not yet reported; per socket the number of queued sends.

`model_satisfies_spec`: replaying the MODEL's own observations (`modelTrace`) through `specRun` never
fails, for every history of any length.  So a `spec` failure on the implementation is provably a
difference between implementation and model, the oracle is never stricter than the model, and every
clause it checks (one task per step, chunk bounds, in-order data, disconnect only after the peer ended
and everything was delivered, with the cached address, nothing after disconnect / destruction,
connect exactly once in order with the right address and socket, no idle step while anything is owed)
is a consequence of the model for all histories.
-/
namespace SockModel.Dispatch.Spec
open SockModel.AsyncQ (Bytes)
open SockModel.Dispatch

/-- the hash the harness prints for a chunk (FNV-1a, 64 bit; `harness/scen/async_events.cpp: Fnv`) -/
def fnv (bs : Bytes) : UInt64 :=
  bs.foldl (fun h b => (h ^^^ b.toUInt64) * 1099511628211) 14695981039346656037

/-- a token of the transcript that is normally a number (peer ordinal = address, hash): the number,
or the text as printed when it is not one (`?host:...`, `?unusable`) -/
inductive Tok where
  | ord (n : Nat)
  | other (text : String)
  deriving DecidableEq, Repr

def Tok.text : Tok → String
  | .ord n => toString n
  | .other t => t

instance : ToString Tok := ⟨Tok.text⟩

/-- what the harness prints for a socket whose peer address cannot be obtained -/
def unusable : Tok := .other "?unusable"

/-- one handler invocation as recorded by the harness handlers -/
inductive Ev where
  | data (i len : Nat) (hash : Tok)                      -- receive handler of socket i: chunk length and hash
  | disconnect (i : Nat) (addr : Tok) (reason : String)  -- disconnect handler of socket i (reason: descriptive only)
  | connect (a : Nat) (sock addr : Tok)                  -- connect handler of acceptor a: peer of the socket handed over, address reported
  | bad (msg : String)                                   -- an `ev` line the driver could not parse (never produced by the model)
  deriving Repr

structure EvObs where
  ev : Ev
  onStepThread : Bool := true     -- the handler ran on the thread executing Step
  text : String := ""             -- the observation as printed (used in messages only)
  deriving Repr

/-- everything observed during one `Driver::Step` -/
structure StepObs where
  rx : Nat                              -- receive-buffer size the connect handler configures (harness setting in force)
  threw : Option String := none         -- Step threw: text of the exception
  evs : List EvObs := []                -- handler invocations, in order
  sends : List (Option Nat) := []       -- `send` system calls on library sockets (socket ordinal if well-formed)
  destroyed : List Nat := []            -- sockets destroyed by the handlers that ran
  deriving Repr

/-- typed observations: the operations the harness performed (they are inputs the observer knows)
and what it observed during each Step -/
inductive Obs where
  | client (i : Nat) (addr : Tok) (rx : Nat)   -- library client socket i connected to the peer at `addr`, rx buffers of `rx` bytes
  | acceptor (a : Nat)                         -- library acceptor a
  | pconnect (a i : Nat) (addr : Tok)          -- a peer at `addr` established connection i to acceptor a
  | send (i : Nat) (bytes : Bytes)             -- the peer of connection i sent `bytes`
  | close (i : Nat)                            -- the peer of connection i closed or reset
  | arm (i : Nat)                              -- user queued a send on socket i
  | destroy (i : Nat)                          -- user destroyed socket / acceptor i (outside handlers)
  | outside                                    -- handler invocations / an exception were observed after an operation other than Step
  | step (o : StepObs)
  deriving Repr

/-- reference bookkeeping of one connection (observations only) -/
structure SConn where
  i : Nat
  addr : Tok := .ord i            -- the address the socket was / will be created for
  stream : Bytes := []
  delivered : Nat := 0
  ended : Bool := false
  registered : Bool := false      -- the library has an async socket for it
  gone : Bool := false            -- disconnected or destroyed: no handler may run any more
  rx : Nat := 1
  deriving Repr

structure SAcc where
  a : Nat
  waiting : List (Nat × Tok) := []   -- established, not yet reported connections (ordinal, peer address)
  gone : Bool := false
  deriving Repr

structure SpecSt where
  conns : List SConn := []
  accs : List SAcc := []
  arm : List (Nat × Nat) := []          -- socket ordinal ↦ queued sends

def lookup {α} (l : List (Nat × α)) (k : Nat) : Option α := (l.find? (·.1 = k)).map (·.2)

/-- replace the record(s) with the key of `k` by `k`, or append `k` when there is none -/
def upsert {α} (key : α → Nat) (l : List α) (k : α) : List α :=
  if l.any (fun x => key x = key k) then l.map (fun x => if key x = key k then k else x) else l ++ [k]

def SpecSt.conn (c : SpecSt) (i : Nat) : Option SConn := c.conns.find? (·.i = i)
def SpecSt.setConn (c : SpecSt) (k : SConn) : SpecSt := { c with conns := upsert (·.i) c.conns k }
def SpecSt.acc (c : SpecSt) (a : Nat) : Option SAcc := c.accs.find? (·.a = a)
def SpecSt.setAcc (c : SpecSt) (k : SAcc) : SpecSt := { c with accs := upsert (·.a) c.accs k }

/-- is socket `i` a live registered socket (reference view)? -/
def SpecSt.live (c : SpecSt) (i : Nat) : Bool :=
  match c.conn i with | some k => k.registered && !k.gone | none => false

/-- is anything owed to a live socket (reference view)? -/
def SpecSt.owed (c : SpecSt) : Option String :=
  match c.conns.find? (fun k => k.registered ∧ ¬ k.gone ∧ (k.delivered < k.stream.length ∨ k.ended)) with
  | some k => some s!"connection {k.i} has {k.stream.length - k.delivered} undelivered byte(s){if k.ended then " and an unreported close" else ""}"
  | none =>
    match c.accs.find? (fun a => ¬ a.gone ∧ ¬ a.waiting.isEmpty) with
    | some a => some s!"acceptor {a.a} has {a.waiting.length} unreported connection(s)"
    | none =>
      match c.arm.find? (fun p => decide (p.2 > 0) && c.live p.1) with
      | some p => some s!"socket {p.1} has a queued send"
      | none => none

/-- mark sockets destroyed (by the user, possibly inside a handler) in the reference bookkeeping -/
def SpecSt.markConn (c : SpecSt) (j : Nat) : SpecSt :=
  match c.conn j with
  | some k => if k.registered then c.setConn { k with gone := true } else c
  | none => c

def SpecSt.markAcc (c : SpecSt) (j : Nat) : SpecSt :=
  match c.acc j with
  | some a => c.setAcc { a with gone := true }
  | none => c

def SpecSt.markDestroyed (c : SpecSt) (j : Nat) : SpecSt := (c.markConn j).markAcc j

/-- a `send` system call on socket `i` was observed: one queued send is consumed -/
def SpecSt.wrote (c : SpecSt) (i : Nat) : SpecSt :=
  { c with arm := (c.arm.filter (fun x => x.1 ≠ i)) ++ [(i, (lookup c.arm i).getD 0 - 1)] }

/-- the receive handler of socket `i` got `len` bytes with hash `hash` -/
def specData (c : SpecSt) (i len : Nat) (hash : Tok) : Except String SpecSt :=
  match c.conn i with
  | none => .error s!"receive handler for unknown socket {i}"
  | some k =>
    if k.gone then .error s!"receive handler of socket {i} ran after its disconnect / destruction"
    else if len = 0 then .error s!"receive handler of socket {i} got an empty chunk"
    else if len > k.rx then .error s!"receive handler of socket {i} got {len} bytes, more than its buffer size {k.rx}"
    else
      let want := (k.stream.drop k.delivered).take len
      if want.length ≠ len ∨ hash ≠ .ord (fnv want).toNat then
        .error s!"receive handler of socket {i} got {len} bytes (hash {hash}) that are not the next bytes the peer sent (offset {k.delivered} of {k.stream.length})"
      else .ok (c.setConn { k with delivered := k.delivered + len })

/-- the disconnect handler of socket `i` ran with address `addr` -/
def specDisconnect (c : SpecSt) (i : Nat) (addr : Tok) (reason : String) : Except String SpecSt :=
  match c.conn i with
  | none => .error s!"disconnect handler for unknown socket {i}"
  | some k =>
    if k.gone then .error s!"disconnect handler of socket {i} ran a second time / after destruction"
    else if ¬ k.ended then .error s!"disconnect handler of socket {i} ran ({reason}) although the peer neither closed nor reset"
    else if k.delivered ≠ k.stream.length then
      .error s!"disconnect handler of socket {i} ran with {k.stream.length - k.delivered} byte(s) the peer sent before closing still undelivered"
    else if addr ≠ k.addr then .error s!"disconnect handler of socket {i} got address {addr}, the socket was created for {k.addr}"
    else .ok (c.setConn { k with gone := true })

/-- the connect handler of acceptor `a` ran: socket connected to `sock`, reported address `addr`;
the handler upgrades the connection to an async socket with buffers of `rx` bytes -/
def specConnect (c : SpecSt) (rx a : Nat) (sock addr : Tok) : Except String SpecSt :=
  match c.acc a with
  | none => .error s!"connect handler for unknown acceptor {a}"
  | some k =>
    if k.gone then .error s!"connect handler of acceptor {a} ran after its destruction"
    else match k.waiting with
      | [] => .error s!"connect handler of acceptor {a} ran although no connection is waiting (duplicate)"
      | (i, waddr) :: more =>
        if addr ≠ waddr then .error s!"connect handler of acceptor {a} reports peer {addr}, the next established connection is {i}"
        else if sock ≠ .ord i ∧ ¬ (sock = unusable ∧ ((c.conn i).map (·.ended)).getD false) then
          .error s!"connect handler of acceptor {a}: the socket handed over is connected to {sock}, not to {i}"
        else
          let c := c.setAcc { k with waiting := more }
          .ok (match c.conn i with | some x => c.setConn { x with registered := true, rx := rx } | none => c)

def specEv (c : SpecSt) (rx : Nat) : Ev → Except String SpecSt
  | .data i len hash => specData c i len hash
  | .disconnect i addr reason => specDisconnect c i addr reason
  | .connect a sock addr => specConnect c rx a sock addr
  | .bad msg => .error msg

/-- what one Step is allowed to show -/
def specStepObs (c : SpecSt) (o : StepObs) : Except String SpecSt :=
  match o.threw with
  | some x => .error s!"Step threw: {x}"
  | none =>
  if o.evs.length + o.sends.length > 1 then
    .error s!"more than one socket task in one step ({o.evs.length} handler calls, {o.sends.length} sends)"
  else
  match o.evs.find? (fun e => !e.onStepThread) with
  | some e => .error s!"handler ran on a thread other than the one executing Step: {e.text}"
  | none =>
  let res : Except String SpecSt :=
    match o.evs with
    | [] =>
      if o.sends.isEmpty then
        match c.owed with
        | some what => .error s!"Step did nothing although {what}"
        | none => .ok c
      else .ok c
    | [e] => specEv c o.rx e.ev
    | _ => .error "more than one handler call"    -- unreachable: excluded above
  match res with
  | .error msg => .error msg
  | .ok c =>
    let c := o.destroyed.foldl SpecSt.markDestroyed c
    .ok (match o.sends with | [some i] => c.wrote i | _ => c)

def specStep (c : SpecSt) : Obs → Except String SpecSt
  | .client i addr rx => .ok (c.setConn { i := i, addr := addr, registered := true, rx := rx })
  | .acceptor a => .ok (c.setAcc { a := a })
  | .pconnect a i addr =>
    let c := match c.acc a with | some k => c.setAcc { k with waiting := k.waiting ++ [(i, addr)] } | none => c
    .ok (c.setConn { i := i, addr := addr })
  | .send i bytes =>
    .ok (match c.conn i with | some k => c.setConn { k with stream := k.stream ++ bytes } | none => c)
  | .close i =>
    .ok (match c.conn i with | some k => c.setConn { k with ended := true } | none => c)
  | .arm i => .ok { c with arm := (c.arm.filter (·.1 ≠ i)) ++ [(i, (lookup c.arm i).getD 0 + 1)] }
  | .destroy i => .ok (c.markDestroyed i)
  | .outside => .error "a handler ran / an exception escaped outside Step"
  | .step o => specStepObs c o

def specRun (c : SpecSt) : List Obs → Except String SpecSt
  | [] => .ok c
  | o :: os => match specStep c o with | .ok c' => specRun c' os | .error e => .error e

/-! ## the observations of the model -/

def reasonText : Reason → String
  | .eof => "eof"
  | .fail => "fail"
  | .poll => "poll"

/-- a handler invocation of the model's log as the harness would record it (ordinals = model ids,
addresses = the model's addresses, on the Step thread) -/
def renderEv : Event → EvObs
  | .data s b _ => { ev := .data s b.length (.ord (fnv b).toNat) }
  | .disconnect s a r => { ev := .disconnect s (.ord a) (reasonText r) }
  | .connect a c addr => { ev := .connect a (.ord c) (.ord addr) }

/-- the observations the MODEL produces for one operation in state `s`.  An operation the model
ignores (a peer connecting to a socket that is not a registered acceptor, sending on a connection it
closed, a send request on an unregistered socket or while `POLLOUT` is already requested) and a step
whose `poll` is answered by the signalling pipe (`Unbump` only) are invisible.  The handler
invocations of a step are the entries the step appends to the model's log. -/
def modelObs (order : List Nat) (s : St) : Op → List Obs
  | .newClient addr rx => [.client s.nextId (.ord addr) (max 1 rx)]
  | .newAcceptor => [.acceptor s.nextId]
  | .peerConnect a addr =>
    if s.socks.any (fun k => k.id = a ∧ k.kind = .acceptor) then [.pconnect a s.nextId (.ord addr)] else []
  | .peerSend c bytes => if (s.conn c).ended then [] else [.send c bytes]
  | .peerClose c => [.close c]
  | .peerRst c => [.close c]
  | .wantSend i => if s.socks.any (·.id = i) && !s.wantOut i then [.arm i] else []
  | .destroy i => [.destroy i]
  | .step pipe chunk rx hdl =>
    if pipe then []
    else
      let evs := ((stepSockets order s false chunk rx hdl).log.drop s.log.length).map renderEv
      [.step { rx := max 1 rx
               evs := evs
               sends := match firstTask order s s.socks with | some (k, .writable) => [some k.id] | _ => []
               destroyed := if evs.isEmpty then [] else hdl }]

def modelTrace (order : List Nat) (s : St) : List Op → List Obs
  | [] => []
  | op :: ops => modelObs order s op ++ modelTrace order (apply order s op) ops

/-- the model's precondition on a history: a peer sends / closes / resets only connections that exist
(ids are allocated consecutively; the model keeps the inbound channel of *every* id, so an operation on
an id not yet allocated would pre-load the channel of a future connection) -/
def opWf (s : St) : Op → Bool
  | .peerSend c _ => decide (c < s.nextId)
  | .peerClose c => decide (c < s.nextId)
  | .peerRst c => decide (c < s.nextId)
  | _ => true

def histWf (order : List Nat) (s : St) : List Op → Bool
  | [] => true
  | op :: ops => opWf s op && histWf order (apply order s op) ops

/-! ## list lemmas for the reference book-keeping -/

theorem mem_upsert {α} {key : α → Nat} {l : List α} {k x : α} (h : x ∈ upsert key l k) :
    (x ∈ l ∧ key x ≠ key k) ∨ x = k := by
  unfold upsert at h
  split at h
  · obtain ⟨y, hy, hxy⟩ := List.mem_map.mp h
    by_cases hk : key y = key k
    · simp only [hk, ↓reduceIte] at hxy; exact Or.inr hxy.symm
    · simp only [hk, ↓reduceIte] at hxy; subst hxy; exact Or.inl ⟨hy, hk⟩
  · rename_i hany
    rcases List.mem_append.mp h with h | h
    · left
      refine ⟨h, ?_⟩
      intro hk
      apply hany
      simp only [List.any_eq_true, decide_eq_true_eq]
      exact ⟨x, h, hk⟩
    · simp only [List.mem_singleton] at h; exact Or.inr h

theorem mem_upsert_of_ne {α} {key : α → Nat} {l : List α} {k x : α} (hx : x ∈ l) (hk : key x ≠ key k) :
    x ∈ upsert key l k := by
  unfold upsert
  split
  · exact List.mem_map.mpr ⟨x, hx, by simp [hk]⟩
  · exact List.mem_append_left _ hx

theorem find_upsert_self {α} {key : α → Nat} (l : List α) (k : α) :
    (upsert key l k).find? (fun x => key x = key k) = some k := by
  unfold upsert
  split
  · rename_i hany
    induction l with
    | nil => simp at hany
    | cons y ys ih =>
      by_cases hy : key y = key k
      · simp [hy]
      · simp only [List.any_cons, hy, decide_false, Bool.false_or] at hany
        simp only [List.map_cons, hy, ↓reduceIte]
        rw [List.find?_cons_of_neg (by simpa using hy)]
        exact ih hany
  · rename_i hany
    rw [List.find?_append]
    have : List.find? (fun x => decide (key x = key k)) l = none := by
      rw [List.find?_eq_none]
      intro x hx hk
      apply hany
      simp only [List.any_eq_true]
      exact ⟨x, hx, hk⟩
    rw [this]
    simp

theorem find_map_replace_ne {α} {key : α → Nat} (l : List α) (k : α) {j : Nat} (hj : j ≠ key k) :
    (l.map (fun x => if key x = key k then k else x)).find? (fun x => key x = j) = l.find? (fun x => key x = j) := by
  induction l with
  | nil => rfl
  | cons y ys ih =>
    by_cases hy : key y = key k
    · have h1 : ¬ key y = j := fun h => hj (h.symm.trans hy)
      have h2 : ¬ key k = j := fun h => hj h.symm
      simp only [List.map_cons, hy, ↓reduceIte]
      rw [List.find?_cons_of_neg (by simpa using h2), List.find?_cons_of_neg (by simpa using h1)]
      exact ih
    · simp only [List.map_cons, hy, ↓reduceIte]
      by_cases hyj : key y = j
      · rw [List.find?_cons_of_pos (by simpa using hyj), List.find?_cons_of_pos (by simpa using hyj)]
      · rw [List.find?_cons_of_neg (by simpa using hyj), List.find?_cons_of_neg (by simpa using hyj)]
        exact ih

theorem find_upsert_ne {α} {key : α → Nat} (l : List α) (k : α) {j : Nat} (hj : j ≠ key k) :
    (upsert key l k).find? (fun x => key x = j) = l.find? (fun x => key x = j) := by
  unfold upsert
  split
  · exact find_map_replace_ne l k hj
  · rw [List.find?_append]
    have h2 : ¬ key k = j := fun h => hj h.symm
    cases List.find? (fun x => decide (key x = j)) l with
    | some v => rfl
    | none => simp [h2]

theorem nodup_upsert {α} {key : α → Nat} {l : List α} (k : α) (h : (l.map key).Nodup) :
    ((upsert key l k).map key).Nodup := by
  unfold upsert
  split
  · have : (l.map (fun x => if key x = key k then k else x)).map key = l.map key := by
      rw [List.map_map]
      apply List.map_congr_left
      intro x _
      by_cases hx : key x = key k
      · simp [hx]
      · simp [hx]
    rw [this]; exact h
  · rename_i hany
    rw [List.map_append, List.nodup_append]
    refine ⟨h, by simp, ?_⟩
    intro a ha b hb
    simp only [List.map_cons, List.map_nil, List.mem_singleton] at hb
    subst hb
    obtain ⟨x, hx, rfl⟩ := List.mem_map.mp ha
    intro hk
    apply hany
    simp only [List.any_eq_true, decide_eq_true_eq]
    exact ⟨x, hx, hk⟩

theorem find_of_mem_nodup {α} {key : α → Nat} {l : List α} {x : α} (h : (l.map key).Nodup) (hx : x ∈ l) :
    l.find? (fun y => key y = key x) = some x := by
  induction l with
  | nil => cases hx
  | cons y ys ih =>
    simp only [List.map_cons, List.nodup_cons] at h
    rcases List.mem_cons.mp hx with rfl | hx'
    · simp
    · have : ¬ key y = key x := fun he => h.1 (he ▸ List.mem_map_of_mem hx')
      rw [List.find?_cons_of_neg (by simpa using this)]
      exact ih h.2 hx'

/-! ## lemmas about the reference state -/

@[simp] theorem setConn_accs (c : SpecSt) (k : SConn) : (c.setConn k).accs = c.accs := rfl
@[simp] theorem setConn_arm (c : SpecSt) (k : SConn) : (c.setConn k).arm = c.arm := rfl
@[simp] theorem setAcc_conns (c : SpecSt) (k : SAcc) : (c.setAcc k).conns = c.conns := rfl
@[simp] theorem setAcc_arm (c : SpecSt) (k : SAcc) : (c.setAcc k).arm = c.arm := rfl
@[simp] theorem setConn_acc (c : SpecSt) (k : SConn) (a : Nat) : (c.setConn k).acc a = c.acc a := rfl
@[simp] theorem setAcc_conn (c : SpecSt) (k : SAcc) (i : Nat) : (c.setAcc k).conn i = c.conn i := rfl

theorem conn_some {c : SpecSt} {i : Nat} {k : SConn} (h : c.conn i = some k) : k ∈ c.conns ∧ k.i = i := by
  unfold SpecSt.conn at h
  exact ⟨List.mem_of_find?_eq_some h, by simpa using List.find?_some h⟩

theorem conn_none {c : SpecSt} {i : Nat} (h : c.conn i = none) : ∀ k ∈ c.conns, k.i ≠ i := by
  unfold SpecSt.conn at h
  simpa using h

theorem acc_some {c : SpecSt} {i : Nat} {k : SAcc} (h : c.acc i = some k) : k ∈ c.accs ∧ k.a = i := by
  unfold SpecSt.acc at h
  exact ⟨List.mem_of_find?_eq_some h, by simpa using List.find?_some h⟩

theorem acc_none {c : SpecSt} {i : Nat} (h : c.acc i = none) : ∀ k ∈ c.accs, k.a ≠ i := by
  unfold SpecSt.acc at h
  simpa using h

theorem conn_setConn_self (c : SpecSt) (k : SConn) : (c.setConn k).conn k.i = some k :=
  find_upsert_self (key := fun x : SConn => x.i) c.conns k

theorem conn_setConn_ne (c : SpecSt) (k : SConn) {j : Nat} (hj : j ≠ k.i) : (c.setConn k).conn j = c.conn j :=
  find_upsert_ne (key := fun x : SConn => x.i) c.conns k hj

theorem acc_setAcc_self (c : SpecSt) (k : SAcc) : (c.setAcc k).acc k.a = some k :=
  find_upsert_self (key := fun x : SAcc => x.a) c.accs k

theorem acc_setAcc_ne (c : SpecSt) (k : SAcc) {j : Nat} (hj : j ≠ k.a) : (c.setAcc k).acc j = c.acc j :=
  find_upsert_ne (key := fun x : SAcc => x.a) c.accs k hj

/-- a lookup in the state after `setConn k` -/
theorem conn_setConn_cases {c : SpecSt} {k x : SConn} {j : Nat} (h : (c.setConn k).conn j = some x) :
    (j = k.i ∧ x = k) ∨ (j ≠ k.i ∧ c.conn j = some x) := by
  by_cases hj : j = k.i
  · subst hj; rw [conn_setConn_self] at h; cases h; exact Or.inl ⟨rfl, rfl⟩
  · rw [conn_setConn_ne c k hj] at h; exact Or.inr ⟨hj, h⟩

theorem mem_setAcc {c : SpecSt} {k x : SAcc} (h : x ∈ (c.setAcc k).accs) : (x ∈ c.accs ∧ x.a ≠ k.a) ∨ x = k :=
  mem_upsert (key := fun x : SAcc => x.a) h

theorem conn_of_mem {c : SpecSt} (h : (c.conns.map (·.i)).Nodup) {k : SConn} (hk : k ∈ c.conns) : c.conn k.i = some k :=
  find_of_mem_nodup (key := fun x : SConn => x.i) h hk

/-! ## the simulation relation and the one-step lemmas -/

/-- what the observer's book-keeping knows about the model state -/
structure Rel (m : St) (sp : SpecSt) : Prop where
  connNodup : (sp.conns.map (·.i)).Nodup
  connLt : ∀ i k, sp.conn i = some k → i < m.nextId
  accLt : ∀ k ∈ sp.accs, k.a < m.nextId
  fresh : ∀ c, m.nextId ≤ c → (m.conn c).inbox = [] ∧ (m.conn c).ended = false ∧ m.backlog c = []
  connData : ∀ i k, sp.conn i = some k →
    k.delivered ≤ k.stream.length ∧ k.stream.drop k.delivered = (m.conn i).inbox ∧ k.ended = (m.conn i).ended
  goneReg : ∀ i k, sp.conn i = some k → k.gone = true → k.registered = true
  connSock : ∀ i k, sp.conn i = some k → k.registered = true → k.gone = false → ∃ x ∈ m.socks, x.id = i ∧ x.kind = .tcp
  sockConn : ∀ x ∈ m.socks, x.kind = .tcp →
    ∃ k, sp.conn x.id = some k ∧ k.registered = true ∧ k.gone = false ∧ k.rx = x.rxSize ∧ k.addr = .ord x.peerAddr
  accSock : ∀ k ∈ sp.accs, k.gone = false → ∃ x ∈ m.socks, x.id = k.a ∧ x.kind = .acceptor
  sockAcc : ∀ x ∈ m.socks, x.kind = .acceptor → ∃ k, sp.acc x.id = some k ∧ k.gone = false
  waiting : ∀ k ∈ sp.accs, k.waiting = (m.backlog k.a).map (fun x => (x.1, Tok.ord x.2))
  blConn : ∀ a x, x ∈ m.backlog a → ∃ k, sp.conn x.1 = some k ∧ k.registered = false ∧ k.addr = .ord x.2
  armOk : ∀ p ∈ sp.arm, p.2 ≤ 1 ∧ (p.2 = 1 → m.wantOut p.1 = true)

theorem rel_init : Rel {} {} := by
  refine ⟨by simp, ?_, by simp, by simp, ?_, ?_, ?_, by simp, by simp, by simp, by simp, by simp, by simp⟩ <;>
    (intro i k h; simp [SpecSt.conn] at h)

def markC (k : SConn) : SConn := if k.registered then { k with gone := true } else k

theorem markAcc_conns (c : SpecSt) (j : Nat) : (c.markAcc j).conns = c.conns := by
  unfold SpecSt.markAcc; split <;> rfl
theorem markAcc_conn (c : SpecSt) (j i : Nat) : (c.markAcc j).conn i = c.conn i := by
  unfold SpecSt.conn; rw [markAcc_conns]
theorem markAcc_arm (c : SpecSt) (j : Nat) : (c.markAcc j).arm = c.arm := by
  unfold SpecSt.markAcc; split <;> rfl
theorem markConn_accs (c : SpecSt) (j : Nat) : (c.markConn j).accs = c.accs := by
  unfold SpecSt.markConn; split
  · split <;> rfl
  · rfl
theorem markConn_acc (c : SpecSt) (j i : Nat) : (c.markConn j).acc i = c.acc i := by
  unfold SpecSt.acc; rw [markConn_accs]
theorem markConn_arm (c : SpecSt) (j : Nat) : (c.markConn j).arm = c.arm := by
  unfold SpecSt.markConn; split
  · split <;> rfl
  · rfl

theorem markDestroyed_arm (sp : SpecSt) (j : Nat) : (sp.markDestroyed j).arm = sp.arm := by
  unfold SpecSt.markDestroyed; rw [markAcc_arm, markConn_arm]

theorem markDestroyed_conn_self (sp : SpecSt) (j : Nat) : (sp.markDestroyed j).conn j = (sp.conn j).map markC := by
  unfold SpecSt.markDestroyed
  rw [markAcc_conn]
  unfold SpecSt.markConn
  cases hc : sp.conn j with
  | none => simp [hc]
  | some k =>
    simp only [Option.map_some, markC]
    have hk := (conn_some hc).2
    split
    · subst hk
      exact conn_setConn_self sp { k with gone := true }
    · exact hc

theorem markDestroyed_conn_ne (sp : SpecSt) {i j : Nat} (hij : i ≠ j) : (sp.markDestroyed j).conn i = sp.conn i := by
  unfold SpecSt.markDestroyed
  rw [markAcc_conn]
  unfold SpecSt.markConn
  cases hc : sp.conn j with
  | none => rfl
  | some k =>
    dsimp only
    have hk := (conn_some hc).2
    split
    · exact conn_setConn_ne sp _ (by simpa [hk] using hij)
    · rfl

theorem markDestroyed_nodup (sp : SpecSt) (j : Nat) (h : (sp.conns.map (·.i)).Nodup) :
    ((sp.markDestroyed j).conns.map (·.i)).Nodup := by
  unfold SpecSt.markDestroyed
  rw [markAcc_conns]
  unfold SpecSt.markConn
  cases sp.conn j with
  | none => exact h
  | some k =>
    dsimp only
    split
    · exact nodup_upsert (key := fun x : SConn => x.i) _ h
    · exact h

theorem markDestroyed_accs (sp : SpecSt) (j : Nat) :
    (sp.markDestroyed j).accs = (match sp.acc j with | some a => sp.setAcc { a with gone := true } | none => sp).accs := by
  unfold SpecSt.markDestroyed SpecSt.markAcc
  rw [markConn_acc]
  cases sp.acc j with
  | none => exact markConn_accs sp j
  | some a =>
    dsimp only [SpecSt.setAcc]
    rw [markConn_accs]

theorem markDestroyed_acc_ne (sp : SpecSt) {i j : Nat} (hij : i ≠ j) : (sp.markDestroyed j).acc i = sp.acc i := by
  have h1 : (sp.markDestroyed j).acc i = (match sp.acc j with | some a => sp.setAcc { a with gone := true } | none => sp).acc i := by
    show List.find? _ (sp.markDestroyed j).accs = _
    rw [markDestroyed_accs]; rfl
  rw [h1]
  cases ha : sp.acc j with
  | none => rfl
  | some a =>
    have hk := (acc_some ha).2
    exact acc_setAcc_ne sp _ (by simpa [hk] using hij)

theorem mem_markDestroyed_accs {sp : SpecSt} {j : Nat} {x : SAcc} (h : x ∈ (sp.markDestroyed j).accs) :
    (x ∈ sp.accs ∧ x.a ≠ j) ∨ (x.gone = true ∧ ∃ a ∈ sp.accs, x.a = a.a ∧ x.waiting = a.waiting) := by
  rw [markDestroyed_accs] at h
  cases ha : sp.acc j with
  | none =>
    rw [ha] at h
    exact Or.inl ⟨h, acc_none ha x h⟩
  | some a =>
    rw [ha] at h
    have hk := acc_some ha
    rcases mem_setAcc h with ⟨hx, hne⟩ | rfl
    · exact Or.inl ⟨hx, by simpa [hk.2] using hne⟩
    · exact Or.inr ⟨rfl, a, hk.1, rfl, rfl⟩

/-- the user (or a handler) destroys socket `j` -/
theorem rel_destroy {m : St} {sp : SpecSt} (h : Rel m sp) (j : Nat) : Rel (unregister m j) (sp.markDestroyed j) := by
  have look : ∀ i x, (sp.markDestroyed j).conn i = some x →
      ∃ k, sp.conn i = some k ∧ x.i = k.i ∧ x.addr = k.addr ∧ x.stream = k.stream ∧ x.delivered = k.delivered ∧
        x.ended = k.ended ∧ x.registered = k.registered ∧ x.rx = k.rx ∧
        ((x.gone = k.gone ∧ (i ≠ j ∨ k.registered = false)) ∨ (i = j ∧ k.registered = true ∧ x.gone = true)) := by
    intro i x hx
    by_cases hij : i = j
    · subst hij
      rw [markDestroyed_conn_self] at hx
      cases hc : sp.conn i with
      | none => rw [hc] at hx; cases hx
      | some k =>
        rw [hc] at hx
        simp only [Option.map_some, Option.some.injEq] at hx
        subst hx
        refine ⟨k, rfl, ?_⟩
        unfold markC
        cases hr : k.registered with
        | true => simp
        | false => simp [hr]
    · rw [markDestroyed_conn_ne sp hij] at hx
      exact ⟨x, hx, rfl, rfl, rfl, rfl, rfl, rfl, rfl, Or.inl ⟨rfl, Or.inl hij⟩⟩
  refine ⟨markDestroyed_nodup sp j h.connNodup, ?_, ?_, h.fresh, ?_, ?_, ?_, ?_, ?_, ?_, ?_, ?_, ?_⟩
  · intro i x hx
    obtain ⟨k, hk, _⟩ := look i x hx
    exact h.connLt i k hk
  · intro x hx
    rcases mem_markDestroyed_accs hx with ⟨hx, _⟩ | ⟨_, a, ha, he, _⟩
    · exact h.accLt x hx
    · rw [he]; exact h.accLt a ha
  · intro i x hx
    obtain ⟨k, hk, _, _, h3, h4, h5, _⟩ := look i x hx
    rw [h3, h4, h5]
    exact h.connData i k hk
  · intro i x hx hg
    obtain ⟨k, hk, _, _, _, _, _, h6, _, h8⟩ := look i x hx
    rcases h8 with ⟨h8, _⟩ | ⟨_, h8, _⟩
    · rw [h6]; exact h.goneReg i k hk (h8 ▸ hg)
    · rw [h6]; exact h8
  · intro i x hx hr hg
    obtain ⟨k, hk, _, _, _, _, _, h6, _, h8⟩ := look i x hx
    rcases h8 with ⟨h8, h9⟩ | ⟨_, _, h8⟩
    · obtain ⟨y, hy, hyi, hyk⟩ := h.connSock i k hk (h6 ▸ hr) (h8 ▸ hg)
      have hij : i ≠ j := by
        rcases h9 with h9 | h9
        · exact h9
        · rw [h6, h9] at hr; cases hr
      exact ⟨y, by rw [unregister_socks]; exact List.mem_filter.mpr ⟨hy, by simp [hyi, hij]⟩, hyi, hyk⟩
    · rw [h8] at hg; cases hg
  · intro x hx hk
    have hx' := mem_unregister hx
    obtain ⟨k, hk1, hk2⟩ := h.sockConn x hx'.1 hk
    exact ⟨k, by rw [markDestroyed_conn_ne sp hx'.2]; exact hk1, hk2⟩
  · intro x hx hg
    rcases mem_markDestroyed_accs hx with ⟨hx, hne⟩ | ⟨hg', _⟩
    · obtain ⟨y, hy, hyi, hyk⟩ := h.accSock x hx hg
      exact ⟨y, by rw [unregister_socks]; exact List.mem_filter.mpr ⟨hy, by simp [hyi, hne]⟩, hyi, hyk⟩
    · rw [hg'] at hg; cases hg
  · intro x hx hk
    have hx' := mem_unregister hx
    obtain ⟨k, hk1, hk2⟩ := h.sockAcc x hx'.1 hk
    exact ⟨k, by rw [markDestroyed_acc_ne sp hx'.2]; exact hk1, hk2⟩
  · intro x hx
    rcases mem_markDestroyed_accs hx with ⟨hx, _⟩ | ⟨_, a, ha, he, hw⟩
    · exact h.waiting x hx
    · rw [hw, he]; exact h.waiting a ha
  · intro a x hx
    obtain ⟨k, hk1, hk2, hk3⟩ := h.blConn a x hx
    by_cases hij : x.1 = j
    · refine ⟨markC k, ?_, ?_, ?_⟩
      · rw [← hij, markDestroyed_conn_self, hk1]; rfl
      · simp [markC, hk2]
      · simp [markC, hk2, hk3]
    · exact ⟨k, by rw [markDestroyed_conn_ne sp hij]; exact hk1, hk2, hk3⟩
  · rw [markDestroyed_arm]; exact h.armOk

theorem rel_destroyAll {m : St} {sp : SpecSt} (h : Rel m sp) (ids : List Nat) :
    Rel (destroyAll m ids) (ids.foldl SpecSt.markDestroyed sp) := by
  induction ids generalizing m sp with
  | nil => exact h
  | cons j js ih => exact ih (rel_destroy h j)

theorem sock_lt {m : St} (hinv : DInv m) {x : Sock} (hx : x ∈ m.socks) : x.id < m.nextId :=
  hinv.idsLt x (hinv.sub x hx)

theorem conn_fresh_none {m : St} {sp : SpecSt} (h : Rel m sp) {i : Nat} (hi : m.nextId ≤ i) : sp.conn i = none := by
  cases hc : sp.conn i with
  | none => rfl
  | some k => have := h.connLt i k hc; omega

theorem ok_newClient {order : List Nat} {m : St} {sp : SpecSt} (hinv : DInv m) (h : Rel m sp) (addr rx : Nat) :
    ∃ sp', specRun sp (modelObs order m (.newClient addr rx)) = .ok sp' ∧ Rel (apply order m (.newClient addr rx)) sp' := by
  refine ⟨sp.setConn { i := m.nextId, addr := .ord addr, registered := true, rx := max 1 rx }, rfl, ?_⟩
  have hfr := h.fresh m.nextId (Nat.le_refl _)
  refine ⟨nodup_upsert (key := fun x : SConn => x.i) _ h.connNodup, ?_, ?_, ?_, ?_, ?_, ?_, ?_, ?_, ?_, h.waiting, ?_, h.armOk⟩
  · intro j x hx
    rcases conn_setConn_cases hx with ⟨rfl, _⟩ | ⟨_, hx⟩
    · exact Nat.lt_succ_self _
    · exact Nat.lt_succ_of_lt (h.connLt j x hx)
  · intro k hk; exact Nat.lt_succ_of_lt (h.accLt k hk)
  · intro c hc; exact h.fresh c (Nat.le_of_succ_le hc)
  · intro j x hx
    rcases conn_setConn_cases hx with ⟨rfl, rfl⟩ | ⟨_, hx⟩
    · exact ⟨Nat.le_refl _, hfr.1.symm, hfr.2.1.symm⟩
    · exact h.connData j x hx
  · intro j x hx
    rcases conn_setConn_cases hx with ⟨rfl, rfl⟩ | ⟨_, hx⟩
    · intro hg; cases hg
    · exact h.goneReg j x hx
  · intro j x hx hr hg
    rcases conn_setConn_cases hx with ⟨rfl, rfl⟩ | ⟨_, hx⟩
    · exact ⟨_, List.mem_append_right _ (List.mem_singleton.mpr rfl), rfl, rfl⟩
    · obtain ⟨y, hy, h1, h2⟩ := h.connSock j x hx hr hg
      exact ⟨y, List.mem_append_left _ hy, h1, h2⟩
  · intro x hx hk
    rcases List.mem_append.mp hx with hx | hx
    · obtain ⟨k, hk1, hk2⟩ := h.sockConn x hx hk
      have : x.id ≠ m.nextId := Nat.ne_of_lt (sock_lt hinv hx)
      exact ⟨k, by rw [conn_setConn_ne sp _ this]; exact hk1, hk2⟩
    · simp only [List.mem_singleton] at hx; subst hx
      exact ⟨_, conn_setConn_self sp _, rfl, rfl, rfl, rfl⟩
  · intro k hk hg
    obtain ⟨y, hy, h1, h2⟩ := h.accSock k hk hg
    exact ⟨y, List.mem_append_left _ hy, h1, h2⟩
  · intro x hx hk
    rcases List.mem_append.mp hx with hx | hx
    · exact h.sockAcc x hx hk
    · simp only [List.mem_singleton] at hx; subst hx; cases hk
  · intro a x hx
    obtain ⟨k, hk1, hk2⟩ := h.blConn a x hx
    have : x.1 ≠ m.nextId := Nat.ne_of_lt (hinv.blFresh a x hx).1
    exact ⟨k, by rw [conn_setConn_ne sp _ this]; exact hk1, hk2⟩

theorem ok_newAcceptor {order : List Nat} {m : St} {sp : SpecSt} (hinv : DInv m) (h : Rel m sp) :
    ∃ sp', specRun sp (modelObs order m .newAcceptor) = .ok sp' ∧ Rel (apply order m .newAcceptor) sp' := by
  refine ⟨sp.setAcc { a := m.nextId }, rfl, ?_⟩
  have hfr := h.fresh m.nextId (Nat.le_refl _)
  have hnone : sp.acc m.nextId = none := by
    cases hc : sp.acc m.nextId with
    | none => rfl
    | some k => have := h.accLt k (acc_some hc).1; have := (acc_some hc).2; omega
  refine ⟨h.connNodup, ?_, ?_, ?_, h.connData, h.goneReg, ?_, ?_, ?_, ?_, ?_, h.blConn, h.armOk⟩
  · intro j x hx; exact Nat.lt_succ_of_lt (h.connLt j x hx)
  · intro k hk
    rcases mem_setAcc hk with ⟨hk, _⟩ | rfl
    · exact Nat.lt_succ_of_lt (h.accLt k hk)
    · exact Nat.lt_succ_self _
  · intro c hc; exact h.fresh c (Nat.le_of_succ_le hc)
  · intro j x hx hr hg
    obtain ⟨y, hy, h1, h2⟩ := h.connSock j x hx hr hg
    exact ⟨y, List.mem_append_left _ hy, h1, h2⟩
  · intro x hx hk
    rcases List.mem_append.mp hx with hx | hx
    · exact h.sockConn x hx hk
    · simp only [List.mem_singleton] at hx; subst hx; cases hk
  · intro k hk hg
    rcases mem_setAcc hk with ⟨hk, _⟩ | rfl
    · obtain ⟨y, hy, h1, h2⟩ := h.accSock k hk hg
      exact ⟨y, List.mem_append_left _ hy, h1, h2⟩
    · exact ⟨_, List.mem_append_right _ (List.mem_singleton.mpr rfl), rfl, rfl⟩
  · intro x hx hk
    rcases List.mem_append.mp hx with hx | hx
    · obtain ⟨k, hk1, hk2⟩ := h.sockAcc x hx hk
      have : x.id ≠ m.nextId := Nat.ne_of_lt (sock_lt hinv hx)
      exact ⟨k, by rw [acc_setAcc_ne sp _ this]; exact hk1, hk2⟩
    · simp only [List.mem_singleton] at hx; subst hx
      exact ⟨_, acc_setAcc_self sp _, rfl⟩
  · intro k hk
    rcases mem_setAcc hk with ⟨hk, _⟩ | rfl
    · exact h.waiting k hk
    · show [] = List.map _ (m.backlog m.nextId)
      rw [hfr.2.2]; rfl

/-- `Rel` reads the model state only through these components -/
theorem rel_of_eq {m m' : St} {sp : SpecSt} (h : Rel m sp) (h1 : m'.socks = m.socks) (h2 : m'.conn = m.conn)
    (h3 : m'.backlog = m.backlog) (h4 : m'.wantOut = m.wantOut) (h5 : m'.nextId = m.nextId) : Rel m' sp := by
  refine ⟨h.connNodup, ?_, ?_, ?_, ?_, h.goneReg, ?_, ?_, ?_, ?_, ?_, ?_, ?_⟩
  · rw [h5]; exact h.connLt
  · rw [h5]; exact h.accLt
  · rw [h5, h2, h3]; exact h.fresh
  · rw [h2]; exact h.connData
  · rw [h1]; exact h.connSock
  · rw [h1]; exact h.sockConn
  · rw [h1]; exact h.accSock
  · rw [h1]; exact h.sockAcc
  · rw [h3]; exact h.waiting
  · rw [h3]; exact h.blConn
  · rw [h4]; exact h.armOk

/-- the inbound channel of connection `c` changes together with its reference record -/
theorem rel_updConn {m : St} {sp : SpecSt} (h : Rel m sp) {c : Nat} {k k' : SConn} (v : Conn) (hc : sp.conn c = some k)
    (hi : k'.i = k.i) (haddr : k'.addr = k.addr) (hreg : k'.registered = k.registered) (hgone : k'.gone = k.gone)
    (hrx : k'.rx = k.rx)
    (hdata : k'.delivered ≤ k'.stream.length ∧ k'.stream.drop k'.delivered = v.inbox ∧ k'.ended = v.ended) :
    Rel { m with conn := updC m.conn c v } (sp.setConn k') := by
  have hkc : k.i = c := (conn_some hc).2
  have hk'c : k'.i = c := hi.trans hkc
  have hlt : c < m.nextId := h.connLt c k hc
  have look : ∀ j x, (sp.setConn k').conn j = some x → (j = c ∧ x = k') ∨ (j ≠ c ∧ sp.conn j = some x) := by
    intro j x hx
    rcases conn_setConn_cases hx with ⟨h1, h2⟩ | ⟨h1, h2⟩
    · exact Or.inl ⟨h1.trans hk'c, h2⟩
    · exact Or.inr ⟨by rw [hk'c] at h1; exact h1, h2⟩
  have keep : ∀ j, j ≠ c → (sp.setConn k').conn j = sp.conn j := by
    intro j hj; exact conn_setConn_ne sp k' (by rw [hk'c]; exact hj)
  have self : (sp.setConn k').conn c = some k' := by
    have := conn_setConn_self sp k'; rw [hk'c] at this; exact this
  refine ⟨nodup_upsert (key := fun x : SConn => x.i) _ h.connNodup, ?_, h.accLt, ?_, ?_, ?_, ?_, ?_, h.accSock, h.sockAcc,
    h.waiting, ?_, h.armOk⟩
  · intro j x hx
    rcases look j x hx with ⟨rfl, _⟩ | ⟨_, hx⟩
    · exact hlt
    · exact h.connLt j x hx
  · intro j hj
    have hj' : m.nextId ≤ j := hj
    have : j ≠ c := by omega
    show (updC m.conn c v j).inbox = [] ∧ (updC m.conn c v j).ended = false ∧ _
    rw [updC_other _ _ _ _ this]; exact h.fresh j hj
  · intro j x hx
    show _ ∧ _ = (updC m.conn c v j).inbox ∧ _ = (updC m.conn c v j).ended
    rcases look j x hx with ⟨rfl, rfl⟩ | ⟨hj, hx⟩
    · rw [updC_same]; exact hdata
    · rw [updC_other _ _ _ _ hj]; exact h.connData j x hx
  · intro j x hx hg
    rcases look j x hx with ⟨rfl, rfl⟩ | ⟨hj, hx⟩
    · rw [hreg]; exact h.goneReg j k hc (hgone ▸ hg)
    · exact h.goneReg j x hx hg
  · intro j x hx hr hg
    rcases look j x hx with ⟨rfl, rfl⟩ | ⟨hj, hx⟩
    · exact h.connSock j k hc (hreg ▸ hr) (hgone ▸ hg)
    · exact h.connSock j x hx hr hg
  · intro x hx hk
    obtain ⟨y, hy1, hy2, hy3, hy4, hy5⟩ := h.sockConn x hx hk
    by_cases hxc : x.id = c
    · rw [hxc] at hy1 ⊢
      rw [hc] at hy1; cases hy1
      exact ⟨k', self, hreg ▸ hy2, hgone ▸ hy3, hrx ▸ hy4, haddr ▸ hy5⟩
    · exact ⟨y, by rw [keep _ hxc]; exact hy1, hy2, hy3, hy4, hy5⟩
  · intro a x hx
    obtain ⟨y, hy1, hy2, hy3⟩ := h.blConn a x hx
    by_cases hxc : x.1 = c
    · rw [hxc] at hy1 ⊢
      rw [hc] at hy1; cases hy1
      exact ⟨k', self, hreg ▸ hy2, haddr ▸ hy3⟩
    · exact ⟨y, by rw [keep _ hxc]; exact hy1, hy2, hy3⟩

/-- the inbound channel of an id that is no connection of the observer (an acceptor) changes -/
theorem rel_updConn_none {m : St} {sp : SpecSt} (h : Rel m sp) {c : Nat} (v : Conn) (hc : sp.conn c = none)
    (hlt : c < m.nextId) : Rel { m with conn := updC m.conn c v } sp := by
  refine ⟨h.connNodup, h.connLt, h.accLt, ?_, ?_, h.goneReg, h.connSock, h.sockConn, h.accSock, h.sockAcc,
    h.waiting, h.blConn, h.armOk⟩
  · intro j hj
    have hj' : m.nextId ≤ j := hj
    have : j ≠ c := by omega
    show (updC m.conn c v j).inbox = [] ∧ (updC m.conn c v j).ended = false ∧ _
    rw [updC_other _ _ _ _ this]; exact h.fresh j hj
  · intro j x hx
    have : j ≠ c := by intro he; subst he; rw [hc] at hx; cases hx
    show _ ∧ _ = (updC m.conn c v j).inbox ∧ _ = (updC m.conn c v j).ended
    rw [updC_other _ _ _ _ this]; exact h.connData j x hx

theorem ok_peerSend {order : List Nat} {m : St} {sp : SpecSt} (h : Rel m sp) (c : Nat) (bytes : Bytes)
    (hwf : c < m.nextId) :
    ∃ sp', specRun sp (modelObs order m (.peerSend c bytes)) = .ok sp' ∧ Rel (apply order m (.peerSend c bytes)) sp' := by
  simp only [modelObs, apply]
  cases he : (m.conn c).ended with
  | true => exact ⟨sp, rfl, h⟩
  | false =>
    simp only [Bool.false_eq_true, ↓reduceIte]
    cases hc : sp.conn c with
    | none =>
      refine ⟨sp, by simp only [specRun, specStep, hc], ?_⟩
      exact rel_updConn_none h _ hc hwf
    | some k =>
      refine ⟨sp.setConn { k with stream := k.stream ++ bytes }, by simp only [specRun, specStep, hc], ?_⟩
      have hd := h.connData c k hc
      refine rel_updConn h _ hc rfl rfl rfl rfl rfl ⟨?_, ?_, ?_⟩
      · simp only [List.length_append]; omega
      · show List.drop k.delivered (k.stream ++ bytes) = (m.conn c).inbox ++ bytes
        rw [List.drop_append_of_le_length hd.1, hd.2.1]
      · exact hd.2.2.trans he

theorem ok_peerEnd {m : St} {sp : SpecSt} (h : Rel m sp) (c : Nat) (v : Conn) (hwf : c < m.nextId)
    (hv1 : v.inbox = (m.conn c).inbox) (hv2 : v.ended = true) :
    ∃ sp', specRun sp [.close c] = .ok sp' ∧ Rel { m with conn := updC m.conn c v } sp' := by
  cases hc : sp.conn c with
  | none => exact ⟨sp, by simp only [specRun, specStep, hc], rel_updConn_none h _ hc hwf⟩
  | some k =>
    refine ⟨sp.setConn { k with ended := true }, by simp only [specRun, specStep, hc], ?_⟩
    have hd := h.connData c k hc
    exact rel_updConn h _ hc rfl rfl rfl rfl rfl ⟨hd.1, by rw [hv1]; exact hd.2.1, hv2.symm⟩

theorem lookup_some_mem {l : List (Nat × Nat)} {i n : Nat} (h : lookup l i = some n) : (i, n) ∈ l := by
  unfold lookup at h
  cases hf : l.find? (fun p => p.1 = i) with
  | none => rw [hf] at h; cases h
  | some p =>
    rw [hf] at h
    simp only [Option.map_some, Option.some.injEq] at h
    have h1 := List.mem_of_find?_eq_some hf
    have h2 : p.1 = i := by simpa using List.find?_some hf
    obtain ⟨a, b⟩ := p
    simp only at h h2
    subst h h2
    exact h1

theorem ok_wantSend {order : List Nat} {m : St} {sp : SpecSt} (h : Rel m sp) (i : Nat) :
    ∃ sp', specRun sp (modelObs order m (.wantSend i)) = .ok sp' ∧ Rel (apply order m (.wantSend i)) sp' := by
  simp only [modelObs, apply]
  cases hany : m.socks.any (fun x => decide (x.id = i)) with
  | false => exact ⟨sp, rfl, h⟩
  | true =>
    simp only [Bool.true_and, ↓reduceIte]
    cases hw : m.wantOut i with
    | true =>
      refine ⟨sp, rfl, ?_⟩
      refine ⟨h.connNodup, h.connLt, h.accLt, h.fresh, h.connData, h.goneReg, h.connSock, h.sockConn, h.accSock, h.sockAcc,
        h.waiting, h.blConn, ?_⟩
      intro p hp
      refine ⟨(h.armOk p hp).1, ?_⟩
      intro h1
      show updB m.wantOut i true p.1 = true
      by_cases hpi : p.1 = i
      · rw [hpi, updB_same]
      · rw [updB_other _ _ _ _ hpi]; exact (h.armOk p hp).2 h1
    | false =>
      simp only [Bool.not_false, ↓reduceIte]
      refine ⟨_, rfl, ?_⟩
      have hn : (lookup sp.arm i).getD 0 = 0 := by
        cases hl : lookup sp.arm i with
        | none => rfl
        | some n =>
          have := h.armOk _ (lookup_some_mem hl)
          simp only [Option.getD_some]
          rcases Nat.lt_or_ge n 1 with h0 | h1
          · omega
          · have : n = 1 := by omega
            have := (h.armOk _ (lookup_some_mem hl)).2 this
            simp only at this
            rw [hw] at this; cases this
      refine ⟨h.connNodup, h.connLt, h.accLt, h.fresh, h.connData, h.goneReg, h.connSock, h.sockConn, h.accSock, h.sockAcc,
        h.waiting, h.blConn, ?_⟩
      intro p hp
      show p.2 ≤ 1 ∧ (p.2 = 1 → updB m.wantOut i true p.1 = true)
      rcases List.mem_append.mp hp with hp | hp
      · have hp' := List.mem_filter.mp hp
        have hpi : p.1 ≠ i := by simpa using hp'.2
        rw [updB_other _ _ _ _ hpi]
        exact h.armOk p hp'.1
      · simp only [List.mem_singleton] at hp
        subst hp
        simp [hn, updB_same]

theorem ok_peerConnect {order : List Nat} {m : St} {sp : SpecSt} (hinv : DInv m) (h : Rel m sp) (a addr : Nat) :
    ∃ sp', specRun sp (modelObs order m (.peerConnect a addr)) = .ok sp' ∧ Rel (apply order m (.peerConnect a addr)) sp' := by
  simp only [modelObs, apply]
  cases hany : m.socks.any (fun k => decide (k.id = a ∧ k.kind = .acceptor)) with
  | false => exact ⟨sp, rfl, h⟩
  | true =>
    simp only [↓reduceIte]
    simp only [List.any_eq_true, decide_eq_true_eq] at hany
    obtain ⟨xa, hxa, hxid, hxkind⟩ := hany
    obtain ⟨k, hk, hkg⟩ := h.sockAcc xa hxa hxkind
    rw [hxid] at hk
    have hka : k.a = a := (acc_some hk).2
    have halt : a < m.nextId := hxid ▸ sock_lt hinv hxa
    have hfr := h.fresh m.nextId (Nat.le_refl _)
    let k' : SAcc := { k with waiting := k.waiting ++ [(m.nextId, Tok.ord addr)] }
    let n : SConn := { i := m.nextId, addr := .ord addr }
    refine ⟨(sp.setAcc k').setConn n, by simp only [specRun, specStep, hk]; rfl, ?_⟩
    have look : ∀ j x, ((sp.setAcc k').setConn n).conn j = some x → (j = m.nextId ∧ x = n) ∨ (j ≠ m.nextId ∧ sp.conn j = some x) := by
      intro j x hx
      rcases conn_setConn_cases hx with h1 | h1
      · exact Or.inl h1
      · exact Or.inr h1
    have keep : ∀ j, j < m.nextId → ((sp.setAcc k').setConn n).conn j = sp.conn j := by
      intro j hj
      rw [conn_setConn_ne _ n (show j ≠ n.i from Nat.ne_of_lt hj)]; rfl
    have accMem : ∀ x, x ∈ ((sp.setAcc k').setConn n).accs → (x ∈ sp.accs ∧ x.a ≠ a) ∨ x = k' := by
      intro x hx
      rcases mem_setAcc (k := k') hx with ⟨h1, h2⟩ | h1
      · exact Or.inl ⟨h1, by rw [← hka]; exact h2⟩
      · exact Or.inr h1
    refine ⟨nodup_upsert (key := fun x : SConn => x.i) _ h.connNodup, ?_, ?_, ?_, ?_, ?_, ?_, ?_, ?_, ?_, ?_, ?_, h.armOk⟩
    · intro j x hx
      rcases look j x hx with ⟨rfl, _⟩ | ⟨_, hx⟩
      · exact Nat.lt_succ_self _
      · exact Nat.lt_succ_of_lt (h.connLt j x hx)
    · intro x hx
      rcases accMem x hx with ⟨hx, _⟩ | rfl
      · exact Nat.lt_succ_of_lt (h.accLt x hx)
      · exact Nat.lt_succ_of_lt (h.accLt k (acc_some hk).1)
    · intro c hc
      have hc' : m.nextId + 1 ≤ c := hc
      have := h.fresh c (by omega)
      refine ⟨this.1, this.2.1, ?_⟩
      show updB m.backlog a _ c = []
      rw [updB_other _ _ _ _ (by omega)]; exact this.2.2
    · intro j x hx
      rcases look j x hx with ⟨rfl, rfl⟩ | ⟨_, hx⟩
      · exact ⟨Nat.le_refl _, hfr.1.symm, hfr.2.1.symm⟩
      · exact h.connData j x hx
    · intro j x hx
      rcases look j x hx with ⟨rfl, rfl⟩ | ⟨_, hx⟩
      · intro hg; cases hg
      · exact h.goneReg j x hx
    · intro j x hx hr hg
      rcases look j x hx with ⟨rfl, rfl⟩ | ⟨_, hx⟩
      · cases hr
      · exact h.connSock j x hx hr hg
    · intro x hx hkind
      obtain ⟨y, hy1, hy2⟩ := h.sockConn x hx hkind
      exact ⟨y, by rw [keep _ (sock_lt hinv hx)]; exact hy1, hy2⟩
    · intro x hx hg
      rcases accMem x hx with ⟨hx, _⟩ | rfl
      · exact h.accSock x hx hg
      · exact h.accSock k (acc_some hk).1 hg
    · intro x hx hkind
      show ∃ y, (sp.setAcc k').acc x.id = some y ∧ _
      by_cases hxa' : x.id = a
      · refine ⟨k', ?_, hkg⟩
        rw [hxa', ← hka]; exact acc_setAcc_self sp k'
      · obtain ⟨y, hy1, hy2⟩ := h.sockAcc x hx hkind
        exact ⟨y, by rw [acc_setAcc_ne sp k' (show x.id ≠ k'.a by rw [show k'.a = a from hka]; exact hxa')]; exact hy1, hy2⟩
    · intro x hx
      show x.waiting = List.map _ (updB m.backlog a (m.backlog a ++ [(m.nextId, addr)]) x.a)
      rcases accMem x hx with ⟨hx, hne⟩ | rfl
      · rw [updB_other _ _ _ _ hne]; exact h.waiting x hx
      · show k.waiting ++ _ = List.map _ (updB m.backlog a (m.backlog a ++ [(m.nextId, addr)]) k.a)
        rw [hka, updB_same, List.map_append, ← hka, ← h.waiting k (acc_some hk).1]
        rfl
    · intro b x hx
      have hx' : x ∈ updB m.backlog a (m.backlog a ++ [(m.nextId, addr)]) b := hx
      have old : x ∈ m.backlog b → ∃ y, ((sp.setAcc k').setConn n).conn x.1 = some y ∧ y.registered = false ∧ y.addr = .ord x.2 := by
        intro hxb
        obtain ⟨y, hy1, hy2⟩ := h.blConn b x hxb
        exact ⟨y, by rw [keep _ (hinv.blFresh b x hxb).1]; exact hy1, hy2⟩
      by_cases hb : b = a
      · subst hb
        rw [updB_same] at hx'
        rcases List.mem_append.mp hx' with hx' | hx'
        · exact old hx'
        · simp only [List.mem_singleton] at hx'; subst hx'
          exact ⟨n, conn_setConn_self _ n, rfl, rfl⟩
      · rw [updB_other _ _ _ _ hb] at hx'
        exact old hx'

theorem firstTask_none {order : List Nat} {s : St} {l : List Sock} (h : firstTask order s l = none) :
    ∀ k ∈ l, pick order (s.revents k) = none := by
  induction l with
  | nil => intro k hk; cases hk
  | cons x xs ih =>
    simp only [firstTask] at h
    split at h
    · cases h
    · rename_i hx
      intro k hk
      rcases List.mem_cons.mp hk with rfl | hk
      · exact hx
      · exact ih h k hk

theorem pick_none_flags {r : Rev} (h : pick Consts.dispatchOrder r = none) : r.pin = false ∧ r.pout = false ∧ r.perr = false := by
  obtain ⟨a, b, c⟩ := r
  cases a <;> cases b <;> cases c <;> simp_all [Consts.dispatchOrder, pick]

/-- nothing is owed (reference view) when no registered socket of the model has an event -/
theorem owed_none {m : St} {sp : SpecSt} (h : Rel m sp)
    (hidle : ∀ k ∈ m.socks, pick Consts.dispatchOrder (m.revents k) = none) : sp.owed = none := by
  have h1 : sp.conns.find? (fun k => k.registered ∧ ¬ k.gone ∧ (k.delivered < k.stream.length ∨ k.ended)) = none := by
    rw [List.find?_eq_none]
    intro k hk hP
    simp only [Bool.not_eq_true, Bool.decide_and, Bool.decide_eq_true, Bool.decide_or, Bool.and_eq_true, decide_eq_true_eq,
      Bool.or_eq_true] at hP
    obtain ⟨hr, hg, hw⟩ := hP
    have hc := conn_of_mem h.connNodup hk
    obtain ⟨x, hx, hxi, hxk⟩ := h.connSock k.i k hc hr hg
    have hd := h.connData k.i k hc
    have hf := (pick_none_flags (hidle x hx)).1
    simp only [St.revents, hxk, hxi, Bool.or_eq_false_iff, Bool.not_eq_false'] at hf
    rcases hw with hw | hw
    · have : ((m.conn k.i).inbox).length = k.stream.length - k.delivered := by rw [← hd.2.1, List.length_drop]
      have hne : (m.conn k.i).inbox ≠ [] := by
        intro he; rw [he] at this; simp at this; omega
      have := hf.1
      simp at this
      exact hne this
    · rw [hd.2.2, hf.2] at hw; cases hw
  have h2 : sp.accs.find? (fun a => ¬ a.gone ∧ ¬ a.waiting.isEmpty) = none := by
    rw [List.find?_eq_none]
    intro a ha hP
    simp only [Bool.not_eq_true, Bool.decide_and, Bool.decide_eq_false, Bool.and_eq_true, Bool.not_eq_eq_eq_not, Bool.not_true] at hP
    obtain ⟨hg, hw⟩ := hP
    obtain ⟨x, hx, hxi, hxk⟩ := h.accSock a ha (by simpa using hg)
    have hf := (pick_none_flags (hidle x hx)).1
    simp only [St.revents, hxk, hxi] at hf
    have := h.waiting a ha
    rw [this] at hw
    simp at hw hf
    exact hw hf
  have h3 : sp.arm.find? (fun p => decide (p.2 > 0) && sp.live p.1) = none := by
    rw [List.find?_eq_none]
    intro p hp hP
    simp only [Bool.and_eq_true, decide_eq_true_eq] at hP
    obtain ⟨hn, hl⟩ := hP
    have ha := h.armOk p hp
    have hw := ha.2 (by omega)
    unfold SpecSt.live at hl
    cases hc : sp.conn p.1 with
    | none => rw [hc] at hl; cases hl
    | some k =>
      rw [hc] at hl
      simp only [Bool.and_eq_true, Bool.not_eq_eq_eq_not, Bool.not_true] at hl
      obtain ⟨x, hx, hxi, hxk⟩ := h.connSock p.1 k hc hl.1 hl.2
      have hf := (pick_none_flags (hidle x hx)).2.1
      simp only [St.revents, hxk, hxi] at hf
      rw [hw] at hf; cases hf
  unfold SpecSt.owed
  rw [h1, h2, h3]

theorem lookup_le_one {m : St} {sp : SpecSt} (h : Rel m sp) (i : Nat) : (lookup sp.arm i).getD 0 ≤ 1 := by
  cases hl : lookup sp.arm i with
  | none => simp
  | some n => exact (h.armOk _ (lookup_some_mem hl)).1

/-- a writable task on socket `i`: the model clears the `POLLOUT` request, the observer consumes one queued send -/
theorem rel_wrote {m : St} {sp : SpecSt} (h : Rel m sp) (i : Nat) :
    Rel { m with wantOut := updB m.wantOut i false } (sp.wrote i) := by
  refine ⟨h.connNodup, h.connLt, h.accLt, h.fresh, h.connData, h.goneReg, h.connSock, h.sockConn, h.accSock, h.sockAcc,
    h.waiting, h.blConn, ?_⟩
  intro p hp
  show p.2 ≤ 1 ∧ (p.2 = 1 → updB m.wantOut i false p.1 = true)
  rcases List.mem_append.mp hp with hp | hp
  · have hp' := List.mem_filter.mp hp
    have hpi : p.1 ≠ i := by simpa using hp'.2
    rw [updB_other _ _ _ _ hpi]
    exact h.armOk p hp'.1
  · simp only [List.mem_singleton] at hp
    subst hp
    have := lookup_le_one h i
    refine ⟨by simp only; omega, ?_⟩
    intro h1; simp only at h1; omega

theorem nodup_map_inj {α} {f : α → Nat} {l : List α} (h : (l.map f).Nodup) {x y : α} (hx : x ∈ l) (hy : y ∈ l)
    (he : f x = f y) : x = y := by
  induction l with
  | nil => cases hx
  | cons z zs ih =>
    simp only [List.map_cons, List.nodup_cons] at h
    rcases List.mem_cons.mp hx with rfl | hx' <;> rcases List.mem_cons.mp hy with rfl | hy'
    · rfl
    · exact absurd (he ▸ List.mem_map_of_mem hy') h.1
    · exact absurd (he ▸ List.mem_map_of_mem hx') h.1
    · exact ih h.2 hx' hy'

theorem sock_unique {m : St} (hinv : DInv m) {x y : Sock} (hx : x ∈ m.socks) (hy : y ∈ m.socks) (he : x.id = y.id) : x = y :=
  nodup_map_inj hinv.createdNodup (hinv.sub x hx) (hinv.sub y hy) he

/-- `DriverDisconnect` of the registered TCP socket `k`: unregistered in the model, gone for the observer -/
theorem rel_disconnect {m : St} {sp : SpecSt} (hinv : DInv m) (h : Rel m sp) {k : Sock} (hk : k ∈ m.socks)
    (hkind : k.kind = .tcp) {kk : SConn} (hc : sp.conn k.id = some kk) :
    Rel (unregister m k.id) (sp.setConn { kk with gone := true }) := by
  have hkk : kk.i = k.id := (conn_some hc).2
  have hreg : kk.registered = true := by
    obtain ⟨y, hy1, hy2, _⟩ := h.sockConn k hk hkind
    rw [hc] at hy1; cases hy1; exact hy2
  have look : ∀ j x, (sp.setConn { kk with gone := true }).conn j = some x →
      (j = k.id ∧ x = { kk with gone := true }) ∨ (j ≠ k.id ∧ sp.conn j = some x) := by
    intro j x hx
    rcases conn_setConn_cases hx with ⟨h1, h2⟩ | ⟨h1, h2⟩
    · exact Or.inl ⟨h1.trans hkk, h2⟩
    · exact Or.inr ⟨by simpa [hkk] using h1, h2⟩
  have keep : ∀ j, j ≠ k.id → (sp.setConn { kk with gone := true }).conn j = sp.conn j := by
    intro j hj; exact conn_setConn_ne sp _ (by simpa [hkk] using hj)
  have stay : ∀ y ∈ m.socks, y.id ≠ k.id → y ∈ (unregister m k.id).socks := by
    intro y hy hne
    rw [unregister_socks]; exact List.mem_filter.mpr ⟨hy, by simpa using hne⟩
  refine ⟨nodup_upsert (key := fun x : SConn => x.i) _ h.connNodup, ?_, h.accLt, h.fresh, ?_, ?_, ?_, ?_, ?_, ?_,
    h.waiting, ?_, h.armOk⟩
  · intro j x hx
    rcases look j x hx with ⟨rfl, _⟩ | ⟨_, hx⟩
    · exact h.connLt _ kk hc
    · exact h.connLt j x hx
  · intro j x hx
    rcases look j x hx with ⟨rfl, rfl⟩ | ⟨_, hx⟩
    · exact h.connData _ kk hc
    · exact h.connData j x hx
  · intro j x hx hg
    rcases look j x hx with ⟨rfl, rfl⟩ | ⟨_, hx⟩
    · exact hreg
    · exact h.goneReg j x hx hg
  · intro j x hx hr hg
    rcases look j x hx with ⟨rfl, rfl⟩ | ⟨hj, hx⟩
    · cases hg
    · obtain ⟨y, hy, hyi, hyk⟩ := h.connSock j x hx hr hg
      exact ⟨y, stay y hy (by rw [hyi]; exact hj), hyi, hyk⟩
  · intro x hx hxk
    have hx' := mem_unregister hx
    obtain ⟨y, hy1, hy2⟩ := h.sockConn x hx'.1 hxk
    exact ⟨y, by rw [keep _ hx'.2]; exact hy1, hy2⟩
  · intro a ha hg
    obtain ⟨y, hy, hyi, hyk⟩ := h.accSock a ha hg
    refine ⟨y, stay y hy ?_, hyi, hyk⟩
    intro he
    have := sock_unique hinv hy hk he
    rw [this, hkind] at hyk; cases hyk
  · intro x hx hxk
    exact h.sockAcc x (mem_unregister hx).1 hxk
  · intro a x hx
    obtain ⟨y, hy1, hy2, hy3⟩ := h.blConn a x hx
    have : x.1 ≠ k.id := by
      intro he
      exact (hinv.blFresh a x hx).2 (he ▸ List.mem_map_of_mem (hinv.sub k hk))
    exact ⟨y, by rw [keep _ this]; exact hy1, hy2, hy3⟩

/-- `DriverConnect` of acceptor `k`: the front connection `(c, addr)` of its backlog becomes a registered socket -/
theorem rel_connect {m : St} {sp : SpecSt} (hinv : DInv m) (h : Rel m sp) {k : Sock} (hk : k ∈ m.socks)
    {c addr : Nat} {rest : List (Nat × Nat)} (hb : m.backlog k.id = (c, addr) :: rest) (rx : Nat)
    {ka : SAcc} (hka : sp.acc k.id = some ka) {x : SConn} (hx : sp.conn c = some x) :
    Rel { m with backlog := updB m.backlog k.id rest, socks := m.socks ++ [⟨c, .tcp, rx, addr⟩] }
      ((sp.setAcc { ka with waiting := rest.map (fun y => (y.1, Tok.ord y.2)) }).setConn { x with registered := true, rx := rx }) := by
  have hxi : x.i = c := (conn_some hx).2
  have hkai : ka.a = k.id := (acc_some hka).2
  have hin : (c, addr) ∈ m.backlog k.id := by rw [hb]; simp
  have hfresh := hinv.blFresh k.id (c, addr) hin
  obtain ⟨x0, hx0, hxreg, hxaddr⟩ := h.blConn k.id (c, addr) hin
  rw [hx] at hx0; cases hx0
  have hxgone : x.gone = false := by
    cases hg : x.gone with
    | false => rfl
    | true => have := h.goneReg c x hx hg; rw [hxreg] at this; cases this
  have hnd := hinv.blNodup k.id
  rw [hb] at hnd
  simp only [List.map_cons, List.nodup_cons] at hnd
  -- entries that stay in some backlog are different connections
  have hbl : ∀ b y, y ∈ updB m.backlog k.id rest b → y ∈ m.backlog b ∧ y.1 ≠ c := by
    intro b y hy
    by_cases hbk : b = k.id
    · subst hbk
      rw [updB_same] at hy
      refine ⟨by rw [hb]; simp [hy], ?_⟩
      intro heq
      exact hnd.1 (heq ▸ List.mem_map_of_mem hy)
    · rw [updB_other _ _ _ _ hbk] at hy
      exact ⟨hy, hinv.blDisj b k.id hbk y hy (c, addr) hin⟩
  let ka' : SAcc := { ka with waiting := rest.map (fun y => (y.1, Tok.ord y.2)) }
  let x' : SConn := { x with registered := true, rx := rx }
  have look : ∀ j y, ((sp.setAcc ka').setConn x').conn j = some y → (j = c ∧ y = x') ∨ (j ≠ c ∧ sp.conn j = some y) := by
    intro j y hy
    rcases conn_setConn_cases hy with ⟨h1, h2⟩ | ⟨h1, h2⟩
    · exact Or.inl ⟨h1.trans hxi, h2⟩
    · exact Or.inr ⟨by simpa [x', hxi] using h1, h2⟩
  have keep : ∀ j, j ≠ c → ((sp.setAcc ka').setConn x').conn j = sp.conn j := by
    intro j hj
    rw [conn_setConn_ne _ x' (show j ≠ x'.i by simpa [x', hxi] using hj)]; rfl
  have self : ((sp.setAcc ka').setConn x').conn c = some x' := by
    have := conn_setConn_self (sp.setAcc ka') x'
    simpa [x', hxi] using this
  have accMem : ∀ a, a ∈ ((sp.setAcc ka').setConn x').accs → (a ∈ sp.accs ∧ a.a ≠ k.id) ∨ a = ka' := by
    intro a ha
    rcases mem_setAcc (k := ka') ha with ⟨h1, h2⟩ | h1
    · exact Or.inl ⟨h1, by simpa [ka', hkai] using h2⟩
    · exact Or.inr h1
  have sockNe : ∀ y ∈ m.socks, y.id ≠ c := by
    intro y hy he
    exact hfresh.2 (he ▸ List.mem_map_of_mem (hinv.sub y hy))
  refine ⟨nodup_upsert (key := fun x : SConn => x.i) _ h.connNodup, ?_, ?_, ?_, ?_, ?_, ?_, ?_, ?_, ?_, ?_, ?_, h.armOk⟩
  · intro j y hy
    rcases look j y hy with ⟨rfl, _⟩ | ⟨_, hy⟩
    · exact h.connLt _ x hx
    · exact h.connLt j y hy
  · intro a ha
    rcases accMem a ha with ⟨ha, _⟩ | rfl
    · exact h.accLt a ha
    · exact h.accLt ka (acc_some hka).1
  · intro j hj
    have hj' : m.nextId ≤ j := hj
    have := h.fresh j hj'
    refine ⟨this.1, this.2.1, ?_⟩
    show updB m.backlog k.id rest j = []
    have hklt := sock_lt hinv hk
    rw [updB_other _ _ _ _ (by omega)]; exact this.2.2
  · intro j y hy
    rcases look j y hy with ⟨rfl, rfl⟩ | ⟨_, hy⟩
    · exact h.connData _ x hx
    · exact h.connData j y hy
  · intro j y hy hg
    rcases look j y hy with ⟨rfl, rfl⟩ | ⟨_, hy⟩
    · rfl
    · exact h.goneReg j y hy hg
  · intro j y hy hr hg
    rcases look j y hy with ⟨rfl, rfl⟩ | ⟨_, hy⟩
    · exact ⟨_, List.mem_append_right _ (List.mem_singleton.mpr rfl), rfl, rfl⟩
    · obtain ⟨z, hz, h1, h2⟩ := h.connSock j y hy hr hg
      exact ⟨z, List.mem_append_left _ hz, h1, h2⟩
  · intro y hy hyk
    rcases List.mem_append.mp hy with hy | hy
    · obtain ⟨z, hz1, hz2⟩ := h.sockConn y hy hyk
      exact ⟨z, by rw [keep _ (sockNe y hy)]; exact hz1, hz2⟩
    · simp only [List.mem_singleton] at hy; subst hy
      exact ⟨x', self, rfl, hxgone, rfl, hxaddr⟩
  · intro a ha hg
    rcases accMem a ha with ⟨ha, _⟩ | rfl
    · obtain ⟨z, hz, h1, h2⟩ := h.accSock a ha hg
      exact ⟨z, List.mem_append_left _ hz, h1, h2⟩
    · obtain ⟨z, hz, h1, h2⟩ := h.accSock ka (acc_some hka).1 hg
      exact ⟨z, List.mem_append_left _ hz, h1, h2⟩
  · intro y hy hyk
    rcases List.mem_append.mp hy with hy | hy
    · show ∃ z, (sp.setAcc ka').acc y.id = some z ∧ _
      by_cases hyid : y.id = k.id
      · obtain ⟨z, hz1, hz2⟩ := h.sockAcc y hy hyk
        rw [hyid, hka] at hz1; cases hz1
        refine ⟨ka', ?_, hz2⟩
        rw [hyid, ← hkai]; exact acc_setAcc_self sp ka'
      · obtain ⟨z, hz1, hz2⟩ := h.sockAcc y hy hyk
        exact ⟨z, by rw [acc_setAcc_ne sp ka' (show y.id ≠ ka'.a by simpa [ka', hkai] using hyid)]; exact hz1, hz2⟩
    · simp only [List.mem_singleton] at hy; subst hy; cases hyk
  · intro a ha
    show a.waiting = List.map _ (updB m.backlog k.id rest a.a)
    rcases accMem a ha with ⟨ha, hne⟩ | rfl
    · rw [updB_other _ _ _ _ hne]; exact h.waiting a ha
    · show List.map _ rest = List.map _ (updB m.backlog k.id rest ka.a)
      rw [hkai, updB_same]
  · intro b y hy
    have hy' := hbl b y hy
    obtain ⟨z, hz1, hz2⟩ := h.blConn b y hy'.1
    exact ⟨z, by rw [keep _ hy'.2]; exact hz1, hz2⟩

theorem specStepObs_idle (c : SpecSt) (rx : Nat) (h : c.owed = none) : specStepObs c { rx := rx } = .ok c := by
  simp [specStepObs, h]

theorem specStepObs_send (c : SpecSt) (rx i : Nat) : specStepObs c { rx := rx, sends := [some i] } = .ok (c.wrote i) := by
  simp [specStepObs]

theorem specStepObs_ev (c c1 : SpecSt) (rx : Nat) (e : EvObs) (hdl : List Nat) (ht : e.onStepThread = true)
    (he : specEv c rx e.ev = .ok c1) :
    specStepObs c { rx := rx, evs := [e], destroyed := hdl } = .ok (hdl.foldl SpecSt.markDestroyed c1) := by
  simp [specStepObs, ht, he]

theorem disconnect_log (m : St) (k : Sock) (r : Reason) (hdl : List Nat) :
    (disconnect m k r hdl).log = m.log ++ [.disconnect k.id k.peerAddr r] := by
  unfold disconnect; rw [(destroyAll_fields _ hdl).2.2.2.2.1]; rfl

theorem drop_log (l e : List Event) : (l ++ e).drop l.length = e := by simp

theorem ok_step {m : St} {sp : SpecSt} (hinv : DInv m) (h : Rel m sp) (pipe : Bool) (chunk rx : Nat) (hdl : List Nat) :
    ∃ sp', specRun sp (modelObs Consts.dispatchOrder m (.step pipe chunk rx hdl)) = .ok sp' ∧
      Rel (apply Consts.dispatchOrder m (.step pipe chunk rx hdl)) sp' := by
  cases pipe with
  | true => exact ⟨sp, rfl, h⟩
  | false =>
    simp only [modelObs, apply, Bool.false_eq_true, ↓reduceIte]
    cases hf : firstTask Consts.dispatchOrder m m.socks with
    | none =>
      have hs : stepSockets Consts.dispatchOrder m false chunk rx hdl = m := by simp [stepSockets, hf]
      rw [hs]
      simp only [List.drop_length, List.map_nil, List.isEmpty_nil, ↓reduceIte]
      refine ⟨sp, ?_, h⟩
      simp only [specRun, specStep]
      rw [specStepObs_idle sp _ (owed_none h (firstTask_none hf))]
    | some p =>
      obtain ⟨k, t⟩ := p
      have hk := (firstTask_spec hf).1
      have hp := (firstTask_spec hf).2
      have hs : stepSockets Consts.dispatchOrder m false chunk rx hdl = doTask m k t chunk rx hdl := by
        simp [stepSockets, hf]
      rw [hs]
      cases t with
      | writable =>
        simp only [doTask, List.drop_length, List.map_nil, List.isEmpty_nil, ↓reduceIte]
        refine ⟨sp.wrote k.id, ?_, rel_wrote h k.id⟩
        simp only [specRun, specStep]
        rw [specStepObs_send]
      | error =>
        exfalso
        have hnp := pick_consts_error_no_pin _ hp
        have hperr := pick_error hp
        cases hkind : k.kind with
        | tcp =>
          simp only [St.revents, hkind] at hnp hperr
          have := hinv.rstEnded k.id hperr
          simp [this] at hnp
        | acceptor => simp [St.revents, hkind] at hperr
      | readable =>
        have hpin := pick_readable hp
        cases hkind : k.kind with
        | tcp =>
          simp only [St.revents, hkind, Bool.or_eq_true, Bool.not_eq_true'] at hpin
          obtain ⟨kk, hc, hreg, hgone, hrx, haddr⟩ := h.sockConn k hk hkind
          have hd := h.connData k.id kk hc
          simp only [doTask, hkind, driverReceive]
          cases hemp : (m.conn k.id).inbox.isEmpty with
          | true =>
            simp only [↓reduceIte, disconnect_log, drop_log, List.map_cons, List.map_nil, List.isEmpty_cons,
              Bool.false_eq_true, renderEv]
            have hnil : (m.conn k.id).inbox = [] := List.isEmpty_iff.mp hemp
            have hend : (m.conn k.id).ended = true := by
              rcases hpin with hpin | hpin
              · rw [hemp] at hpin; cases hpin
              · exact hpin
            have hdel : kk.delivered = kk.stream.length := by
              have := hd.2.1
              rw [hnil, List.drop_eq_nil_iff] at this
              have := hd.1
              omega
            refine ⟨hdl.foldl SpecSt.markDestroyed (sp.setConn { kk with gone := true }), ?_, ?_⟩
            · simp only [specRun, specStep]
              rw [specStepObs_ev sp (sp.setConn { kk with gone := true }) _ _ hdl rfl]
              simp only [specEv, specDisconnect, hc, hgone, hd.2.2, hend, hdel, haddr]
              simp
            · simp only [disconnect]
              apply rel_destroyAll
              exact rel_of_eq (rel_disconnect hinv h hk hkind hc) rfl rfl rfl rfl rfl
          | false =>
            have hne : (m.conn k.id).inbox ≠ [] := by
              intro he; rw [he] at hemp; cases hemp
            have hlen : 1 ≤ (m.conn k.id).inbox.length := by
              cases hx : (m.conn k.id).inbox with
              | nil => exact absurd hx hne
              | cons a as => simp
            have hb := chunkLen_bounds (chunk := chunk) (hinv.rxPos k (hinv.sub k hk)) hlen
            simp only [Bool.false_eq_true, ↓reduceIte, (destroyAll_fields _ hdl).2.2.2.2.1, drop_log, List.map_cons,
              List.map_nil, List.isEmpty_cons, renderEv]
            generalize hn : chunkLen chunk k.rxSize (m.conn k.id).inbox.length = n at hb ⊢
            have htl : (List.take n (m.conn k.id).inbox).length = n := by rw [List.length_take]; omega
            let kk' : SConn := { kk with delivered := kk.delivered + n }
            refine ⟨hdl.foldl SpecSt.markDestroyed (sp.setConn kk'), ?_, ?_⟩
            · have h1 : ¬ n = 0 := by omega
              have h2 : ¬ n > k.rxSize := by omega
              have he : specEv sp (max 1 rx) (Ev.data k.id n (.ord (fnv (List.take n (m.conn k.id).inbox)).toNat)) =
                  .ok (sp.setConn kk') := by
                simp only [specEv, specData, hc]
                rw [if_neg (by simp [hgone]), if_neg h1, if_neg (by rw [hrx]; exact h2)]
                simp only [hd.2.1]
                rw [if_neg (by simp [htl])]
              simp only [specRun, specStep, htl]
              rw [specStepObs_ev sp (sp.setConn kk') _ _ hdl rfl he]
            · apply rel_destroyAll
              refine rel_of_eq (rel_updConn (k' := kk') h { m.conn k.id with inbox := (m.conn k.id).inbox.drop n } hc
                rfl rfl rfl rfl rfl ⟨?_, ?_, ?_⟩) rfl rfl rfl rfl rfl
              · have : (m.conn k.id).inbox.length = kk.stream.length - kk.delivered := by rw [← hd.2.1, List.length_drop]
                have := hd.1
                show kk.delivered + n ≤ kk.stream.length
                omega
              · show List.drop (kk.delivered + n) kk.stream = List.drop n (m.conn k.id).inbox
                rw [← hd.2.1, List.drop_drop]
              · exact hd.2.2
        | acceptor =>
          simp only [St.revents, hkind] at hpin
          obtain ⟨ka, hka, hkag⟩ := h.sockAcc k hk hkind
          have hkai : ka.a = k.id := (acc_some hka).2
          have hw := h.waiting ka (acc_some hka).1
          rw [hkai] at hw
          simp only [doTask, hkind, driverConnect]
          cases hb : m.backlog k.id with
          | nil => rw [hb] at hpin; simp at hpin
          | cons p rest =>
            obtain ⟨c, addr⟩ := p
            rw [hb] at hw
            simp only [List.map_cons] at hw
            obtain ⟨x, hx, hxreg, hxaddr⟩ := h.blConn k.id (c, addr) (by rw [hb]; simp)
            simp only [(destroyAll_fields _ hdl).2.2.2.2.1, drop_log, List.map_cons, List.map_nil, List.isEmpty_cons,
              Bool.false_eq_true, ↓reduceIte, renderEv]
            let sp1 := (sp.setAcc { ka with waiting := rest.map (fun y => (y.1, Tok.ord y.2)) }).setConn
              { x with registered := true, rx := max 1 rx }
            refine ⟨hdl.foldl SpecSt.markDestroyed sp1, ?_, ?_⟩
            · have he : specEv sp (max 1 rx) (Ev.connect k.id (.ord c) (.ord addr)) = .ok sp1 := by
                simp only [specEv, specConnect, hka]
                rw [if_neg (by simp [hkag])]
                simp only [hw]
                rw [if_neg (by simp), if_neg (by simp)]
                simp only [setAcc_conn, hx]
                rfl
              simp only [specRun, specStep]
              rw [specStepObs_ev sp sp1 _ _ hdl rfl he]
            · apply rel_destroyAll
              exact rel_of_eq (rel_connect hinv h hk hb (max 1 rx) hka hx) rfl rfl rfl rfl rfl

theorem specRun_append (s : SpecSt) (a b : List Obs) :
    specRun s (a ++ b) = match specRun s a with | .ok s' => specRun s' b | .error e => .error e := by
  induction a generalizing s with
  | nil => rfl
  | cons o os ih =>
    simp only [List.cons_append, specRun]
    cases specStep s o with
    | ok s' => exact ih s'
    | error e => rfl

/-- one operation: the spec accepts the model's observations and the relation is re-established -/
theorem spec_step_ok {m : St} {sp : SpecSt} (hinv : DInv m) (h : Rel m sp) (op : Op) (hwf : opWf m op = true) :
    ∃ sp', specRun sp (modelObs Consts.dispatchOrder m op) = .ok sp' ∧ Rel (apply Consts.dispatchOrder m op) sp' := by
  cases op with
  | newClient addr rx => exact ok_newClient hinv h addr rx
  | newAcceptor => exact ok_newAcceptor hinv h
  | peerConnect a addr => exact ok_peerConnect hinv h a addr
  | peerSend c bytes => exact ok_peerSend h c bytes (by simpa [opWf] using hwf)
  | peerClose c => exact ok_peerEnd h c _ (by simpa [opWf] using hwf) rfl rfl
  | peerRst c => exact ok_peerEnd h c _ (by simpa [opWf] using hwf) rfl rfl
  | wantSend i => exact ok_wantSend h i
  | destroy i => exact ⟨sp.markDestroyed i, rfl, rel_destroy h i⟩
  | step pipe chunk rx hdl => exact ok_step hinv h pipe chunk rx hdl

/-- from any related pair of states -/
theorem model_satisfies_spec_from (ops : List Op) (m : St) (sp : SpecSt) (hinv : DInv m) (hrel : Rel m sp)
    (hwf : histWf Consts.dispatchOrder m ops = true) :
    ∃ s, specRun sp (modelTrace Consts.dispatchOrder m ops) = .ok s := by
  induction ops generalizing m sp with
  | nil => exact ⟨sp, rfl⟩
  | cons op ops ih =>
    simp only [histWf, Bool.and_eq_true] at hwf
    obtain ⟨s1, h1, hrel1⟩ := spec_step_ok hinv hrel op hwf.1
    obtain ⟨s2, h2⟩ := ih _ s1 (inv_apply hinv op) hrel1 hwf.2
    refine ⟨s2, ?_⟩
    simp only [modelTrace]
    rw [specRun_append, h1]
    exact h2

/-- **The property predicate that `./check C03` evaluates on the implementation is a theorem of the
model**: for every history of user operations (new client sockets and acceptors, send requests,
destruction), peer operations (connect, send any bytes, close, reset - on connections that exist) and
driver steps of any length, with every segmentation, every receive-buffer size and every set of
sockets destroyed by the handlers, the model's own observations are accepted by every clause of
`Spec.C03`. -/
theorem model_satisfies_spec (ops : List Op) (hwf : histWf Consts.dispatchOrder {} ops = true) :
    ∃ s, specRun {} (modelTrace Consts.dispatchOrder {} ops) = .ok s :=
  model_satisfies_spec_from ops {} {} inv_init rel_init hwf

end SockModel.Dispatch.Spec

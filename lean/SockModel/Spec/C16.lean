import SockModel.Spec.C07
/-!
# Spec.C16 - "signals interrupting a wait are invisible" as an executable predicate over typed observations,
and the proof that the model satisfies it for every history

* **blocking socket operations** (harness `sockops`, driver mode `C16`): the predicate is `Spec.C07.specStepM`
  with the mode flag `c16` - an operation that met a signal (`EINTR` result of a `poll`) keeps its timeout
  semantics (`specTimeouts`: every re-issued poll within the remaining budget, 'nothing' exactly at
  `start + T`, unlimited stays unlimited, zero never blocks), and a signal alone never makes the call fail
  (`sigClause`: an exception needs a failed system call).  `model_satisfies_spec` is the instance of
  `Spec.C07.model_satisfies_specM`.
* **`Driver::Step` under injected `EINTR`** (harness `todos` without ToDos, driver mode `C16step`): `StepObs` =
  the timeout, the polls of the signalling pipe with their results, the virtual clock at entry and exit,
  and a `throw` / `crash` / `hang` line if there was one; `specStepE`.
-/
namespace SockModel.Spec.C16
open SockModel SockModel.SendLoop SockModel.Deadline
open SockModel.Spec.C01 (SysObs Obs)
open SockModel.Spec.C07 (Mode SpecSt specStepM specRunM specTimeouts adv)

/-- the predicate of `./check C16` on the socket operations -/
def c16 : Mode := { c07 := false, c16 := true }
def specStep : SpecSt → Obs → Except String SpecSt := specStepM c16
def specRun : SpecSt → List Obs → Except String SpecSt := specRunM c16

/-- the predicate accepts every trace of the model: every history, every number and timing of signal
deliveries (`PollAns.eintr d` anywhere in the scripts) -/
theorem model_satisfies_spec (history : List C01.Op) (hok : C07.histOk history = true) :
    ∃ s, specRun () (C01.modelTrace {} history) = .ok s :=
  C07.model_satisfies_specM c16 history hok {}

/-! ## Driver::Step under injected EINTR -/

/-- what was seen of one `Step(T)` of a driver without ToDos -/
structure StepObs where
  T : Int
  /-- a `crash` / `hang` / `throw` line, as printed -/
  failed : Option String := none
  /-- the polls of the step: timeout argument and result -/
  polls : List (Int × PollAns) := []
  /-- virtual clock (ns) at entry / exit (`none`: line missing or not a numeral) -/
  begin : Option Int := none
  fin : Option Int := none
  deriving Repr, DecidableEq

/-- the wait ended in a time-out: its last poll returned 0 (or its event lay beyond the timeout) -/
def effTimeout (p : Int × PollAns) : Bool :=
  match p.2 with
  | .timedOut => true
  | .ready d => decide (p.1 ≥ 0 ∧ (d : Int) > p.1)
  | .eintr d => decide (p.1 ≥ 0 ∧ (d : Int) > p.1)
  | .fail _ => false

def lastTimedOut (ps : List (Int × PollAns)) : Bool :=
  match ps.getLast? with
  | some p => effTimeout p
  | none => false

def isReady : PollAns → Bool
  | .ready _ => true
  | _ => false

/-- "it keeps waiting within its timeout semantics": the step does not fail; its polls obey `specTimeouts`
(`Step` returns nothing, so 'nothing' = the wait timed out); and with `T > 0` and no event it returns no
earlier than `T` after it was entered -/
def specStepE (o : StepObs) : Option String :=
  match o.failed with
  | some f => some ("a signal made Step fail: " ++ f)
  | none =>
    match specTimeouts o.T (o.polls.map fun p => SysObs.poll p.1 p.2) (lastTimedOut o.polls) with
    | some m => some m
    | none =>
      match o.begin, o.fin with
      | some b, some e =>
        if o.T > 0 ∧ o.polls.all (fun p => !isReady p.2) ∧ e - b < o.T * nsPerMs then
          some s!"Step({o.T}) returned after {(e - b) / nsPerMs} ms although nothing happened (a signal cut the wait short)"
        else none
      | _, _ => some "missing begin/end"

def specRunE : List StepObs → Except String Unit
  | [] => .ok ()
  | o :: os => match specStepE o with | some m => .error m | none => specRunE os

end SockModel.Spec.C16

import SockModel.Spec.C07
/-!
# Spec.C16 - "signals interrupting a wait are invisible" as an executable predicate over typed observations,
and the proof that the model satisfies it for every history

* **blocking socket operations** (harness `sockops`, driver mode `C16`): the predicate is `Spec.C07.specStepM`
  with the mode flag `c16` - an operation that met a signal (`EINTR` result of a `poll`) keeps its timeout
  semantics (`specTimeouts`: every re-issued poll within the remaining budget, 'nothing' exactly at
  `start + T`, unlimited stays unlimited, zero never blocks), and a signal alone never makes the call fail
  (`sigClause`: an exception needs a failed system call).  `model_satisfies_spec` is the instance of
  `Spec.C07.model_satisfies_specM`.
* **`Driver::Step` under injected `EINTR`** (harness `todos` without ToDos, driver mode `C16step`): `StepObs` =
  the timeout, the polls of the signalling pipe with their results, the virtual clock at entry and exit,
  and a `throw` / `crash` / `hang` line if there was one; `specStepE`.
-/
namespace SockModel.Spec.C16
open SockModel SockModel.SendLoop SockModel.Deadline
open SockModel.Spec.C01 (SysObs Obs)
open SockModel.Spec.C07 (Mode SpecSt specStepM specRunM specTimeouts adv)

/-- the predicate of `./check C16` on the socket operations -/
def c16 : Mode := { c07 := false, c16 := true }
def specStep : SpecSt → Obs → Except String SpecSt := specStepM c16
def specRun : SpecSt → List Obs → Except String SpecSt := specRunM c16

/-- the predicate accepts every trace of the model: every history, every number and timing of signal
deliveries (`PollAns.eintr d` anywhere in the scripts) -/
theorem model_satisfies_spec (history : List C01.Op) (hok : C07.histOk history = true) :
    ∃ s, specRun () (C01.modelTrace {} history) = .ok s :=
  C07.model_satisfies_specM c16 history hok {}

/-! ## Driver::Step under injected EINTR -/

/-- what was seen of one `Step(T)` of a driver without ToDos -/
structure StepObs where
  T : Int
  /-- a `crash` / `hang` / `throw` line, as printed -/
  failed : Option String := none
  /-- the polls of the step: timeout argument and result -/
  polls : List (Int × PollAns) := []
  /-- virtual clock (ns) at entry / exit (`none`: line missing or not a numeral) -/
  begin : Option Int := none
  fin : Option Int := none
  deriving Repr, DecidableEq

/-- the wait ended in a time-out: its last poll returned 0 (or its event lay beyond the timeout) -/
def effTimeout (p : Int × PollAns) : Bool :=
  match p.2 with
  | .timedOut => true
  | .ready d => decide (p.1 ≥ 0 ∧ (d : Int) > p.1)
  | .eintr d => decide (p.1 ≥ 0 ∧ (d : Int) > p.1)
  | .fail _ => false

def lastTimedOut (ps : List (Int × PollAns)) : Bool :=
  match ps.getLast? with
  | some p => effTimeout p
  | none => false

def isReady : PollAns → Bool
  | .ready _ => true
  | _ => false

/-- "it keeps waiting within its timeout semantics": the step does not fail; its polls obey `specTimeouts`
(`Step` returns nothing, so 'nothing' = the wait timed out); and with `T > 0` and no event it returns no
earlier than `T` after it was entered -/
def specStepE (o : StepObs) : Option String :=
  match o.failed with
  | some f => some ("a signal made Step fail: " ++ f)
  | none =>
    match specTimeouts o.T (o.polls.map fun p => SysObs.poll p.1 p.2) (lastTimedOut o.polls) with
    | some m => some m
    | none =>
      match o.begin, o.fin with
      | some b, some e =>
        if o.T > 0 ∧ o.polls.all (fun p => !isReady p.2) ∧ e - b < o.T * nsPerMs then
          some s!"Step({o.T}) returned after {(e - b) / nsPerMs} ms although nothing happened (a signal cut the wait short)"
        else none
      | _, _ => some "missing begin/end"

def specRunE : List StepObs → Except String Unit
  | [] => .ok ()
  | o :: os => match specStepE o with | some m => .error m | none => specRunE os


/-! ## Driver::Step under injected EINTR: the model satisfies the predicate

A `Step(T)` of a driver without ToDos is `StepSockets` = one `Wait(pfds, T)`: the model is `wait T` of
`Model/SendLoop.lean` on an arbitrary script of poll answers (what `Drive/C01.lean` replays in mode C16step). -/

open SockModel.Spec.C07 (PTr Bud specPollsP specPolls pollPairs specPolls_pairs endClause)

/-- the observations the MODEL produces for `Step(T)` on the scripted poll answers (`none`: the script ran
out inside the wait - the step has not returned) -/
def modelStepObs (T : Int) (polls : List PollAns) : Option StepObs :=
  let p := wait T { polls := polls }
  match p.1 with
  | .exn .exhausted => none
  | .exn e => some { T := T, failed := some (C01.thrownOf e).text, polls := (pollArgs p.2).zip polls,
                     begin := some 0, fin := some p.2.now }
  | .ok _ => some { T := T, failed := none, polls := (pollArgs p.2).zip polls, begin := some 0, fin := some p.2.now }

theorem PTr.refl (os : Os) : PTr os os [] := ⟨by simp, by simp⟩

theorem PTr.trans {a b c : Os} {p q : List (Int × PollAns)} (h1 : PTr a b p) (h2 : PTr b c q) : PTr a c (p ++ q) :=
  ⟨by rw [h1.1, h2.1]; simp, by rw [h2.2, h1.2]; simp⟩

theorem PTr.single {t : Int} {os os1 : Os} {a a' : PollAns} (hp : pollOnce t os = some (a', os1))
    (hpolls : os.polls = a :: os1.polls) : PTr os os1 [(t, a)] :=
  ⟨by simp [hpolls], by simp [pollOnce_pollArgs hp]⟩

/-- the effective answer of a `poll` against the scripted one -/
theorem pollOnce_eff {t : Int} {os os' : Os} {a' : PollAns} (h : pollOnce t os = some (a', os')) :
    ∃ a, os.polls = a :: os'.polls ∧ (effTimeout (t, a) = true → a' = .timedOut) ∧
      (∀ d, a' = .ready d → isReady a = true) := by
  unfold pollOnce at h
  cases hp : os.polls with
  | nil => rw [hp] at h; cases h
  | cons a0 rest =>
    rw [hp] at h
    refine ⟨a0, ?_⟩
    cases a0 with
    | ready d =>
      simp only at h
      by_cases hc : t ≥ 0 ∧ (d : Int) > t
      · rw [if_pos hc] at h; cases h
        exact ⟨rfl, fun _ => rfl, fun d h => by cases h⟩
      · rw [if_neg hc] at h; cases h
        exact ⟨rfl, (fun h => by simp [effTimeout, hc] at h), fun _ _ => rfl⟩
    | eintr d =>
      simp only at h
      by_cases hc : t ≥ 0 ∧ (d : Int) > t
      · rw [if_pos hc] at h; cases h
        exact ⟨rfl, fun _ => rfl, fun d h => by cases h⟩
      · rw [if_neg hc] at h; cases h
        exact ⟨rfl, (fun h => by simp [effTimeout, hc] at h), fun d h => by cases h⟩
    | timedOut =>
      simp only at h
      cases h
      refine ⟨?_, fun _ => rfl, fun d h => by cases h⟩
      split <;> rfl
    | fail c =>
      simp only at h
      cases h
      exact ⟨rfl, (fun h => by simp [effTimeout] at h), fun d h => by cases h⟩

theorem lastTimedOut_cons (p : Int × PollAns) (ps : List (Int × PollAns)) :
    lastTimedOut (p :: ps) = if ps = [] then effTimeout p else lastTimedOut ps := by
  cases ps with
  | nil => simp [lastTimedOut]
  | cons q qs => simp [lastTimedOut, List.getLast?_cons_cons]

/-- what the polls of a wait tell about its result: it ended in a time-out only if it reports one, and it
reports readiness only if some poll was answered with readiness -/
def LastOk (r : Res Bool) (ps : List (Int × PollAns)) : Prop :=
  (lastTimedOut ps = true → r = .ok false) ∧ (r = .ok true → ∃ p ∈ ps, isReady p.2 = true)

theorem LastOk.single_stop {t : Int} {a : PollAns} {r : Res Bool} (h1 : effTimeout (t, a) = true → r = .ok false)
    (h2 : r = .ok true → isReady a = true) : LastOk r [(t, a)] :=
  ⟨by rw [lastTimedOut_cons]; simpa using h1, fun h => ⟨(t, a), by simp, h2 h⟩⟩

theorem LastOk.cons_eintr {t : Int} {a : PollAns} {r : Res Bool} {ps : List (Int × PollAns)}
    (h1 : effTimeout (t, a) = false) (h : LastOk r ps) : LastOk r ((t, a) :: ps) := by
  refine ⟨?_, fun hr => ?_⟩
  · rw [lastTimedOut_cons]
    split
    · rw [h1]; intro h; cases h
    · exact h.1
  · obtain ⟨p, hp, hr'⟩ := h.2 hr
    exact ⟨p, List.mem_cons_of_mem _ hp, hr'⟩

theorem waitFixed_last (t : Int) (fuel : Nat) (os : Os) :
    ∃ ps, PTr os (waitFixed t fuel os).2 ps ∧ LastOk (waitFixed t fuel os).1 ps := by
  induction fuel generalizing os with
  | zero => exact ⟨[], PTr.refl _, ⟨fun h => by simp [lastTimedOut] at h, fun h => by simp [waitFixed] at h⟩⟩
  | succ fuel ih =>
    unfold waitFixed
    cases hp : pollOnce t os with
    | none => exact ⟨[], PTr.refl _, ⟨fun h => by simp [lastTimedOut] at h, fun h => by cases h⟩⟩
    | some r =>
      obtain ⟨a', os1⟩ := r
      obtain ⟨a, hpolls, heff, hrdy⟩ := pollOnce_eff hp
      have h1 := PTr.single hp hpolls
      cases a' with
      | ready d =>
        exact ⟨_, h1, LastOk.single_stop (fun h => by cases heff h) (fun _ => hrdy d rfl)⟩
      | timedOut => exact ⟨_, h1, LastOk.single_stop (fun _ => rfl) (fun h => by cases h)⟩
      | fail c =>
        exact ⟨_, h1, LastOk.single_stop (fun h => by cases heff h) (fun h => by cases h)⟩
      | eintr d =>
        obtain ⟨ps, h2, h3⟩ := ih os1
        refine ⟨(t, a) :: ps, PTr.trans h1 h2, LastOk.cons_eintr ?_ h3⟩
        cases he : effTimeout (t, a) with
        | false => rfl
        | true => cases heff he

theorem waitLimited_last (dl : Int) (fuel : Nat) (os : Os) :
    ∃ ps, PTr os (waitLimited dl fuel os).2 ps ∧ LastOk (waitLimited dl fuel os).1 ps := by
  induction fuel generalizing os with
  | zero => exact ⟨[], PTr.refl _, ⟨fun h => by simp [lastTimedOut] at h, fun h => by simp [waitLimited] at h⟩⟩
  | succ fuel ih =>
    unfold waitLimited
    cases hp : pollOnce (toMsec (Deadline.limited os.now dl).remaining) os with
    | none => exact ⟨[], PTr.refl _, ⟨fun h => by simp [lastTimedOut] at h, fun h => by cases h⟩⟩
    | some r =>
      obtain ⟨a', os1⟩ := r
      obtain ⟨a, hpolls, heff, hrdy⟩ := pollOnce_eff hp
      have h1 := PTr.single hp hpolls
      cases a' with
      | ready d =>
        exact ⟨_, h1, LastOk.single_stop (fun h => by cases heff h) (fun _ => hrdy d rfl)⟩
      | timedOut => exact ⟨_, h1, LastOk.single_stop (fun _ => rfl) (fun h => by cases h)⟩
      | fail c =>
        exact ⟨_, h1, LastOk.single_stop (fun h => by cases heff h) (fun h => by cases h)⟩
      | eintr d =>
        obtain ⟨ps, h2, h3⟩ := ih os1
        refine ⟨_ :: ps, PTr.trans h1 h2, LastOk.cons_eintr ?_ h3⟩
        cases he : effTimeout (toMsec (Deadline.limited os.now dl).remaining, a) with
        | false => rfl
        | true => cases heff he

theorem wait_last (T : Int) (os : Os) : ∃ ps, PTr os (wait T os).2 ps ∧ LastOk (wait T os).1 ps := by
  unfold wait
  split
  · exact waitFixed_last (toMsec T) (os.polls.length + 1) os
  · exact waitLimited_last (os.now + T * nsPerMs) (os.polls.length + 1) os

theorem zip_fst_snd {α β : Type} (ps : List (α × β)) (rest : List β) :
    (ps.map (·.1)).zip (ps.map (·.2) ++ rest) = ps := by
  induction ps with
  | nil => simp
  | cons p ps ih => simp [ih]

theorem pollPairs_map (ps : List (Int × PollAns)) : pollPairs (ps.map fun p => SysObs.poll p.1 p.2) = ps := by
  induction ps with
  | nil => rfl
  | cons p ps ih => simp [pollPairs, ih]

/-- **The clauses `./check C16` evaluates on a `Driver::Step` under injected signals are a theorem of the
model**: for every timeout in the documented domain and every script of poll answers without a genuine
failure - any number and timing of signal deliveries, readiness after any delay or never - the step does not
fail, its polls keep the timeout semantics (`specTimeouts`), and with `T > 0` and no event it returns exactly
`T` after it was entered. -/
theorem step_model_satisfies_spec (T : Int) (polls : List PollAns) (hT : T ≤ intMax)
    (hk : T < 0 → ∀ a ∈ polls, a ≠ PollAns.timedOut) (hnf : ∀ a ∈ polls, ∀ e, a ≠ PollAns.fail e)
    (o : StepObs) (h : modelStepObs T polls = some o) : specStepE o = none := by
  -- the result of the wait: a value (signals alone never make it fail)
  have hres : ∀ e, (wait T { polls := polls }).1 = .exn e → e = .exhausted := by
    intro e he
    obtain ⟨l, _, _, hex⟩ := C01.wait_run C01.tcpRecvObs T { polls := polls }
    have hc := hex e he
    cases e with
    | exhausted => rfl
    | logic => exact hc.not_logic.elim
    | closed => exact hc.not_closed.elim
    | system c =>
      exfalso
      have : ∀ c, (wait T { polls := polls }).1 ≠ .exn (.system c) := by
        intro c
        unfold wait
        split
        · exact waitFixed_no_fail _ _ _ hnf c
        · exact waitLimited_no_fail _ _ _ hnf c
      exact this c he
  obtain ⟨e', hb, g1, g2⟩ := C07.wait_bud T T 0 { polls := polls } (fun h => h) (fun h => h)
    (fun h => ⟨Int.le_refl _, by omega, by omega, hT⟩)
  obtain ⟨ps, hptr, hlast⟩ := wait_last T { polls := polls }
  obtain ⟨ps', hptr', hspec⟩ := hb
  have := hptr'.unique hptr
  subst this
  have hzip : (pollArgs (wait T { polls := polls }).2).zip polls = ps' := by
    have h1 : polls = ps'.map (·.2) ++ (wait T { polls := polls }).2.polls := hptr.1
    have h2 : pollArgs (wait T { polls := polls }).2 = ps'.map (·.1) := by
      have := hptr.2; simpa [pollArgs] using this
    rw [h2]
    conv => lhs; rw [h1]
    exact zip_fst_snd _ _
  unfold modelStepObs at h
  simp only [hzip] at h
  cases hr : (wait T { polls := polls }).1 with
  | exn e =>
    have := hres e hr
    subst this
    rw [hr] at h
    cases h
  | ok b =>
    rw [hr] at h
    simp only [Option.some.injEq] at h
    subst h
    simp only [specStepE]
    have hno : ¬ T < 0 ∨ lastTimedOut ps' = false := by
      by_cases hneg : T < 0
      · right
        have hf := C01.wait_neg_not_false hneg { polls := polls } (hk hneg)
        cases hl : lastTimedOut ps' with
        | false => rfl
        | true => exact absurd (hlast.1 hl) (by rw [hr] at hf ⊢; exact hf)
      · exact Or.inl hneg
    have htm : specTimeouts T (ps'.map fun p => SysObs.poll p.1 p.2) (lastTimedOut ps') = none := by
      unfold specTimeouts
      rw [specPolls_pairs, pollPairs_map, hspec]
      simp only
      cases hl : lastTimedOut ps' with
      | false => exact C07.endClause_false (fun h => (g1 h).1) g2
      | true =>
        have hf := hlast.1 hl
        refine C07.endClause_true ?_ (fun h => (g1 h).2.2.2 hf) g2
        rcases hno with h | h
        · exact h
        · rw [hl] at h; cases h
    rw [htm]
    simp only
    rw [if_neg]
    intro ⟨hpos, hall, hlt⟩
    obtain ⟨_, _, hclk, hfalse⟩ := g1 hpos
    have hb' : b = false := by
      cases b with
      | false => rfl
      | true =>
        obtain ⟨p, hp, hrd⟩ := hlast.2 hr
        have := List.all_eq_true.mp hall p hp
        simp [hrd] at this
    subst hb'
    have := hfalse hr
    subst this
    simp only at hclk
    rw [hclk] at hlt
    simp at hlt


/-! ### non-vacuity -/

example : (modelStepObs 17 [.eintr 2, .eintr 5, .eintr 1, .timedOut]).map (·.polls)
    = some [(17, .eintr 2), (15, .eintr 5), (10, .eintr 1), (9, .timedOut)] := by decide
example : ((modelStepObs 17 [.eintr 2, .eintr 5, .eintr 1, .timedOut]).map specStepE) = some none := by decide
example : ((modelStepObs (-1) [.eintr 2, .eintr 5, .ready 3]).map specStepE) = some none := by decide
/-- a step that returns as soon as a signal arrives (the seeded change C16_1_agentE) is rejected -/
example : (specStepE { T := 1, polls := [(1, .eintr 0)], begin := some 1000000000, fin := some 1000000000 }).isSome = true := by
  decide
/-- a step that throws because of a signal (finding F2) is rejected -/
example : (specStepE { T := -1, failed := some "throw x", polls := [(-1, .eintr 0)], begin := some 0, fin := some 0 }).isSome
    = true := by decide
/-- a retry with the original timeout is rejected -/
example : (specStepE { T := 5, polls := [(5, .eintr 2), (5, .timedOut)], begin := some 0, fin := some 7000000 }).isSome = true := by
  decide

end SockModel.Spec.C16

import SockModel.Model.AddrLemmas
import SockModel.Basic.Decimal
/-!
# Spec.C13 - the property as an executable predicate over typed observations, the address model
composed into a scenario, and the proof that the model satisfies the predicate for every history

`specStep` / `specRun` are what `./check C13` evaluates on the IMPLEMENTATION's transcript
(`Drive/C13.lean` parses every transcript line into one `Obs` and calls exactly these functions; it
contains no property clause of its own).  The observer's state `SpecSt` mentions no model state and no
raw image: only what the accessors of every reported `Address` returned (`AddrObs`: label, `Service()`,
`Port()`, `IsV6()`, the bytes of `Host()`, its `%scope`), the results of `== != < std::hash` that were
reported (`CmpObs`), and the operation whose observations are being read.

Clauses (every message text is the one the driver had):
* per address: `Service()` is the decimal text of `Port()`; `Address(n)` reports port `n`, IPv4; a socket
  bound to an address reports that host and that port - the real non-zero port when bound to port 0;
  a datagram source equals the sender's `LocalAddress`; a re-parsed text equals the original;
* per comparison: `==` iff family/host/port/scope agree, `!=` its negation, exactly one of `<`, `==`, `>`,
  equal ⇒ equal `std::hash`, an address compared with itself is `==` and not `<`;
* `cmpall`: `<` and `==` are transitive and `<` respects `==` over all triples of the reported relation;
* `std::map` / `std::unordered_map`: a lookup finds the first address with the same field tuple, the
  containers hold one entry per distinct tuple;
* per connection: client `LocalAddress` = address reported on accept = server-side `PeerAddress`, client
  `PeerAddress` = server-side `LocalAddress` (= the acceptor's `LocalAddress`), the client's port is not 0;
* no crash, no accessor that throws, no non-standard exception.

`modelStep` composes the functions of `Model/Addr.lean` (`encode`, `eq`, `ne`, `lt`, `hash`, `mapInsert`,
`mapFind`, `bucketFind`; nothing is re-defined) into the scenario the harness plays: every `Address` of the
model is a field tuple `Fields` whose image is `encode f`, every reported comparison / hash / container
result is computed FROM THE IMAGES, every reported accessor value from the tuple.  What the kernel
contributes is an explicit argument of the operation (`eph`: the port it assigns, `src`: the client's
source host) or the function `seenBy` (a socket of family IPv6 sees an IPv4 endpoint as `::ffff:a.b.c.d`).
`model_satisfies_spec`: `specRun` accepts `modelTrace` of every history that satisfies `histOk`.
-/
namespace SockModel.Addr

/-! ## typed observations -/

/-- what the accessors of one reported `Address` returned (`-> addr <label> ...`) -/
structure AddrObs where
  label : String
  /-- provenance (which operation produced it); quoted in messages only -/
  prov : String
  /-- `Service()` -/
  serv : List UInt8
  /-- `Port()` -/
  port : Nat
  /-- `IsV6()` -/
  v6 : Bool
  /-- the bytes `inet_pton` reads from `Host()` -/
  ip : List UInt8
  /-- the `%scope` suffix of `Host()` as an interface index -/
  scope : Nat
  deriving Repr, Inhabited

/-- the field tuple `==` is supposed to decide on, as far as the accessors show it -/
def AddrObs.fields (a : AddrObs) : Fields := { v6 := a.v6, ip := a.ip, port := a.port, flow := 0, scope := a.scope }

/-- a numeral of the transcript: the text as printed (quoted in messages) and its value -/
structure Num where
  raw : String
  val : Option Nat
  deriving Repr

def Num.ofNat (n : Nat) : Num := ⟨Nat.repr n, some n⟩

/-- first word of an op line, as far as the exception clause distinguishes it -/
inductive Head where
  | udp | acceptor | connectvia | other
  deriving DecidableEq, Repr

/-- an op line, as far as a clause depends on it -/
inductive OpK where
  /-- `port <label> <n>` -/
  | port (n : Num)
  /-- `udp|acceptor <name> <kind> <bind label>`: reports `<name>.l` -/
  | bind (name bind : String)
  /-- `dgram <label> <sender> <receiver>`: reports `<label>` -/
  | dgram (label sender : String)
  /-- `respell <label> <old> <style>`: reports `<label>` -/
  | respell (label old : String)
  /-- `connect <c> <kind> <acceptor>`: reports `<c>.cl .cp .rep .sl .sp` -/
  | connect (c acc : String)
  /-- `connectvia <c> <kind> <acceptor> <host label>` -/
  | connectvia (c : String)
  | cmpall
  | other
  deriving Repr

structure OpLine where
  k : OpK
  head : Head
  /-- the words of the line (quoted in messages only) -/
  text : String
  deriving Repr

/-- one reported comparison: `l1 == l2`, `l1 < l2`, `l2 < l1` -/
structure CmpObs where
  l1 : String
  l2 : String
  eq : Bool
  lt : Bool
  gt : Bool
  deriving Repr

/-- one line of a transcript block -/
inductive Obs where
  | op (o : OpLine)
  | addr (a : AddrObs)
  /-- `-> cmp l1 l2 eq= ne= lt= gt= heq=` -/
  | cmp (l1 l2 : String) (eq ne lt gt heq : Bool)
  /-- `-> map <label> <found in std::map> <found in std::unordered_map>` -/
  | map (l found ufound : String)
  | maporder (labels : List String)
  | mapsize (n un : Num)
  | crash (what : String)
  /-- `-> throw <class> ...`; `nonstd` = not derived from `std::exception` -/
  | threw (nonstd : Bool)
  | addrfail (l : String)
  /-- `-> fail ...`: the harness gave up on the operation (a correspondence matter); its observations are dropped -/
  | fail
  /-- `-> locals n`, `-> spelled ...`, `-> skip`: nothing to check -/
  | quiet
  /-- end of the block -/
  | fin
  deriving Repr

/-! ## the predicate -/

structure SpecSt where
  /-- addresses reported so far, oldest first -/
  addrs : List AddrObs := []
  /-- comparisons reported so far, NEWEST first -/
  cmps : List CmpObs := []
  /-- the op whose observations are being read -/
  op : Option OpLine := none
  /-- number of addresses reported since the op line -/
  opAddrs : Nat := 0

def findIn (l : List AddrObs) (label : String) : Option AddrObs := l.find? (·.label == label)

def SpecSt.find (s : SpecSt) (label : String) : Option AddrObs := findIn s.addrs label

def SpecSt.opText (s : SpecSt) : String := match s.op with | some o => o.text | none => ""

def SpecSt.opK (s : SpecSt) : OpK := match s.op with | some o => o.k | none => .other

def SpecSt.head (s : SpecSt) : Head := match s.op with | some o => o.head | none => .other

def SpecSt.dropOp (s : SpecSt) : SpecSt := { s with op := none, opAddrs := 0 }

def sameFields (a b : AddrObs) (what : String) : Option String :=
  if a.fields == b.fields then none
  else some s!"{a.label} differs from {b.label} in family/host/port/scope ({what})"

/-- clauses on a freshly reported address (`none` = accepted) -/
def specAddr (s : SpecSt) (a : AddrObs) : Option String :=
  if !(a.serv == Decimal.render a.port) then
    some s!"{a.label}: Service() is not the decimal text of Port() {a.port}"
  else match s.opK with
  | .port n =>
    if (some a.port == n.val) && !a.v6 then none else some s!"{a.label}: Address({n.raw}) reports port {a.port}"
  | .bind name bind =>
    if a.label = name ++ ".l" then
      match s.find bind with
      | some b =>
        if !(a.v6 == b.v6 && a.ip == b.ip && a.scope == b.scope) then
          some s!"{a.label}: bound to {bind} but reports another host"
        else if b.port = 0 then
          (if a.port ≠ 0 then none else some s!"{a.label}: socket bound to port 0 reports port 0")
        else if a.port = b.port then none else some s!"{a.label}: bound to port {b.port} but reports {a.port}"
      | none => none
    else none
  | .dgram name sender =>
    if a.label = name then
      match s.find (sender ++ ".l") with
      | some b => sameFields a b "datagram source vs. sender's LocalAddress"
      | none => none
    else none
  | .respell name old =>
    if a.label = name then
      match s.find old with
      | some b => sameFields a b "re-parsed text vs. original"
      | none => none
    else none
  | _ => none

/-- endpoint agreement once all five addresses of connection `c` are known; `acc` = the acceptor whose own
`LocalAddress` the client's `PeerAddress` must equal (`none` for `connectvia`: the acceptor may be bound to a
wildcard there, only the two ends are compared) -/
def specConn (s : SpecSt) (c : String) (acc : Option String) : Option String :=
  match s.find (c ++ ".cl"), s.find (c ++ ".cp"), s.find (c ++ ".rep"), s.find (c ++ ".sl"), s.find (c ++ ".sp") with
  | some cl, some cp, some rep, some sl, some sp =>
    if !(cl.fields == rep.fields) then some s!"{c}: client LocalAddress differs from the address reported on accept"
    else if !(cl.fields == sp.fields) then some s!"{c}: client LocalAddress differs from the server-side PeerAddress"
    else if !(cp.fields == sl.fields) then some s!"{c}: client PeerAddress differs from the server-side LocalAddress"
    else if cl.port = 0 then some s!"{c}: client reports local port 0"
    else match acc.bind (fun a => s.find (a ++ ".l")) with
      | some al =>
        if cp.fields == al.fields then none else some s!"{c}: client PeerAddress differs from the acceptor's LocalAddress"
      | none => none
  | _, _, _, _, _ => some s!"{c}: connection did not report all five addresses"

def b2s (b : Bool) : String := if b then "1" else "0"

/-- clauses on one reported comparison of `a` (label `l1`) with `b` (label `l2`) -/
def specCmp (a b : AddrObs) (l1 l2 : String) (eq ne lt gt heq : Bool) : Option String :=
  let fe := a.fields == b.fields
  if eq ≠ fe then
    some (s!"{l1} == {l2} is {eq} but family/host/port/scope " ++ (if fe then "agree" else "differ") ++
      s!" ({a.prov} vs {b.prov})")
  else if ne = eq then some s!"{l1} != {l2} is not the negation of =="
  else if (if lt then 1 else 0) + (if eq then 1 else 0) + (if gt then 1 else 0) ≠ 1 then
    some s!"{l1} vs {l2}: not exactly one of <, ==, > holds (lt={b2s lt} eq={b2s eq} gt={b2s gt})"
  else if eq ∧ !heq then some s!"{l1} == {l2} but their std::hash differ"
  else if l1 = l2 ∧ (lt ∨ !eq) then some s!"{l1} compared with itself: < or not =="
  else none

/-! ### transitivity over all reported pairs -/

def idxIn : List AddrObs → String → Option Nat
  | [], _ => none
  | a :: as, l => if a.label == l then some 0 else (idxIn as l).map (· + 1)

/-- reported relation of an ordered pair of addresses: `(<, ==)`; `none` = the pair was not compared -/
abbrev Cell := Option (Bool × Bool)

def setCmp (n : Nat) (idx : String → Option Nat) (m : Array Cell) (c : CmpObs) : Array Cell :=
  match idx c.l1, idx c.l2 with
  | some i, some j => (m.setIfInBounds (i * n + j) (some (c.lt, c.eq))).setIfInBounds (j * n + i) (some (c.gt, c.eq))
  | _, _ => m

/-- the matrix of the reported relation; a later report of a pair overwrites an earlier one
(`cmps` newest first) -/
def mkRel (n : Nat) (idx : String → Option Nat) (cmps : List CmpObs) : Array Cell :=
  cmps.foldr (fun c m => setCmp n idx m c) (Array.replicate (n * n) none)

def cell (m : Array Cell) (n i j : Nat) : Cell := m.getD (i * n + j) none

/-- first failure of `f` over a list -/
def firstErr {α : Type} (f : α → Option String) : List α → Option String
  | [] => none
  | x :: xs => match f x with | some e => some e | none => firstErr f xs

def checkTriple (label : Nat → String) (i j k : Nat) (ij jk ik : Bool × Bool) : Option String :=
  if ij.1 ∧ jk.1 ∧ !ik.1 then
    some s!"< is not transitive: {label i} < {label j} < {label k} but not {label i} < {label k}"
  else if ij.2 ∧ jk.2 ∧ !ik.2 then
    some s!"== is not transitive: {label i} == {label j} == {label k} but not {label i} == {label k}"
  else if ij.2 ∧ jk.1 ≠ ik.1 then
    some s!"< does not respect ==: {label i} == {label j} but they compare differently with {label k}"
  else none

def checkTriples (n : Nat) (label : Nat → String) (m : Array Cell) : Option String :=
  let r := List.range n
  firstErr (fun i => firstErr (fun j =>
    match cell m n i j with
    | none => none
    | some ij => firstErr (fun k =>
        match cell m n j k, cell m n i k with
        | some jk, some ik => checkTriple label i j k ij jk ik
        | _, _ => none) r) r) r

/-- transitivity of the reported `<` and `==` over all reported pairs -/
def specTrans (s : SpecSt) : Option String :=
  let n := s.addrs.length
  checkTriples n (fun i => (s.addrs.getD i default).label) (mkRel n (idxIn s.addrs) s.cmps)

/-! ### containers -/

def firstWithFields (s : SpecSt) (f : Fields) : Option String := (s.addrs.find? (·.fields == f)).map (·.label)

def distinctFields (s : SpecSt) : Nat :=
  (s.addrs.foldl (fun (acc : List Fields) a => if acc.contains a.fields then acc else a.fields :: acc) []).length

/-! ### one line -/

/-- finish the op whose observations have all been read -/
def finishOp (s : SpecSt) : Except String SpecSt :=
  match s.opK with
  | .connect c acc =>
    if s.opAddrs = 0 then .ok { s with op := none }  -- skipped / failed, reported separately
    else match specConn s c (some acc) with
      | some m => .error m
      | none => .ok { s with op := none }
  | .connectvia c =>
    if s.opAddrs = 0 then .ok { s with op := none }
    else match specConn s c none with
      | some m => .error m
      | none => .ok { s with op := none }
  | .cmpall =>
    match specTrans s with
    | some m => .error m
    | none => .ok { s with op := none }
  | _ => .ok { s with op := none }

def specStep (s : SpecSt) : Obs → Except String SpecSt
  | .op o =>
    match finishOp s with
    | .error m => .error m
    | .ok s' => .ok { s' with op := some o, opAddrs := 0 }
  | .fin => finishOp s
  | .addr a =>
    -- a label reported twice is a malformed transcript (`corr` verdict of the driver): not recorded
    if (s.find a.label).isSome then .ok s
    else match specAddr s a with
      | some m => .error m
      | none => .ok { s with addrs := s.addrs ++ [a], opAddrs := s.opAddrs + 1 }
  | .cmp l1 l2 eq ne lt gt heq =>
    match s.find l1, s.find l2 with
    | some a, some b =>
      match specCmp a b l1 l2 eq ne lt gt heq with
      | some m => .error m
      | none => .ok { s with cmps := ⟨l1, l2, eq, lt, gt⟩ :: s.cmps }
    | _, _ => .ok s      -- unknown label: `corr` verdict of the driver
  | .map l found ufound =>
    match s.find l with
    | none => .ok s      -- unknown label: `corr` verdict of the driver
    | some a =>
      let want := firstWithFields s a.fields
      if some found ≠ want then
        .error s!"std::map lookup of {l} finds {found}, the first address with the same family/host/port/scope is {want.getD "none"}"
      else if some ufound ≠ want then
        .error s!"std::unordered_map lookup of {l} finds {ufound}, expected {want.getD "none"}"
      else .ok s
  | .maporder labels =>
    if labels.length ≠ distinctFields s then
      .error s!"std::map holds {labels.length} keys for {distinctFields s} distinct addresses"
    else .ok s
  | .mapsize n un =>
    let d := distinctFields s
    if n.val ≠ some d ∨ un.val ≠ some d then
      .error s!"containers hold {n.raw} / {un.raw} entries for {d} distinct addresses"
    else .ok s
  | .crash w => .error ("crash: " ++ w)
  | .threw nonstd =>
    match s.head with
    | .udp => .ok s
    | .acceptor => .ok s
    | .connectvia =>
      -- reaching a listener through another local address may be refused (e.g. IPV6_V6ONLY): not a violation
      if nonstd then .error ("non-standard exception from " ++ s.opText) else .ok s.dropOp
    | .other => if nonstd then .error ("non-standard exception from " ++ s.opText) else .ok s
  | .addrfail l => .error s!"accessors of {l} throw"
  | .fail => .ok s.dropOp
  | .quiet => .ok s

def specRun (s : SpecSt) : List Obs → Except String SpecSt
  | [] => .ok s
  | o :: os => match specStep s o with | .ok s' => specRun s' os | .error e => .error e

/-! ## the model's scenario

Every `Address` of the model is a field tuple; its image is `encode f`.  Comparisons, hashes and container
operations are the functions of `Model/Addr.lean` applied to the images. -/

/-- `std::map<Address, label>::emplace`: the first label of a key wins -/
def mapEmplace (m : List (Image × String)) (kv : Image × String) : List (Image × String) :=
  match mapFind kv.1 m with
  | some _ => m
  | none => mapInsert kv.1 kv.2 m

/-- the `std::map` after `emplace` of all `(image, label)` in creation order -/
def omOf (items : List (Image × String)) : List (Image × String) := items.foldl mapEmplace []

/-- `std::unordered_map<Address, label>::find`: the bucket of the key's hash, then `==` -/
def umFind (H : List UInt8 → UInt64) (k : Image) (m : List (Image × String)) : Option String :=
  bucketFind k (m.filter fun e => hash H e.1 == hash H k)

def umEmplace (H : List UInt8 → UInt64) (m : List (Image × String)) (kv : Image × String) : List (Image × String) :=
  match umFind H kv.1 m with
  | some _ => m
  | none => m ++ [kv]

def umOf (H : List UInt8 → UInt64) (items : List (Image × String)) : List (Image × String) :=
  items.foldl (umEmplace H) []

/-- an `Address` of the model -/
structure MAddr where
  label : String
  prov : String
  f : Fields
  deriving Repr

def MAddr.img (a : MAddr) : Image := encode a.f

/-- what the accessors report: `Service()` is the decimal text of the port (`getnameinfo(NI_NUMERICSERV)`) -/
def MAddr.obs (a : MAddr) : AddrObs :=
  { label := a.label, prov := a.prov, serv := Decimal.render a.f.port, port := a.f.port, v6 := a.f.v6, ip := a.f.ip,
    scope := a.f.scope }

structure MSt where
  /-- addresses in creation order -/
  addrs : List MAddr := []
  udps : List String := []
  accs : List String := []
  /-- open connections with their kind -/
  conns : List (String × String) := []

def MSt.find (m : MSt) (l : String) : Option MAddr := m.addrs.find? (·.label == l)
def MSt.fresh (m : MSt) (l : String) : Bool := (m.find l).isNone
def MSt.push (m : MSt) (a : MAddr) : MSt := { m with addrs := m.addrs ++ [a] }

/-- the model's precondition on a field tuple: `Fields.wf` (the hypothesis of `encode_injective`) and
`sin6_flowinfo = 0` (the accessors do not show it; the kernel reports 0 unless `IPV6_FLOWINFO_SEND` is set,
which the library never does) -/
def Fields.ok (f : Fields) : Bool :=
  decide (f.port < 65536) && f.flow == 0 && decide (f.scope < 4294967296) &&
  (if f.v6 then f.ip.length == 16 else f.ip.length == 4 && f.scope == 0)

/-- IPv4 host as an IPv6 socket sees it: `::ffff:a.b.c.d` -/
def v4mapped (ip : List UInt8) : List UInt8 := List.replicate 10 0 ++ [0xff, 0xff] ++ ip

/-- how a socket of family `v6` is told about the endpoint `f` (`accept`, `getpeername`, `getsockname`,
`recvfrom`): a dual-stack IPv6 socket sees an IPv4 endpoint as a v4-mapped IPv6 address -/
def seenBy (v6 : Bool) (f : Fields) : Fields :=
  if v6 && !f.v6 then { v6 := true, ip := v4mapped f.ip, port := f.port, flow := 0, scope := 0 } else f

/-- a history: what the harness can be asked to do, with the kernel's choices as arguments -/
inductive Op where
  /-- `parse` / `pair` / `locals`: Addresses built from text (or listed by the OS) with any field tuples - what
  the parser makes of a text is the subject of C11 / C12 -/
  | report (text prov : String) (items : List (String × Fields))
  /-- `Address(n)`: `getaddrinfo("localhost", n, AF_INET)` answers `host` -/
  | port (label : String) (n : Nat) (host : List UInt8)
  /-- text built from the accessors of `old`, parsed again (C12: the round trip preserves the tuple) -/
  | respell (label old : String)
  /-- a UDP socket / acceptor bound to the address `bind`; `eph` = the port the kernel assigns when asked for 0 -/
  | bind (acceptor : Bool) (name kind bind : String) (eph : Nat)
  /-- the same, refused by the OS (port taken, address not available): an exception -/
  | bindFail (acceptor : Bool) (name kind bind : String)
  /-- a datagram from socket `sender` to socket `receiver`: the reported source -/
  | dgram (label sender receiver : String)
  /-- a client connects to `acc`'s LocalAddress from host `src`, port `eph`; five addresses, five comparisons -/
  | connect (c kind acc : String) (src : List UInt8) (eph : Nat)
  /-- the same through `Host(via)` and the acceptor's port -/
  | connectvia (c kind acc via : String) (src : List UInt8) (eph : Nat)
  /-- the same, refused (e.g. `IPV6_V6ONLY`) -/
  | refused (c kind acc via : String)
  /-- the server side closes: an async client reports the peer to its disconnect handler -/
  | close (c : String)
  | cmp (l1 l2 : String)
  | cmpall
  | maps
  deriving Repr

def opLine (k : OpK) (head : Head) (ws : List String) : Obs := .op { k, head, text := " ".intercalate ws }

def cmpObs (H : List UInt8 → UInt64) (a b : MAddr) : Obs :=
  .cmp a.label b.label (eq a.img b.img) (ne a.img b.img) (lt a.img b.img) (lt b.img a.img)
    (hash H a.img == hash H b.img)

/-- `Scen::CmpLabels` -/
def cmpLabels (H : List UInt8 → UInt64) (m : MSt) (l1 l2 : String) : List Obs :=
  match m.find l1, m.find l2 with
  | some a, some b => [cmpObs H a b]
  | _, _ => []

/-- all pairs `i ≤ j` in the order of the harness' double loop -/
def allPairs : List MAddr → List (MAddr × MAddr)
  | [] => []
  | a :: rest => ((a, a) :: rest.map (fun b => (a, b))) ++ allPairs rest

/-- report the fresh ones of `items`, in order -/
def reportAll (prov : String) : MSt → List (String × Fields) → MSt × List Obs
  | m, [] => (m, [])
  | m, (l, f) :: rest =>
    if m.fresh l then
      let a : MAddr := ⟨l, prov, f⟩
      let r := reportAll prov (m.push a) rest
      (r.1, .addr a.obs :: r.2)
    else reportAll prov m rest

def mapObs (H : List UInt8 → UInt64) (m : MSt) : List Obs :=
  let items := m.addrs.map fun a => (a.img, a.label)
  let om := omOf items
  let um := umOf H items
  m.addrs.map (fun a => Obs.map a.label ((mapFind a.img om).getD "none") ((umFind H a.img um).getD "none"))
    ++ [.maporder (om.map (·.2)), .mapsize (Num.ofNat om.length) (Num.ofNat um.length)]

/-- the five addresses and five comparisons of a connection of client `cl` to destination `d`, accepted by a
listener of family `av6` -/
def connObs (H : List UInt8 → UInt64) (m : MSt) (c prov accL : String) (av6 : Bool) (d cl : Fields) : MSt × List Obs :=
  let a1 : MAddr := ⟨c ++ ".cl", prov, cl⟩
  let a2 : MAddr := ⟨c ++ ".cp", prov, d⟩
  let a3 : MAddr := ⟨c ++ ".rep", prov, seenBy av6 cl⟩
  let a4 : MAddr := ⟨c ++ ".sl", prov, seenBy av6 d⟩
  let a5 : MAddr := ⟨c ++ ".sp", prov, seenBy av6 cl⟩
  let m' := ((((m.push a1).push a2).push a3).push a4).push a5
  (m', [.addr a1.obs, .addr a2.obs, .addr a3.obs, .addr a4.obs, .addr a5.obs] ++
    cmpLabels H m' (c ++ ".cl") (c ++ ".rep") ++ cmpLabels H m' (c ++ ".cl") (c ++ ".sp") ++
    cmpLabels H m' (c ++ ".rep") (c ++ ".sp") ++ cmpLabels H m' (c ++ ".cp") (c ++ ".sl") ++
    cmpLabels H m' (c ++ ".cp") accL)

def connFresh (m : MSt) (c : String) : Bool :=
  m.fresh (c ++ ".cl") && m.fresh (c ++ ".cp") && m.fresh (c ++ ".rep") && m.fresh (c ++ ".sl") && m.fresh (c ++ ".sp")

def nat (n : Nat) : String := Nat.repr n

/-- one operation of the model: new state and the lines of the transcript.  An operation the harness would
answer with `-> skip` (unknown label / socket) reports `quiet`; an operation whose labels are not fresh (the
generator never re-uses a label; the driver calls that a malformed transcript) reports nothing. -/
def modelStep (H : List UInt8 → UInt64) (m : MSt) : Op → MSt × List Obs
  | .report text prov items =>
    let r := reportAll prov m items
    (r.1, .op { k := .other, head := .other, text } :: r.2 ++ [.quiet])
  | .port label n host =>
    let line := opLine (.port (Num.ofNat n)) .other ["port", label, nat n]
    if m.fresh label then
      let a : MAddr := ⟨label, "port", { v6 := false, ip := host, port := n }⟩
      (m.push a, [line, .addr a.obs])
    else (m, [line])
  | .respell label old =>
    let line := opLine (.respell label old) .other ["respell", label, old, "str"]
    match m.find old with
    | none => (m, [line, .quiet])
    | some o =>
      if m.fresh label then
        let a : MAddr := ⟨label, "respell", o.f⟩
        (m.push a, [line, .quiet, .addr a.obs])
      else (m, [line, .quiet])
  | .bind acceptor name kind bind eph =>
    let w := if acceptor then "acceptor" else "udp"
    let line := opLine (.bind name bind) (if acceptor then .acceptor else .udp) [w, name, kind, bind]
    match m.find bind with
    | none => (m, [line, .quiet])
    | some b =>
      if m.fresh (name ++ ".l") then
        let a : MAddr := ⟨name ++ ".l", w ++ "." ++ kind, { b.f with port := if b.f.port = 0 then eph else b.f.port }⟩
        let m' := m.push a
        (if acceptor then { m' with accs := name :: m'.accs } else { m' with udps := name :: m'.udps }, [line, .addr a.obs])
      else (m, [line])
  | .bindFail acceptor name kind bind =>
    let w := if acceptor then "acceptor" else "udp"
    (m, [opLine (.bind name bind) (if acceptor then .acceptor else .udp) [w, name, kind, bind], .threw false])
  | .dgram label sender receiver =>
    let line := opLine (.dgram label sender) .other ["dgram", label, sender, receiver]
    if m.udps.contains sender && m.udps.contains receiver then
      match m.find (sender ++ ".l"), m.find (receiver ++ ".l") with
      | some s, some r =>
        if m.fresh label then
          let a : MAddr := ⟨label, "dgram", seenBy r.f.v6 s.f⟩
          (m.push a, [line, .addr a.obs])
        else (m, [line])
      | _, _ => (m, [line, .quiet])
    else (m, [line, .quiet])
  | .connect c kind acc src eph =>
    let line := opLine (.connect c acc) .other ["connect", c, kind, acc]
    if m.accs.contains acc then
      match m.find (acc ++ ".l") with
      | some a =>
        if connFresh m c then
          let r := connObs H m c ("connect." ++ kind) (acc ++ ".l") a.f.v6 a.f { a.f with ip := src, port := eph }
          ({ r.1 with conns := (c, kind) :: r.1.conns }, line :: r.2)
        else (m, [line])
      | none => (m, [line, .quiet])
    else (m, [line, .quiet])
  | .connectvia c kind acc via src eph =>
    let line := opLine (.connectvia c) .connectvia ["connectvia", c, kind, acc, via]
    if m.accs.contains acc then
      match m.find (acc ++ ".l"), m.find via with
      | some a, some v =>
        if connFresh m c then
          let d : Fields := { v6 := v.f.v6, ip := v.f.ip, port := a.f.port, scope := v.f.scope }
          let r := connObs H m c ("connect." ++ kind) (acc ++ ".l") a.f.v6 d { d with ip := src, port := eph }
          ({ r.1 with conns := (c, kind) :: r.1.conns }, line :: r.2)
        else (m, [line])
      | _, _ => (m, [line, .quiet])
    else (m, [line, .quiet])
  | .refused c kind acc via =>
    (m, [opLine (.connectvia c) .connectvia ["connectvia", c, kind, acc, via], .threw false])
  | .close c =>
    let line := opLine .other .other ["close", c]
    match m.conns.find? (·.1 == c) with
    | none => (m, [line, .quiet])
    | some (_, kind) =>
      let m0 := { m with conns := m.conns.filter (·.1 != c) }
      if kind == "async" then
        match m.find (c ++ ".cp") with
        | some p =>
          if m.fresh (c ++ ".disc") then
            let a : MAddr := ⟨c ++ ".disc", "close", p.f⟩
            let m' := m0.push a
            (m', [line, .addr a.obs] ++ cmpLabels H m' (c ++ ".disc") (c ++ ".cp"))
          else (m0, [line])
        | none => (m0, [line])
      else (m0, [line])
  | .cmp l1 l2 => (m, opLine .other .other ["cmp", l1, l2] :: cmpLabels H m l1 l2)
  | .cmpall => (m, opLine .cmpall .other ["cmpall"] :: (allPairs m.addrs).map fun p => cmpObs H p.1 p.2)
  | .maps => (m, opLine .other .other ["maps"] :: mapObs H m)

/-- the transcript block of a history -/
def modelTrace (H : List UInt8 → UInt64) (m : MSt) : List Op → List Obs
  | [] => [.fin]
  | op :: ops => (modelStep H m op).2 ++ modelTrace H (modelStep H m op).1 ops

/-- the domain of the theorem: preconditions of the model (`Fields.ok`) and statements about the kernel (the
port it assigns is a port, and not 0; a client's source host has the client's family), plus: the two ends of
a datagram / connection are sockets of the same family (with an IPv4 client behind a dual-stack IPv6 listener
the two ends report different tuples for the same endpoint - known finding F12, see the `example` below) -/
def opOk (m : MSt) : Op → Bool
  | .report _ _ items => items.all fun x => x.2.ok
  | .port _ n host => decide (n < 65536) && host.length == 4
  | .bind _ _ _ _ eph => decide (0 < eph) && decide (eph < 65536)
  | .dgram _ sender receiver =>
    match m.find (sender ++ ".l"), m.find (receiver ++ ".l") with
    | some s, some r => s.f.v6 == r.f.v6
    | _, _ => true
  | .connect _ _ acc src eph =>
    decide (0 < eph) && decide (eph < 65536) &&
    match m.find (acc ++ ".l") with
    | some a => src.length == a.f.ip.length
    | none => true
  | .connectvia _ _ acc via src eph =>
    decide (0 < eph) && decide (eph < 65536) &&
    match m.find (acc ++ ".l"), m.find via with
    | some a, some v => src.length == v.f.ip.length && v.f.v6 == a.f.v6
    | _, _ => true
  | _ => true

def histOk (m : MSt) : List Op → Bool
  | [] => true
  | op :: ops => opOk m op && histOk (modelStep (fun _ => 0) m op).1 ops

end SockModel.Addr

import SockModel.Model.AddrLemmas
import SockModel.Basic.Decimal
/-!
# Spec.C13 - the property as an executable predicate over typed observations, the address model
composed into a scenario, and the proof that the model satisfies the predicate for every history

`specStep` / `specRun` are what `./check C13` evaluates on the IMPLEMENTATION's transcript
(`Drive/C13.lean` parses every transcript line into one `Obs` and calls exactly these functions; it
contains no property clause of its own).  The observer's state `SpecSt` mentions no model state and no
raw image: only what the accessors of every reported `Address` returned (`AddrObs`: label, `Service()`,
`Port()`, `IsV6()`, the bytes of `Host()`, its `%scope`), the results of `== != < std::hash` that were
reported (`CmpObs`), and the operation whose observations are being read.

Clauses (every message text is the one the driver had):
* per address: `Service()` is the decimal text of `Port()`; `Address(n)` reports port `n`, IPv4; a socket
  bound to an address reports that host and that port - the real non-zero port when bound to port 0;
  a datagram source equals the sender's `LocalAddress`; a re-parsed text equals the original;
* per comparison: `==` iff family/host/port/scope agree, `!=` its negation, exactly one of `<`, `==`, `>`,
  equal ⇒ equal `std::hash`, an address compared with itself is `==` and not `<`;
* `cmpall`: `<` and `==` are transitive and `<` respects `==` over all triples of the reported relation;
* `std::map` / `std::unordered_map`: a lookup finds the first address with the same field tuple, the
  containers hold one entry per distinct tuple;
* per connection: client `LocalAddress` = address reported on accept = server-side `PeerAddress`, client
  `PeerAddress` = server-side `LocalAddress` (= the acceptor's `LocalAddress`), the client's port is not 0;
* no crash, no accessor that throws, no non-standard exception.

`modelStep` composes the functions of `Model/Addr.lean` (`encode`, `eq`, `ne`, `lt`, `hash`, `mapInsert`,
`mapFind`, `bucketFind`; nothing is re-defined) into the scenario the harness plays: every `Address` of the
model is a field tuple `Fields` whose image is `encode f`, every reported comparison / hash / container
result is computed FROM THE IMAGES, every reported accessor value from the tuple.  What the kernel
contributes is an explicit argument of the operation (`eph`: the port it assigns, `src`: the client's
source host) or the function `seenBy` (a socket of family IPv6 sees an IPv4 endpoint as `::ffff:a.b.c.d`).
`model_satisfies_spec`: `specRun` accepts `modelTrace` of every history that satisfies `histOk`.
-/
namespace SockModel.Addr

/-! ## typed observations -/

/-- what the accessors of one reported `Address` returned (`-> addr <label> ...`) -/
structure AddrObs where
  label : String
  /-- provenance (which operation produced it); quoted in messages only -/
  prov : String
  /-- `Service()` -/
  serv : List UInt8
  /-- `Port()` -/
  port : Nat
  /-- `IsV6()` -/
  v6 : Bool
  /-- the bytes `inet_pton` reads from `Host()` -/
  ip : List UInt8
  /-- the `%scope` suffix of `Host()` as an interface index -/
  scope : Nat
  deriving Repr, Inhabited

/-- the field tuple `==` is supposed to decide on, as far as the accessors show it -/
def AddrObs.fields (a : AddrObs) : Fields := { v6 := a.v6, ip := a.ip, port := a.port, flow := 0, scope := a.scope }

/-- a numeral of the transcript: the text as printed (quoted in messages) and its value -/
structure Num where
  raw : String
  val : Option Nat
  deriving Repr

def Num.ofNat (n : Nat) : Num := ⟨Nat.repr n, some n⟩

/-- first word of an op line, as far as the exception clause distinguishes it -/
inductive Head where
  | udp | acceptor | connectvia | other
  deriving DecidableEq, Repr

/-- an op line, as far as a clause depends on it -/
inductive OpK where
  /-- `port <label> <n>` -/
  | port (n : Num)
  /-- `udp|acceptor <name> <kind> <bind label>`: reports `<name>.l` -/
  | bind (name bind : String)
  /-- `dgram <label> <sender> <receiver>`: reports `<label>` -/
  | dgram (label sender : String)
  /-- `respell <label> <old> <style>`: reports `<label>` -/
  | respell (label old : String)
  /-- `connect <c> <kind> <acceptor>`: reports `<c>.cl .cp .rep .sl .sp` -/
  | connect (c acc : String)
  /-- `connectvia <c> <kind> <acceptor> <host label>` -/
  | connectvia (c : String)
  | cmpall
  | other
  deriving Repr

structure OpLine where
  k : OpK
  head : Head
  /-- the words of the line (quoted in messages only) -/
  text : String
  deriving Repr

/-- one reported comparison: `l1 == l2`, `l1 < l2`, `l2 < l1` -/
structure CmpObs where
  l1 : String
  l2 : String
  eq : Bool
  lt : Bool
  gt : Bool
  deriving Repr

/-- one line of a transcript block -/
inductive Obs where
  | op (o : OpLine)
  | addr (a : AddrObs)
  /-- `-> cmp l1 l2 eq= ne= lt= gt= heq=` -/
  | cmp (l1 l2 : String) (eq ne lt gt heq : Bool)
  /-- `-> map <label> <found in std::map> <found in std::unordered_map>` -/
  | map (l found ufound : String)
  | maporder (labels : List String)
  | mapsize (n un : Num)
  | crash (what : String)
  /-- `-> throw <class> ...`; `nonstd` = not derived from `std::exception` -/
  | threw (nonstd : Bool)
  | addrfail (l : String)
  /-- `-> fail ...`: the harness gave up on the operation (a correspondence matter); its observations are dropped -/
  | fail
  /-- `-> locals n`, `-> spelled ...`, `-> skip`: nothing to check -/
  | quiet
  /-- end of the block -/
  | fin
  deriving Repr

/-! ## the predicate -/

structure SpecSt where
  /-- addresses reported so far, oldest first -/
  addrs : List AddrObs := []
  /-- comparisons reported so far, NEWEST first -/
  cmps : List CmpObs := []
  /-- the op whose observations are being read -/
  op : Option OpLine := none
  /-- number of addresses reported since the op line -/
  opAddrs : Nat := 0

def findIn (l : List AddrObs) (label : String) : Option AddrObs := l.find? (·.label == label)

def SpecSt.find (s : SpecSt) (label : String) : Option AddrObs := findIn s.addrs label

def SpecSt.opText (s : SpecSt) : String := match s.op with | some o => o.text | none => ""

def SpecSt.opK (s : SpecSt) : OpK := match s.op with | some o => o.k | none => .other

def SpecSt.head (s : SpecSt) : Head := match s.op with | some o => o.head | none => .other

def SpecSt.dropOp (s : SpecSt) : SpecSt := { s with op := none, opAddrs := 0 }

def sameFields (a b : AddrObs) (what : String) : Option String :=
  if a.fields == b.fields then none
  else some s!"{a.label} differs from {b.label} in family/host/port/scope ({what})"

/-- clauses on a freshly reported address (`none` = accepted) -/
def specAddr (s : SpecSt) (a : AddrObs) : Option String :=
  if !(a.serv == Decimal.render a.port) then
    some s!"{a.label}: Service() is not the decimal text of Port() {a.port}"
  else match s.opK with
  | .port n =>
    if (some a.port == n.val) && !a.v6 then none else some s!"{a.label}: Address({n.raw}) reports port {a.port}"
  | .bind name bind =>
    if a.label = name ++ ".l" then
      match s.find bind with
      | some b =>
        if !(a.v6 == b.v6 && a.ip == b.ip && a.scope == b.scope) then
          some s!"{a.label}: bound to {bind} but reports another host"
        else if b.port = 0 then
          (if a.port ≠ 0 then none else some s!"{a.label}: socket bound to port 0 reports port 0")
        else if a.port = b.port then none else some s!"{a.label}: bound to port {b.port} but reports {a.port}"
      | none => none
    else none
  | .dgram name sender =>
    if a.label = name then
      match s.find (sender ++ ".l") with
      | some b => sameFields a b "datagram source vs. sender's LocalAddress"
      | none => none
    else none
  | .respell name old =>
    if a.label = name then
      match s.find old with
      | some b => sameFields a b "re-parsed text vs. original"
      | none => none
    else none
  | _ => none

/-- endpoint agreement once all five addresses of connection `c` are known; `acc` = the acceptor whose own
`LocalAddress` the client's `PeerAddress` must equal (`none` for `connectvia`: the acceptor may be bound to a
wildcard there, only the two ends are compared) -/
def specConn (s : SpecSt) (c : String) (acc : Option String) : Option String :=
  match s.find (c ++ ".cl"), s.find (c ++ ".cp"), s.find (c ++ ".rep"), s.find (c ++ ".sl"), s.find (c ++ ".sp") with
  | some cl, some cp, some rep, some sl, some sp =>
    if !(cl.fields == rep.fields) then some s!"{c}: client LocalAddress differs from the address reported on accept"
    else if !(cl.fields == sp.fields) then some s!"{c}: client LocalAddress differs from the server-side PeerAddress"
    else if !(cp.fields == sl.fields) then some s!"{c}: client PeerAddress differs from the server-side LocalAddress"
    else if cl.port = 0 then some s!"{c}: client reports local port 0"
    else match acc.bind (fun a => s.find (a ++ ".l")) with
      | some al =>
        if cp.fields == al.fields then none else some s!"{c}: client PeerAddress differs from the acceptor's LocalAddress"
      | none => none
  | _, _, _, _, _ => some s!"{c}: connection did not report all five addresses"

def b2s (b : Bool) : String := if b then "1" else "0"

/-- clauses on one reported comparison of `a` (label `l1`) with `b` (label `l2`) -/
def specCmp (a b : AddrObs) (l1 l2 : String) (eq ne lt gt heq : Bool) : Option String :=
  let fe := a.fields == b.fields
  if eq ≠ fe then
    some (s!"{l1} == {l2} is {eq} but family/host/port/scope " ++ (if fe then "agree" else "differ") ++
      s!" ({a.prov} vs {b.prov})")
  else if ne = eq then some s!"{l1} != {l2} is not the negation of =="
  else if (if lt then 1 else 0) + (if eq then 1 else 0) + (if gt then 1 else 0) ≠ 1 then
    some s!"{l1} vs {l2}: not exactly one of <, ==, > holds (lt={b2s lt} eq={b2s eq} gt={b2s gt})"
  else if eq ∧ !heq then some s!"{l1} == {l2} but their std::hash differ"
  else if l1 = l2 ∧ (lt ∨ !eq) then some s!"{l1} compared with itself: < or not =="
  else none

/-! ### transitivity over all reported pairs -/

def idxIn : List AddrObs → String → Option Nat
  | [], _ => none
  | a :: as, l => if a.label == l then some 0 else (idxIn as l).map (· + 1)

/-- reported relation of an ordered pair of addresses: `(<, ==)`; `none` = the pair was not compared -/
abbrev Cell := Option (Bool × Bool)

def setCmp (n : Nat) (idx : String → Option Nat) (m : Array Cell) (c : CmpObs) : Array Cell :=
  match idx c.l1, idx c.l2 with
  | some i, some j => (m.setIfInBounds (i * n + j) (some (c.lt, c.eq))).setIfInBounds (j * n + i) (some (c.gt, c.eq))
  | _, _ => m

/-- the matrix of the reported relation; a later report of a pair overwrites an earlier one
(`cmps` newest first) -/
def mkRel (n : Nat) (idx : String → Option Nat) (cmps : List CmpObs) : Array Cell :=
  cmps.foldr (fun c m => setCmp n idx m c) (Array.replicate (n * n) none)

def cell (m : Array Cell) (n i j : Nat) : Cell := m.getD (i * n + j) none

/-- first failure of `f` over a list -/
def firstErr {α : Type} (f : α → Option String) : List α → Option String
  | [] => none
  | x :: xs => match f x with | some e => some e | none => firstErr f xs

def checkTriple (label : Nat → String) (i j k : Nat) (ij jk ik : Bool × Bool) : Option String :=
  if ij.1 ∧ jk.1 ∧ !ik.1 then
    some s!"< is not transitive: {label i} < {label j} < {label k} but not {label i} < {label k}"
  else if ij.2 ∧ jk.2 ∧ !ik.2 then
    some s!"== is not transitive: {label i} == {label j} == {label k} but not {label i} == {label k}"
  else if ij.2 ∧ jk.1 ≠ ik.1 then
    some s!"< does not respect ==: {label i} == {label j} but they compare differently with {label k}"
  else none

def checkTriples (n : Nat) (label : Nat → String) (m : Array Cell) : Option String :=
  let r := List.range n
  firstErr (fun i => firstErr (fun j =>
    match cell m n i j with
    | none => none
    | some ij => firstErr (fun k =>
        match cell m n j k, cell m n i k with
        | some jk, some ik => checkTriple label i j k ij jk ik
        | _, _ => none) r) r) r

/-- transitivity of the reported `<` and `==` over all reported pairs -/
def specTrans (s : SpecSt) : Option String :=
  let n := s.addrs.length
  checkTriples n (fun i => (s.addrs.getD i default).label) (mkRel n (idxIn s.addrs) s.cmps)

/-! ### containers -/

def firstWithFields (s : SpecSt) (f : Fields) : Option String := (s.addrs.find? (·.fields == f)).map (·.label)

def distinctFields (s : SpecSt) : Nat :=
  (s.addrs.foldl (fun (acc : List Fields) a => if acc.contains a.fields then acc else a.fields :: acc) []).length

/-! ### one line -/

/-- finish the op whose observations have all been read -/
def finishOp (s : SpecSt) : Except String SpecSt :=
  match s.opK with
  | .connect c acc =>
    if s.opAddrs = 0 then .ok { s with op := none }  -- skipped / failed, reported separately
    else match specConn s c (some acc) with
      | some m => .error m
      | none => .ok { s with op := none }
  | .connectvia c =>
    if s.opAddrs = 0 then .ok { s with op := none }
    else match specConn s c none with
      | some m => .error m
      | none => .ok { s with op := none }
  | .cmpall =>
    match specTrans s with
    | some m => .error m
    | none => .ok { s with op := none }
  | _ => .ok { s with op := none }

def specStep (s : SpecSt) : Obs → Except String SpecSt
  | .op o =>
    match finishOp s with
    | .error m => .error m
    | .ok s' => .ok { s' with op := some o, opAddrs := 0 }
  | .fin => finishOp s
  | .addr a =>
    -- a label reported twice is a malformed transcript (`corr` verdict of the driver): not recorded
    if (s.find a.label).isSome then .ok s
    else match specAddr s a with
      | some m => .error m
      | none => .ok { s with addrs := s.addrs ++ [a], opAddrs := s.opAddrs + 1 }
  | .cmp l1 l2 eq ne lt gt heq =>
    match s.find l1, s.find l2 with
    | some a, some b =>
      match specCmp a b l1 l2 eq ne lt gt heq with
      | some m => .error m
      | none => .ok { s with cmps := ⟨l1, l2, eq, lt, gt⟩ :: s.cmps }
    | _, _ => .ok s      -- unknown label: `corr` verdict of the driver
  | .map l found ufound =>
    match s.find l with
    | none => .ok s      -- unknown label: `corr` verdict of the driver
    | some a =>
      let want := firstWithFields s a.fields
      if some found ≠ want then
        .error s!"std::map lookup of {l} finds {found}, the first address with the same family/host/port/scope is {want.getD "none"}"
      else if some ufound ≠ want then
        .error s!"std::unordered_map lookup of {l} finds {ufound}, expected {want.getD "none"}"
      else .ok s
  | .maporder labels =>
    if labels.length ≠ distinctFields s then
      .error s!"std::map holds {labels.length} keys for {distinctFields s} distinct addresses"
    else .ok s
  | .mapsize n un =>
    let d := distinctFields s
    if n.val ≠ some d ∨ un.val ≠ some d then
      .error s!"containers hold {n.raw} / {un.raw} entries for {d} distinct addresses"
    else .ok s
  | .crash w => .error ("crash: " ++ w)
  | .threw nonstd =>
    match s.head with
    | .udp => .ok s
    | .acceptor => .ok s
    | .connectvia =>
      -- reaching a listener through another local address may be refused (e.g. IPV6_V6ONLY): not a violation
      if nonstd then .error ("non-standard exception from " ++ s.opText) else .ok s.dropOp
    | .other => if nonstd then .error ("non-standard exception from " ++ s.opText) else .ok s
  | .addrfail l => .error s!"accessors of {l} throw"
  | .fail => .ok s.dropOp
  | .quiet => .ok s

def specRun (s : SpecSt) : List Obs → Except String SpecSt
  | [] => .ok s
  | o :: os => match specStep s o with | .ok s' => specRun s' os | .error e => .error e

/-! ## the model's scenario

Every `Address` of the model is a field tuple; its image is `encode f`.  Comparisons, hashes and container
operations are the functions of `Model/Addr.lean` applied to the images. -/

/-- `std::map<Address, label>::emplace`: the first label of a key wins -/
def mapEmplace (m : List (Image × String)) (kv : Image × String) : List (Image × String) :=
  match mapFind kv.1 m with
  | some _ => m
  | none => mapInsert kv.1 kv.2 m

/-- the `std::map` after `emplace` of all `(image, label)` in creation order -/
def omOf (items : List (Image × String)) : List (Image × String) := items.foldl mapEmplace []

/-- `std::unordered_map<Address, label>::find`: the bucket of the key's hash, then `==` -/
def umFind (H : List UInt8 → UInt64) (k : Image) (m : List (Image × String)) : Option String :=
  bucketFind k (m.filter fun e => hash H e.1 == hash H k)

def umEmplace (H : List UInt8 → UInt64) (m : List (Image × String)) (kv : Image × String) : List (Image × String) :=
  match umFind H kv.1 m with
  | some _ => m
  | none => m ++ [kv]

def umOf (H : List UInt8 → UInt64) (items : List (Image × String)) : List (Image × String) :=
  items.foldl (umEmplace H) []

/-- an `Address` of the model -/
structure MAddr where
  label : String
  prov : String
  f : Fields
  deriving Repr

def MAddr.img (a : MAddr) : Image := encode a.f

/-- what the accessors report: `Service()` is the decimal text of the port (`getnameinfo(NI_NUMERICSERV)`) -/
def MAddr.obs (a : MAddr) : AddrObs :=
  { label := a.label, prov := a.prov, serv := Decimal.render a.f.port, port := a.f.port, v6 := a.f.v6, ip := a.f.ip,
    scope := a.f.scope }

structure MSt where
  /-- addresses in creation order -/
  addrs : List MAddr := []
  udps : List String := []
  accs : List String := []
  /-- open connections with their kind -/
  conns : List (String × String) := []

def MSt.find (m : MSt) (l : String) : Option MAddr := m.addrs.find? (·.label == l)
def MSt.fresh (m : MSt) (l : String) : Bool := (m.find l).isNone
def MSt.push (m : MSt) (a : MAddr) : MSt := { m with addrs := m.addrs ++ [a] }

/-- the model's precondition on a field tuple: `Fields.wf` (the hypothesis of `encode_injective`) and
`sin6_flowinfo = 0` (the accessors do not show it; the kernel reports 0 unless `IPV6_FLOWINFO_SEND` is set,
which the library never does) -/
def Fields.ok (f : Fields) : Bool :=
  decide (f.port < 65536) && f.flow == 0 && decide (f.scope < 4294967296) &&
  (if f.v6 then f.ip.length == 16 else f.ip.length == 4 && f.scope == 0)

/-- IPv4 host as an IPv6 socket sees it: `::ffff:a.b.c.d` -/
def v4mapped (ip : List UInt8) : List UInt8 := List.replicate 10 0 ++ [0xff, 0xff] ++ ip

/-- how a socket of family `v6` is told about the endpoint `f` (`accept`, `getpeername`, `getsockname`,
`recvfrom`): a dual-stack IPv6 socket sees an IPv4 endpoint as a v4-mapped IPv6 address -/
def seenBy (v6 : Bool) (f : Fields) : Fields :=
  if v6 && !f.v6 then { v6 := true, ip := v4mapped f.ip, port := f.port, flow := 0, scope := 0 } else f

/-- a history: what the harness can be asked to do, with the kernel's choices as arguments -/
inductive Op where
  /-- `parse` / `pair` / `locals`: Addresses built from text (or listed by the OS) with any field tuples - what
  the parser makes of a text is the subject of C11 / C12 -/
  | report (text prov : String) (items : List (String × Fields))
  /-- `Address(n)`: `getaddrinfo("localhost", n, AF_INET)` answers `host` -/
  | port (label : String) (n : Nat) (host : List UInt8)
  /-- text built from the accessors of `old`, parsed again (C12: the round trip preserves the tuple) -/
  | respell (label old : String)
  /-- a UDP socket / acceptor bound to the address `bind`; `eph` = the port the kernel assigns when asked for 0 -/
  | bind (acceptor : Bool) (name kind bind : String) (eph : Nat)
  /-- the same, refused by the OS (port taken, address not available): an exception -/
  | bindFail (acceptor : Bool) (name kind bind : String)
  /-- a datagram from socket `sender` to socket `receiver`: the reported source -/
  | dgram (label sender receiver : String)
  /-- a client connects to `acc`'s LocalAddress from host `src`, port `eph`; five addresses, five comparisons -/
  | connect (c kind acc : String) (src : List UInt8) (eph : Nat)
  /-- the same through `Host(via)` and the acceptor's port -/
  | connectvia (c kind acc via : String) (src : List UInt8) (eph : Nat)
  /-- the same, refused (e.g. `IPV6_V6ONLY`) -/
  | refused (c kind acc via : String)
  /-- the server side closes: an async client reports the peer to its disconnect handler -/
  | close (c : String)
  | cmp (l1 l2 : String)
  | cmpall
  | maps
  deriving Repr

def opLine (k : OpK) (head : Head) (ws : List String) : Obs := .op { k, head, text := " ".intercalate ws }

def cmpObs (H : List UInt8 → UInt64) (a b : MAddr) : Obs :=
  .cmp a.label b.label (eq a.img b.img) (ne a.img b.img) (lt a.img b.img) (lt b.img a.img)
    (hash H a.img == hash H b.img)

/-- `Scen::CmpLabels` -/
def cmpLabels (H : List UInt8 → UInt64) (m : MSt) (l1 l2 : String) : List Obs :=
  match m.find l1, m.find l2 with
  | some a, some b => [cmpObs H a b]
  | _, _ => []

/-- all pairs `i ≤ j` in the order of the harness' double loop -/
def allPairs : List MAddr → List (MAddr × MAddr)
  | [] => []
  | a :: rest => ((a, a) :: rest.map (fun b => (a, b))) ++ allPairs rest

/-- report the fresh ones of `items`, in order -/
def reportAll (prov : String) : MSt → List (String × Fields) → MSt × List Obs
  | m, [] => (m, [])
  | m, (l, f) :: rest =>
    if m.fresh l then
      let a : MAddr := ⟨l, prov, f⟩
      let r := reportAll prov (m.push a) rest
      (r.1, .addr a.obs :: r.2)
    else reportAll prov m rest

def mapObs (H : List UInt8 → UInt64) (m : MSt) : List Obs :=
  let items := m.addrs.map fun a => (a.img, a.label)
  let om := omOf items
  let um := umOf H items
  m.addrs.map (fun a => Obs.map a.label ((mapFind a.img om).getD "none") ((umFind H a.img um).getD "none"))
    ++ [.maporder (om.map (·.2)), .mapsize (Num.ofNat om.length) (Num.ofNat um.length)]

/-- the five addresses and five comparisons of a connection of client `cl` to destination `d`, accepted by a
listener of family `av6` -/
def connObs (H : List UInt8 → UInt64) (m : MSt) (c prov accL : String) (av6 : Bool) (d cl : Fields) : MSt × List Obs :=
  let a1 : MAddr := ⟨c ++ ".cl", prov, cl⟩
  let a2 : MAddr := ⟨c ++ ".cp", prov, d⟩
  let a3 : MAddr := ⟨c ++ ".rep", prov, seenBy av6 cl⟩
  let a4 : MAddr := ⟨c ++ ".sl", prov, seenBy av6 d⟩
  let a5 : MAddr := ⟨c ++ ".sp", prov, seenBy av6 cl⟩
  let m' := ((((m.push a1).push a2).push a3).push a4).push a5
  (m', [.addr a1.obs, .addr a2.obs, .addr a3.obs, .addr a4.obs, .addr a5.obs] ++
    cmpLabels H m' (c ++ ".cl") (c ++ ".rep") ++ cmpLabels H m' (c ++ ".cl") (c ++ ".sp") ++
    cmpLabels H m' (c ++ ".rep") (c ++ ".sp") ++ cmpLabels H m' (c ++ ".cp") (c ++ ".sl") ++
    cmpLabels H m' (c ++ ".cp") accL)

def connFresh (m : MSt) (c : String) : Bool :=
  m.fresh (c ++ ".cl") && m.fresh (c ++ ".cp") && m.fresh (c ++ ".rep") && m.fresh (c ++ ".sl") && m.fresh (c ++ ".sp")

def nat (n : Nat) : String := Nat.repr n

/-- one operation of the model: new state and the lines of the transcript.  An operation the harness would
answer with `-> skip` (unknown label / socket) reports `quiet`; an operation whose labels are not fresh (the
generator never re-uses a label; the driver calls that a malformed transcript) reports nothing. -/
def modelStep (H : List UInt8 → UInt64) (m : MSt) : Op → MSt × List Obs
  | .report text prov items =>
    let r := reportAll prov m items
    (r.1, .op { k := .other, head := .other, text } :: r.2 ++ [.quiet])
  | .port label n host =>
    let line := opLine (.port (Num.ofNat n)) .other ["port", label, nat n]
    if m.fresh label then
      let a : MAddr := ⟨label, "port", { v6 := false, ip := host, port := n }⟩
      (m.push a, [line, .addr a.obs])
    else (m, [line])
  | .respell label old =>
    let line := opLine (.respell label old) .other ["respell", label, old, "str"]
    match m.find old with
    | none => (m, [line, .quiet])
    | some o =>
      if m.fresh label then
        let a : MAddr := ⟨label, "respell", o.f⟩
        (m.push a, [line, .quiet, .addr a.obs])
      else (m, [line, .quiet])
  | .bind acceptor name kind bind eph =>
    let w := if acceptor then "acceptor" else "udp"
    let line := opLine (.bind name bind) (if acceptor then .acceptor else .udp) [w, name, kind, bind]
    match m.find bind with
    | none => (m, [line, .quiet])
    | some b =>
      if m.fresh (name ++ ".l") then
        let a : MAddr := ⟨name ++ ".l", w ++ "." ++ kind, { b.f with port := if b.f.port = 0 then eph else b.f.port }⟩
        let m' := m.push a
        (if acceptor then { m' with accs := name :: m'.accs } else { m' with udps := name :: m'.udps }, [line, .addr a.obs])
      else (m, [line])
  | .bindFail acceptor name kind bind =>
    let w := if acceptor then "acceptor" else "udp"
    (m, [opLine (.bind name bind) (if acceptor then .acceptor else .udp) [w, name, kind, bind], .threw false])
  | .dgram label sender receiver =>
    let line := opLine (.dgram label sender) .other ["dgram", label, sender, receiver]
    if m.udps.contains sender && m.udps.contains receiver then
      match m.find (sender ++ ".l"), m.find (receiver ++ ".l") with
      | some s, some r =>
        if m.fresh label then
          let a : MAddr := ⟨label, "dgram", seenBy r.f.v6 s.f⟩
          (m.push a, [line, .addr a.obs])
        else (m, [line])
      | _, _ => (m, [line, .quiet])
    else (m, [line, .quiet])
  | .connect c kind acc src eph =>
    let line := opLine (.connect c acc) .other ["connect", c, kind, acc]
    if m.accs.contains acc then
      match m.find (acc ++ ".l") with
      | some a =>
        if connFresh m c then
          let r := connObs H m c ("connect." ++ kind) (acc ++ ".l") a.f.v6 a.f { a.f with ip := src, port := eph }
          ({ r.1 with conns := (c, kind) :: r.1.conns }, line :: r.2)
        else (m, [line])
      | none => (m, [line, .quiet])
    else (m, [line, .quiet])
  | .connectvia c kind acc via src eph =>
    let line := opLine (.connectvia c) .connectvia ["connectvia", c, kind, acc, via]
    if m.accs.contains acc then
      match m.find (acc ++ ".l"), m.find via with
      | some a, some v =>
        if connFresh m c then
          let d : Fields := { v6 := v.f.v6, ip := v.f.ip, port := a.f.port, scope := v.f.scope }
          let r := connObs H m c ("connect." ++ kind) (acc ++ ".l") a.f.v6 d { d with ip := src, port := eph }
          ({ r.1 with conns := (c, kind) :: r.1.conns }, line :: r.2)
        else (m, [line])
      | _, _ => (m, [line, .quiet])
    else (m, [line, .quiet])
  | .refused c kind acc via =>
    (m, [opLine (.connectvia c) .connectvia ["connectvia", c, kind, acc, via], .threw false])
  | .close c =>
    let line := opLine .other .other ["close", c]
    match m.conns.find? (·.1 == c) with
    | none => (m, [line, .quiet])
    | some (_, kind) =>
      let m0 := { m with conns := m.conns.filter (·.1 != c) }
      if kind == "async" then
        match m.find (c ++ ".cp") with
        | some p =>
          if m.fresh (c ++ ".disc") then
            let a : MAddr := ⟨c ++ ".disc", "close", p.f⟩
            let m' := m0.push a
            (m', [line, .addr a.obs] ++ cmpLabels H m' (c ++ ".disc") (c ++ ".cp"))
          else (m0, [line])
        | none => (m0, [line])
      else (m0, [line])
  | .cmp l1 l2 => (m, opLine .other .other ["cmp", l1, l2] :: cmpLabels H m l1 l2)
  | .cmpall => (m, opLine .cmpall .other ["cmpall"] :: (allPairs m.addrs).map fun p => cmpObs H p.1 p.2)
  | .maps => (m, opLine .other .other ["maps"] :: mapObs H m)

/-- the transcript block of a history -/
def modelTrace (H : List UInt8 → UInt64) (m : MSt) : List Op → List Obs
  | [] => [.fin]
  | op :: ops => (modelStep H m op).2 ++ modelTrace H (modelStep H m op).1 ops

/-- the domain of the theorem: preconditions of the model (`Fields.ok`) and statements about the kernel (the
port it assigns is a port, and not 0; a client's source host has the client's family), plus: the two ends of
a datagram / connection are sockets of the same family (with an IPv4 client behind a dual-stack IPv6 listener
the two ends report different tuples for the same endpoint - known finding F12, see the `example` below) -/
def opOk (m : MSt) : Op → Bool
  | .report _ _ items => items.all fun x => x.2.ok
  | .port _ n host => decide (n < 65536) && host.length == 4
  | .bind _ _ _ _ eph => decide (0 < eph) && decide (eph < 65536)
  | .dgram _ sender receiver =>
    match m.find (sender ++ ".l"), m.find (receiver ++ ".l") with
    | some s, some r => s.f.v6 == r.f.v6
    | _, _ => true
  | .connect _ _ acc src eph =>
    decide (0 < eph) && decide (eph < 65536) &&
    match m.find (acc ++ ".l") with
    | some a => src.length == a.f.ip.length
    | none => true
  | .connectvia _ _ acc via src eph =>
    decide (0 < eph) && decide (eph < 65536) &&
    match m.find (acc ++ ".l"), m.find via with
    | some a, some v => src.length == v.f.ip.length && v.f.v6 == a.f.v6
    | _, _ => true
  | _ => true

def histOk (m : MSt) : List Op → Bool
  | [] => true
  | op :: ops => opOk m op && histOk (modelStep (fun _ => 0) m op).1 ops

/-! ## the model satisfies the predicate -/

theorem Fields.ok_wf {f : Fields} (h : f.ok = true) : f.wf ∧ f.flow = 0 := by
  obtain ⟨v6, ip, port, flow, scope⟩ := f
  simp only [Fields.ok, Bool.and_eq_true, decide_eq_true_eq, beq_iff_eq] at h
  obtain ⟨⟨⟨hp, hf⟩, hs⟩, hv⟩ := h
  refine ⟨⟨hp, by simp [hf], hs, ?_⟩, hf⟩
  cases v6
  · simp only [Bool.false_eq_true, if_false, Bool.and_eq_true, beq_iff_eq] at hv ⊢
    exact ⟨hv.1, hf, hv.2⟩
  · simp only [if_true, beq_iff_eq] at hv ⊢
    exact hv

theorem img_inj {f g : Fields} (hf : f.ok = true) (hg : g.ok = true) : encode f = encode g ↔ f = g := by
  rw [← eq_iff]
  exact Lem.encode_injective f g (Fields.ok_wf hf).1 (Fields.ok_wf hg).1

theorem MAddr.obs_fields {a : MAddr} (h : a.f.ok = true) : a.obs.fields = a.f := by
  have := (Fields.ok_wf h).2
  obtain ⟨l, p, ⟨v6, ip, port, flow, scope⟩⟩ := a
  simp only at this
  simp [MAddr.obs, AddrObs.fields, this]

/-- exactly one of `<`, `==`, `>` -/
theorem tri (x y : Image) :
    (lt x y = true ∧ eq x y = false ∧ lt y x = false) ∨ (lt x y = false ∧ eq x y = true ∧ lt y x = false) ∨
    (lt x y = false ∧ eq x y = false ∧ lt y x = true) := by
  rcases Lem.lt_total x y with h | h | h
  · have h2 := Lem.lt_asymm x y h
    have h3 : eq x y = false := by
      cases he : eq x y
      · rfl
      · have := (Lem.eq_iff_not_lt_not_gt x y).mp he; rw [this.1] at h; cases h
    exact Or.inl ⟨h, h3, h2⟩
  · subst h
    exact Or.inr (Or.inl ⟨Lem.lt_irrefl x, (eq_iff x x).mpr rfl, Lem.lt_irrefl x⟩)
  · have h2 := Lem.lt_asymm y x h
    have h3 : eq x y = false := by
      cases he : eq x y
      · rfl
      · have := (Lem.eq_iff_not_lt_not_gt x y).mp he; rw [this.2] at h; cases h
    exact Or.inr (Or.inr ⟨h2, h3, h⟩)

theorem eq_comm' (x y : Image) : eq x y = eq y x := by
  cases h : eq x y
  · cases h' : eq y x
    · rfl
    · rw [(eq_iff y x).mp h', (eq_iff x x).mpr rfl] at h; cases h
  · rw [(eq_iff x y).mp h, (eq_iff y y).mpr rfl]

/-! ### running the predicate over a list -/

/-- `l` takes the observer from `s` to `s'` without a failure -/
def Steps (s : SpecSt) (l : List Obs) (s' : SpecSt) : Prop := ∀ rest, specRun s (l ++ rest) = specRun s' rest

theorem Steps.nil (s : SpecSt) : Steps s [] s := fun _ => rfl

theorem Steps.cons {s s1 s' : SpecSt} {o : Obs} {l : List Obs} (h : specStep s o = .ok s1) (h' : Steps s1 l s') :
    Steps s (o :: l) s' := by
  intro rest
  show specRun s (o :: (l ++ rest)) = _
  rw [specRun, h]
  exact h' rest

theorem Steps.one {s s1 : SpecSt} {o : Obs} (h : specStep s o = .ok s1) : Steps s [o] s1 := Steps.cons h (Steps.nil _)

theorem Steps.append {s s1 s2 : SpecSt} {l1 l2 : List Obs} (h1 : Steps s l1 s1) (h2 : Steps s1 l2 s2) :
    Steps s (l1 ++ l2) s2 := by
  intro rest
  rw [List.append_assoc, h1, h2]

/-! ### labels -/

theorem findIn_map (l : List MAddr) (x : String) :
    findIn (l.map MAddr.obs) x = (l.find? (·.label == x)).map MAddr.obs := by
  induction l with
  | nil => rfl
  | cons a as ih =>
    simp only [List.map_cons, findIn, List.find?_cons] at ih ⊢
    have : (a.obs.label == x) = (a.label == x) := rfl
    rw [this]
    cases a.label == x
    · simpa using ih
    · rfl

theorem idxIn_map (l : List MAddr) (x : String) (i : Nat) (h : idxIn (l.map MAddr.obs) x = some i) :
    l.find? (·.label == x) = l[i]? ∧ i < l.length := by
  induction l generalizing i with
  | nil => simp [idxIn] at h
  | cons a as ih =>
    simp only [List.map_cons, idxIn] at h
    have : (a.obs.label == x) = (a.label == x) := rfl
    rw [this] at h
    rw [List.find?_cons]
    cases hc : a.label == x
    · simp only [hc, Bool.false_eq_true, if_false, Option.map_eq_some_iff] at h
      obtain ⟨j, hj, rfl⟩ := h
      have := ih j hj
      exact ⟨by simpa using this.1, by simp; exact this.2⟩
    · simp only [hc, if_true, Option.some.injEq] at h
      subst h
      simp

/-! ### invariant of the model, relation to the observer -/

structure MInv (m : MSt) : Prop where
  ok : ∀ a ∈ m.addrs, a.f.ok = true
  self : ∀ a ∈ m.addrs, m.find a.label = some a

/-- a recorded comparison is what the model computes from the images of the two labelled addresses -/
def CmpGood (m : MSt) (c : CmpObs) : Prop :=
  ∃ a b, m.find c.l1 = some a ∧ m.find c.l2 = some b ∧
    c.eq = eq a.img b.img ∧ c.lt = lt a.img b.img ∧ c.gt = lt b.img a.img

structure Core (m : MSt) (sp : SpecSt) : Prop where
  addrs : sp.addrs = m.addrs.map MAddr.obs
  cmps : ∀ c ∈ sp.cmps, CmpGood m c

/-- `Core` plus: the pending end-of-operation check will pass -/
structure Rel (m : MSt) (sp : SpecSt) : Prop extends Core m sp where
  fin : finishOp sp = .ok { sp with op := none }

theorem MSt.find_mem {m : MSt} {l : String} {a : MAddr} (h : m.find l = some a) : a ∈ m.addrs ∧ a.label = l := by
  unfold MSt.find at h
  exact ⟨List.mem_of_find?_eq_some h, by simpa using List.find?_some h⟩

theorem MSt.find_push_of_some {m : MSt} {l : String} {a b : MAddr} (h : m.find l = some a) : (m.push b).find l = some a := by
  unfold MSt.find MSt.push at *
  simp [List.find?_append, h]

theorem MSt.find_push_of_none {m : MSt} {l : String} {b : MAddr} (h : m.find l = none) :
    (m.push b).find l = if b.label == l then some b else none := by
  unfold MSt.find MSt.push at *
  simp only [List.find?_append, h, List.find?_cons, Option.none_or, List.find?_nil]
  cases b.label == l <;> rfl

theorem MSt.find_push_self {m : MSt} {b : MAddr} (h : m.fresh b.label = true) : (m.push b).find b.label = some b := by
  rw [MSt.find_push_of_none (by simpa [MSt.fresh] using h)]
  simp

theorem Core.find {m : MSt} {sp : SpecSt} (h : Core m sp) (l : String) : sp.find l = (m.find l).map MAddr.obs := by
  unfold SpecSt.find MSt.find
  rw [h.addrs, findIn_map]

theorem MInv.push {m : MSt} {a : MAddr} (h : MInv m) (hf : m.fresh a.label = true) (hok : a.f.ok = true) : MInv (m.push a) := by
  constructor
  · intro x hx
    simp only [MSt.push, List.mem_append, List.mem_singleton] at hx
    rcases hx with hx | rfl
    · exact h.ok x hx
    · exact hok
  · intro x hx
    simp only [MSt.push, List.mem_append, List.mem_singleton] at hx
    rcases hx with hx | rfl
    · exact MSt.find_push_of_some (h.self x hx)
    · exact MSt.find_push_self hf

theorem CmpGood.push {m : MSt} {c : CmpObs} (a : MAddr) (h : CmpGood m c) : CmpGood (m.push a) c := by
  obtain ⟨x, y, h1, h2, h3⟩ := h
  exact ⟨x, y, MSt.find_push_of_some h1, MSt.find_push_of_some h2, h3⟩

/-- `MInv`, `CmpGood`, `Core` look at the addresses only -/
theorem MInv.congr {m m' : MSt} (h : MInv m) (e : m'.addrs = m.addrs) : MInv m' := by
  constructor
  · intro a ha; rw [e] at ha; exact h.ok a ha
  · intro a ha; rw [e] at ha
    have := h.self a ha
    unfold MSt.find at *; rw [e]; exact this

theorem Core.congr {m m' : MSt} {sp : SpecSt} (h : Core m sp) (e : m'.addrs = m.addrs) : Core m' sp := by
  constructor
  · rw [e]; exact h.addrs
  · intro c hc
    obtain ⟨x, y, h1, h2, h3⟩ := h.cmps c hc
    refine ⟨x, y, ?_, ?_, h3⟩
    · unfold MSt.find at *; rw [e]; exact h1
    · unfold MSt.find at *; rw [e]; exact h2

/-- a freshly reported address that passes its clauses is recorded -/
theorem addr_step {m : MSt} {sp : SpecSt} {a : MAddr} (hc : Core m sp) (hf : m.fresh a.label = true)
    (hs : specAddr sp a.obs = none) :
    specStep sp (.addr a.obs) = .ok { sp with addrs := sp.addrs ++ [a.obs], opAddrs := sp.opAddrs + 1 } ∧
    Core (m.push a) { sp with addrs := sp.addrs ++ [a.obs], opAddrs := sp.opAddrs + 1 } := by
  constructor
  · have : sp.find a.obs.label = none := by
      rw [hc.find]
      have : a.obs.label = a.label := rfl
      rw [this]
      simpa [MSt.fresh] using hf
    simp [specStep, this, hs]
  · constructor
    · simp [MSt.push, hc.addrs]
    · intro c hcm
      exact (hc.cmps c hcm).push a

/-- a comparison of two addresses of the model passes its clauses and is recorded -/
theorem cmp_step (H : List UInt8 → UInt64) {m : MSt} {sp : SpecSt} {a b : MAddr} (hi : MInv m) (hc : Core m sp)
    (ha : a ∈ m.addrs) (hb : b ∈ m.addrs) :
    specStep sp (cmpObs H a b) = .ok { sp with cmps := ⟨a.label, b.label, eq a.img b.img, lt a.img b.img, lt b.img a.img⟩ :: sp.cmps } ∧
    Core m { sp with cmps := ⟨a.label, b.label, eq a.img b.img, lt a.img b.img, lt b.img a.img⟩ :: sp.cmps } := by
  have fa := hi.self a ha
  have fb := hi.self b hb
  constructor
  · have e1 : sp.find a.label = some a.obs := by rw [hc.find, fa]; rfl
    have e2 : sp.find b.label = some b.obs := by rw [hc.find, fb]; rfl
    have hfe : (a.obs.fields == b.obs.fields) = eq a.img b.img := by
      rw [MAddr.obs_fields (hi.ok a ha), MAddr.obs_fields (hi.ok b hb)]
      cases he : eq a.img b.img
      · have : a.f ≠ b.f := by
          intro e
          have : a.img = b.img := by unfold MAddr.img; rw [e]
          rw [(eq_iff _ _).mpr this] at he; cases he
        simpa using this
      · have := (img_inj (hi.ok a ha) (hi.ok b hb)).mp ((eq_iff _ _).mp he)
        simpa using this
    have hspec : specCmp a.obs b.obs a.label b.label (eq a.img b.img) (ne a.img b.img) (lt a.img b.img) (lt b.img a.img)
        (hash H a.img == hash H b.img) = none := by
      have hself : a.label = b.label → a.img = b.img := by
        intro e
        rw [e] at fa
        rw [fa] at fb
        cases fb; rfl
      unfold specCmp
      simp only [hfe, ne]
      rcases tri a.img b.img with ⟨h1, h2, h3⟩ | ⟨h1, h2, h3⟩ | ⟨h1, h2, h3⟩
      · simp only [h1, h2, h3]
        have : a.label ≠ b.label := by
          intro e; rw [(eq_iff _ _).mpr (hself e)] at h2; cases h2
        simp [this]
      · simp only [h1, h2, h3]
        have : hash H a.img = hash H b.img := by rw [(eq_iff _ _).mp h2]
        simp [this]
      · simp only [h1, h2, h3]
        have : a.label ≠ b.label := by
          intro e; rw [(eq_iff _ _).mpr (hself e)] at h2; cases h2
        simp [this]
    simp only [cmpObs, specStep, e1, e2, hspec]
  · constructor
    · exact hc.addrs
    · intro c hcm
      simp only [List.mem_cons] at hcm
      rcases hcm with rfl | hcm
      · exact ⟨a, b, fa, fb, rfl, rfl, rfl⟩
      · exact hc.cmps c hcm

/-- a list of comparisons of addresses of the model -/
theorem cmps_steps (H : List UInt8 → UInt64) {m : MSt} (hi : MInv m) (ps : List (MAddr × MAddr))
    (hps : ∀ p ∈ ps, p.1 ∈ m.addrs ∧ p.2 ∈ m.addrs) :
    ∀ sp, Core m sp → ∃ sp', Steps sp (ps.map fun p => cmpObs H p.1 p.2) sp' ∧ Core m sp' ∧
      sp'.addrs = sp.addrs ∧ sp'.op = sp.op ∧ sp'.opAddrs = sp.opAddrs := by
  induction ps with
  | nil => intro sp hc; exact ⟨sp, Steps.nil _, hc, rfl, rfl, rfl⟩
  | cons p ps ih =>
    intro sp hc
    have hp := hps p List.mem_cons_self
    have ⟨h1, h2⟩ := cmp_step H hi hc hp.1 hp.2
    obtain ⟨sp', hs, hc', e1, e2, e3⟩ := ih (fun q hq => hps q (List.mem_cons_of_mem _ hq)) _ h2
    exact ⟨sp', Steps.cons h1 hs, hc', e1, e2, e3⟩

theorem cmpLabels_steps (H : List UInt8 → UInt64) {m : MSt} (hi : MInv m) (l1 l2 : String) :
    ∀ sp, Core m sp → ∃ sp', Steps sp (cmpLabels H m l1 l2) sp' ∧ Core m sp' ∧
      sp'.addrs = sp.addrs ∧ sp'.op = sp.op ∧ sp'.opAddrs = sp.opAddrs := by
  intro sp hc
  unfold cmpLabels
  cases h1 : m.find l1 with
  | none => exact ⟨sp, Steps.nil _, hc, rfl, rfl, rfl⟩
  | some a =>
    cases h2 : m.find l2 with
    | none => exact ⟨sp, Steps.nil _, hc, rfl, rfl, rfl⟩
    | some b =>
      have := cmps_steps H hi [(a, b)] (by
        intro p hp
        simp only [List.mem_singleton] at hp
        subst hp
        exact ⟨(MSt.find_mem h1).1, (MSt.find_mem h2).1⟩) sp hc
      simpa using this

/-! ### transitivity over the reported relation -/

theorem firstErr_none {α : Type} (f : α → Option String) (l : List α) (h : ∀ x ∈ l, f x = none) : firstErr f l = none := by
  induction l with
  | nil => rfl
  | cons x xs ih =>
    simp only [firstErr, h x List.mem_cons_self]
    exact ih fun y hy => h y (List.mem_cons_of_mem _ hy)

/-- the entries of a relation matrix are what `lt` / `eq` give for some assignment of images -/
def CellsGood (img : Nat → Image) (n : Nat) (mat : Array Cell) : Prop :=
  ∀ i j v, i < n → j < n → cell mat n i j = some v → v.1 = lt (img i) (img j) ∧ v.2 = eq (img i) (img j)

theorem pair_inj {n i j i0 j0 : Nat} (hj : j < n) (hj0 : j0 < n) (h : i * n + j = i0 * n + j0) : i = i0 ∧ j = j0 := by
  rcases Nat.lt_trichotomy i i0 with hlt | heq | hgt
  · have := Nat.mul_le_mul_right n (Nat.succ_le_of_lt hlt)
    rw [Nat.succ_mul] at this
    omega
  · subst heq; omega
  · have := Nat.mul_le_mul_right n (Nat.succ_le_of_lt hgt)
    rw [Nat.succ_mul] at this
    omega

theorem CellsGood.set {img : Nat → Image} {n : Nat} {mat : Array Cell} (h : CellsGood img n mat) {i0 j0 : Nat}
    (hi0 : i0 < n) (hj0 : j0 < n) (v0 : Bool × Bool)
    (hv : v0.1 = lt (img i0) (img j0) ∧ v0.2 = eq (img i0) (img j0)) :
    CellsGood img n (mat.setIfInBounds (i0 * n + j0) (some v0)) := by
  intro i j v hi hj hc
  have hc0 := h i j v hi hj
  unfold cell at hc hc0
  rw [Array.getD_eq_getD_getElem?] at hc hc0
  rw [Array.getElem?_setIfInBounds] at hc
  by_cases e : i0 * n + j0 = i * n + j
  · have ⟨e1, e2⟩ := pair_inj hj hj0 e.symm
    subst e1; subst e2
    simp only [if_true] at hc
    split at hc
    · cases hc; exact hv
    · cases hc
  · simp only [e, if_false] at hc
    exact hc0 hc

theorem checkTriple_good (img : Nat → Image) (label : Nat → String) (i j k : Nat) (ij jk ik : Bool × Bool)
    (h1 : ij.1 = lt (img i) (img j) ∧ ij.2 = eq (img i) (img j))
    (h2 : jk.1 = lt (img j) (img k) ∧ jk.2 = eq (img j) (img k))
    (h3 : ik.1 = lt (img i) (img k) ∧ ik.2 = eq (img i) (img k)) :
    checkTriple label i j k ij jk ik = none := by
  unfold checkTriple
  rw [h1.1, h1.2, h2.1, h2.2, h3.1, h3.2]
  have c1 : ¬ (lt (img i) (img j) = true ∧ lt (img j) (img k) = true ∧ (!lt (img i) (img k)) = true) := by
    intro ⟨a, b, c⟩
    rw [Lem.lt_trans _ _ _ a b] at c; cases c
  have c2 : ¬ (eq (img i) (img j) = true ∧ eq (img j) (img k) = true ∧ (!eq (img i) (img k)) = true) := by
    intro ⟨a, b, c⟩
    rw [(eq_iff _ _).mp a, b] at c; cases c
  have c3 : ¬ (eq (img i) (img j) = true ∧ lt (img j) (img k) ≠ lt (img i) (img k)) := by
    intro ⟨a, b⟩
    rw [(eq_iff _ _).mp a] at b; exact b rfl
  simp only [c1, c2, c3, if_false]

theorem checkTriples_good (img : Nat → Image) (n : Nat) (label : Nat → String) (mat : Array Cell)
    (h : CellsGood img n mat) : checkTriples n label mat = none := by
  unfold checkTriples
  apply firstErr_none
  intro i hi
  apply firstErr_none
  intro j hj
  have hi' : i < n := List.mem_range.mp hi
  have hj' : j < n := List.mem_range.mp hj
  cases hij : cell mat n i j with
  | none => rfl
  | some ij =>
    simp only
    apply firstErr_none
    intro k hk
    have hk' : k < n := List.mem_range.mp hk
    cases hjk : cell mat n j k with
    | none => rfl
    | some jk =>
      cases hik : cell mat n i k with
      | none => rfl
      | some ik =>
        exact checkTriple_good img label i j k ij jk ik (h i j ij hi' hj' hij) (h j k jk hj' hk' hjk) (h i k ik hi' hk' hik)

theorem specTrans_ok {m : MSt} {sp : SpecSt} (hc : Core m sp) : specTrans sp = none := by
  unfold specTrans
  let img : Nat → Image := fun i => ((m.addrs[i]?).map MAddr.img).getD []
  apply checkTriples_good img
  -- the matrix is good
  have hlen : sp.addrs.length = m.addrs.length := by rw [hc.addrs]; simp
  have key : ∀ cs : List CmpObs, (∀ c ∈ cs, CmpGood m c) →
      CellsGood img sp.addrs.length (mkRel sp.addrs.length (idxIn sp.addrs) cs) := by
    intro cs
    induction cs with
    | nil =>
      intro _ i j v _ _ hcell
      simp only [mkRel, cell, List.foldr_nil, Array.getD_eq_getD_getElem?, Array.getElem?_replicate] at hcell
      split at hcell <;> cases hcell
    | cons c cs ih =>
      intro hgood
      have ih' := ih fun c' hc' => hgood c' (List.mem_cons_of_mem _ hc')
      obtain ⟨a, b, fa, fb, he, hl, hg⟩ := hgood c List.mem_cons_self
      show CellsGood img _ (setCmp _ _ (mkRel _ _ cs) c)
      unfold setCmp
      cases h1 : idxIn sp.addrs c.l1 with
      | none => exact ih'
      | some i =>
        cases h2 : idxIn sp.addrs c.l2 with
        | none => exact ih'
        | some j =>
          simp only
          rw [hc.addrs] at h1 h2
          have ⟨e1, l1⟩ := idxIn_map _ _ _ h1
          have ⟨e2, l2⟩ := idxIn_map _ _ _ h2
          have ia : img i = a.img := by
            show ((m.addrs[i]?).map MAddr.img).getD [] = _
            rw [← e1]; unfold MSt.find at fa; rw [fa]; rfl
          have jb : img j = b.img := by
            show ((m.addrs[j]?).map MAddr.img).getD [] = _
            rw [← e2]; unfold MSt.find at fb; rw [fb]; rfl
          apply CellsGood.set
          · apply CellsGood.set ih' (by omega) (by omega)
            rw [ia, jb]; exact ⟨hl, he⟩
          · omega
          · omega
          · rw [ia, jb]; exact ⟨hg, by rw [he]; exact eq_comm' _ _⟩
  exact key sp.cmps hc.cmps

/-! ### containers -/

theorem find?_congr' {α : Type} {p q : α → Bool} : ∀ (l : List α), (∀ x ∈ l, p x = q x) → l.find? p = l.find? q
  | [], _ => rfl
  | x :: xs, h => by
    simp only [List.find?_cons, h x List.mem_cons_self]
    cases q x
    · exact find?_congr' xs fun y hy => h y (List.mem_cons_of_mem _ hy)
    · rfl

theorem length_mapInsert {V : Type} (k : Image) (v : V) (m : List (Image × V)) :
    (mapInsert k v m).length = if (mapFind k m).isSome then m.length else m.length + 1 := by
  induction m with
  | nil => simp [mapInsert, mapFind]
  | cons hd rest ih =>
    obtain ⟨k0, v0⟩ := hd
    unfold mapInsert
    rw [mapFind_cons]
    by_cases h1 : lt k k0 = true
    · simp [h1]
    · by_cases h2 : lt k0 k = true
      · simp only [h1, h2, if_true, Bool.false_eq_true, if_false, List.length_cons, ih]
        split <;> rfl
      · simp [h1, h2]

/-- after `emplace` of all items a lookup finds what it found before, else the first item with that key -/
theorem mapFind_foldl (k : Image) (items : List (Image × String)) :
    ∀ m0, mapFind k (items.foldl mapEmplace m0) =
      match mapFind k m0 with
      | some v => some v
      | none => (items.find? (·.1 == k)).map (·.2) := by
  induction items with
  | nil => intro m0; simp only [List.foldl_nil, List.find?_nil, Option.map_none]; split <;> simp_all
  | cons kv items ih =>
    intro m0
    obtain ⟨k1, v1⟩ := kv
    rw [List.foldl_cons, ih]
    unfold mapEmplace
    simp only [List.find?_cons]
    cases h1 : mapFind k1 m0 with
    | some w =>
      simp only
      cases h0 : mapFind k m0 with
      | some v => rfl
      | none =>
        have : (k1 == k) = false := by
          cases hk : k1 == k
          · rfl
          · have : k1 = k := by simpa using hk
            subst this; rw [h1] at h0; cases h0
        simp [this]
    | none =>
      simp only [Lem.mapFind_insert]
      by_cases hk : k = k1
      · subst hk
        simp [h1]
      · have : (k1 == k) = false := by simpa using fun e : k1 = k => hk e.symm
        simp only [hk, if_false, this]

theorem umFind_eq (H : List UInt8 → UInt64) (k : Image) (m : List (Image × String)) :
    umFind H k m = (m.find? (·.1 == k)).map (·.2) := by
  unfold umFind
  induction m with
  | nil => rfl
  | cons e rest ih =>
    obtain ⟨k1, v1⟩ := e
    simp only [List.filter_cons, List.find?_cons]
    by_cases hk : k1 = k
    · subst hk
      simp [bucketFind, (eq_iff k1 k1).mpr rfl]
    · have h1 : (k1 == k) = false := by simpa using hk
      have h2 : eq k k1 = false := by
        cases h : eq k k1
        · rfl
        · exact absurd ((eq_iff _ _).mp h).symm hk
      simp only [h1]
      split
      · simp only [bucketFind, h2, Bool.false_eq_true, if_false]; exact ih
      · exact ih

theorem umFind_foldl (H : List UInt8 → UInt64) (k : Image) (items : List (Image × String)) :
    ∀ m0, ((items.foldl (umEmplace H) m0).find? (·.1 == k)) =
      match m0.find? (·.1 == k) with
      | some v => some v
      | none => items.find? (·.1 == k) := by
  induction items with
  | nil => intro m0; simp only [List.foldl_nil, List.find?_nil]; cases m0.find? (·.1 == k) <;> rfl
  | cons kv items ih =>
    intro m0
    obtain ⟨k1, v1⟩ := kv
    rw [List.foldl_cons, ih]
    unfold umEmplace
    rw [umFind_eq]
    simp only [List.find?_cons]
    cases h1 : m0.find? (·.1 == k1) with
    | some w =>
      simp only [Option.map_some]
      cases h0 : m0.find? (·.1 == k) with
      | some v => rfl
      | none =>
        have : (k1 == k) = false := by
          cases hk : k1 == k
          · rfl
          · have : k1 = k := by simpa using hk
            subst this; rw [h1] at h0; cases h0
        simp [this]
    | none =>
      simp only [Option.map_none, List.find?_append, List.find?_cons, List.find?_nil]
      cases h0 : m0.find? (·.1 == k) with
      | some v => simp
      | none => cases k1 == k <;> simp

/-- one step of the observer's count of distinct field tuples -/
def distinctStep (acc : List Fields) (f : Fields) : List Fields := if acc.contains f then acc else f :: acc

theorem any_congr' {α : Type} {p q : α → Bool} : ∀ (l : List α), (∀ x ∈ l, p x = q x) → l.any p = l.any q
  | [], _ => rfl
  | x :: xs, h => by
    simp only [List.any_cons, h x List.mem_cons_self]
    rw [any_congr' xs fun y hy => h y (List.mem_cons_of_mem _ hy)]

/-- the containers built so far hold exactly the images of the tuples counted so far -/
structure MapInv (om um : List (Image × String)) (acc : List Fields) : Prop where
  fo : ∀ k, (mapFind k om).isSome = acc.any (encode · == k)
  fu : ∀ k, (um.find? (·.1 == k)).isSome = acc.any (encode · == k)
  lenO : om.length = acc.length
  lenU : um.length = acc.length
  ok : ∀ f ∈ acc, f.ok = true

theorem MapInv.step (H : List UInt8 → UInt64) {om um : List (Image × String)} {acc : List Fields}
    (h : MapInv om um acc) (a : MAddr) (hok : a.f.ok = true) :
    MapInv (mapEmplace om (a.img, a.label)) (umEmplace H um (a.img, a.label)) (distinctStep acc a.f) := by
  have hc : acc.contains a.f = acc.any (encode · == a.img) := by
    rw [List.contains_eq_any_beq]
    apply any_congr'
    intro x hx
    have := img_inj (h.ok x hx) hok
    unfold MAddr.img
    by_cases e : x = a.f
    · subst e; simp
    · have e' : ¬ encode x = encode a.f := fun q => e (this.mp q)
      have e2 : ¬ a.f = x := fun q => e q.symm
      have b1 : (a.f == x) = false := by simpa using e2
      have b2 : (encode x == encode a.f) = false := by simpa using e'
      rw [b1, b2]
  unfold mapEmplace umEmplace distinctStep
  rw [umFind_eq]
  have ho := h.fo a.img
  have hu := h.fu a.img
  rw [← hc] at ho hu
  cases hcc : acc.contains a.f with
  | true =>
    rw [hcc] at ho hu
    simp only [if_true]
    cases h1 : mapFind a.img om with
    | none => rw [h1] at ho; cases ho
    | some v =>
      cases h2 : um.find? (·.1 == a.img) with
      | none => rw [h2] at hu; cases hu
      | some w => exact h
  | false =>
    rw [hcc] at ho hu
    simp only [Bool.false_eq_true, if_false]
    cases h1 : mapFind a.img om with
    | some v => rw [h1] at ho; cases ho
    | none =>
      cases h2 : um.find? (·.1 == a.img) with
      | some w => rw [h2] at hu; cases hu
      | none =>
        simp only [Option.map_none]
        constructor
        · intro k
          rw [Lem.mapFind_insert, List.any_cons, ← h.fo k]
          by_cases e : k = a.img
          · subst e; simp [MAddr.img]
          · have : ¬ encode a.f = k := fun q => e q.symm
            simp [e, this]
        · intro k
          rw [List.find?_append, List.any_cons, ← h.fu k]
          simp only [List.find?_cons, List.find?_nil]
          have : (encode a.f == k) = (a.img == k) := rfl
          rw [this]
          cases um.find? (·.1 == k) <;> cases a.img == k <;> rfl
        · rw [length_mapInsert, h1]; simp [h.lenO]
        · simp [h.lenU]
        · intro f hf
          rcases List.mem_cons.mp hf with rfl | hf
          · exact hok
          · exact h.ok f hf

theorem MapInv.foldl (H : List UInt8 → UInt64) (l : List MAddr) (hl : ∀ a ∈ l, a.f.ok = true) :
    ∀ om um acc, MapInv om um acc →
      MapInv (l.foldl (fun m a => mapEmplace m (a.img, a.label)) om)
        (l.foldl (fun m a => umEmplace H m (a.img, a.label)) um) (l.foldl (fun acc a => distinctStep acc a.f) acc) := by
  induction l with
  | nil => intro om um acc h; exact h
  | cons a l ih =>
    intro om um acc h
    simp only [List.foldl_cons]
    exact ih (fun x hx => hl x (List.mem_cons_of_mem _ hx)) _ _ _ (h.step H a (hl a List.mem_cons_self))

theorem distinctFields_eq {m : MSt} {sp : SpecSt} (hi : MInv m) (hc : Core m sp) :
    distinctFields sp = (m.addrs.foldl (fun acc a => distinctStep acc a.f) []).length := by
  unfold distinctFields
  rw [hc.addrs, List.foldl_map]
  suffices ∀ (l : List MAddr) (acc : List Fields), (∀ a ∈ l, a.f.ok = true) →
      l.foldl (fun acc a => if acc.contains a.obs.fields then acc else a.obs.fields :: acc) acc =
      l.foldl (fun acc a => distinctStep acc a.f) acc by
    rw [this _ _ hi.ok]
  intro l
  induction l with
  | nil => intro _ _; rfl
  | cons a l ih =>
    intro acc h
    simp only [List.foldl_cons]
    rw [MAddr.obs_fields (h a List.mem_cons_self)]
    exact ih _ fun x hx => h x (List.mem_cons_of_mem _ hx)

/-- both containers of the model hold one entry per distinct field tuple -/
theorem container_sizes (H : List UInt8 → UInt64) {m : MSt} {sp : SpecSt} (hi : MInv m) (hc : Core m sp) :
    (omOf (m.addrs.map fun a => (a.img, a.label))).length = distinctFields sp ∧
    (umOf H (m.addrs.map fun a => (a.img, a.label))).length = distinctFields sp := by
  have := MapInv.foldl H m.addrs hi.ok [] [] [] ⟨fun _ => rfl, fun _ => rfl, rfl, rfl, fun _ h => by cases h⟩
  rw [distinctFields_eq hi hc]
  unfold omOf umOf
  rw [List.foldl_map, List.foldl_map]
  exact ⟨this.lenO, this.lenU⟩

/-- a lookup of an address of the model finds the first address with the same field tuple, in both containers -/
theorem lookup_ok (H : List UInt8 → UInt64) {m : MSt} {sp : SpecSt} (hi : MInv m) (hc : Core m sp) {a : MAddr}
    (ha : a ∈ m.addrs) :
    some ((mapFind a.img (omOf (m.addrs.map fun a => (a.img, a.label)))).getD "none") = firstWithFields sp a.obs.fields ∧
    some ((umFind H a.img (umOf H (m.addrs.map fun a => (a.img, a.label)))).getD "none") = firstWithFields sp a.obs.fields := by
  have hw : firstWithFields sp a.obs.fields = (m.addrs.find? (fun x => x.img == a.img)).map (·.label) := by
    unfold firstWithFields
    rw [hc.addrs, List.find?_map, Option.map_map]
    have : m.addrs.find? ((fun x : AddrObs => x.fields == a.obs.fields) ∘ MAddr.obs) = m.addrs.find? (fun x => x.img == a.img) := by
      apply find?_congr'
      intro x hx
      simp only [Function.comp]
      rw [MAddr.obs_fields (hi.ok x hx), MAddr.obs_fields (hi.ok a ha)]
      have := img_inj (hi.ok x hx) (hi.ok a ha)
      unfold MAddr.img
      by_cases e : x.f = a.f
      · simp [e]
      · have e' : ¬ encode x.f = encode a.f := fun q => e (this.mp q)
        have b1 : (x.f == a.f) = false := by simpa using e
        have b2 : (encode x.f == encode a.f) = false := by simpa using e'
        rw [b1, b2]
    rw [this]
    rfl
  have hex : ∃ x, m.addrs.find? (fun x => x.img == a.img) = some x := by
    cases h : m.addrs.find? (fun x => x.img == a.img) with
    | some x => exact ⟨x, rfl⟩
    | none =>
      have := List.find?_eq_none.mp h a ha
      simp at this
  obtain ⟨x, hx⟩ := hex
  have hitems : (m.addrs.map fun a => (a.img, a.label)).find? (·.1 == a.img) = some (x.img, x.label) := by
    rw [List.find?_map]
    have : ((fun e : Image × String => e.1 == a.img) ∘ fun a : MAddr => (a.img, a.label)) = fun x => x.img == a.img := rfl
    rw [this, hx]; rfl
  rw [hw, hx]
  constructor
  · unfold omOf
    rw [mapFind_foldl, mapFind_nil, hitems]; rfl
  · unfold umOf
    rw [umFind_eq, umFind_foldl, hitems]; rfl

/-! ### one operation -/

/-- ops without an end-of-operation check -/
def OpK.simple : OpK → Bool
  | .connect .. | .connectvia .. | .cmpall => false
  | _ => true

/-- ops without a clause on the addresses they report -/
def OpK.neutral : OpK → Bool
  | .other | .connect .. | .connectvia .. | .cmpall => true
  | _ => false

theorem finishOp_simple {sp : SpecSt} (h : sp.opK.simple = true) : finishOp sp = .ok { sp with op := none } := by
  unfold finishOp
  cases h' : sp.opK <;> simp_all [OpK.simple]

theorem Core.rel_simple {m : MSt} {sp : SpecSt} (h : Core m sp) (hs : sp.opK.simple = true) : Rel m sp :=
  { h with fin := finishOp_simple hs }

theorem specAddr_neutral {sp : SpecSt} (a : MAddr) (h : sp.opK.neutral = true) : specAddr sp a.obs = none := by
  unfold specAddr
  have : (a.obs.serv == Decimal.render a.obs.port) = true := by simp [MAddr.obs]
  simp only [this, Bool.not_true, Bool.false_eq_true, if_false]
  cases h' : sp.opK <;> simp_all [OpK.neutral]

/-- the op line: the pending check passes (`Rel.fin`), the new op is being read -/
theorem op_step {m : MSt} {sp : SpecSt} (hr : Rel m sp) (o : OpLine) :
    specStep sp (.op o) = .ok { sp with op := some o, opAddrs := 0 } ∧ Core m { sp with op := some o, opAddrs := 0 } := by
  constructor
  · simp only [specStep, hr.fin]
  · exact ⟨hr.addrs, hr.cmps⟩

theorem quiet_step (sp : SpecSt) : specStep sp .quiet = .ok sp := rfl

theorem Fields.ok_port {f : Fields} (h : f.ok = true) : f.port < 65536 := (Fields.ok_wf h).1.1

theorem Fields.ok_setPort {f : Fields} (h : f.ok = true) {p : Nat} (hp : p < 65536) : ({ f with port := p } : Fields).ok = true := by
  obtain ⟨v6, ip, port, flow, scope⟩ := f
  simp only [Fields.ok, Bool.and_eq_true, decide_eq_true_eq] at h ⊢
  exact ⟨⟨⟨hp, h.1.1.2⟩, h.1.2⟩, h.2⟩

theorem Fields.ok_setIpPort {f : Fields} (h : f.ok = true) {p : Nat} (hp : p < 65536) {ip : List UInt8}
    (hl : ip.length = f.ip.length) : ({ f with ip := ip, port := p } : Fields).ok = true := by
  obtain ⟨v6, ip0, port, flow, scope⟩ := f
  simp only [Fields.ok, Bool.and_eq_true, decide_eq_true_eq] at h ⊢
  simp only at hl
  refine ⟨⟨⟨hp, h.1.1.2⟩, h.1.2⟩, ?_⟩
  rw [hl]; exact h.2

theorem seenBy_same {v6 : Bool} {f : Fields} (h : f.v6 = v6) : seenBy v6 f = f := by
  subst h
  unfold seenBy
  cases f.v6 <;> rfl

theorem MSt.fresh_push {m : MSt} {l : String} {b : MAddr} (h : m.fresh l = true) (hne : b.label ≠ l) :
    (m.push b).fresh l = true := by
  unfold MSt.fresh at *
  rw [MSt.find_push_of_none (by simpa using h)]
  have : (b.label == l) = false := by simpa using hne
  simp [this]

/-! #### `report` -/

theorem reportAll_steps (prov : String) (items : List (String × Fields)) (hok : ∀ x ∈ items, x.2.ok = true) :
    ∀ (m : MSt) (sp : SpecSt), MInv m → Core m sp → sp.opK.neutral = true →
      ∃ sp', Steps sp (reportAll prov m items).2 sp' ∧ Core (reportAll prov m items).1 sp' ∧
        MInv (reportAll prov m items).1 ∧ sp'.op = sp.op := by
  induction items with
  | nil => intro m sp hi hc _; exact ⟨sp, Steps.nil _, hc, hi, rfl⟩
  | cons x items ih =>
    intro m sp hi hc hn
    obtain ⟨l, f⟩ := x
    have hf : f.ok = true := hok (l, f) List.mem_cons_self
    have ih' := ih fun y hy => hok y (List.mem_cons_of_mem _ hy)
    unfold reportAll
    by_cases hfr : m.fresh l = true
    · simp only [hfr, if_true]
      have ⟨h1, h2⟩ := addr_step (a := ⟨l, prov, f⟩) hc hfr (specAddr_neutral _ hn)
      obtain ⟨sp', hs, hc', hi', hop⟩ := ih' _ _ (hi.push (a := ⟨l, prov, f⟩) hfr hf) h2 hn
      exact ⟨sp', Steps.cons h1 hs, hc', hi', hop⟩
    · simp only [hfr, Bool.false_eq_true, if_false]
      exact ih' m sp hi hc hn

/-! #### connections -/

def pushAll (m : MSt) (L : List MAddr) : MSt := L.foldl MSt.push m

def FreshList : MSt → List MAddr → Prop
  | _, [] => True
  | m, a :: L => m.fresh a.label = true ∧ FreshList (m.push a) L

theorem pushAll_find_of_some {m : MSt} {l : String} {a : MAddr} (L : List MAddr) (h : m.find l = some a) :
    (pushAll m L).find l = some a := by
  induction L generalizing m with
  | nil => exact h
  | cons b L ih => exact ih (MSt.find_push_of_some h)

theorem pushAll_mem {m : MSt} (L : List MAddr) : ∀ a ∈ L, a ∈ (pushAll m L).addrs := by
  induction L generalizing m with
  | nil => intro a h; cases h
  | cons b L ih =>
    intro a ha
    rcases List.mem_cons.mp ha with rfl | ha
    · have : a ∈ (m.push a).addrs := by simp [MSt.push]
      suffices ∀ (L : List MAddr) (m : MSt), a ∈ m.addrs → a ∈ (pushAll m L).addrs from this L _ ‹_›
      intro L
      induction L with
      | nil => intro m h; exact h
      | cons c L ih2 => intro m h; exact ih2 _ (by simp [MSt.push, h])
    · exact ih a ha

theorem addrs_steps (L : List MAddr) (hok : ∀ a ∈ L, a.f.ok = true) :
    ∀ (m : MSt) (sp : SpecSt), MInv m → Core m sp → sp.opK.neutral = true → FreshList m L →
      ∃ sp', Steps sp (L.map fun a => Obs.addr a.obs) sp' ∧ Core (pushAll m L) sp' ∧ MInv (pushAll m L) ∧
        sp'.op = sp.op ∧ sp'.opAddrs = sp.opAddrs + L.length := by
  induction L with
  | nil => intro m sp hi hc _ _; exact ⟨sp, Steps.nil _, hc, hi, rfl, rfl⟩
  | cons a L ih =>
    intro m sp hi hc hn hfr
    have ⟨h1, h2⟩ := addr_step (a := a) hc hfr.1 (specAddr_neutral _ hn)
    obtain ⟨sp', hs, hc', hi', hop, hcount⟩ := ih (fun y hy => hok y (List.mem_cons_of_mem _ hy)) _ _
      (hi.push hfr.1 (hok a List.mem_cons_self)) h2 hn hfr.2
    refine ⟨sp', Steps.cons h1 hs, hc', hi', hop, ?_⟩
    rw [hcount]; simp only [List.length_cons]; omega

theorem sfx_ne (c x y : String) (h : x ≠ y) : c ++ x ≠ c ++ y := fun e => h ((String.append_right_inj c).mp e)

theorem conn_steps (H : List UInt8 → UInt64) {m : MSt} {sp : SpecSt} (hi : MInv m) (hc : Core m sp)
    (c prov accL : String) (av6 : Bool) (d cl : Fields) (hfr : connFresh m c = true)
    (hn : sp.opK.neutral = true) (h0 : sp.opAddrs = 0) (hd : d.ok = true) (hcl : cl.ok = true)
    (hdv : d.v6 = av6) (hclv : cl.v6 = av6) (hport : cl.port ≠ 0) :
    ∃ sp', Steps sp (connObs H m c prov accL av6 d cl).2 sp' ∧ Core (connObs H m c prov accL av6 d cl).1 sp' ∧
      MInv (connObs H m c prov accL av6 d cl).1 ∧ sp'.op = sp.op ∧ sp'.opAddrs = 5 ∧
      specConn sp' c none = none ∧
      (∀ acc al, m.find (acc ++ ".l") = some al → al.f = d → specConn sp' c (some acc) = none) := by
  simp only [connFresh, Bool.and_eq_true] at hfr
  obtain ⟨⟨⟨⟨f1, f2⟩, f3⟩, f4⟩, f5⟩ := hfr
  let a1 : MAddr := ⟨c ++ ".cl", prov, cl⟩
  let a2 : MAddr := ⟨c ++ ".cp", prov, d⟩
  let a3 : MAddr := ⟨c ++ ".rep", prov, cl⟩
  let a4 : MAddr := ⟨c ++ ".sl", prov, d⟩
  let a5 : MAddr := ⟨c ++ ".sp", prov, cl⟩
  have hfl : FreshList m [a1, a2, a3, a4, a5] := by
    refine ⟨f1, MSt.fresh_push f2 (sfx_ne c _ _ (by decide)), ?_, ?_, ?_, trivial⟩
    · exact MSt.fresh_push (MSt.fresh_push f3 (sfx_ne c _ _ (by decide))) (sfx_ne c _ _ (by decide))
    · exact MSt.fresh_push (MSt.fresh_push (MSt.fresh_push f4 (sfx_ne c _ _ (by decide))) (sfx_ne c _ _ (by decide)))
        (sfx_ne c _ _ (by decide))
    · exact MSt.fresh_push (MSt.fresh_push (MSt.fresh_push (MSt.fresh_push f5 (sfx_ne c _ _ (by decide)))
        (sfx_ne c _ _ (by decide))) (sfx_ne c _ _ (by decide))) (sfx_ne c _ _ (by decide))
  have hoks : ∀ a ∈ [a1, a2, a3, a4, a5], a.f.ok = true := by
    intro a ha
    simp only [List.mem_cons, List.mem_nil_iff, or_false] at ha
    rcases ha with rfl | rfl | rfl | rfl | rfl <;> assumption
  obtain ⟨s1, st1, c1, i1, o1, n1⟩ := addrs_steps [a1, a2, a3, a4, a5] hoks m sp hi hc hn hfl
  have hm' : (connObs H m c prov accL av6 d cl).1 = pushAll m [a1, a2, a3, a4, a5] := by
    simp only [connObs, seenBy_same hdv, seenBy_same hclv]; rfl
  have hobs : (connObs H m c prov accL av6 d cl).2 = ([a1, a2, a3, a4, a5].map fun a => Obs.addr a.obs) ++
      (cmpLabels H (pushAll m [a1, a2, a3, a4, a5]) (c ++ ".cl") (c ++ ".rep") ++
       (cmpLabels H (pushAll m [a1, a2, a3, a4, a5]) (c ++ ".cl") (c ++ ".sp") ++
       (cmpLabels H (pushAll m [a1, a2, a3, a4, a5]) (c ++ ".rep") (c ++ ".sp") ++
       (cmpLabels H (pushAll m [a1, a2, a3, a4, a5]) (c ++ ".cp") (c ++ ".sl") ++
        cmpLabels H (pushAll m [a1, a2, a3, a4, a5]) (c ++ ".cp") accL)))) := by
    simp only [connObs, seenBy_same hdv, seenBy_same hclv, List.append_assoc]; rfl
  rw [hm', hobs]
  generalize hM : pushAll m [a1, a2, a3, a4, a5] = M at *
  obtain ⟨s2, st2, c2, e2a, e2o, e2n⟩ := cmpLabels_steps H i1 (c ++ ".cl") (c ++ ".rep") s1 c1
  obtain ⟨s3, st3, c3, e3a, e3o, e3n⟩ := cmpLabels_steps H i1 (c ++ ".cl") (c ++ ".sp") s2 c2
  obtain ⟨s4, st4, c4, e4a, e4o, e4n⟩ := cmpLabels_steps H i1 (c ++ ".rep") (c ++ ".sp") s3 c3
  obtain ⟨s5, st5, c5, e5a, e5o, e5n⟩ := cmpLabels_steps H i1 (c ++ ".cp") (c ++ ".sl") s4 c4
  obtain ⟨s6, st6, c6, e6a, e6o, e6n⟩ := cmpLabels_steps H i1 (c ++ ".cp") accL s5 c5
  have hfind : ∀ a ∈ [a1, a2, a3, a4, a5], s6.find a.label = some a.obs := by
    intro a ha
    rw [c6.find, i1.self a (by rw [← hM]; exact pushAll_mem _ a ha)]; rfl
  have g1 := hfind a1 (by simp)
  have g2 := hfind a2 (by simp)
  have g3 := hfind a3 (by simp)
  have g4 := hfind a4 (by simp)
  have g5 := hfind a5 (by simp)
  have hp : ¬ a1.obs.port = 0 := hport
  refine ⟨s6, (st1.append (st2.append (st3.append (st4.append (st5.append st6))))), c6, i1,
    by rw [e6o, e5o, e4o, e3o, e2o, o1], by rw [e6n, e5n, e4n, e3n, e2n, n1, h0]; rfl, ?_, ?_⟩
  · unfold specConn
    show (match s6.find a1.label, s6.find a2.label, s6.find a3.label, s6.find a4.label, s6.find a5.label with
      | some cl, some cp, some rep, some sl, some sp => _
      | _, _, _, _, _ => _) = none
    rw [g1, g2, g3, g4, g5]
    have e13 : (a1.obs.fields == a3.obs.fields) = true := beq_self_eq_true _
    have e15 : (a1.obs.fields == a5.obs.fields) = true := beq_self_eq_true _
    have e24 : (a2.obs.fields == a4.obs.fields) = true := beq_self_eq_true _
    simp only [e13, e15, e24, hp, Bool.not_true, Bool.false_eq_true, if_false, Option.bind_none]
  · intro acc al hal hald
    have hal' : s6.find (acc ++ ".l") = some al.obs := by
      rw [c6.find, ← hM, pushAll_find_of_some _ hal]; rfl
    unfold specConn
    show (match s6.find a1.label, s6.find a2.label, s6.find a3.label, s6.find a4.label, s6.find a5.label with
      | some cl, some cp, some rep, some sl, some sp => _
      | _, _, _, _, _ => _) = none
    rw [g1, g2, g3, g4, g5]
    have e13 : (a1.obs.fields == a3.obs.fields) = true := beq_self_eq_true _
    have e15 : (a1.obs.fields == a5.obs.fields) = true := beq_self_eq_true _
    have e24 : (a2.obs.fields == a4.obs.fields) = true := beq_self_eq_true _
    have e2l : (a2.obs.fields == al.obs.fields) = true := by
      have : a2.f = al.f := hald.symm
      simp [MAddr.obs, AddrObs.fields, ← this]
    simp only [e13, e15, e24, hp, Bool.not_true, Bool.false_eq_true, if_false, Option.bind_some, hal', e2l, if_true]

theorem allPairs_mem : ∀ (l : List MAddr) (p : MAddr × MAddr), p ∈ allPairs l → p.1 ∈ l ∧ p.2 ∈ l
  | [], p, h => by cases h
  | a :: rest, p, h => by
    simp only [allPairs, List.cons_append, List.mem_cons, List.mem_append, List.mem_map] at h
    rcases h with rfl | ⟨b, hb, rfl⟩ | h
    · exact ⟨List.mem_cons_self, List.mem_cons_self⟩
    · exact ⟨List.mem_cons_self, List.mem_cons_of_mem _ hb⟩
    · have := allPairs_mem rest p h
      exact ⟨List.mem_cons_of_mem _ this.1, List.mem_cons_of_mem _ this.2⟩

theorem maps_steps (H : List UInt8 → UInt64) {m : MSt} {sp : SpecSt} (hi : MInv m) (hc : Core m sp) :
    Steps sp (mapObs H m) sp := by
  simp only [mapObs]
  have hsz := container_sizes H hi hc
  have hlook := fun a ha => lookup_ok H hi hc (a := a) ha
  generalize omOf (m.addrs.map fun a => (a.img, a.label)) = om at *
  generalize umOf H (m.addrs.map fun a => (a.img, a.label)) = um at *
  apply Steps.append
  · -- the lookups
    suffices ∀ (l : List MAddr), (∀ a ∈ l, a ∈ m.addrs) →
        Steps sp (l.map fun a => Obs.map a.label ((mapFind a.img om).getD "none") ((umFind H a.img um).getD "none")) sp from
      this m.addrs fun a h => h
    intro l
    induction l with
    | nil => intro _; exact Steps.nil _
    | cons a l ih =>
      intro hl
      have ha := hl a List.mem_cons_self
      refine Steps.cons ?_ (ih fun x hx => hl x (List.mem_cons_of_mem _ hx))
      have e1 : sp.find a.label = some a.obs := by rw [hc.find, hi.self a ha]; rfl
      have ⟨l1, l2⟩ := hlook a ha
      simp only [specStep, e1, l1, l2, ne_eq, not_true_eq_false, if_false]
  · refine Steps.cons (s1 := sp) ?_ (Steps.one ?_)
    · simp only [specStep, List.length_map, hsz.1, ne_eq, not_true_eq_false, if_false]
    · simp only [specStep, Num.ofNat, hsz.1, hsz.2, ne_eq, not_true_eq_false, or_self, if_false]

theorem opK_mk (sp : SpecSt) (o : OpLine) : ({ sp with op := some o, opAddrs := 0 } : SpecSt).opK = o.k := rfl

/-- one operation of the model: the predicate accepts its lines, relation and invariant are re-established -/
theorem step_ok (H : List UInt8 → UInt64) {m : MSt} {sp : SpecSt} (hi : MInv m) (hr : Rel m sp) (op : Op)
    (hok : opOk m op = true) :
    ∃ sp', Steps sp (modelStep H m op).2 sp' ∧ Rel (modelStep H m op).1 sp' ∧ MInv (modelStep H m op).1 := by
  cases op with
  | report text prov items =>
    simp only [opOk, List.all_eq_true] at hok
    simp only [modelStep]
    let line : OpLine := { k := .other, head := .other, text := text }
    have ⟨h1, c1⟩ := op_step hr line
    obtain ⟨s2, st2, c2, i2, o2⟩ := reportAll_steps prov items hok m _ hi c1 rfl
    refine ⟨s2, Steps.cons h1 (st2.append (Steps.one (quiet_step _))), c2.rel_simple ?_, i2⟩
    unfold SpecSt.opK; rw [o2]; rfl
  | port label n host =>
    simp only [opOk, Bool.and_eq_true, decide_eq_true_eq, beq_iff_eq] at hok
    simp only [modelStep, opLine]
    let line : OpLine := { k := .port (Num.ofNat n), head := .other, text := " ".intercalate ["port", label, nat n] }
    have ⟨h1, c1⟩ := op_step hr line
    by_cases hf : m.fresh label = true
    · simp only [hf, if_true]
      let a : MAddr := ⟨label, "port", { v6 := false, ip := host, port := n }⟩
      have hokf : a.f.ok = true := by simp [Fields.ok, a, hok.1, hok.2]
      have hs : specAddr { sp with op := some line, opAddrs := 0 } a.obs = none := by
        have opK_mk' : ({ sp with op := some line, opAddrs := 0 } : SpecSt).opK = .port (Num.ofNat n) := rfl
        unfold specAddr
        have : (a.obs.serv == Decimal.render a.obs.port) = true := by simp [MAddr.obs]
        simp only [this, Bool.not_true, Bool.false_eq_true, if_false, opK_mk']
        simp [MAddr.obs, Num.ofNat, a]
      have ⟨h2, c2⟩ := addr_step (a := a) c1 hf hs
      exact ⟨_, Steps.cons h1 (Steps.one h2), c2.rel_simple rfl, hi.push hf hokf⟩
    · simp only [hf, Bool.false_eq_true, if_false]
      exact ⟨_, Steps.one h1, c1.rel_simple rfl, hi⟩
  | respell label old =>
    simp only [modelStep, opLine]
    let line : OpLine := { k := .respell label old, head := .other, text := " ".intercalate ["respell", label, old, "str"] }
    have ⟨h1, c1⟩ := op_step hr line
    cases ho : m.find old with
    | none =>
      exact ⟨_, Steps.cons h1 (Steps.one (quiet_step _)), c1.rel_simple rfl, hi⟩
    | some o =>
      simp only
      by_cases hf : m.fresh label = true
      · simp only [hf, if_true]
        let a : MAddr := ⟨label, "respell", o.f⟩
        have hokf : a.f.ok = true := hi.ok o (MSt.find_mem ho).1
        have hs : specAddr { sp with op := some line, opAddrs := 0 } a.obs = none := by
          have opK_mk' : ({ sp with op := some line, opAddrs := 0 } : SpecSt).opK = .respell label old := rfl
          unfold specAddr
          have : (a.obs.serv == Decimal.render a.obs.port) = true := by simp [MAddr.obs]
          simp only [this, Bool.not_true, Bool.false_eq_true, if_false, opK_mk']
          have e : SpecSt.find { sp with op := some line, opAddrs := 0 } old = some o.obs := by
            rw [c1.find, ho]; rfl
          have e2 : a.obs.label = label := rfl
          simp only [e2, if_true, e, sameFields]
          have : (a.obs.fields == o.obs.fields) = true := beq_self_eq_true _
          simp [this]
        have ⟨h2, c2⟩ := addr_step (a := a) c1 hf hs
        exact ⟨_, Steps.cons h1 (Steps.cons (quiet_step _) (Steps.one h2)), c2.rel_simple rfl, hi.push hf hokf⟩
      · simp only [hf, Bool.false_eq_true, if_false]
        exact ⟨_, Steps.cons h1 (Steps.one (quiet_step _)), c1.rel_simple rfl, hi⟩
  | bind acceptor name kind bind eph =>
    simp only [opOk, Bool.and_eq_true, decide_eq_true_eq] at hok
    simp only [modelStep, opLine]
    let line : OpLine :=
      { k := .bind name bind, head := (if acceptor then .acceptor else .udp),
        text := " ".intercalate [(if acceptor then "acceptor" else "udp"), name, kind, bind] }
    have ⟨h1, c1⟩ := op_step hr line
    cases hb : m.find bind with
    | none => exact ⟨_, Steps.cons h1 (Steps.one (quiet_step _)), c1.rel_simple rfl, hi⟩
    | some b =>
      simp only
      by_cases hf : m.fresh (name ++ ".l") = true
      · simp only [hf, if_true]
        let a : MAddr := ⟨name ++ ".l", (if acceptor then "acceptor" else "udp") ++ "." ++ kind,
          { b.f with port := if b.f.port = 0 then eph else b.f.port }⟩
        have hbok := hi.ok b (MSt.find_mem hb).1
        have hokf : a.f.ok = true := by
          apply Fields.ok_setPort hbok
          split
          · exact hok.2
          · exact Fields.ok_port hbok
        have hs : specAddr { sp with op := some line, opAddrs := 0 } a.obs = none := by
          have opK_mk' : ({ sp with op := some line, opAddrs := 0 } : SpecSt).opK = .bind name bind := rfl
          unfold specAddr
          have : (a.obs.serv == Decimal.render a.obs.port) = true := by simp [MAddr.obs]
          simp only [this, Bool.not_true, Bool.false_eq_true, if_false, opK_mk']
          have e : SpecSt.find { sp with op := some line, opAddrs := 0 } bind = some b.obs := by
            rw [c1.find, hb]; rfl
          have e2 : a.obs.label = name ++ ".l" := rfl
          simp only [e2, if_true, e]
          have e3 : (a.obs.v6 == b.obs.v6 && a.obs.ip == b.obs.ip && a.obs.scope == b.obs.scope) = true := by
            simp [MAddr.obs, a]
          simp only [e3, Bool.not_true, Bool.false_eq_true, if_false]
          show (if b.f.port = 0 then (if (if b.f.port = 0 then eph else b.f.port) ≠ 0 then none else _) else
            if (if b.f.port = 0 then eph else b.f.port) = b.f.port then none else _) = none
          by_cases hp : b.f.port = 0
          · have : eph ≠ 0 := by omega
            simp [hp, this]
          · simp [hp]
        have ⟨h2, c2⟩ := addr_step (a := a) c1 hf hs
        refine ⟨_, Steps.cons h1 (Steps.one h2), ?_, ?_⟩
        · cases acceptor
          · exact (c2.congr (m' := { m.push a with udps := name :: (m.push a).udps }) rfl).rel_simple rfl
          · exact (c2.congr (m' := { m.push a with accs := name :: (m.push a).accs }) rfl).rel_simple rfl
        · cases acceptor
          · exact (hi.push hf hokf).congr (m' := { m.push a with udps := name :: (m.push a).udps }) rfl
          · exact (hi.push hf hokf).congr (m' := { m.push a with accs := name :: (m.push a).accs }) rfl
      · simp only [hf, Bool.false_eq_true, if_false]
        exact ⟨_, Steps.one h1, c1.rel_simple rfl, hi⟩
  | bindFail acceptor name kind bind =>
    simp only [modelStep, opLine]
    let line : OpLine :=
      { k := .bind name bind, head := (if acceptor then .acceptor else .udp),
        text := " ".intercalate [(if acceptor then "acceptor" else "udp"), name, kind, bind] }
    have ⟨h1, c1⟩ := op_step hr line
    refine ⟨_, Steps.cons h1 (Steps.one ?_), c1.rel_simple rfl, hi⟩
    cases acceptor <;> rfl
  | dgram label sender receiver =>
    simp only [modelStep, opLine]
    let line : OpLine := { k := .dgram label sender, head := .other, text := " ".intercalate ["dgram", label, sender, receiver] }
    have ⟨h1, c1⟩ := op_step hr line
    split
    · cases hs : m.find (sender ++ ".l") with
      | none => exact ⟨_, Steps.cons h1 (Steps.one (quiet_step _)), c1.rel_simple rfl, hi⟩
      | some s =>
        cases hrv : m.find (receiver ++ ".l") with
        | none => exact ⟨_, Steps.cons h1 (Steps.one (quiet_step _)), c1.rel_simple rfl, hi⟩
        | some r =>
          simp only [opOk, hs, hrv, beq_iff_eq] at hok
          simp only
          by_cases hf : m.fresh label = true
          · simp only [hf, if_true]
            rw [seenBy_same hok]
            let a : MAddr := ⟨label, "dgram", s.f⟩
            have hokf : a.f.ok = true := hi.ok s (MSt.find_mem hs).1
            have hsa : specAddr { sp with op := some line, opAddrs := 0 } a.obs = none := by
              have opK_mk' : ({ sp with op := some line, opAddrs := 0 } : SpecSt).opK = .dgram label sender := rfl
              unfold specAddr
              have : (a.obs.serv == Decimal.render a.obs.port) = true := by simp [MAddr.obs]
              simp only [this, Bool.not_true, Bool.false_eq_true, if_false, opK_mk']
              have e : SpecSt.find { sp with op := some line, opAddrs := 0 } (sender ++ ".l") = some s.obs := by
                rw [c1.find, hs]; rfl
              have e2 : a.obs.label = label := rfl
              simp only [e2, if_true, e, sameFields]
              have : (a.obs.fields == s.obs.fields) = true := beq_self_eq_true _
              simp [this]
            have ⟨h2, c2⟩ := addr_step (a := a) c1 hf hsa
            exact ⟨_, Steps.cons h1 (Steps.one h2), c2.rel_simple rfl, hi.push hf hokf⟩
          · simp only [hf, Bool.false_eq_true, if_false]
            exact ⟨_, Steps.one h1, c1.rel_simple rfl, hi⟩
    · exact ⟨_, Steps.cons h1 (Steps.one (quiet_step _)), c1.rel_simple rfl, hi⟩
  | connect c kind acc src eph =>
    simp only [modelStep, opLine]
    let line : OpLine := { k := .connect c acc, head := .other, text := " ".intercalate ["connect", c, kind, acc] }
    have ⟨h1, c1⟩ := op_step hr line
    have hfin0 : ∀ s : SpecSt, s.opK = .connect c acc → s.opAddrs = 0 → finishOp s = .ok { s with op := none } := by
      intro s h1 h2; unfold finishOp; rw [h1]; simp [h2]
    split
    · cases ha : m.find (acc ++ ".l") with
      | none => exact ⟨_, Steps.cons h1 (Steps.one (quiet_step _)), { c1 with fin := hfin0 _ rfl rfl }, hi⟩
      | some a =>
        simp only [opOk, ha, Bool.and_eq_true, decide_eq_true_eq, beq_iff_eq] at hok
        simp only
        by_cases hf : connFresh m c = true
        · simp only [hf, if_true]
          have haok := hi.ok a (MSt.find_mem ha).1
          obtain ⟨s2, st2, c2, i2, o2, n2, _, hconn⟩ := conn_steps H hi c1 c ("connect." ++ kind) (acc ++ ".l") a.f.v6 a.f
            { a.f with ip := src, port := eph } hf rfl rfl haok (Fields.ok_setIpPort haok hok.1.2 hok.2) rfl rfl
            (by show eph ≠ 0; omega)
          refine ⟨s2, Steps.cons h1 st2, ?_, i2.congr rfl⟩
          refine { c2.congr rfl with fin := ?_ }
          have hk : s2.opK = .connect c acc := by unfold SpecSt.opK; rw [o2]
          unfold finishOp
          rw [hk]
          simp only [n2, hconn acc a ha rfl]
          rfl
        · simp only [hf, Bool.false_eq_true, if_false]
          exact ⟨_, Steps.one h1, { c1 with fin := hfin0 _ rfl rfl }, hi⟩
    · exact ⟨_, Steps.cons h1 (Steps.one (quiet_step _)), { c1 with fin := hfin0 _ rfl rfl }, hi⟩
  | connectvia c kind acc via src eph =>
    simp only [modelStep, opLine]
    let line : OpLine := { k := .connectvia c, head := .connectvia, text := " ".intercalate ["connectvia", c, kind, acc, via] }
    have ⟨h1, c1⟩ := op_step hr line
    have hfin0 : ∀ s : SpecSt, s.opK = .connectvia c → s.opAddrs = 0 → finishOp s = .ok { s with op := none } := by
      intro s h1 h2; unfold finishOp; rw [h1]; simp [h2]
    split
    · cases ha : m.find (acc ++ ".l") with
      | none => exact ⟨_, Steps.cons h1 (Steps.one (quiet_step _)), { c1 with fin := hfin0 _ rfl rfl }, hi⟩
      | some a =>
        cases hv : m.find via with
        | none => exact ⟨_, Steps.cons h1 (Steps.one (quiet_step _)), { c1 with fin := hfin0 _ rfl rfl }, hi⟩
        | some v =>
          simp only [opOk, ha, hv, Bool.and_eq_true, decide_eq_true_eq, beq_iff_eq] at hok
          simp only
          by_cases hf : connFresh m c = true
          · simp only [hf, if_true]
            have haok := hi.ok a (MSt.find_mem ha).1
            have hvok := hi.ok v (MSt.find_mem hv).1
            have hdok : ({ v6 := v.f.v6, ip := v.f.ip, port := a.f.port, scope := v.f.scope } : Fields).ok = true := by
              have := Fields.ok_setPort hvok (Fields.ok_port haok)
              have hfl := (Fields.ok_wf hvok).2
              rw [← this]
              congr 1
              obtain ⟨_, _, ⟨v6, ip, port, flow, scope⟩⟩ := v
              simp only at hfl
              simp [hfl]
            obtain ⟨s2, st2, c2, i2, o2, n2, hconn, _⟩ := conn_steps H hi c1 c ("connect." ++ kind) (acc ++ ".l") a.f.v6
              { v6 := v.f.v6, ip := v.f.ip, port := a.f.port, scope := v.f.scope }
              { v6 := v.f.v6, ip := src, port := eph, scope := v.f.scope } hf rfl rfl hdok
              (Fields.ok_setIpPort hdok hok.1.2 hok.2.1) hok.2.2 hok.2.2 (by show eph ≠ 0; omega)
            refine ⟨s2, Steps.cons h1 st2, ?_, i2.congr rfl⟩
            refine { c2.congr rfl with fin := ?_ }
            have hk : s2.opK = .connectvia c := by unfold SpecSt.opK; rw [o2]
            unfold finishOp
            rw [hk]
            simp only [n2, hconn]
            rfl
          · simp only [hf, Bool.false_eq_true, if_false]
            exact ⟨_, Steps.one h1, { c1 with fin := hfin0 _ rfl rfl }, hi⟩
    · exact ⟨_, Steps.cons h1 (Steps.one (quiet_step _)), { c1 with fin := hfin0 _ rfl rfl }, hi⟩
  | refused c kind acc via =>
    simp only [modelStep, opLine]
    let line : OpLine := { k := .connectvia c, head := .connectvia, text := " ".intercalate ["connectvia", c, kind, acc, via] }
    have ⟨h1, c1⟩ := op_step hr line
    refine ⟨_, Steps.cons h1 (Steps.one (s1 := SpecSt.dropOp _) rfl), ?_, hi⟩
    exact Core.rel_simple ⟨c1.addrs, c1.cmps⟩ rfl
  | close c =>
    simp only [modelStep, opLine]
    let line : OpLine := { k := .other, head := .other, text := " ".intercalate ["close", c] }
    have ⟨h1, c1⟩ := op_step hr line
    cases hcn : m.conns.find? (·.1 == c) with
    | none => exact ⟨_, Steps.cons h1 (Steps.one (quiet_step _)), c1.rel_simple rfl, hi⟩
    | some ck =>
      obtain ⟨c', kind⟩ := ck
      simp only
      let M0 : MSt := { m with conns := m.conns.filter (·.1 != c) }
      have c0 : Core M0 { sp with op := some line, opAddrs := 0 } := c1.congr rfl
      have i0 : MInv M0 := hi.congr rfl
      have hf0 : ∀ l, M0.fresh l = m.fresh l := fun _ => rfl
      split
      · cases hp : m.find (c ++ ".cp") with
        | none =>
          simp only
          exact ⟨_, Steps.one h1, c0.rel_simple rfl, i0⟩
        | some p =>
          simp only
          by_cases hf : m.fresh (c ++ ".disc") = true
          · simp only [hf, if_true]
            let a : MAddr := ⟨c ++ ".disc", "close", p.f⟩
            have hokf : a.f.ok = true := hi.ok p (MSt.find_mem hp).1
            have ⟨h2, c2⟩ := addr_step (a := a) c0 (by rw [hf0]; exact hf) (specAddr_neutral a rfl)
            have i2 := i0.push (a := a) (by rw [hf0]; exact hf) hokf
            obtain ⟨s3, st3, c3, _, e3o, _⟩ := cmpLabels_steps H i2 (c ++ ".disc") (c ++ ".cp") _ c2
            refine ⟨s3, Steps.cons h1 (Steps.cons h2 st3), c3.rel_simple ?_, i2⟩
            unfold SpecSt.opK; rw [e3o]; rfl
          · simp only [hf, Bool.false_eq_true, if_false]
            exact ⟨_, Steps.one h1, c0.rel_simple rfl, i0⟩
      · exact ⟨_, Steps.one h1, c0.rel_simple rfl, i0⟩
  | cmp l1 l2 =>
    simp only [modelStep, opLine]
    let line : OpLine := { k := .other, head := .other, text := " ".intercalate ["cmp", l1, l2] }
    have ⟨h1, c1⟩ := op_step hr line
    obtain ⟨s2, st2, c2, _, e2o, _⟩ := cmpLabels_steps H hi l1 l2 _ c1
    refine ⟨s2, Steps.cons h1 st2, c2.rel_simple ?_, hi⟩
    unfold SpecSt.opK; rw [e2o]; rfl
  | cmpall =>
    simp only [modelStep, opLine]
    let line : OpLine := { k := .cmpall, head := .other, text := " ".intercalate ["cmpall"] }
    have ⟨h1, c1⟩ := op_step hr line
    obtain ⟨s2, st2, c2, _, e2o, _⟩ := cmps_steps H hi (allPairs m.addrs) (allPairs_mem m.addrs) _ c1
    refine ⟨s2, Steps.cons h1 st2, { c2 with fin := ?_ }, hi⟩
    have hk : s2.opK = .cmpall := by unfold SpecSt.opK; rw [e2o]
    unfold finishOp
    rw [hk]
    simp only [specTrans_ok c2]
  | maps =>
    simp only [modelStep, opLine]
    let line : OpLine := { k := .other, head := .other, text := " ".intercalate ["maps"] }
    have ⟨h1, c1⟩ := op_step hr line
    exact ⟨_, Steps.cons h1 (maps_steps H hi c1), c1.rel_simple rfl, hi⟩

/-- the hash function influences what is reported, not the state of the scenario -/
theorem modelStep_state (H H' : List UInt8 → UInt64) (m : MSt) (op : Op) :
    (modelStep H m op).1 = (modelStep H' m op).1 := by
  cases op <;> simp only [modelStep] <;> (repeat' split) <;> rfl

theorem rel_init : Rel {} {} := { addrs := rfl, cmps := (fun _ h => by cases h), fin := rfl }

theorem minv_init : MInv {} := { ok := (fun _ h => by cases h), self := (fun _ h => by cases h) }

theorem run_ok (H : List UInt8 → UInt64) (history : List Op) :
    ∀ (m : MSt) (sp : SpecSt), MInv m → Rel m sp → histOk m history = true →
      ∃ s, specRun sp (modelTrace H m history) = .ok s := by
  induction history with
  | nil =>
    intro m sp _ hr _
    exact ⟨{ sp with op := none }, by simp only [modelTrace, specRun, specStep, hr.fin]⟩
  | cons op ops ih =>
    intro m sp hi hr hh
    simp only [histOk, Bool.and_eq_true] at hh
    obtain ⟨sp', st, hr', hi'⟩ := step_ok H hi hr op hh.1
    rw [modelStep_state (fun _ => 0) H] at hh
    obtain ⟨s, hs⟩ := ih _ sp' hi' hr' hh.2
    exact ⟨s, by rw [modelTrace, st]; exact hs⟩

/-- **The predicate accepts every trace of the model**: for every hash function, for every history of any
length in the domain `histOk`, `specRun` - the very function `./check C13` evaluates on the implementation's
transcript - runs over the model's transcript block without a failure. -/
theorem model_satisfies_spec (H : List UInt8 → UInt64) (history : List Op) (h : histOk {} history = true) :
    ∃ s, specRun {} (modelTrace H {} history) = .ok s :=
  run_ok H history {} {} minv_init rel_init h

/-! ## examples: the hypothesis is satisfiable, the predicate is not vacuous -/

def lo4 : List UInt8 := [127, 0, 0, 1]
def lo6 : List UInt8 := [0, 0, 0, 0, 0, 0, 0, 0, 0, 0, 0, 0, 0, 0, 0, 1]
def any6 : List UInt8 := [0, 0, 0, 0, 0, 0, 0, 0, 0, 0, 0, 0, 0, 0, 0, 0]

/-- text addresses of both families, `Address(port)`, a re-spelling, UDP sockets and a datagram, a failed bind,
acceptors (one on the IPv6 wildcard), a connection, a connection through another local address, a refused
one, a disconnect, then all pairs and both containers -/
def demoHistory : List Op := [
  .report "parse a" "parse" [("a", ⟨false, lo4, 0, 0, 0⟩)],
  .report "parse b" "parse" [("b", ⟨true, lo6, 0, 0, 0⟩)],
  .report "parse w" "parse" [("w", ⟨true, any6, 0, 0, 0⟩)],
  .report "locals L" "locals" [("L0", ⟨false, [192, 0, 2, 2], 0, 0, 0⟩),
    ("L1", ⟨true, [0xfe, 0x80, 0, 0, 0, 0, 0, 0, 0, 0, 0, 0, 0, 0, 0, 1], 0, 0, 4⟩)],
  .port "p" 8080 lo4,
  .report "parse e2" "parse" [("e2", ⟨false, lo4, 8080, 0, 0⟩)],
  .respell "r1" "p",
  .bind false "u1" "plain" "a" 40000,
  .bind false "u2" "async" "a" 40001,
  .bindFail false "u3" "buf" "e2",
  .dgram "d1" "u1" "u2",
  .bind true "A1" "plain" "b" 50000,
  .bind true "Aw" "async" "w" 50001,
  .connect "c1" "async" "A1" lo6 50002,
  .connectvia "c2" "plain" "Aw" "b" lo6 50003,
  .refused "c3" "plain" "Aw" "a",
  .close "c1",
  .cmp "p" "e2",
  .cmpall, .maps]

example : histOk {} demoHistory = true := by decide

def accepted : Except String SpecSt → Bool
  | .ok _ => true
  | .error _ => false

def failure : Except String SpecSt → Option String
  | .ok _ => none
  | .error e => some e

/-- a hash with many collisions: the length of the image modulo 3 -/
def lenHash : List UInt8 → UInt64 := fun bs => UInt64.ofNat (bs.length % 3)

/-- a shorter one whose trace is evaluated here: 10 addresses of five provenances, all 55 pairs, both containers,
one connection - accepted (as the theorem says) -/
def smallHistory : List Op := [
  .report "parse a" "parse" [("a", ⟨false, lo4, 0, 0, 0⟩), ("b", ⟨true, lo6, 0, 0, 0⟩)],
  .port "p" 0 lo4,
  .bind false "u1" "plain" "a" 40000,
  .bind true "A1" "async" "b" 50000,
  .connect "c1" "async" "A1" lo6 50002,
  .cmpall, .maps]

example : histOk {} smallHistory = true := by decide
set_option maxRecDepth 100000 in
example : accepted (specRun {} (modelTrace lenHash {} smallHistory)) = true := by decide

/-- the dual-stack history of the known finding F12: an IPv4 client behind an acceptor bound to `[::]:0`.  It
is outside `histOk`, and the predicate rejects the model's own trace for it: with the library as it is (no
`IPV6_V6ONLY`, no normalisation of v4-mapped addresses) endpoint agreement does not hold there. -/
def dualHistory : List Op := [
  .report "parse w" "parse" [("w", ⟨true, any6, 0, 0, 0⟩)],
  .report "parse b4" "parse" [("b4", ⟨false, lo4, 0, 0, 0⟩)],
  .bind true "Aw" "plain" "w" 50001,
  .connectvia "m2" "plain" "Aw" "b4" lo4 50003]

example : histOk {} dualHistory = false := by decide
example : failure (specRun {} (modelTrace lenHash {} dualHistory)) =
    some "m2: client LocalAddress differs from the address reported on accept" := by decide

/-- why `Fields.ok` asks for `sin6_flowinfo = 0`: the flow label is part of the compared bytes but no accessor
shows it, so two Addresses that differ only there are `!=` with equal accessor tuples - the predicate (and the
property's "exactly when family, host, port and scope agree") rejects that.  The kernel reports flowinfo 0
unless `IPV6_FLOWINFO_SEND` is set, which the library never does. -/
def flowHistory : List Op := [
  .report "parse" "parse" [("a", ⟨true, lo6, 80, 0, 0⟩), ("b", ⟨true, lo6, 80, 7, 0⟩)],
  .cmp "a" "b"]

example : histOk {} flowHistory = false := by decide
example : failure (specRun {} (modelTrace lenHash {} flowHistory)) =
    some "a == b is false but family/host/port/scope agree (parse vs parse)" := by decide

/-- negative examples: a bad trace is rejected -/
def obsA : AddrObs := { label := "a", prov := "parse", serv := [0x38, 0x30], port := 80, v6 := false, ip := lo4, scope := 0 }
def obsB : AddrObs := { obsA with label := "b", prov := "udp.plain" }
def lineOther : Obs := .op { k := .other, head := .other, text := "parse x" }

-- `==` false although the field tuples agree (a datagram source built with the wrong length: seeded/C13_1_agentG)
example : accepted (specRun {} [lineOther, .addr obsA, .addr obsB, .cmp "a" "b" false true true false false, .fin]) = false := by
  decide
-- both `<` and `>` (seeded/C13_r4_agentH)
example : accepted (specRun {} [lineOther, .addr obsA, .addr { obsB with port := 81, serv := [0x38, 0x31] },
    .cmp "a" "b" false true true true false, .fin]) = false := by decide
-- a socket bound to port 0 that reports port 0
example : accepted (specRun {} [lineOther, .addr { obsA with port := 0, serv := [0x30] },
    .op { k := .bind "u" "a", head := .udp, text := "udp u plain a" },
    .addr { obsA with label := "u.l", port := 0, serv := [0x30] }, .fin]) = false := by decide
-- the map finds another key
example : accepted (specRun {} [lineOther, .addr obsA, .addr { obsB with port := 81, serv := [0x38, 0x31] },
    .map "b" "a" "b", .fin]) = false := by decide
-- an intransitive `<` (seeded/C13_2_agentG): a < b < c but not a < c
example : accepted (specRun {} [lineOther, .addr obsA, .addr { obsB with port := 81, serv := [0x38, 0x31] },
    .addr { obsB with label := "c", port := 82, serv := [0x38, 0x32] },
    .op { k := .cmpall, head := .other, text := "cmpall" },
    .cmp "a" "b" false true true false false, .cmp "b" "c" false true true false false,
    .cmp "a" "c" false true false true false, .fin]) = false := by decide

end SockModel.Addr

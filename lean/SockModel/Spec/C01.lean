import SockModel.Basic
import SockModel.Model.SendLoopLemmas
/-!
# Spec.C01 - the property as an executable predicate over typed observations, and the proof that the
model satisfies it for every history

`specStep` / `specRun` are what `./check C01` evaluates on the IMPLEMENTATION's transcript
(`Drive/C01.lean` parses every op line with its `-> sys ...` / `-> ret ...` / `-> throw ...` /
`-> peer ...` / `-> pgot ...` lines into one `Obs` and calls these very functions).  The predicate
mentions no model state: its book-keeping `SpecSt` is what an outside observer of the API can keep
(the bytes the `Send` calls account for as length + rolling FNV-1a hash, the bytes the peer sent that
no `Receive` has reported yet, whether / how the peer closed, the datagrams exchanged with the UDP peer).

`sysStep` / `modelTrace` are the observations the MODEL produces for a history: the very functions
`send`, `receive`, `sendTo`, `receiveFrom`, `acceptT` of `Model/SendLoop.lean` (nothing is re-defined)
run on arbitrary scripted `poll` / `send` answers, composed with the environment assumption A-TCP / A-UDP
(`Sys`: a connected pair is one FIFO byte queue per direction, `recv` hands over a non-empty prefix of
what is queued and reports end-of-stream only when the queue is empty and the peer closed; a datagram
socket hands over the oldest queued datagram).  The environment's state is driven by the model's own
*system calls* (bytes the kernel accepted / handed over), the observer's by the *API results*; that the
two never disagree is the content of `model_satisfies_spec`.
-/
namespace SockModel.Spec.C01
open SockModel SockModel.SendLoop SockModel.Deadline

/-! ## payload hash (FNV-1a 64, as printed by the harness) -/

def fnvStep (h : UInt64) (b : UInt8) : UInt64 := (h ^^^ b.toUInt64) * 1099511628211
def fnvInit : UInt64 := 1469598103934665603
def fnvHex (h : UInt64) : String :=
  let n := h.toNat
  String.ofList ((List.range 16).reverse.map fun i => hexDigit ((n / 16 ^ i) % 16))
def fnv (bs : Bytes) : String := fnvHex (bs.foldl fnvStep fnvInit)

/-! ## typed observations -/

/-- result of one intercepted `recv` / `recvfrom` / `accept` -/
inductive RecvObs where
  | got (n : Nat)
  | eof
  | fail (errno : Nat)
  deriving Repr, DecidableEq

/-- one intercepted system call on the socket under test (`-> sys ...`), with its result -/
inductive SysObs where
  | poll (t : Int) (a : PollAns)
  | send (len : Nat) (a : SendAns) (nosignal : Bool)
  | recv (size : Nat) (a : RecvObs)
  deriving Repr, DecidableEq

/-- the exception that left the call (`-> throw ...`) -/
inductive Thrown where
  | system (errno : Nat)
  | logic
  | closed
  | other (text : String)      -- the whole line as printed
  deriving Repr, DecidableEq

def Thrown.text : Thrown → String
  | .system e => s!"throw system {e}"
  | .logic => "throw logic"
  | .closed => "throw closed"
  | .other t => t

/-- a numeral as printed, or any other text -/
inductive Tok where
  | num (n : Nat)
  | text (s : String)
  deriving Repr, DecidableEq

instance : ToString Tok := ⟨fun | .num n => toString n | .text s => s⟩

/-- the result line of a call -/
inductive Ret where
  | none                                   -- `ret none`
  | count (n : Nat)                        -- `ret n`
  | data (n : Option Nat) (h : String)     -- `ret n hash` (`n = none`: not a numeral)
  | threw (x : Thrown)
  | bad                                    -- `ret <not a numeral>`
  | missing                                -- anything else
  deriving Repr, DecidableEq

/-- one operation line of the transcript with what the implementation was seen to do -/
inductive OpObs where
  | send (data : Bytes) (T : Int) (r : Ret)
  | psend (data : Bytes)
  | pclose
  | pshutwr
  | prst
  | recv (size : Nat) (T : Int) (r : Ret)
  /-- `sync`: `-> peer n hash` = everything the raw peer has obtained so far -/
  | sync (n : Tok) (h : String)
  | sendto (data : Bytes) (T : Int) (r : Ret)
  /-- `precv`: `-> pgot n hash` (`none`: the peer obtained nothing / no such line) -/
  | precv (g : Option (Option Nat × String))
  | pdgram (data : Bytes)
  | recvfrom (size : Nat) (T : Int) (r : Ret)
  | listen (T : Int) (r : Ret)
  /-- scenario set-up and scripting lines (`tcp`, `udp`, `acceptor`, `os`, `pconnect`, `now`) -/
  | setup
  /-- the harness process crashed, hung or could not set the scenario up inside this operation -/
  | abort (msg : String)
  deriving Repr, DecidableEq

structure Obs where
  op : OpObs
  sys : List SysObs := []
  deriving Repr, DecidableEq

/-! ## what the predicate reads off the system calls -/

def accOf : SysObs → Nat
  | .send _ (.accept k) _ => k
  | _ => 0

/-- bytes the OS accepted in the `send` calls of one operation -/
def obsAcc : List SysObs → Nat
  | [] => 0
  | o :: l => accOf o + obsAcc l

def isEintr : SysObs → Bool | .poll _ (.eintr _) => true | _ => false
def isPollFail : SysObs → Bool | .poll _ (.fail _) => true | _ => false
def isIoFail : SysObs → Bool | .send _ (.fail _) _ => true | .recv _ (.fail _) => true | _ => false
def isSend : SysObs → Bool | .send .. => true | _ => false
def isRecvGot : SysObs → Bool | .recv _ (.got _) => true | _ => false
def isNosigBad : SysObs → Bool | .send _ _ ns => !ns | _ => false
def isShort : SysObs → Bool | .send l (.accept k) _ => decide (k < l) | _ => false

def hasEintr (sys : List SysObs) : Bool := sys.any isEintr
def hasPollFail (sys : List SysObs) : Bool := sys.any isPollFail
def hasIoFail (sys : List SysObs) : Bool := sys.any isIoFail
def anySend (sys : List SysObs) : Bool := sys.any isSend
def anyRecvGot (sys : List SysObs) : Bool := sys.any isRecvGot
def nosigBad (sys : List SysObs) : Bool := sys.any isNosigBad

/-! ## the property on observations only -/

structure SpecSt where
  wireLen : Nat := 0                 -- bytes the Send calls account for (sum of the OS-accepted counts)
  wireHash : UInt64 := fnvInit       -- rolling hash of those bytes
  peerPending : Bytes := []          -- bytes the peer sent that no Receive has reported yet
  peerClosed : Bool := false
  sawPclose : Bool := false
  sawPrst : Bool := false
  dgrams : List Bytes := []          -- datagrams the peer sent, not yet received
  lastSent : Option Bytes := none    -- last datagram handed to sendto (for `precv`)
  deriving Repr

/-- "A Send with unlimited timeout returns only after all its bytes were accepted (n = size), any other
Send returns 0 ≤ n ≤ size", the count is the number of bytes the OS accepted, and a Send fails only when a
system call failed (a signal alone never makes it fail) -/
def specSend (data : Bytes) (T : Int) (sys : List SysObs) : Ret → Option String
  | .count n =>
    if n > data.length then some s!"Send returned {n} > size {data.length}"
    else if T < 0 ∧ n ≠ data.length then some s!"Send with unlimited timeout returned {n} of {data.length}"
    else if n ≠ obsAcc sys then some s!"Send returned {n} but the OS accepted {obsAcc sys} bytes"
    else none
  | .bad => some "bad ret"
  | .threw x =>
    if hasEintr sys ∧ !hasPollFail sys ∧ !hasIoFail sys ∧ x ≠ .logic then
      some s!"a signal made Send fail: {x.text}"
    else if !hasPollFail sys ∧ !hasIoFail sys ∧ x ≠ .logic then
      some s!"Send threw although no system call failed: {x.text}"
    else none
  | _ => some "missing result"

/-- "a Receive reports between 1 and the offered buffer size bytes, never 0", the bytes are the next bytes
of the peer's stream, and "everything sent before the peer closes is delivered before Receive reports the
closure by throwing" -/
def specRecv (s : SpecSt) (size : Nat) (sys : List SysObs) : Ret → Option String
  | .none => none
  | .data (some n) h =>
    if n = 0 ∨ n > size then some s!"Receive reported {n} bytes for a buffer of {size}"
    else if n > s.peerPending.length ∨ fnv (s.peerPending.take n) ≠ h then
      some "Receive delivered bytes that are not the next bytes of the peer's stream"
    else none
  | .data none _ => some "bad ret"
  | .threw .closed =>
    if !s.peerPending.isEmpty ∧ s.sawPclose ∧ !s.sawPrst then
      some s!"closure reported while {s.peerPending.length} bytes sent before the close were not delivered"
    else if !s.peerClosed then some "closure reported although the peer did not close"
    else none
  | .threw x =>
    if hasEintr sys ∧ !hasPollFail sys ∧ !hasIoFail sys then some s!"a signal made Receive fail: {x.text}"
    else none
  | _ => some "missing result"

def specSendTo (data : Bytes) (T : Int) (sys : List SysObs) : Ret → Option String
  | .count n =>
    if n ≠ data.length ∧ n ≠ 0 then some s!"SendTo returned a partial count {n} of {data.length}"
    else if n = 0 ∧ data.length > 0 ∧ T < 0 then some "SendTo with unlimited timeout returned 0"
    else none
  | .bad => some "bad ret"
  | .threw x =>
    if hasEintr sys ∧ !hasPollFail sys ∧ !hasIoFail sys ∧ x ≠ .logic then
      some s!"a signal made SendTo fail: {x.text}"
    else none
  | _ => some "missing result"

def specRecvFrom (s : SpecSt) (size : Nat) (sys : List SysObs) : Ret → Option String
  | .none => none
  | .data n h =>
    if n ≠ some (min size (s.dgrams.headD []).length) ∨ h ≠ fnv ((s.dgrams.headD []).take size) then
      some "ReceiveFrom reported a payload that is not the (prefix of the) datagram sent"
    else none
  | .threw x =>
    if hasEintr sys ∧ !hasPollFail sys ∧ !hasIoFail sys then some s!"a signal made ReceiveFrom fail: {x.text}"
    else none
  | _ => some "missing result"

def specListen (sys : List SysObs) : Ret → Option String
  | .none => none
  | .count _ => none
  | .threw x =>
    if hasEintr sys ∧ !hasPollFail sys ∧ !hasIoFail sys then some s!"a signal made Listen fail: {x.text}"
    else none
  | _ => some "missing result"

def orOk (m : Option String) (s : SpecSt) : Except String SpecSt :=
  match m with
  | some msg => .error msg
  | none => .ok s

/-- one operation, given the system calls seen during it -/
def specOp (s : SpecSt) (sys : List SysObs) : OpObs → Except String SpecSt
  | .send data T r =>
    orOk (specSend data T sys r)
      { s with wireLen := s.wireLen + obsAcc sys,
               wireHash := (data.take (obsAcc sys)).foldl fnvStep s.wireHash }
  | .psend data => .ok { s with peerPending := s.peerPending ++ data }
  | .pclose => .ok { s with peerClosed := true, sawPclose := true }
  | .pshutwr => .ok { s with peerClosed := true }
  | .prst => .ok { s with peerClosed := true, peerPending := [], sawPrst := true }
  | .recv size _ r =>
    orOk (specRecv s size sys r)
      { s with peerPending := s.peerPending.drop (match r with | .data (some n) _ => n | _ => 0) }
  | .sync n h =>
    if n ≠ .num s.wireLen ∨ h ≠ fnvHex s.wireHash then
      .error s!"peer obtained {n} bytes (hash {h}); the Send calls account for {s.wireLen} bytes (hash {fnvHex s.wireHash})"
    else .ok s
  | .sendto data T r =>
    orOk (specSendTo data T sys r)
      { s with lastSent := match r with
                 | .count n => if n = data.length ∧ (data.length > 0 ∨ anySend sys) then some data else none
                 | _ => none }
  | .precv g =>
    match g, s.lastSent with
    | some (n, h), some d =>
      if n ≠ some d.length ∨ h ≠ fnv d then .error "peer obtained a datagram different from the one sent"
      else .ok { s with lastSent := none }
    | _, _ => .ok s
  | .pdgram data => .ok { s with dgrams := s.dgrams ++ [data] }
  | .recvfrom size _ r =>
    orOk (specRecvFrom s size sys r) { s with dgrams := if anyRecvGot sys then s.dgrams.drop 1 else s.dgrams }
  | .listen _ r => orOk (specListen sys r) s
  | .setup => .ok s
  | .abort msg => .error msg

/-- the whole predicate for one transcript block: a crash / hang is a failure of every property; no
`send` without `MSG_NOSIGNAL` (a closed peer must surface as an exception, not as SIGPIPE); then the
clauses of the operation -/
def specStep (s : SpecSt) (o : Obs) : Except String SpecSt :=
  match o.op with
  | .abort msg => .error msg
  | op => if nosigBad o.sys then .error "a send() without MSG_NOSIGNAL" else specOp s o.sys op

def specRun (s : SpecSt) : List Obs → Except String SpecSt
  | [] => .ok s
  | o :: os => match specStep s o with | .ok s' => specRun s' os | .error e => .error e

/-! ## the observations of the MODEL -/

/-- how the kernel answers the `recv` / `recvfrom` of an operation, should the library issue it -/
inductive RecvChoice where
  | take (n : Nat)        -- hand over what is queued (TCP: at most `max n 1` bytes of it)
  | fail (errno : Nat)
  deriving Repr, DecidableEq

/-- one step of a history: an API call of the library together with the answers of the operating system
(every `poll` / `send` answer is arbitrary), or an action of the raw peer -/
inductive Op where
  | send (data : Bytes) (T : Int) (polls : List PollAns) (sends : List SendAns)
  | psend (data : Bytes)
  | pclose
  | pshutwr
  | prst
  | recv (size : Nat) (T : Int) (polls : List PollAns) (ans : RecvChoice)
  | sync
  | sendto (data : Bytes) (T : Int) (polls : List PollAns) (sends : List SendAns)
  | precv (delivered : Bool)
  | pdgram (data : Bytes)
  | recvfrom (size : Nat) (T : Int) (polls : List PollAns) (ans : RecvChoice)
  | listen (T : Int) (polls : List PollAns) (acceptErrno : Option Nat)
  | setup
  deriving Repr

/-- the environment (assumptions A-TCP / A-UDP), driven by the system calls of the model -/
structure Sys where
  wire : Bytes := []           -- every byte the kernel accepted from the library's `send`s, in order: what the peer obtains
  inbox : Bytes := []          -- bytes the peer sent that the kernel has not handed to a `recv` yet
  peerClosed : Bool := false
  byClose : Bool := false
  byRst : Bool := false
  dgrams : List Bytes := []    -- datagrams queued at the socket under test
  flight : List Bytes := []    -- datagrams the kernel accepted for the peer, not yet read by it

/-- A-TCP: `recv` hands over a non-empty prefix of what is queued; end-of-stream only when nothing is
queued and the peer closed; nothing queued and not closed: `EAGAIN` -/
def tcpAns (inbox : Bytes) (closed : Bool) : RecvChoice → RecvAns
  | .fail e => .fail e
  | .take n => if inbox.isEmpty then (if closed then .eof else .fail 11) else .got (inbox.take (max n 1))

/-- A-UDP: `recvfrom` hands over the oldest queued datagram -/
def udpAns (dgrams : List Bytes) : RecvChoice → RecvAns
  | .fail e => .fail e
  | .take _ => match dgrams with | [] => .fail 11 | d :: _ => .got d

/-- what the interposed `recv` reports for an answer of the kernel (the count is what fits the buffer) -/
def tcpRecvObs (a : RecvAns) (size : Nat) : RecvObs :=
  match a with
  | .got x => if (x.take size).isEmpty then .eof else .got (x.take size).length
  | .eof => .eof
  | .fail e => .fail e

def udpRecvObs (a : RecvAns) (size : Nat) : RecvObs :=
  match a with
  | .got x => .got (x.take size).length
  | .eof => .got 0
  | .fail e => .fail e

def accRecvObs (a : RecvAns) (_size : Nat) : RecvObs :=
  match a with
  | .fail e => .fail e
  | _ => .got 1

/-- the kernel's answer to `accept`: a connection, or a failure -/
def accAns : Option Nat → RecvAns
  | none => .got []
  | some e => .fail e

/-- what the interposed `send` reports: the bytes the kernel really took -/
def sendObs (a : SendAns) (acc : Bytes) : SendAns :=
  match a with
  | .accept _ => .accept acc.length
  | .fail e => .fail e

/-- the system calls of the model (`Os.calls`, oldest first) with the answers they consumed -/
def pair (f : RecvAns → Nat → RecvObs) : List Call → List PollAns → List SendAns → List RecvAns → List SysObs
  | [], _, _, _ => []
  | .poll t :: cs, a :: ps, ss, rs => .poll t a :: pair f cs ps ss rs
  | .send len acc :: cs, ps, a :: ss, rs => .send len (sendObs a acc) true :: pair f cs ps ss rs
  | .recv size :: cs, ps, ss, a :: rs => .recv size (f a size) :: pair f cs ps ss rs
  | _ :: _, _, _, _ => []

/-- the `-> sys ...` lines of one model operation started on the fresh script `os0` -/
def sysOf (f : RecvAns → Nat → RecvObs) (os0 os' : Os) : List SysObs :=
  pair f os'.calls.reverse os0.polls os0.sends os0.recvs

def thrownOf : Exn → Thrown
  | .system e => .system e
  | .logic => .logic
  | .closed => .closed
  | .exhausted => .other "model-script-exhausted"

/-- bytes the kernel handed over in the `recv`s of one operation -/
def gotOf : SysObs → Nat | .recv _ (.got n) => n | _ => 0
def recvGot : List SysObs → Nat
  | [] => 0
  | o :: l => gotOf o + recvGot l

def isSentOk : SysObs → Bool | .send _ (.accept _) _ => true | _ => false
def sentOk (sys : List SysObs) : Bool := sys.any isSentOk

/-- One step of the composed model.  `none`: the scripted answers ran out inside the call - it has not
returned, nothing is observed any more.  The environment is updated from the system calls (`sys`,
`wire os'`), never from the API result. -/
def sysStep (m : Sys) : Op → Option (Sys × Obs)
  | .send data T polls sends =>
    let os : Os := { polls := polls, sends := sends }
    let p := send data T os
    let sys := sysOf tcpRecvObs os p.2
    let m' := { m with wire := m.wire ++ wire p.2 }
    match p.1 with
    | .ok n => some (m', { op := .send data T (.count n), sys := sys })
    | .exn .exhausted => none
    | .exn e => some (m', { op := .send data T (.threw (thrownOf e)), sys := sys })
  | .psend data => some ({ m with inbox := m.inbox ++ data }, { op := .psend data })
  | .pclose => some ({ m with peerClosed := true, byClose := true }, { op := .pclose })
  | .pshutwr => some ({ m with peerClosed := true }, { op := .pshutwr })
  | .prst => some ({ m with peerClosed := true, inbox := [], byRst := true }, { op := .prst })
  | .recv size T polls ans =>
    let os : Os := { polls := polls, recvs := [tcpAns m.inbox m.peerClosed ans] }
    let p := receive size T os
    let sys := sysOf tcpRecvObs os p.2
    let m' := { m with inbox := m.inbox.drop (recvGot sys) }
    match p.1 with
    | .ok none => some (m', { op := .recv size T .none, sys := sys })
    | .ok (some bs) => some (m', { op := .recv size T (.data (some bs.length) (fnv bs)), sys := sys })
    | .exn .exhausted => none
    | .exn e => some (m', { op := .recv size T (.threw (thrownOf e)), sys := sys })
  | .sync => some (m, { op := .sync (.num m.wire.length) (fnvHex (m.wire.foldl fnvStep fnvInit)) })
  | .sendto data T polls sends =>
    let os : Os := { polls := polls, sends := sends }
    let p := sendTo data T os
    let sys := sysOf udpRecvObs os p.2
    let m' := { m with flight := if sentOk sys then m.flight ++ [wire p.2] else m.flight }
    match p.1 with
    | .ok n => some (m', { op := .sendto data T (.count n), sys := sys })
    | .exn .exhausted => none
    | .exn e => some (m', { op := .sendto data T (.threw (thrownOf e)), sys := sys })
  | .precv delivered =>
    match delivered, m.flight with
    | true, d :: rest => some ({ m with flight := rest }, { op := .precv (some (some d.length, fnv d)) })
    | _, _ => some (m, { op := .precv none })
  | .pdgram data => some ({ m with dgrams := m.dgrams ++ [data] }, { op := .pdgram data })
  | .recvfrom size T polls ans =>
    let os : Os := { polls := polls, recvs := [udpAns m.dgrams ans] }
    let p := receiveFrom size T os
    let sys := sysOf udpRecvObs os p.2
    let m' := { m with dgrams := if anyRecvGot sys then m.dgrams.drop 1 else m.dgrams }
    match p.1 with
    | .ok none => some (m', { op := .recvfrom size T .none, sys := sys })
    | .ok (some bs) => some (m', { op := .recvfrom size T (.data (some bs.length) (fnv bs)), sys := sys })
    | .exn .exhausted => none
    | .exn e => some (m', { op := .recvfrom size T (.threw (thrownOf e)), sys := sys })
  | .listen T polls err =>
    let os : Os := { polls := polls, recvs := [accAns err] }
    let p := acceptT T os
    let sys := sysOf accRecvObs os p.2
    match p.1 with
    | .ok none => some (m, { op := .listen T .none, sys := sys })
    | .ok (some _) => some (m, { op := .listen T (.count 1), sys := sys })
    | .exn .exhausted => none
    | .exn e => some (m, { op := .listen T (.threw (thrownOf e)), sys := sys })
  | .setup => some (m, { op := .setup })

/-- the observations the MODEL produces for a history (it ends where a call does not return) -/
def modelTrace (m : Sys) : List Op → List Obs
  | [] => []
  | op :: ops =>
    match sysStep m op with
    | none => []
    | some (m', o) => o :: modelTrace m' ops

/-- the domain: receive buffers have at least one byte (the property's quantifier); the kernel does not
answer an unlimited `poll` of a `SendTo` with "timed out" (a statement about the kernel); the harness
protocol of the UDP cases: a datagram is handed to `sendto` only after the peer has read the previous one
(`precv` compares with the LAST datagram sent) -/
def Op.ok (m : Sys) : Op → Bool
  | .recv size _ _ _ => decide (1 ≤ size)
  | .sendto _ T polls _ => m.flight.isEmpty && (decide (T < 0) → polls.all (· ≠ .timedOut))
  | _ => true

def histOk (m : Sys) : List Op → Bool
  | [] => true
  | op :: ops =>
    op.ok m && match sysStep m op with
      | none => true
      | some (m', _) => histOk m' ops

/-! ## the model satisfies the predicate: system-call traces of the model functions -/

theorem obsAcc_append (a b : List SysObs) : obsAcc (a ++ b) = obsAcc a + obsAcc b := by
  induction a with
  | nil => simp [obsAcc]
  | cons o l ih => simp only [List.cons_append, obsAcc, ih]; omega

theorem recvGot_append (a b : List SysObs) : recvGot (a ++ b) = recvGot a + recvGot b := by
  induction a with
  | nil => simp [recvGot]
  | cons o l ih => simp only [List.cons_append, recvGot, ih]; omega

def isPoll : SysObs → Bool | .poll .. => true | _ => false
/-- only `poll`s (what a `Wait` does) -/
def PollsOnly (l : List SysObs) : Prop := l.all isPoll = true

theorem PollsOnly.facts {l : List SysObs} (h : PollsOnly l) :
    obsAcc l = 0 ∧ recvGot l = 0 ∧ hasIoFail l = false ∧ anySend l = false ∧ anyRecvGot l = false ∧ sentOk l = false := by
  induction l with
  | nil => simp [obsAcc, recvGot, hasIoFail, anySend, anyRecvGot, sentOk]
  | cons o l ih =>
    unfold PollsOnly at h
    simp only [List.all_cons, Bool.and_eq_true] at h
    obtain ⟨h1, h2, h3, h4, h5, h6⟩ := ih h.2
    cases o with
    | poll t a =>
      simp only [hasIoFail, anySend, anyRecvGot, sentOk] at h3 h4 h5 h6
      simp [obsAcc, recvGot, accOf, gotOf, hasIoFail, anySend, anyRecvGot, sentOk, isIoFail, isSend, isRecvGot, isSentOk,
        h1, h2, h3, h4, h5, h6]
    | send _ _ _ => simp [isPoll] at h
    | recv _ _ => simp [isPoll] at h

/-- what an exception of a model function can be, given the system calls made: the script ran out, an
errno of a FAILED system call, and (where the function can raise them) the two library-made exceptions -/
def ExnC (lg cl : Bool) (l : List SysObs) (e : Exn) : Prop :=
  e = .exhausted ∨ (∃ c, e = .system c ∧ (hasPollFail l = true ∨ hasIoFail l = true)) ∨
  (lg = true ∧ e = .logic) ∨ (cl = true ∧ e = .closed)

theorem ExnC.append_right {lg cl : Bool} {l : List SysObs} {e : Exn} (h : ExnC lg cl l e) (l2 : List SysObs) :
    ExnC lg cl (l ++ l2) e := by
  rcases h with h | ⟨c, hc, hf⟩ | h | h
  · exact Or.inl h
  · refine Or.inr (Or.inl ⟨c, hc, ?_⟩)
    simp only [hasPollFail, hasIoFail, List.any_append, Bool.or_eq_true] at hf ⊢
    rcases hf with hf | hf
    · exact Or.inl (Or.inl hf)
    · exact Or.inr (Or.inl hf)
  · exact Or.inr (Or.inr (Or.inl h))
  · exact Or.inr (Or.inr (Or.inr h))

theorem ExnC.append_left {lg cl : Bool} {l : List SysObs} {e : Exn} (h : ExnC lg cl l e) (l1 : List SysObs) :
    ExnC lg cl (l1 ++ l) e := by
  rcases h with h | ⟨c, hc, hf⟩ | h | h
  · exact Or.inl h
  · refine Or.inr (Or.inl ⟨c, hc, ?_⟩)
    simp only [hasPollFail, hasIoFail, List.any_append, Bool.or_eq_true] at hf ⊢
    rcases hf with hf | hf
    · exact Or.inl (Or.inr hf)
    · exact Or.inr (Or.inr hf)
  · exact Or.inr (Or.inr (Or.inl h))
  · exact Or.inr (Or.inr (Or.inr h))

theorem ExnC.weaken {l : List SysObs} {e : Exn} (h : ExnC false false l e) (lg cl : Bool) : ExnC lg cl l e := by
  rcases h with h | h | h | h
  · exact Or.inl h
  · exact Or.inr (Or.inl h)
  · exact absurd h.1 (by decide)
  · exact absurd h.1 (by decide)

theorem ExnC.exhausted (lg cl : Bool) (l : List SysObs) : ExnC lg cl l .exhausted := Or.inl rfl

section Traces
variable (f : RecvAns → Nat → RecvObs)

/-- one system call of the model: the change of `Os` and the observation it corresponds to -/
inductive Step1 : Os → SysObs → Os → Prop
  | poll {os os' : Os} {t : Int} {a : PollAns} {rest : List PollAns} :
      os.polls = a :: rest → os'.polls = rest → os'.sends = os.sends → os'.recvs = os.recvs →
      os'.calls = .poll t :: os.calls → Step1 os (.poll t a) os'
  | send {os os' : Os} {len : Nat} {acc : Bytes} {a : SendAns} {rest : List SendAns} :
      os.sends = a :: rest → os'.sends = rest → os'.polls = os.polls → os'.recvs = os.recvs →
      os'.calls = .send len acc :: os.calls → (∀ e, a = .fail e → acc = []) →
      Step1 os (.send len (sendObs a acc) true) os'
  | recv {os os' : Os} {size : Nat} {a : RecvAns} {rest : List RecvAns} :
      os.recvs = a :: rest → os'.recvs = rest → os'.polls = os.polls → os'.sends = os.sends →
      os'.calls = .recv size :: os.calls → Step1 os (.recv size (f a size)) os'

inductive Run : Os → List SysObs → Os → Prop
  | nil (os : Os) : Run os [] os
  | cons {a : Os} {o : SysObs} {b : Os} {l : List SysObs} {c : Os} : Step1 f a o b → Run b l c → Run a (o :: l) c

variable {f}

theorem Run.single {a b : Os} {o : SysObs} (h : Step1 f a o b) : Run f a [o] b := .cons h (.nil b)

theorem Run.trans {a b c : Os} {l1 l2 : List SysObs} (h1 : Run f a l1 b) (h2 : Run f b l2 c) : Run f a (l1 ++ l2) c := by
  induction h1 with
  | nil _ => exact h2
  | cons s _ ih => exact .cons s (ih h2)

/-- the trace of a run is the pairing of the calls logged with the answers consumed -/
theorem Run.pair {a c : Os} {l : List SysObs} (h : Run f a l c) :
    ∃ cs, c.calls = cs.reverse ++ a.calls ∧ pair f cs a.polls a.sends a.recvs = l := by
  induction h with
  | nil os => exact ⟨[], by simp, by rw [C01.pair]⟩
  | cons s _ ih =>
    obtain ⟨cs, hc, hp⟩ := ih
    cases s with
    | poll h1 h2 h3 h4 h5 =>
      refine ⟨_ :: cs, by rw [hc, h5]; simp; exact rfl, ?_⟩
      rw [h1, C01.pair, ← h2, ← h3, ← h4, hp]
    | send h1 h2 h3 h4 h5 _ =>
      refine ⟨_ :: cs, by rw [hc, h5]; simp; exact rfl, ?_⟩
      rw [h1, C01.pair, ← h2, ← h3, ← h4, hp]
    | recv h1 h2 h3 h4 h5 =>
      refine ⟨_ :: cs, by rw [hc, h5]; simp; exact rfl, ?_⟩
      rw [h1, C01.pair, ← h2, ← h3, ← h4, hp]

theorem Run.sysOf {os os' : Os} {l : List SysObs} (h : Run f os l os') (h0 : os.calls = []) : sysOf f os os' = l := by
  obtain ⟨cs, hc, hp⟩ := h.pair
  unfold C01.sysOf
  rw [hc, h0]; simpa using hp

theorem Run.wireLen {a c : Os} {l : List SysObs} (h : Run f a l c) : (wire c).length = (wire a).length + obsAcc l := by
  induction h with
  | nil os => simp [obsAcc]
  | cons s _ ih =>
    rw [ih]
    cases s with
    | poll h1 h2 h3 h4 h5 => rw [wire_cons _ _ _ h5]; simp [callBytes, obsAcc, accOf]
    | @send _ len acc a rest h1 h2 h3 h4 h5 h6 =>
      rw [wire_cons _ _ _ h5]
      cases a with
      | accept k => simp [callBytes, obsAcc, accOf, sendObs]; omega
      | fail e => simp [callBytes, obsAcc, accOf, sendObs, h6 e rfl]
    | recv h1 h2 h3 h4 h5 => rw [wire_cons _ _ _ h5]; simp [callBytes, obsAcc, accOf]

theorem Run.nosig {a c : Os} {l : List SysObs} (h : Run f a l c) : nosigBad l = false := by
  induction h with
  | nil os => rfl
  | cons s _ ih =>
    unfold nosigBad at ih ⊢
    cases s <;> simp [isNosigBad, ih]

/-- a run of `poll`s leaves the other answer queues alone -/
theorem Run.frame {a c : Os} {l : List SysObs} (h : Run f a l c) (hp : PollsOnly l) :
    c.sends = a.sends ∧ c.recvs = a.recvs := by
  induction h with
  | nil os => exact ⟨rfl, rfl⟩
  | cons s _ ih =>
    unfold PollsOnly at hp
    simp only [List.all_cons, Bool.and_eq_true] at hp
    obtain ⟨i1, i2⟩ := ih hp.2
    cases s with
    | poll h1 h2 h3 h4 h5 => exact ⟨by rw [i1, h3], by rw [i2, h4]⟩
    | send => simp [isPoll] at hp
    | recv => simp [isPoll] at hp

end Traces

section Fns
variable (f : RecvAns → Nat → RecvObs)

theorem pollOnce_step {t : Int} {os os' : Os} {a' : PollAns} (h : pollOnce t os = some (a', os')) :
    ∃ a, Step1 f os (.poll t a) os' ∧ (∀ e, a' = .fail e → a = .fail e) := by
  unfold pollOnce at h
  split at h
  · cases h
  · rename_i a0 rest hp
    refine ⟨a0, ?_, ?_⟩
    · simp only at h
      split at h
      · split at h <;> (cases h; exact .poll hp rfl rfl rfl rfl)
      · split at h <;> (cases h; exact .poll hp rfl rfl rfl rfl)
      · cases h; split <;> exact .poll hp rfl rfl rfl rfl
      · cases h; exact .poll hp rfl rfl rfl rfl
    · intro e he
      simp only at h
      split at h
      · split at h <;> (cases h; cases he)
      · split at h <;> (cases h; cases he)
      · cases h; cases he
      · cases h; cases he; rfl

theorem pollsOnly_single (t : Int) (a : PollAns) : PollsOnly [SysObs.poll t a] := rfl

theorem pollsOnly_cons (t : Int) (a : PollAns) {l : List SysObs} (h : PollsOnly l) : PollsOnly (SysObs.poll t a :: l) := by
  unfold PollsOnly at h ⊢
  simp [isPoll, h]

theorem waitFixed_run (t : Int) (fuel : Nat) (os : Os) :
    ∃ l, Run f os l (waitFixed t fuel os).2 ∧ PollsOnly l ∧
      ∀ e, (waitFixed t fuel os).1 = .exn e → ExnC false false l e := by
  induction fuel generalizing os with
  | zero => exact ⟨[], .nil _, rfl, fun e he => by cases he; exact .exhausted _ _ _⟩
  | succ fuel ih =>
    unfold waitFixed
    cases hp : pollOnce t os with
    | none => exact ⟨[], .nil _, rfl, fun e he => by cases he; exact .exhausted _ _ _⟩
    | some r =>
      obtain ⟨a', os1⟩ := r
      obtain ⟨a, hs, hf⟩ := pollOnce_step f hp
      cases a' with
      | ready d => exact ⟨[.poll t a], .single hs, pollsOnly_single _ _, fun e he => by cases he⟩
      | timedOut => exact ⟨[.poll t a], .single hs, pollsOnly_single _ _, fun e he => by cases he⟩
      | fail c =>
        have := hf c rfl
        subst this
        exact ⟨[.poll t (.fail c)], .single hs, pollsOnly_single _ _,
          fun e he => by cases he; exact Or.inr (Or.inl ⟨c, rfl, Or.inl rfl⟩)⟩
      | eintr d =>
        obtain ⟨l, hr, hpo, hex⟩ := ih os1
        exact ⟨.poll t a :: l, .cons hs hr, pollsOnly_cons _ _ hpo, fun e he => (hex e he).append_left [_]⟩

theorem waitLimited_run (dl : Int) (fuel : Nat) (os : Os) :
    ∃ l, Run f os l (waitLimited dl fuel os).2 ∧ PollsOnly l ∧
      ∀ e, (waitLimited dl fuel os).1 = .exn e → ExnC false false l e := by
  induction fuel generalizing os with
  | zero => exact ⟨[], .nil _, rfl, fun e he => by cases he; exact .exhausted _ _ _⟩
  | succ fuel ih =>
    unfold waitLimited
    cases hp : pollOnce (toMsec (Deadline.limited os.now dl).remaining) os with
    | none => exact ⟨[], .nil _, rfl, fun e he => by cases he; exact .exhausted _ _ _⟩
    | some r =>
      obtain ⟨a', os1⟩ := r
      obtain ⟨a, hs, hf⟩ := pollOnce_step f hp
      cases a' with
      | ready d => exact ⟨[.poll _ a], .single hs, pollsOnly_single _ _, fun e he => by cases he⟩
      | timedOut => exact ⟨[.poll _ a], .single hs, pollsOnly_single _ _, fun e he => by cases he⟩
      | fail c =>
        have := hf c rfl
        subst this
        exact ⟨[.poll _ (.fail c)], .single hs, pollsOnly_single _ _,
          fun e he => by cases he; exact Or.inr (Or.inl ⟨c, rfl, Or.inl rfl⟩)⟩
      | eintr d =>
        obtain ⟨l, hr, hpo, hex⟩ := ih os1
        exact ⟨.poll _ a :: l, .cons hs hr, pollsOnly_cons _ _ hpo, fun e he => (hex e he).append_left [_]⟩

/-- a `Wait` only polls; it fails only with the errno of a failed `poll` -/
theorem wait_run (T : Int) (os : Os) :
    ∃ l, Run f os l (wait T os).2 ∧ PollsOnly l ∧ ∀ e, (wait T os).1 = .exn e → ExnC false false l e := by
  unfold wait
  split
  · exact waitFixed_run f _ _ _
  · exact waitLimited_run f _ _ _

theorem sendNow_run (data : Bytes) (os : Os) :
    ∃ l, Run f os l (sendNow data os).2 ∧ ∀ e, (sendNow data os).1 = .exn e → ExnC true false l e := by
  unfold sendNow
  cases hs : os.sends with
  | nil => exact ⟨[], .nil _, fun e he => by cases he; exact .exhausted _ _ _⟩
  | cons a rest =>
    cases a with
    | accept k =>
      simp only
      refine ⟨[.send data.length (sendObs (.accept k) (data.take (min k data.length))) true], ?_, ?_⟩
      · split <;> exact .single (.send hs rfl rfl rfl rfl (by intro e he; cases he))
      · intro e he
        split at he
        · cases he; exact Or.inr (Or.inr (Or.inl ⟨rfl, rfl⟩))
        · cases he
    | fail c =>
      refine ⟨[.send data.length (sendObs (.fail c) []) true],
        .single (.send hs rfl rfl rfl rfl (fun _ _ => rfl)), ?_⟩
      intro e he
      cases he
      exact Or.inr (Or.inl ⟨c, rfl, Or.inr rfl⟩)

theorem sendAllLoop_run (fuel : Nat) (rem : Bytes) (sent : Nat) (os : Os) :
    ∃ l, Run f os l (sendAllLoop fuel rem sent os).2 ∧
      ∀ e, (sendAllLoop fuel rem sent os).1 = .exn e → ExnC true false l e := by
  induction fuel generalizing rem sent os with
  | zero => exact ⟨[], .nil _, fun e he => by cases he; exact .exhausted _ _ _⟩
  | succ fuel ih =>
    unfold sendAllLoop
    obtain ⟨lw, hrw, _, hexw⟩ := wait_run f (-1) os
    cases hw : wait (-1) os with
    | mk rw osw =>
      rw [hw] at hrw hexw
      cases rw with
      | exn e => exact ⟨lw, hrw, fun e he => by cases he; exact (hexw _ rfl).weaken _ _⟩
      | ok b =>
        simp only
        obtain ⟨ls, hrs, hexs⟩ := sendNow_run f rem osw
        cases hs : sendNow rem osw with
        | mk rs oss =>
          rw [hs] at hrs hexs
          cases rs with
          | exn e => exact ⟨lw ++ ls, hrw.trans hrs, fun e he => by cases he; exact (hexs _ rfl).append_left _⟩
          | ok k =>
            simp only
            split
            · exact ⟨lw ++ ls, hrw.trans hrs, fun e he => by cases he⟩
            · obtain ⟨l3, hr3, hex3⟩ := ih (rem.drop k) (sent + k) oss
              exact ⟨(lw ++ ls) ++ l3, (hrw.trans hrs).trans hr3, fun e he => (hex3 e he).append_left _⟩

theorem sendTry_run (data : Bytes) (os : Os) :
    ∃ l, Run f os l (sendTry data os).2 ∧ ∀ e, (sendTry data os).1 = .exn e → ExnC true false l e := by
  unfold sendTry
  obtain ⟨lw, hrw, _, hexw⟩ := wait_run f 0 os
  cases hw : wait 0 os with
  | mk rw osw =>
    rw [hw] at hrw hexw
    cases rw with
    | exn e => exact ⟨lw, hrw, fun e he => by cases he; exact (hexw _ rfl).weaken _ _⟩
    | ok b =>
      cases b with
      | false => exact ⟨lw, hrw, fun e he => by cases he⟩
      | true =>
        simp only
        obtain ⟨ls, hrs, hexs⟩ := sendNow_run f data osw
        exact ⟨lw ++ ls, hrw.trans hrs, fun e he => (hexs e he).append_left _⟩

theorem sendSomeLoop_run (deadline : Int) (fuel : Nat) (rem : Bytes) (sent : Nat) (dnow : Int) (os : Os) :
    ∃ l, Run f os l (sendSomeLoop deadline fuel rem sent dnow os).2 ∧
      ∀ e, (sendSomeLoop deadline fuel rem sent dnow os).1 = .exn e → ExnC true false l e := by
  induction fuel generalizing rem sent dnow os with
  | zero => exact ⟨[], .nil _, fun e he => by cases he; exact .exhausted _ _ _⟩
  | succ fuel ih =>
    unfold sendSomeLoop
    obtain ⟨lw, hrw, _, hexw⟩ := wait_run f (Deadline.limited dnow deadline).remaining os
    cases hw : wait (Deadline.limited dnow deadline).remaining os with
    | mk rw osw =>
      rw [hw] at hrw hexw
      cases rw with
      | exn e => exact ⟨lw, hrw, fun e he => by cases he; exact (hexw _ rfl).weaken _ _⟩
      | ok b =>
        cases b with
        | false => exact ⟨lw, hrw, fun e he => by cases he⟩
        | true =>
          simp only
          obtain ⟨ls, hrs, hexs⟩ := sendNow_run f rem osw
          cases hs : sendNow rem osw with
          | mk rs oss =>
            rw [hs] at hrs hexs
            cases rs with
            | exn e => exact ⟨lw ++ ls, hrw.trans hrs, fun e he => by cases he; exact (hexs _ rfl).append_left _⟩
            | ok k =>
              simp only
              split
              · exact ⟨lw ++ ls, hrw.trans hrs, fun e he => by cases he⟩
              · obtain ⟨l3, hr3, hex3⟩ := ih (rem.drop k) (sent + k) osw.now oss
                exact ⟨(lw ++ ls) ++ l3, (hrw.trans hrs).trans hr3, fun e he => (hex3 e he).append_left _⟩

/-- `Send`: its system calls, and it fails only with the errno of a failed system call or with the
`logic_error` of `SendNow` - never because of a signal, never with "connection closed" -/
theorem send_run (data : Bytes) (T : Int) (os : Os) :
    ∃ l, Run f os l (send data T os).2 ∧ ∀ e, (send data T os).1 = .exn e → ExnC true false l e := by
  unfold send
  split
  · exact sendAllLoop_run f _ _ _ _
  · split
    · exact sendTry_run f _ _
    · exact sendSomeLoop_run f _ _ _ _ _ _

end Fns

theorem recvGot_single (size : Nat) (a : RecvObs) : recvGot [SysObs.recv size a] = gotOf (.recv size a) := by
  simp [recvGot]

/-- `Receive` on a connection whose kernel would answer the `recv` with `ra` -/
theorem receive_trace (size : Nat) (T : Int) (os : Os) (ra : RecvAns) (hrec : os.recvs = [ra]) :
    ∃ l, Run tcpRecvObs os l (receive size T os).2 ∧
      (∀ e, (receive size T os).1 = .exn e → ExnC false true l e ∧ recvGot l = 0 ∧
        (e = .closed → ra = .eof ∨ ∃ x, ra = .got x ∧ x.take size = [])) ∧
      ((receive size T os).1 = .ok none → recvGot l = 0) ∧
      (∀ bs, (receive size T os).1 = .ok (some bs) →
        ∃ x, ra = .got x ∧ bs = x.take size ∧ bs ≠ [] ∧ recvGot l = bs.length) := by
  unfold receive
  obtain ⟨lw, hrw, hpw, hexw⟩ := wait_run tcpRecvObs T os
  cases hw : wait T os with
  | mk rw osw =>
    rw [hw] at hrw hexw
    have hfr := (hrw.frame hpw).2
    simp only at hfr
    rw [hrec] at hfr
    have hg0 := hpw.facts.2.1
    cases rw with
    | exn e =>
      refine ⟨lw, hrw, ?_, (fun h => by cases h), (fun bs h => by cases h)⟩
      intro e' he
      cases he
      refine ⟨(hexw _ rfl).weaken _ _, hg0, ?_⟩
      intro hc
      subst hc
      rcases hexw _ rfl with h | ⟨c, h, _⟩ | h | h
      · cases h
      · cases h
      · exact absurd h.1 (by decide)
      · exact absurd h.1 (by decide)
    | ok b =>
      cases b with
      | false => exact ⟨lw, hrw, (fun e h => by cases h), fun _ => hg0, (fun bs h => by cases h)⟩
      | true =>
        simp only
        unfold recvNow
        rw [hfr]
        simp only
        have hstep : Step1 tcpRecvObs osw (.recv size (tcpRecvObs ra size))
            { osw with recvs := [], calls := .recv size :: osw.calls } := .recv hfr rfl rfl rfl rfl
        have hrun := hrw.trans (Run.single hstep)
        cases ra with
        | got x =>
          simp only
          by_cases hemp : (x.take size).isEmpty = true
          · rw [if_pos hemp]
            refine ⟨_, hrun, ?_, (fun h => by cases h), (fun bs h => by cases h)⟩
            intro e he
            cases he
            refine ⟨Or.inr (Or.inr (Or.inr ⟨rfl, rfl⟩)), ?_, fun _ => Or.inr ⟨x, rfl, by simpa using hemp⟩⟩
            rw [recvGot_append, hg0, recvGot_single]
            simp [tcpRecvObs, hemp, gotOf]
          · rw [if_neg hemp]
            refine ⟨_, hrun, (fun e h => by cases h), (fun h => by cases h), ?_⟩
            intro bs hb
            cases hb
            refine ⟨x, rfl, rfl, by simpa using hemp, ?_⟩
            rw [recvGot_append, hg0, recvGot_single]
            simp [tcpRecvObs, hemp, gotOf]
        | eof =>
          refine ⟨_, hrun, ?_, (fun h => by cases h), (fun bs h => by cases h)⟩
          intro e he
          cases he
          refine ⟨Or.inr (Or.inr (Or.inr ⟨rfl, rfl⟩)), ?_, fun _ => Or.inl rfl⟩
          rw [recvGot_append, hg0, recvGot_single]; rfl
        | fail c =>
          refine ⟨_, hrun, ?_, (fun h => by cases h), (fun bs h => by cases h)⟩
          intro e he
          cases he
          refine ⟨ExnC.append_left (lg := false) (cl := true) (l := [SysObs.recv size (tcpRecvObs (.fail c) size)])
              (Or.inr (Or.inl ⟨c, rfl, Or.inr rfl⟩)) lw, ?_,
            by intro h; cases h⟩
          rw [recvGot_append, hg0, recvGot_single]; rfl

theorem wire_nil_of_calls {os : Os} (h : os.calls = []) : wire os = [] := by
  unfold wire; rw [h]; rfl

/-- `SendTo`: one wait, at most one `sendto`; all or nothing -/
theorem sendTo_trace (data : Bytes) (T : Int) (os : Os) (h0 : os.calls = []) :
    ∃ l, Run udpRecvObs os l (sendTo data T os).2 ∧
      (∀ e, (sendTo data T os).1 = .exn e → ExnC true false l e) ∧
      (∀ n, (sendTo data T os).1 = .ok n →
        (n = 0 ∧ anySend l = false ∧ sentOk l = false ∧ (wait T os).1 = .ok false) ∨
        (n = data.length ∧ anySend l = true ∧ sentOk l = true ∧ wire (sendTo data T os).2 = data)) := by
  unfold sendTo
  obtain ⟨lw, hrw, hpw, hexw⟩ := wait_run udpRecvObs T os
  cases hw : wait T os with
  | mk rw osw =>
    rw [hw] at hrw hexw
    simp only at hrw
    obtain ⟨hacc0, _, _, hs0, _, hso0⟩ := hpw.facts
    have hwire : wire osw = [] := by
      have := hrw.wireLen
      rw [wire_nil_of_calls h0, hacc0] at this
      exact List.eq_nil_of_length_eq_zero (by simpa using this)
    cases rw with
    | exn e => exact ⟨lw, hrw, (fun e he => by cases he; exact (hexw _ rfl).weaken _ _), (fun n h => by cases h)⟩
    | ok b =>
      cases b with
      | false =>
        refine ⟨lw, hrw, (fun e h => by cases h), ?_⟩
        intro n hn
        cases hn
        exact Or.inl ⟨rfl, hs0, hso0, rfl⟩
      | true =>
        simp only
        cases hs : osw.sends with
        | nil => exact ⟨lw, hrw, (fun e he => by cases he; exact .exhausted _ _ _), (fun n h => by cases h)⟩
        | cons a rest =>
          cases a with
          | accept k =>
            simp only
            have hstep : Step1 udpRecvObs osw (.send data.length (sendObs (.accept k) (data.take (min k data.length))) true)
                { osw with sends := rest, calls := .send data.length (data.take (min k data.length)) :: osw.calls } :=
              .send hs rfl rfl rfl rfl (by intro e he; cases he)
            have hrun := hrw.trans (Run.single hstep)
            by_cases hk : k ≠ data.length
            · rw [if_pos hk]
              exact ⟨_, hrun, (fun e he => by cases he; exact Or.inr (Or.inr (Or.inl ⟨rfl, rfl⟩))), (fun n h => by cases h)⟩
            · rw [if_neg hk]
              have hk' : k = data.length := by omega
              refine ⟨_, hrun, (fun e h => by cases h), ?_⟩
              intro n hn
              cases hn
              refine Or.inr ⟨hk', ?_, ?_, ?_⟩
              · simp [anySend, List.any_append, isSend]
              · simp [sentOk, List.any_append, isSentOk, sendObs]
              · rw [wire_cons osw (.send data.length (data.take (min k data.length))) _ rfl, hwire, hk']
                simp [callBytes]
          | fail c =>
            have hstep : Step1 udpRecvObs osw (.send data.length (sendObs (.fail c) []) true)
                { osw with sends := rest, calls := .send data.length [] :: osw.calls } :=
              .send hs rfl rfl rfl rfl (fun _ _ => rfl)
            exact ⟨_, hrw.trans (Run.single hstep),
              (fun e he => by
                cases he
                exact ExnC.append_left (l := [SysObs.send data.length (sendObs (.fail c) []) true])
                  (Or.inr (Or.inl ⟨c, rfl, Or.inr rfl⟩)) lw),
              (fun n h => by cases h)⟩

/-- `ReceiveFrom`: one wait, at most one `recvfrom` -/
theorem receiveFrom_trace (size : Nat) (T : Int) (os : Os) (ra : RecvAns) (hrec : os.recvs = [ra]) :
    ∃ l, Run udpRecvObs os l (receiveFrom size T os).2 ∧
      (∀ e, (receiveFrom size T os).1 = .exn e → ExnC false false l e ∧ anyRecvGot l = false) ∧
      ((receiveFrom size T os).1 = .ok none → anyRecvGot l = false) ∧
      (∀ bs, (receiveFrom size T os).1 = .ok (some bs) → anyRecvGot l = true ∧
        ((∃ x, ra = .got x ∧ bs = x.take size) ∨ (ra = .eof ∧ bs = []))) := by
  unfold receiveFrom
  obtain ⟨lw, hrw, hpw, hexw⟩ := wait_run udpRecvObs T os
  cases hw : wait T os with
  | mk rw osw =>
    rw [hw] at hrw hexw
    have hfr := (hrw.frame hpw).2
    simp only at hfr hrw
    rw [hrec] at hfr
    have hg0 := hpw.facts.2.2.2.2.1
    cases rw with
    | exn e => exact ⟨lw, hrw, (fun e he => by cases he; exact ⟨hexw _ rfl, hg0⟩), (fun h => by cases h), (fun bs h => by cases h)⟩
    | ok b =>
      cases b with
      | false => exact ⟨lw, hrw, (fun e h => by cases h), (fun _ => hg0), (fun bs h => by cases h)⟩
      | true =>
        simp only
        rw [hfr]
        simp only
        have hstep : Step1 udpRecvObs osw (.recv size (udpRecvObs ra size))
            { osw with recvs := [], calls := .recv size :: osw.calls } := .recv hfr rfl rfl rfl rfl
        have hrun := hrw.trans (Run.single hstep)
        cases ra with
        | got x =>
          refine ⟨_, hrun, (fun e h => by cases h), (fun h => by cases h), ?_⟩
          intro bs hb
          cases hb
          exact ⟨by simp [anyRecvGot, List.any_append, isRecvGot, udpRecvObs], Or.inl ⟨x, rfl, rfl⟩⟩
        | eof =>
          refine ⟨_, hrun, (fun e h => by cases h), (fun h => by cases h), ?_⟩
          intro bs hb
          cases hb
          exact ⟨by simp [anyRecvGot, List.any_append, isRecvGot, udpRecvObs], Or.inr ⟨rfl, rfl⟩⟩
        | fail c =>
          refine ⟨_, hrun, ?_, (fun h => by cases h), (fun bs h => by cases h)⟩
          intro e he
          cases he
          refine ⟨ExnC.append_left (l := [SysObs.recv size (udpRecvObs (.fail c) size)])
            (Or.inr (Or.inl ⟨c, rfl, Or.inr rfl⟩)) lw, ?_⟩
          unfold anyRecvGot at hg0 ⊢
          simp [List.any_append, hg0, isRecvGot, udpRecvObs]

/-- `Accept(timeout)`: one wait, at most one `accept` -/
theorem acceptT_trace (T : Int) (os : Os) :
    ∃ l, Run accRecvObs os l (acceptT T os).2 ∧ ∀ e, (acceptT T os).1 = .exn e → ExnC false false l e := by
  unfold acceptT
  obtain ⟨lw, hrw, hpw, hexw⟩ := wait_run accRecvObs T os
  cases hw : wait T os with
  | mk rw osw =>
    rw [hw] at hrw hexw
    simp only at hrw
    cases rw with
    | exn e => exact ⟨lw, hrw, (fun e he => by cases he; exact hexw _ rfl)⟩
    | ok b =>
      cases b with
      | false => exact ⟨lw, hrw, (fun e h => by cases h)⟩
      | true =>
        simp only
        cases hr : osw.recvs with
        | nil => exact ⟨lw, hrw, (fun e he => by cases he; exact .exhausted _ _ _)⟩
        | cons a rest =>
          simp only
          have hstep : Step1 accRecvObs osw (.recv 0 (accRecvObs a 0))
              { osw with recvs := rest, calls := .recv 0 :: osw.calls } := .recv hr rfl rfl rfl rfl
          have hrun := hrw.trans (Run.single hstep)
          cases a with
          | got x => exact ⟨_, hrun, (fun e h => by cases h)⟩
          | eof => exact ⟨_, hrun, (fun e h => by cases h)⟩
          | fail c =>
            exact ⟨_, hrun, (fun e he => by
              cases he
              exact ExnC.append_left (l := [SysObs.recv 0 (accRecvObs (.fail c) 0)])
                (Or.inr (Or.inl ⟨c, rfl, Or.inr rfl⟩)) lw)⟩

/-! ## the simulation -/

/-- the observer's book-keeping that corresponds to a state of the environment -/
def absSt (m : Sys) (last : Option Bytes) : SpecSt :=
  { wireLen := m.wire.length, wireHash := m.wire.foldl fnvStep fnvInit, peerPending := m.inbox,
    peerClosed := m.peerClosed, sawPclose := m.byClose, sawPrst := m.byRst, dgrams := m.dgrams, lastSent := last }

/-- observer and environment agree; a datagram the observer still expects at the peer is the next one
the peer will read -/
def Rel (m : Sys) (sp : SpecSt) : Prop :=
  ∃ last, sp = absSt m last ∧ ∀ d, last = some d → m.flight.head? = some d

theorem rel_init : Rel {} {} := ⟨none, rfl, by intro d h; cases h⟩

theorem take_length_take {α : Type} (l : List α) (k : Nat) : l.take (l.take k).length = l.take k := by
  rw [List.length_take]
  by_cases h : k ≤ l.length
  · rw [Nat.min_eq_left h]
  · rw [Nat.min_eq_right (by omega), List.take_length, List.take_of_length_le (by omega)]

theorem toMsec_neg {T : Int} (h : T < 0) : toMsec T < 0 := by
  unfold toMsec intMax
  split
  · omega
  · split <;> omega

theorem wait_neg_not_false {T : Int} (hT : T < 0) (os : Os) (hs : ∀ a ∈ os.polls, a ≠ .timedOut) :
    (wait T os).1 ≠ .ok false := by
  unfold wait
  rw [if_pos (by omega)]
  exact waitFixed_neg_false (toMsec_neg hT) _ os hs

/-! the clauses, one lemma per result shape -/

theorem specSend_count_ok {data : Bytes} {T : Int} {sys : List SysObs} {n : Nat} (h1 : n ≤ data.length)
    (h2 : T < 0 → n = data.length) (h3 : n = obsAcc sys) : specSend data T sys (.count n) = none := by
  simp only [specSend]
  rw [if_neg (by omega), if_neg (by intro h; exact h.2 (h2 h.1)), if_neg (by omega)]

theorem specSend_threw_ok {data : Bytes} {T : Int} {sys : List SysObs} {x : Thrown}
    (h : hasPollFail sys = true ∨ hasIoFail sys = true ∨ x = .logic) : specSend data T sys (.threw x) = none := by
  simp only [specSend]
  rcases h with h | h | h <;> simp [h]

theorem specRecv_threw_ok {s : SpecSt} {size : Nat} {sys : List SysObs} {c : Nat}
    (h : hasPollFail sys = true ∨ hasIoFail sys = true) : specRecv s size sys (.threw (.system c)) = none := by
  simp only [specRecv]
  rcases h with h | h <;> simp [h]

theorem specRecv_closed_ok {s : SpecSt} {size : Nat} {sys : List SysObs} (h1 : s.peerPending = [])
    (h2 : s.peerClosed = true) : specRecv s size sys (.threw .closed) = none := by
  simp [specRecv, h1, h2]

theorem specRecv_data_ok {s : SpecSt} {size : Nat} {sys : List SysObs} {n : Nat} {h : String} (h1 : 0 < n)
    (h2 : n ≤ size) (h3 : n ≤ s.peerPending.length) (h4 : fnv (s.peerPending.take n) = h) :
    specRecv s size sys (.data (some n) h) = none := by
  simp only [specRecv]
  rw [if_neg (by omega), if_neg (by intro hh; rcases hh with hh | hh; omega; exact hh h4)]

theorem specSendTo_count_ok {data : Bytes} {T : Int} {sys : List SysObs} {n : Nat}
    (h1 : n = data.length ∨ n = 0) (h2 : n = 0 → 0 < data.length → ¬ T < 0) :
    specSendTo data T sys (.count n) = none := by
  simp only [specSendTo]
  rw [if_neg (by omega), if_neg (by intro h; exact h2 h.1 h.2.1 h.2.2)]

theorem specSendTo_threw_ok {data : Bytes} {T : Int} {sys : List SysObs} {x : Thrown}
    (h : hasPollFail sys = true ∨ hasIoFail sys = true ∨ x = .logic) : specSendTo data T sys (.threw x) = none := by
  simp only [specSendTo]
  rcases h with h | h | h <;> simp [h]

theorem specRecvFrom_threw_ok {s : SpecSt} {size : Nat} {sys : List SysObs} {x : Thrown}
    (h : hasPollFail sys = true ∨ hasIoFail sys = true) : specRecvFrom s size sys (.threw x) = none := by
  simp only [specRecvFrom]
  rcases h with h | h <;> simp [h]

theorem specRecvFrom_data_ok {s : SpecSt} {size : Nat} {sys : List SysObs} {n : Option Nat} {h : String}
    (h1 : n = some (min size (s.dgrams.headD []).length)) (h2 : h = fnv ((s.dgrams.headD []).take size)) :
    specRecvFrom s size sys (.data n h) = none := by
  simp [specRecvFrom, h1, h2]

theorem specListen_threw_ok {sys : List SysObs} {x : Thrown}
    (h : hasPollFail sys = true ∨ hasIoFail sys = true) : specListen sys (.threw x) = none := by
  simp only [specListen]
  rcases h with h | h <;> simp [h]

/-- an errno needs a failed system call; the library-made exceptions only where the function can raise them -/
theorem ExnC.system_fail {lg cl : Bool} {l : List SysObs} {c : Nat} (h : ExnC lg cl l (.system c)) :
    hasPollFail l = true ∨ hasIoFail l = true := by
  rcases h with h | ⟨_, _, h⟩ | h | h
  · cases h
  · exact h
  · cases h.2
  · cases h.2

theorem ExnC.not_logic {cl : Bool} {l : List SysObs} (h : ExnC false cl l .logic) : False := by
  rcases h with h | ⟨_, h, _⟩ | h | h
  · cases h
  · cases h
  · cases h.1
  · cases h.2

theorem ExnC.not_closed {lg : Bool} {l : List SysObs} (h : ExnC lg false l .closed) : False := by
  rcases h with h | ⟨_, h, _⟩ | h | h
  · cases h
  · cases h
  · cases h.2
  · cases h.1

theorem step_send {m : Sys} {sp : SpecSt} (hrel : Rel m sp) (data : Bytes) (T : Int) (polls : List PollAns)
    (sends : List SendAns) {m' : Sys} {o : Obs} (hstep : sysStep m (.send data T polls sends) = some (m', o)) :
    ∃ sp', specStep sp o = .ok sp' ∧ Rel m' sp' := by
  obtain ⟨last, rfl, hlast⟩ := hrel
  simp only [sysStep] at hstep
  obtain ⟨l, hrun, hex⟩ := send_run tcpRecvObs data T { polls := polls, sends := sends }
  have hsys := hrun.sysOf rfl
  have hnosig := hrun.nosig
  have hwl := hrun.wireLen
  obtain ⟨n', hn', hwire, hacc⟩ := send_prefix data T { polls := polls, sends := sends }
    (send data T { polls := polls, sends := sends }).2 (send data T { polls := polls, sends := sends }).1 rfl
  have hw0 : wire ({ polls := polls, sends := sends } : Os) = [] := wire_nil_of_calls rfl
  rw [hw0] at hwire hwl
  simp only [List.nil_append, List.length_nil, Nat.zero_add] at hwire hwl
  rw [hwire, List.length_take, Nat.min_eq_left hn'] at hwl
  rw [hsys, hwire] at hstep
  have hrel' : Rel { m with wire := m.wire ++ data.take n' }
      { absSt m last with wireLen := (absSt m last).wireLen + obsAcc l,
                          wireHash := (data.take (obsAcc l)).foldl fnvStep (absSt m last).wireHash } := by
    refine ⟨last, ?_, hlast⟩
    simp [absSt, ← hwl, List.length_take, Nat.min_eq_left hn', List.foldl_append]
  cases hp : (send data T { polls := polls, sends := sends }).1 with
  | ok n =>
    rw [hp] at hstep
    simp only [Option.some.injEq, Prod.mk.injEq] at hstep
    obtain ⟨rfl, rfl⟩ := hstep
    obtain ⟨h1, h2⟩ := hacc n hp
    refine ⟨_, ?_, hrel'⟩
    simp only [specStep, hnosig, specOp]
    rw [specSend_count_ok (by omega) h2 (by omega)]
    rfl
  | exn e =>
    rw [hp] at hstep
    have hc := hex e hp
    cases e with
    | exhausted => simp at hstep
    | system c =>
      simp only [Option.some.injEq, Prod.mk.injEq] at hstep
      obtain ⟨rfl, rfl⟩ := hstep
      refine ⟨_, ?_, hrel'⟩
      simp only [specStep, hnosig, specOp, thrownOf]
      rw [specSend_threw_ok (by rcases hc.system_fail with h | h; exact Or.inl h; exact Or.inr (Or.inl h))]
      rfl
    | logic =>
      simp only [Option.some.injEq, Prod.mk.injEq] at hstep
      obtain ⟨rfl, rfl⟩ := hstep
      refine ⟨_, ?_, hrel'⟩
      simp only [specStep, hnosig, specOp, thrownOf]
      rw [specSend_threw_ok (Or.inr (Or.inr rfl))]
      rfl
    | closed => exact hc.not_closed.elim

theorem step_recv {m : Sys} {sp : SpecSt} (hrel : Rel m sp) (size : Nat) (T : Int) (polls : List PollAns)
    (ans : RecvChoice) (hsize : 1 ≤ size) {m' : Sys} {o : Obs}
    (hstep : sysStep m (.recv size T polls ans) = some (m', o)) :
    ∃ sp', specStep sp o = .ok sp' ∧ Rel m' sp' := by
  obtain ⟨last, rfl, hlast⟩ := hrel
  simp only [sysStep] at hstep
  obtain ⟨l, hrun, hexn, hnone, hsome⟩ :=
    receive_trace size T { polls := polls, recvs := [tcpAns m.inbox m.peerClosed ans] } _ rfl
  have hsys := hrun.sysOf rfl
  have hnosig := hrun.nosig
  rw [hsys] at hstep
  have hrel' : ∀ k, recvGot l = k → Rel { m with inbox := m.inbox.drop (recvGot l) }
      { absSt m last with peerPending := (absSt m last).peerPending.drop k } := by
    intro k hk
    refine ⟨last, ?_, hlast⟩
    simp [absSt, hk]
  cases hp : (receive size T { polls := polls, recvs := [tcpAns m.inbox m.peerClosed ans] }).1 with
  | ok v =>
    rw [hp] at hstep
    cases v with
    | none =>
      simp only [Option.some.injEq, Prod.mk.injEq] at hstep
      obtain ⟨rfl, rfl⟩ := hstep
      refine ⟨_, ?_, hrel' 0 (hnone hp)⟩
      simp only [specStep, hnosig, specOp, specRecv]
      rfl
    | some bs =>
      simp only [Option.some.injEq, Prod.mk.injEq] at hstep
      obtain ⟨rfl, rfl⟩ := hstep
      obtain ⟨x, hx, hbs, hne, hgot⟩ := hsome bs hp
      -- the kernel's answer is a prefix of what is queued
      have hxin : ∃ j, x = m.inbox.take j := by
        unfold tcpAns at hx
        cases ans with
        | fail e => cases hx
        | take n =>
          simp only at hx
          split at hx
          · split at hx <;> cases hx
          · cases hx; exact ⟨_, rfl⟩
      obtain ⟨j, rfl⟩ := hxin
      have hpre : m.inbox.take bs.length = bs := by
        rw [hbs, List.take_take, take_length_take]
      have hlen : bs.length ≤ m.inbox.length := by
        rw [hbs, List.take_take, List.length_take]; omega
      refine ⟨_, ?_, hrel' bs.length hgot⟩
      simp only [specStep, hnosig, specOp]
      rw [specRecv_data_ok (by cases bs with | nil => exact absurd rfl hne | cons _ _ => simp)
        (by rw [hbs, List.length_take]; omega) hlen (by show fnv ((absSt m last).peerPending.take bs.length) = fnv bs; simp only [absSt]; rw [hpre])]
      rfl
  | exn e =>
    rw [hp] at hstep
    obtain ⟨hc, hg0, hcl⟩ := hexn e hp
    cases e with
    | exhausted => simp at hstep
    | system c =>
      simp only [Option.some.injEq, Prod.mk.injEq] at hstep
      obtain ⟨rfl, rfl⟩ := hstep
      refine ⟨_, ?_, hrel' 0 hg0⟩
      simp only [specStep, hnosig, specOp, thrownOf]
      rw [specRecv_threw_ok hc.system_fail]
      rfl
    | logic => exact hc.not_logic.elim
    | closed =>
      simp only [Option.some.injEq, Prod.mk.injEq] at hstep
      obtain ⟨rfl, rfl⟩ := hstep
      -- end-of-stream is reported only when nothing is queued and the peer closed
      have henv : m.inbox = [] ∧ m.peerClosed = true := by
        rcases hcl rfl with h | ⟨x, h, hx0⟩
        · unfold tcpAns at h
          cases ans with
          | fail e => cases h
          | take n =>
            simp only at h
            split at h
            · rename_i hemp
              split at h
              · rename_i hc; exact ⟨by simpa using hemp, hc⟩
              · cases h
            · cases h
        · unfold tcpAns at h
          cases ans with
          | fail e => cases h
          | take n =>
            simp only at h
            split at h
            · split at h <;> cases h
            · rename_i hemp
              cases h
              exfalso
              rw [List.take_take] at hx0
              cases hi : m.inbox with
              | nil => simp [hi] at hemp
              | cons b bs =>
                rw [hi] at hx0
                have h1 : 0 < min size (max n 1) := by omega
                cases hm : min size (max n 1) with
                | zero => omega
                | succ k => rw [hm] at hx0; simp at hx0
      refine ⟨_, ?_, hrel' 0 hg0⟩
      simp only [specStep, hnosig, specOp, thrownOf]
      rw [specRecv_closed_ok (by simp [absSt, henv.1]) (by simp [absSt, henv.2])]
      rfl

theorem step_sendto {m : Sys} {sp : SpecSt} (hrel : Rel m sp) (data : Bytes) (T : Int) (polls : List PollAns)
    (sends : List SendAns) (hfl : m.flight = []) (hpoll : T < 0 → ∀ a ∈ polls, a ≠ .timedOut) {m' : Sys} {o : Obs}
    (hstep : sysStep m (.sendto data T polls sends) = some (m', o)) :
    ∃ sp', specStep sp o = .ok sp' ∧ Rel m' sp' := by
  obtain ⟨last, rfl, _⟩ := hrel
  simp only [sysStep] at hstep
  obtain ⟨l, hrun, hexn, hok⟩ := sendTo_trace data T { polls := polls, sends := sends } rfl
  have hsys := hrun.sysOf rfl
  have hnosig := hrun.nosig
  rw [hsys] at hstep
  -- whatever the environment keeps in flight, the observer expecting nothing is consistent with it
  have hrelN : ∀ fl, Rel { m with flight := fl } { absSt m last with lastSent := none } :=
    fun fl => ⟨none, by simp [absSt], by intro d h; cases h⟩
  cases hp : (sendTo data T { polls := polls, sends := sends }).1 with
  | ok n =>
    rw [hp] at hstep
    simp only [Option.some.injEq, Prod.mk.injEq] at hstep
    obtain ⟨rfl, rfl⟩ := hstep
    rcases hok n hp with ⟨hn, hany, hsent, hwait⟩ | ⟨hn, hany, hsent, hwire⟩
    · subst hn
      refine ⟨{ absSt m last with lastSent := none }, ?_, by rw [hsent]; exact hrelN _⟩
      simp only [specStep, hnosig, specOp]
      rw [specSendTo_count_ok (Or.inr rfl) (fun _ _ hT => wait_neg_not_false hT _ (hpoll hT) hwait)]
      have hno : ¬ (0 = data.length ∧ (data.length > 0 ∨ anySend l = true)) := by
        rw [hany]
        intro ⟨h0, h1⟩
        rcases h1 with h1 | h1
        · omega
        · cases h1
      simp only [orOk, if_neg hno]
      rfl
    · subst hn
      refine ⟨{ absSt m last with lastSent := some data }, ?_, ?_⟩
      · simp only [specStep, hnosig, specOp]
        rw [specSendTo_count_ok (Or.inl rfl) (fun h0 hpos _ => by omega)]
        simp [orOk, hany]
      · rw [hsent, hwire, hfl]
        exact ⟨some data, by simp [absSt], by intro d h; cases h; rfl⟩
  | exn e =>
    rw [hp] at hstep
    have hc := hexn e hp
    cases e with
    | exhausted => simp at hstep
    | system c =>
      simp only [Option.some.injEq, Prod.mk.injEq] at hstep
      obtain ⟨rfl, rfl⟩ := hstep
      refine ⟨_, ?_, hrelN _⟩
      simp only [specStep, hnosig, specOp, thrownOf]
      rw [specSendTo_threw_ok (by rcases hc.system_fail with h | h; exact Or.inl h; exact Or.inr (Or.inl h))]
      rfl
    | logic =>
      simp only [Option.some.injEq, Prod.mk.injEq] at hstep
      obtain ⟨rfl, rfl⟩ := hstep
      refine ⟨_, ?_, hrelN _⟩
      simp only [specStep, hnosig, specOp, thrownOf]
      rw [specSendTo_threw_ok (Or.inr (Or.inr rfl))]
      rfl
    | closed => exact hc.not_closed.elim

theorem step_recvfrom {m : Sys} {sp : SpecSt} (hrel : Rel m sp) (size : Nat) (T : Int) (polls : List PollAns)
    (ans : RecvChoice) {m' : Sys} {o : Obs} (hstep : sysStep m (.recvfrom size T polls ans) = some (m', o)) :
    ∃ sp', specStep sp o = .ok sp' ∧ Rel m' sp' := by
  obtain ⟨last, rfl, hlast⟩ := hrel
  simp only [sysStep] at hstep
  obtain ⟨l, hrun, hexn, _, hsome⟩ :=
    receiveFrom_trace size T { polls := polls, recvs := [udpAns m.dgrams ans] } _ rfl
  have hsys := hrun.sysOf rfl
  have hnosig := hrun.nosig
  rw [hsys] at hstep
  have hrel' : Rel { m with dgrams := if anyRecvGot l then m.dgrams.drop 1 else m.dgrams }
      { absSt m last with dgrams := if anyRecvGot l then (absSt m last).dgrams.drop 1 else (absSt m last).dgrams } :=
    ⟨last, by simp [absSt], hlast⟩
  cases hp : (receiveFrom size T { polls := polls, recvs := [udpAns m.dgrams ans] }).1 with
  | ok v =>
    rw [hp] at hstep
    cases v with
    | none =>
      simp only [Option.some.injEq, Prod.mk.injEq] at hstep
      obtain ⟨rfl, rfl⟩ := hstep
      refine ⟨_, ?_, hrel'⟩
      simp only [specStep, hnosig, specOp, specRecvFrom]
      rfl
    | some bs =>
      simp only [Option.some.injEq, Prod.mk.injEq] at hstep
      obtain ⟨rfl, rfl⟩ := hstep
      obtain ⟨_, hx⟩ := hsome bs hp
      -- the datagram handed over is the oldest one queued
      have hdg : bs = (m.dgrams.headD []).take size := by
        rcases hx with ⟨x, hx, hbs⟩ | ⟨hx, _⟩
        · unfold udpAns at hx
          cases ans with
          | fail e => cases hx
          | take n =>
            simp only at hx
            split at hx
            · cases hx
            · rename_i d rest hd
              cases hx
              rw [hbs, hd]; rfl
        · unfold udpAns at hx
          cases ans with
          | fail e => cases hx
          | take n =>
            simp only at hx
            split at hx <;> cases hx
      refine ⟨_, ?_, hrel'⟩
      simp only [specStep, hnosig, specOp]
      rw [specRecvFrom_data_ok (by simp only [absSt]; rw [hdg, List.length_take]) (by simp only [absSt]; rw [← hdg])]
      rfl
  | exn e =>
    rw [hp] at hstep
    obtain ⟨hc, _⟩ := hexn e hp
    cases e with
    | exhausted => simp at hstep
    | system c =>
      simp only [Option.some.injEq, Prod.mk.injEq] at hstep
      obtain ⟨rfl, rfl⟩ := hstep
      refine ⟨_, ?_, hrel'⟩
      simp only [specStep, hnosig, specOp, thrownOf]
      rw [specRecvFrom_threw_ok hc.system_fail]
      rfl
    | logic => exact hc.not_logic.elim
    | closed => exact hc.not_closed.elim

theorem step_listen {m : Sys} {sp : SpecSt} (hrel : Rel m sp) (T : Int) (polls : List PollAns) (err : Option Nat)
    {m' : Sys} {o : Obs} (hstep : sysStep m (.listen T polls err) = some (m', o)) :
    ∃ sp', specStep sp o = .ok sp' ∧ Rel m' sp' := by
  simp only [sysStep] at hstep
  obtain ⟨l, hrun, hexn⟩ :=
    acceptT_trace T { polls := polls, recvs := [accAns err] }
  have hsys := hrun.sysOf rfl
  have hnosig := hrun.nosig
  rw [hsys] at hstep
  cases hp : (acceptT T { polls := polls, recvs := [accAns err] }).1 with
  | ok v =>
    rw [hp] at hstep
    cases v with
    | none =>
      simp only [Option.some.injEq, Prod.mk.injEq] at hstep
      obtain ⟨rfl, rfl⟩ := hstep
      exact ⟨sp, by simp only [specStep, hnosig, specOp, specListen]; rfl, hrel⟩
    | some u =>
      simp only [Option.some.injEq, Prod.mk.injEq] at hstep
      obtain ⟨rfl, rfl⟩ := hstep
      exact ⟨sp, by simp only [specStep, hnosig, specOp, specListen]; rfl, hrel⟩
  | exn e =>
    rw [hp] at hstep
    have hc := hexn e hp
    cases e with
    | exhausted => simp at hstep
    | system c =>
      simp only [Option.some.injEq, Prod.mk.injEq] at hstep
      obtain ⟨rfl, rfl⟩ := hstep
      refine ⟨sp, ?_, hrel⟩
      simp only [specStep, hnosig, specOp, thrownOf]
      rw [specListen_threw_ok hc.system_fail]
      rfl
    | logic => exact hc.not_logic.elim
    | closed => exact hc.not_closed.elim

/-- one operation of a history: the predicate accepts what the model does and observer and environment
stay related -/
theorem step_ok {m : Sys} {sp : SpecSt} (hrel : Rel m sp) (op : Op) (hop : op.ok m = true) {m' : Sys} {o : Obs}
    (hstep : sysStep m op = some (m', o)) : ∃ sp', specStep sp o = .ok sp' ∧ Rel m' sp' := by
  cases op with
  | send data T polls sends => exact step_send hrel data T polls sends hstep
  | recv size T polls ans => exact step_recv hrel size T polls ans (by simpa [Op.ok] using hop) hstep
  | sendto data T polls sends =>
    simp only [Op.ok, Bool.and_eq_true, List.isEmpty_iff] at hop
    refine step_sendto hrel data T polls sends hop.1 ?_ hstep
    intro hT a ha
    have h2 := hop.2
    simp [hT] at h2
    exact h2 a ha
  | recvfrom size T polls ans => exact step_recvfrom hrel size T polls ans hstep
  | listen T polls err => exact step_listen hrel T polls err hstep
  | psend data =>
    obtain ⟨last, rfl, hlast⟩ := hrel
    simp only [sysStep, Option.some.injEq, Prod.mk.injEq] at hstep
    obtain ⟨rfl, rfl⟩ := hstep
    exact ⟨_, rfl, last, by simp [absSt], hlast⟩
  | pclose =>
    obtain ⟨last, rfl, hlast⟩ := hrel
    simp only [sysStep, Option.some.injEq, Prod.mk.injEq] at hstep
    obtain ⟨rfl, rfl⟩ := hstep
    exact ⟨_, rfl, last, by simp [absSt], hlast⟩
  | pshutwr =>
    obtain ⟨last, rfl, hlast⟩ := hrel
    simp only [sysStep, Option.some.injEq, Prod.mk.injEq] at hstep
    obtain ⟨rfl, rfl⟩ := hstep
    exact ⟨_, rfl, last, by simp [absSt], hlast⟩
  | prst =>
    obtain ⟨last, rfl, hlast⟩ := hrel
    simp only [sysStep, Option.some.injEq, Prod.mk.injEq] at hstep
    obtain ⟨rfl, rfl⟩ := hstep
    exact ⟨_, rfl, last, by simp [absSt], hlast⟩
  | pdgram data =>
    obtain ⟨last, rfl, hlast⟩ := hrel
    simp only [sysStep, Option.some.injEq, Prod.mk.injEq] at hstep
    obtain ⟨rfl, rfl⟩ := hstep
    exact ⟨_, rfl, last, by simp [absSt], hlast⟩
  | setup =>
    simp only [sysStep, Option.some.injEq, Prod.mk.injEq] at hstep
    obtain ⟨rfl, rfl⟩ := hstep
    exact ⟨sp, rfl, hrel⟩
  | sync =>
    obtain ⟨last, rfl, hlast⟩ := hrel
    simp only [sysStep, Option.some.injEq, Prod.mk.injEq] at hstep
    obtain ⟨rfl, rfl⟩ := hstep
    refine ⟨absSt m last, ?_, last, rfl, hlast⟩
    simp [specStep, nosigBad, specOp, absSt]
  | precv delivered =>
    obtain ⟨last, rfl, hlast⟩ := hrel
    simp only [sysStep] at hstep
    cases delivered with
    | false =>
      simp only [Option.some.injEq, Prod.mk.injEq] at hstep
      obtain ⟨rfl, rfl⟩ := hstep
      exact ⟨absSt m last, rfl, last, rfl, hlast⟩
    | true =>
      cases hf : m.flight with
      | nil =>
        rw [hf] at hstep
        simp only [Option.some.injEq, Prod.mk.injEq] at hstep
        obtain ⟨rfl, rfl⟩ := hstep
        exact ⟨absSt m last, rfl, last, rfl, hlast⟩
      | cons d rest =>
        rw [hf] at hstep
        simp only [Option.some.injEq, Prod.mk.injEq] at hstep
        obtain ⟨rfl, rfl⟩ := hstep
        cases last with
        | none =>
          exact ⟨absSt m none, rfl, none, by simp [absSt], by intro d h; cases h⟩
        | some d' =>
          have hd : d' = d := by
            have := hlast d' rfl
            rw [hf] at this
            simpa using this.symm
          subst hd
          refine ⟨{ absSt m (some d') with lastSent := none }, ?_, none, by simp [absSt], by intro d h; cases h⟩
          simp [specStep, nosigBad, specOp, absSt]

theorem specRun_cons (s : SpecSt) (o : Obs) (os : List Obs) {s' : SpecSt} (h : specStep s o = .ok s') :
    specRun s (o :: os) = specRun s' os := by
  simp only [specRun, h]

/-- **The property predicate that `./check C01` evaluates on the implementation is a theorem of the
model.**  For every history - any number of `Send` / `Receive` / `SendTo` / `ReceiveFrom` / `Listen` calls
with any payloads, buffer sizes and timeouts, every scripted answer of the operating system to every
`poll` and `send` (short writes of any pattern, zero-byte answers, failures at any position, signals,
time-outs), any interleaving with the peer's sends, close, half-close, reset and datagrams - the
observations of the model (`Model/SendLoop.lean` composed with the environment `Sys`) are accepted by
every clause of `specStep`: send accounting (count = bytes the OS accepted, `size` for an unlimited
`Send`, never more than `size`), no exception without a failed system call, signals invisible, the peer
obtains exactly the bytes the `Send` calls account for, `Receive` reports 1..size bytes which are the next
bytes of the peer's stream, closure only after everything was delivered and only if the peer closed,
`SendTo` all-or-nothing and never 0 when unlimited, datagrams intact in both directions, `MSG_NOSIGNAL`
on every `send`.  `histOk` restricts the domain, not the clauses (`Op.ok`). -/
theorem model_satisfies_spec (history : List Op) (h : histOk {} history = true) :
    ∃ s, specRun {} (modelTrace {} history) = .ok s := by
  suffices H : ∀ (ops : List Op) (m : Sys) (sp : SpecSt), Rel m sp → histOk m ops = true →
      ∃ s, specRun sp (modelTrace m ops) = .ok s from H history {} {} rel_init h
  intro ops
  induction ops with
  | nil => intro m sp _ _; exact ⟨sp, rfl⟩
  | cons op ops ih =>
    intro m sp hrel hok
    simp only [histOk, Bool.and_eq_true] at hok
    simp only [modelTrace]
    cases hs : sysStep m op with
    | none => exact ⟨sp, rfl⟩
    | some r =>
      obtain ⟨m', o⟩ := r
      obtain ⟨sp', h1, hrel'⟩ := step_ok hrel op hok.1 hs
      have h2 := hok.2
      rw [hs] at h2
      obtain ⟨s, hs'⟩ := ih m' sp' hrel' h2
      exact ⟨s, by simp only []; rw [specRun_cons sp o _ h1]; exact hs'⟩

/-! ### non-vacuity: a history the hypothesis admits, and traces the predicate rejects -/

def exampleHistory : List Op := [
  .setup,
  .send [1, 2, 3, 4, 5] (-1) [.ready 0, .eintr 3, .ready 1] [.accept 2, .accept 3],   -- short write, signal
  .send [6, 7, 8] 5 [.ready 1, .ready 9] [.accept 1],                                 -- limited: partial count
  .send [9] 0 [.timedOut] [],                                                         -- zero timeout: 0
  .send [9, 9] 7 [.eintr 1, .ready 0] [.fail 32],                                     -- EPIPE after a signal
  .send [9, 9] 7 [.eintr 1, .ready 3] [.accept 0],                                    -- "unexpected send result"
  .sync,
  .psend [1, 2, 3], .recv 2 (-1) [.ready 0] (.take 5), .recv 2 3 [.timedOut] (.take 5),
  .recv 10 0 [.ready 0] (.take 0), .recv 10 0 [.ready 0] (.take 0),
  .pclose, .recv 10 0 [.ready 0] (.take 0),
  .sendto [1, 2] (-1) [.eintr 0, .ready 0] [.accept 2], .precv true,
  .sendto [1, 2] 3 [.timedOut] [.accept 2], .precv true,
  .sendto [] 3 [.ready 1] [.accept 0], .precv true,
  .pdgram [1, 2, 3], .pdgram [], .recvfrom 2 0 [.ready 0] (.take 0), .recvfrom 2 0 [.ready 0] (.take 0),
  .recvfrom 2 0 [.ready 0] (.take 0),
  .listen 5 [.eintr 2, .ready 1] none, .listen 5 [.eintr 2, .ready 1] (some 24), .listen 5 [.eintr 2, .timedOut] none]

example : histOk {} exampleHistory = true := by decide
example : (modelTrace {} exampleHistory).length = 28 := by decide
example : (specRun {} (modelTrace {} exampleHistory)).toBool = true := by decide

/-- a Send that returns 0 although the OS accepted 3 bytes (the seeded change C01_agentA) is rejected -/
example : (specRun {} [{ op := .send [1, 2, 3, 4] 5 (.count 0),
                         sys := [.poll 5 (.ready 0), .send 4 (.accept 3) true, .poll 5 .timedOut] }]).toBool = false := by
  decide
/-- a Receive that reports more bytes than the buffer offered (C01_2_agentD) is rejected -/
example : (specRun {} [{ op := .psend [1, 2, 3] },
    { op := .recv 1 0 (.data (some 3) (fnv [1, 2, 3])), sys := [.poll 0 (.ready 0), .recv 1 (.got 3)] }]).toBool = false := by
  decide
/-- a signal that makes a call fail is rejected -/
example : (specRun {} [{ op := .recv 1 5 (.threw (.system 4)), sys := [.poll 5 (.eintr 1)] }]).toBool = false := by decide
/-- the hypothesis is needed: a second datagram handed to `sendto` before the peer read the first one
is outside what `precv` can judge (it compares with the LAST datagram sent) -/
example : histOk {} [.sendto [1] 0 [.ready 0] [.accept 1], .sendto [2] 0 [.ready 0] [.accept 1], .precv true] = false := by
  decide
example : (specRun {} (modelTrace {} [.sendto [1] 0 [.ready 0] [.accept 1], .sendto [2] 0 [.ready 0] [.accept 1],
    .precv true])).toBool = false := by decide

end SockModel.Spec.C01

import SockModel.Model.PeerFail
import SockModel.Model.NetLemmas
/-!
# Spec.C15 - "peer failure at any point is reported, never fatal" as an executable predicate over
typed observations, the scenario model, and the proof that the model satisfies the predicate

`specStep` / `specRun` / `specFinal` are what `./check C15` evaluates on the IMPLEMENTATION's transcript:
`Drive/C15.lean` parses every transcript line into an `Obs` (`toObs`) and calls exactly these functions.
The observer's state `SpecSt` mentions no model state: it is derived from what the harness did (the
`setup`, `after` op lines, the `peer kill`, `destroy`, `enq` notes, the `pre done` / `got` / `state` lines)
and from what the implementation was seen to do (`api` / `ret` / `os poll` / `os send` / `rx` / `disc` /
`fut` lines, crash / hang / death by signal).

Clauses (texts unchanged from the former in-driver `evC15` / `finalC15` and the part of
`Drive.C18.specEv` that applies to a C15 transcript):
* the process is never killed by a signal, does not crash, does not hang;
* every raw `send` carries MSG_NOSIGNAL;
* waits stay within the timeout semantics of the call they belong to (unlimited: only unlimited waits;
  zero: only `poll(0)`; limited: never unlimited, never over the remaining budget);
* a peer failure is a runtime error: no `std::logic_error` leaves `Send` / `Receive`, nothing is thrown out
  of `Driver::Step`; the receive handler never gets an empty buffer; the disconnect handler never runs twice;
* futures tell the truth: no success for a buffer enqueued after the disconnect, none left pending by the
  destruction, none abandoned while the socket is alive;
* at the end: what was delivered is a prefix of what the peer sent; after the peer's close / half close /
  reset the failure was reported (async: disconnect handler exactly once, every enqueued buffer's future
  resolved or broken after destruction; sync: `Receive` threw, a `Send` of >= 1 MB more threw); for an orderly
  close the complete stream was delivered before the report.

The second half of the file composes the existing model functions (`PeerFail.recvT`, `sendT`, `pEnqueue`,
`pTask` over `Net.Script.world`; nothing is re-defined) into the scenario the harness plays, lists the
observations the MODEL produces for an arbitrary history (`modelTrace`) and proves
`model_satisfies_spec_partial`: the predicate accepts the model's trace of every history that satisfies the
environment assumptions K1 / A-TCP (`histOk`, decidable) - for the plain socket; what a statement that includes TLS
endpoints would need is said next to the theorem.
-/
namespace SockModel.PeerFail.Spec
open SockModel.Net SockModel.Tls

/-! ## typed observations -/

/-- one phase letter of the `after order=…` op line -/
inductive Phase where
  | r | s | other
  deriving DecidableEq, Repr

/-- what the peer did (`peer kill <kind> …`) -/
inductive KillKind where
  | close | shutwr | rst
  | other (name : String)
  deriving DecidableEq, Repr

def KillKind.name : KillKind → String
  | .close => "close" | .shutwr => "shutwr" | .rst => "rst" | .other n => n

inductive ApiOp where
  | send | recv | other
  deriving DecidableEq, Repr

/-- how a synchronous call on X ended: returned, or threw (`logic`: the class is `std::logic_error`;
`sendErr`: the text names a failed `send:`) -/
inductive Ret where
  | returned
  | threw (logic sendErr : Bool)
  deriving DecidableEq, Repr

/-- state of a future as the harness reports it -/
inductive Fut where
  | ok | exn | pending | broken | other
  deriving DecidableEq, Repr

inductive Abort where
  | crash | hang | killed
  deriving DecidableEq, Repr

/-- one transcript line, typed.  Lines without a meaning for the property (engine / BIO calls, `os recv`,
`dpoll`, the peer's own lines, events of an endpoint other than `x`) have no `Obs`. -/
inductive Obs where
  /-- op line `setup x=<kind> tls=<0|1> …`: the endpoint exists from here on -/
  | setup (async tls : Bool)
  /-- `-> setup ok … ppay=<hex>`: the payload the peer is going to send -/
  | payload (ppay : Bytes)
  /-- `-> pre done xsent=<n> …` -/
  | pre (xsent : Nat)
  /-- op line `after order=<phases> big=<n> …` -/
  | after (order : List Phase) (big : Nat)
  /-- `-> api x <op> <T> …`: a synchronous call on X begins -/
  | api (op : ApiOp) (T : Option Int)
  /-- `-> os x poll <dir> <t> <ready|timeout>` -/
  | poll (t : Int) (ready : Bool)
  /-- `-> os <who> send <len> ns=<0|1> …` (`who` only quoted) -/
  | send (who : String) (noSignal : Bool)
  /-- `-> ret x …` -/
  | ret (r : Ret)
  /-- `-> ret dx throw …`: an exception left `Driver::Step` -/
  | stepThrew (text : String)
  /-- `-> rx x <n>`: receive handler -/
  | rx (n : Nat)
  /-- `-> disc x <why>`: disconnect handler -/
  | disc (sendErr : Bool)
  /-- `-> enq x <n>`: a buffer is handed to the asynchronous `Send` -/
  | enq
  /-- `-> fut x <i> <state>` -/
  | fut (i : Nat) (r : Fut)
  /-- `-> peer kill <kind> sent=<n> read=<n>` -/
  | kill (kind : KillKind) (pread : Nat)
  /-- `-> destroy x` -/
  | destroy
  /-- `-> got x <hex>`: everything X's caller / receive handler obtained -/
  | got (bs : Bytes)
  /-- `-> state x … psent=<n>`: bytes the peer has sent -/
  | state (psent : Nat)
  /-- `-> crash …` / `-> hang …` / `-> killed …` -/
  | abort (what : Abort) (text : String)
  deriving Repr

/-! ## the observer's state -/

/-- endpoint X as observed -/
structure EpSt where
  async : Bool
  tls : Bool
  discSeen : Nat := 0
  recvOp : Bool := false
  /-- timeout of the synchronous Send / Receive in progress -/
  callT : Option Int := none
  /-- virtual ms its timed-out waits have consumed so far -/
  spent : Int := 0
  deriving DecidableEq, Repr

structure SpecSt where
  ep : Option EpSt := none
  spay : Bytes := []
  /-- the latest `peer kill`: kind, bytes the peer had read -/
  kill : Option (KillKind × Nat) := none
  /-- the first `after` line: order, big -/
  order : Option (List Phase × Nat) := none
  /-- the first `pre done` line -/
  xsentAtKill : Option Nat := none
  threwAfterKill : Bool := false
  sendErrEndedRecv : Bool := false
  destroyed : Bool := false
  /-- per enqueued buffer, oldest first: was it enqueued after the disconnect? -/
  enqs : List Bool := []
  /-- futures reported resolved or broken -/
  futs : Nat := 0
  got : Bytes := []
  psent : Nat := 0
  deriving DecidableEq, Repr

/-! ## the predicate -/

/-- the first one wins -/
def firstOf {α : Type} (old : Option α) (new : α) : Option α :=
  match old with
  | some x => some x
  | none => some new

/-- the C07 clauses of one wait inside a synchronous call with timeout `T` -/
def pollClause (ep : EpSt) (T : Int) (t : Int) (ready : Bool) : Except String EpSt :=
  if T < 0 then
    if t ≥ 0 then .error s!"x: call with unlimited timeout issued a bounded wait poll({t})" else .ok ep
  else if T = 0 then
    if t ≠ 0 then .error s!"x: call with timeout 0 issued a blocking wait poll({t})" else .ok ep
  else if t < 0 then .error s!"x: call with timeout {T} ms issued an unlimited wait"
  else if ep.spent + t > T then
    .error s!"x: call with timeout {T} ms waits poll({t}) after its earlier waits already consumed {ep.spent} ms: over budget"
  else .ok { ep with spent := ep.spent + (if ready then 0 else t) }

def futClause (s : SpecSt) (i : Nat) (r : Fut) : Except String SpecSt :=
  let late := s.enqs[i]? == some true
  if r = .ok ∧ late then .error s!"future {i} of a buffer enqueued after the disconnect reports success"
  else if r = .pending then .error s!"future {i} still unresolved after the socket was destroyed"
  else if r = .broken ∧ ¬ s.destroyed then
    .error s!"future {i} was abandoned (broken promise) while the socket is still alive - its failure was swallowed"
  else .ok { s with futs := s.futs + 1 }

def Abort.msg : Abort → String
  | .crash => "crash: " | .hang => "hang: " | .killed => "process killed by a signal: "

def specStep (s : SpecSt) : Obs → Except String SpecSt
  | .setup async tls => .ok { s with ep := some { async, tls } }
  | .payload p => .ok { s with spay := p }
  | .pre x => .ok { s with xsentAtKill := firstOf s.xsentAtKill x }
  | .after o b => .ok { s with order := firstOf s.order (o, b) }
  | .api op T =>
    match s.ep with
    | some ep => .ok { s with ep := some { ep with recvOp := op == .recv, callT := if op == .other then none else T, spent := 0 } }
    | none => .ok s
  | .poll t ready =>
    match s.ep with
    | some ep =>
      match ep.callT with
      | none => .ok s
      | some T => (pollClause ep T t ready).map fun ep' => { s with ep := some ep' }
    | none => .ok s
  | .send who ns => if ns then .ok s else .error s!"{who}: raw send without MSG_NOSIGNAL"
  | .ret r =>
    let s := match s.ep with
      | some ep => { s with ep := some { ep with callT := none } }
      | none => s
    match r with
    | .returned => .ok s
    | .threw logic sendErr =>
      if logic then .error "x: std::logic_error escaped (logic_error) - a peer failure must be reported as a runtime error"
      else
        let recvOp := s.ep.map (·.recvOp) == some true
        let s := if recvOp ∧ sendErr then { s with sendErrEndedRecv := true } else s
        .ok (if s.kill.isSome then { s with threwAfterKill := true } else s)
  | .stepThrew text => .error s!"Driver::Step threw instead of reporting through the handlers: {text}"
  | .rx n =>
    match s.ep with
    | some _ => if n = 0 then .error "x: receive handler invoked with an empty buffer" else .ok s
    | none => .ok s
  | .disc sendErr =>
    match s.ep with
    | some ep =>
      if ep.discSeen ≥ 1 then .error "x: disconnect handler invoked twice"
      else
        let s := { s with ep := some { ep with discSeen := ep.discSeen + 1 } }
        .ok (if sendErr then { s with sendErrEndedRecv := true } else s)
    | none => .ok (if sendErr then { s with sendErrEndedRecv := true } else s)
  | .enq =>
    let afterDisc := s.ep.map (·.discSeen) != some 0
    .ok { s with enqs := s.enqs ++ [afterDisc] }
  | .fut i r => futClause s i r
  | .kill kind pread => .ok { s with kill := some (kind, pread) }
  | .destroy => .ok { s with destroyed := true }
  | .got bs => .ok { s with got := bs }
  | .state p => .ok { s with psent := p }
  | .abort w text => .error (w.msg ++ text)

def specRun (s : SpecSt) : List Obs → Except String SpecSt
  | [] => .ok s
  | o :: rest =>
    match specStep s o with
    | .ok s' => specRun s' rest
    | .error m => .error m

/-- "the failure is reported" -/
def reportClause (s : SpecSt) (ep : EpSt) (kind : KillKind) (order : List Phase) (big : Nat) : Option String :=
  if ep.async then
    if ep.discSeen ≠ 1 ∧ order ≠ [] then some s!"x: disconnect handler ran {ep.discSeen} times after the peer's {kind.name}"
    else if s.destroyed ∧ s.enqs.length ≠ s.futs then
      some s!"x: {s.enqs.length} buffers were enqueued but {s.futs} futures resolved or broke"
    else none
  else
    if order.contains .r ∧ ¬ s.threwAfterKill then some s!"x: Receive never reported the peer's {kind.name} (no exception)"
    else if order.contains .s ∧ kind ≠ .shutwr ∧ big ≥ 1000000 ∧ ¬ s.threwAfterKill then
      some s!"x: Send of {big} more bytes never reported the peer's {kind.name} (no exception)"
    else none

/-- "the complete stream for an orderly close" -/
def orderlyClause (s : SpecSt) (ep : EpSt) (kind : KillKind) (pread : Nat) (order : List Phase) : Option String :=
  let orderly := kind = .shutwr ∨ (kind = .close ∧ pread ≥ s.xsentAtKill.getD 0)
  let readFirst := ep.async ∨ order.head? = some .r
  if orderly ∧ readFirst ∧ order ≠ [] ∧ s.got.length ≠ s.psent then
    if ep.tls ∧ s.sendErrEndedRecv then
      some s!"tls-write-error-in-receive: x (TLS) reported the peer's orderly {kind.name} through a failed SEND inside Receive (session tickets), delivering {s.got.length} of the {s.psent} bytes the peer had sent"
    else some s!"x: orderly {kind.name} after the peer had sent {s.psent} bytes, but only {s.got.length} were delivered before the report"
  else none

/-- the end-of-case part of the predicate; `none` = satisfied -/
def specFinal (s : SpecSt) : Option String :=
  match s.ep with
  | none => some "no endpoint"
  | some ep =>
    if ¬ s.got.isPrefixOf s.spay then some s!"x: delivered bytes are not a prefix of what the peer sent ({s.got.length} bytes)"
    else if s.got.length > s.psent then some s!"x: delivered {s.got.length} bytes, the peer only sent {s.psent}"
    else
      match s.kill with
      | none => none
      | some (kind, pread) =>
        if kind.name = "" then none
        else
          let order := (s.order.map (·.1)).getD []
          let big := (s.order.map (·.2)).getD 0
          match reportClause s ep kind order big with
          | some m => some m
          | none => orderlyClause s ep kind pread order

/-- the whole predicate: every line is accepted and the end-of-case clauses hold -/
def specCheck (obs : List Obs) : Except String Unit :=
  match specRun {} obs with
  | .error m => .error m
  | .ok s => match specFinal s with | some m => .error m | none => .ok ()


/-! ## the scenario model

One library socket X (plain TCP; `async = false`: the synchronous `Send` / `Receive` of the basic and buffered level,
`async = true`: the asynchronous socket on a driver) against the harness' peer.  The kernel is `Net.Script.world`:
any finite list of scripted `poll` / `send` answers and the peer's segments as scripted `recv` answers; `dead`
(assumption **K1**) is switched on by the peer's kill.  Everything the library does is `PeerFail.sendT`,
`recvT`, `pEnqueue`, `pTask` as they are. -/

structure Sys where
  async : Bool
  rsz : Nat
  ppay : Bytes
  x : PSt Script := { w := { dead := false } }
  /-- bytes of `ppay` the peer has sent -/
  psent : Nat := 0
  /-- what X's caller / receive handler obtained -/
  got : Bytes := []
  killed : Option (KillKind × Nat) := none
  /-- the peer's kill discarded data (reset) -/
  lossy : Bool := false
  xsentPre : Option Nat := none
  ord : Option (List Phase × Nat) := none
  destroyed : Bool := false
  /-- ghost: a synchronous call / a `Receive` threw after the kill -/
  threw : Bool := false
  rthrew : Bool := false

/-- an orderly end of the peer's stream: half close, or close after the peer has read what X had sent -/
def orderly (kind : KillKind) (pread : Nat) (xsentPre : Option Nat) : Bool :=
  kind = .shutwr ∨ (kind = .close ∧ pread ≥ xsentPre.getD 0)

/-- a history: what the harness and the environment do -/
inductive Op where
  /-- the peer sends the next `n` bytes of its payload; they reach X's kernel as one segment (at most `rsz` bytes) -/
  | psend (n : Nat)
  /-- `Send(data, T)`; `waits` / `sends`: further scripted kernel answers -/
  | send (T : Int) (data : Bytes) (waits : List WaitAns) (sends : List SendAns)
  /-- `Receive(rsz, T)` -/
  | recv (T : Int) (waits : List WaitAns)
  /-- asynchronous `Send(buffer)` -/
  | enq (data : Bytes)
  /-- `Driver::Step` in which `poll` reported `rev` for X -/
  | step (rev : REvents) (sends : List SendAns)
  /-- the `pre done xsent=…` line -/
  | pre (xsent : Nat)
  /-- the peer closes / half-closes / resets after having read `pread` bytes; `reset = some (k, e)`: only the first
  `k` segments X has not read yet survive, then `recv` fails with `e`; `sends`: the `send` answers the kernel still
  gives before it fails with EPIPE -/
  | kill (kind : KillKind) (pread : Nat) (reset : Option (Nat × Nat)) (sends : List SendAns)
  /-- the `after order=… big=…` op line -/
  | after (order : List Phase) (big : Nat)
  /-- the asynchronous socket is destroyed -/
  | destroy
  deriving Repr

def callObs : Call → Option Obs
  | .wait _ t ready => some (.poll t ready)
  | .send _ _ ns => some (.send "x" ns)
  | .recv _ _ => none

/-- the `os …` lines of a call log (newest first) -/
def callsObs (calls : List Call) : List Obs := calls.reverse.filterMap callObs

def Exn.isLogic : Exn → Bool
  | .logic _ => true
  | _ => false

def retOf (e : Option Exn) (sendErr : Bool) : Ret :=
  match e with
  | none => .returned
  | some e => .threw (Exn.isLogic e) sendErr

def futOf : FutRes → Fut
  | .ok => .ok
  | .exn => .exn

/-- the script with further answers appended and an empty call log -/
def arm (w : Script) (waits : List WaitAns) (sends : List SendAns) : Script :=
  { w with waits := w.waits ++ waits, sends := w.sends ++ sends, calls := [] }

/-- the elements a step pushed onto a newest-first ghost list -/
def pushed {α : Type} (before after : List α) : List α := after.take (after.length - before.length)

/-- observations of one driver step: raw sends, handler calls, what left `Step`, futures resolved -/
def stepObs (a : Async) (o : Out Unit) (p : PSt Script) : List Obs :=
  callsObs p.w.calls
  ++ (pushed a.delivered p.a.delivered).map (fun bs => Obs.rx bs.length)
  ++ (if p.a.disconnects = a.disconnects + 1 then [Obs.disc false] else [])
  ++ (match o with
      | .ok () => []
      | .exn _ => [Obs.stepThrew "logic_error"]
      | .abort m => [Obs.abort .crash m])
  ++ (pushed a.futures p.a.futures).map (fun f => Obs.fut a.futures.length (futOf f))

/-- the `recv` answers left after the peer's kill -/
def killRecvs (recvs : List RecvAns) : Option (Nat × Nat) → List RecvAns
  | none => recvs
  | some (k, e) => recvs.take k ++ [.fail e]

/-- the promises still queued when the socket is destroyed are reported broken -/
def brokenObs (start : Nat) : Nat → List Obs
  | 0 => []
  | n + 1 => Obs.fut start .broken :: brokenObs (start + 1) n

def sysStep (m : Sys) : Op → Sys × List Obs
  | .psend n =>
    let chunk := (m.ppay.drop m.psent).take (min n m.rsz)
    if m.killed.isSome ∨ chunk = [] then (m, [])
    else ({ m with x := { m.x with w := { m.x.w with recvs := m.x.w.recvs ++ [.data chunk] } },
                   psent := m.psent + chunk.length }, [])
  | .send T data waits sends =>
    if m.async then (m, []) else
    let r := sendT Script.world (arm m.x.w waits sends) data T
    ({ m with x := { m.x with w := r.w }, threw := m.threw || (m.killed.isSome && r.exn.isSome) },
     [.api .send (some T)] ++ callsObs r.w.calls ++ [.ret (retOf r.exn true)])
  | .recv T waits =>
    if m.async then (m, []) else
    match recvT Script.world (arm m.x.w waits []) m.rsz T with
    | .got bs w' => ({ m with x := { m.x with w := w' }, got := m.got ++ bs },
                     [.api .recv (some T)] ++ callsObs w'.calls ++ [.ret .returned])
    | .nothing w' => ({ m with x := { m.x with w := w' } }, [.api .recv (some T)] ++ callsObs w'.calls ++ [.ret .returned])
    | .exn e w' => ({ m with x := { m.x with w := w' }, threw := m.threw || m.killed.isSome, rthrew := m.rthrew || m.killed.isSome },
                    [.api .recv (some T)] ++ callsObs w'.calls ++ [.ret (retOf (some e) false)])
  | .enq data =>
    if ¬ m.async ∨ m.destroyed then (m, []) else ({ m with x := pEnqueue m.x data }, [.enq])
  | .step rev sends =>
    if ¬ m.async ∨ m.destroyed then (m, []) else
    let (o, p) := pTask Script.world m.rsz { m.x with w := arm m.x.w [] sends } rev
    ({ m with x := p, got := m.got ++ (pushed m.x.a.delivered p.a.delivered).flatten }, stepObs m.x.a o p)
  | .pre xsent => ({ m with xsentPre := firstOf m.xsentPre xsent }, [.pre xsent])
  | .kill kind pread reset sends =>
    if m.killed.isSome then (m, []) else
    ({ m with x := { m.x with w := { m.x.w with dead := true, waits := [], sends := m.x.w.sends ++ sends,
                                                recvs := killRecvs m.x.w.recvs reset } },
              killed := some (kind, pread), lossy := reset.isSome }, [.kill kind pread])
  | .after o b => ({ m with ord := firstOf m.ord (o, b) }, [.after o b])
  | .destroy =>
    if ¬ m.async ∨ m.destroyed then (m, []) else
    ({ m with destroyed := true },
     [.destroy] ++ brokenObs m.x.a.futures.length m.x.a.sendQ.length)

def modelOps (m : Sys) : List Op → Sys × List Obs
  | [] => (m, [])
  | op :: rest =>
    let (m1, o1) := sysStep m op
    let (m2, o2) := modelOps m1 rest
    (m2, o1 ++ o2)

def Sys.init (async : Bool) (rsz : Nat) (ppay : Bytes) : Sys := { async, rsz, ppay }

/-- what the harness prints at the end of the case -/
def finalObs (m : Sys) : List Obs := [.got m.got, .state m.psent]

/-- the observations the MODEL produces for a history -/
def modelTrace (async : Bool) (rsz : Nat) (ppay : Bytes) (history : List Op) : List Obs :=
  let r := modelOps (Sys.init async rsz ppay) history
  [.setup async false, .payload ppay] ++ r.2 ++ finalObs r.1


/-! ## the environment assumptions, as a decidable predicate on histories

* **kernel**: `send` never answers 0 for a non-empty buffer (`saneSends`); `Send` is called with a non-empty buffer;
* **K1** (kernel after the peer is gone): from the kill on `poll` reports X ready (no scripted `poll` answers any
  more; a driver step finds X readable), `send` fails after the answers given with the kill, `recv` yields the
  unread segments and then end of stream - or, only when the end is not orderly (reset, or close with data of X
  unread), some of them and then an error; while the peer is alive `poll` reports neither HUP / ERR nor POLLIN
  without data;
* **the scenario is played to its end** (what the `after` line promises): after the kill the asynchronous driver
  is stepped more often than there are unread segments (before the socket is destroyed); with `r` in the order
  `Receive` is called more often than there are unread segments; with `s` (and >= 1 MB, not a half close, no `r`)
  `Send` is called more often than the kernel still accepts. -/

def firstAfter : List Op → Option (List Phase × Nat)
  | [] => none
  | .after o b :: _ => some (o, b)
  | _ :: rest => firstAfter rest

def saneSends (l : List SendAns) : Bool := l.all fun a => a != .accept 0

/-- driver steps before the socket is destroyed -/
def liveSteps : List Op → Nat
  | [] => 0
  | .step _ _ :: rest => liveSteps rest + 1
  | .destroy :: _ => 0
  | _ :: rest => liveSteps rest

def recvOps : List Op → Nat
  | [] => 0
  | .recv _ _ :: rest => recvOps rest + 1
  | _ :: rest => recvOps rest

def sendOps : List Op → Nat
  | [] => 0
  | .send _ _ _ _ :: rest => sendOps rest + 1
  | _ :: rest => sendOps rest

def KillKind.real : KillKind → Bool
  | .other _ => false
  | _ => true

def ordList (ord : Option (List Phase × Nat)) : List Phase := (ord.map (·.1)).getD []
def ordBig (ord : Option (List Phase × Nat)) : Nat := (ord.map (·.2)).getD 0

/-- must a big `Send` report the failure? -/
def needSend (ord : Option (List Phase × Nat)) (kind : KillKind) : Bool :=
  (ordList ord).contains .s && kind != .shutwr && decide (ordBig ord ≥ 1000000)

def opOk (ord : Option (List Phase × Nat)) (m : Sys) (op : Op) (rest : List Op) : Bool :=
  match op with
  | .psend _ => true
  | .send _ data waits sends =>
    m.async || (data != [] && saneSends sends && (m.killed.isNone || (waits.isEmpty && sends.isEmpty)))
  | .recv _ waits => m.async || m.killed.isNone || waits.isEmpty
  | .enq _ => true
  | .step rev sends =>
    !m.async || m.destroyed ||
      (saneSends sends &&
        (if m.killed.isSome then rev.rd && sends.isEmpty
         else !rev.hupErr && (!rev.rd || !m.x.w.recvs.isEmpty)))
  | .pre _ => m.killed.isNone || m.xsentPre.isSome
  | .kill kind pread reset sends =>
    m.killed.isSome ||
      (kind.real && saneSends sends && (reset.isNone || !orderly kind pread m.xsentPre) &&
        (let n := (killRecvs m.x.w.recvs reset).length
         if m.async then (ordList ord).isEmpty || (!m.destroyed && decide (liveSteps rest > n))
         else (!(ordList ord).contains .r || decide (recvOps rest > n)) &&
              (!needSend ord kind || (ordList ord).contains .r || decide (sendOps rest > (m.x.w.sends ++ sends).length))))
  | .after _ _ => true
  | .destroy => true

def histOkFrom (ord : Option (List Phase × Nat)) (m : Sys) : List Op → Bool
  | [] => true
  | op :: rest => opOk ord m op rest && histOkFrom ord (sysStep m op).1 rest

def histOk (async : Bool) (rsz : Nat) (ppay : Bytes) (history : List Op) : Bool :=
  histOkFrom (firstAfter history) (Sys.init async rsz ppay) history


/-! ## the proof: the predicate accepts every trace of the model

### the calls of `Send` / `Receive` against the scripted kernel -/

def pollOk (T spent t : Int) : Bool :=
  if T < 0 then decide (t < 0) else if T = 0 then decide (t = 0) else decide (0 ≤ t) && decide (spent + t ≤ T)

def nextSpent (T spent t : Int) (r : Bool) : Int :=
  if T < 0 then spent else if T = 0 then spent else spent + (if r then 0 else t)

@[simp] theorem nextSpent_ready (T spent t : Int) : nextSpent T spent t true = spent := by
  unfold nextSpent; split
  · rfl
  · split <;> simp

/-- a chronological call log satisfies the wait / MSG_NOSIGNAL clauses of a call with timeout `T` -/
def okLog (T : Int) : Int → List Call → Bool
  | _, [] => true
  | sp, .wait _ t r :: rest => pollOk T sp t && okLog T (nextSpent T sp t r) rest
  | sp, .send _ _ ns :: rest => ns && okLog T sp rest
  | sp, .recv _ _ :: rest => okLog T sp rest

def spendLog (T : Int) : Int → List Call → Int
  | sp, [] => sp
  | sp, .wait _ t r :: rest => spendLog T (nextSpent T sp t r) rest
  | sp, _ :: rest => spendLog T sp rest

theorem pollClause_ok (ep : EpSt) (T t : Int) (r : Bool) (h : pollOk T ep.spent t = true) :
    pollClause ep T t r = .ok { ep with spent := nextSpent T ep.spent t r } := by
  unfold pollOk at h
  unfold pollClause nextSpent
  by_cases h1 : T < 0
  · simp only [h1, if_true, decide_eq_true_eq] at h
    have : ¬ t ≥ 0 := by omega
    simp [h1, this]
  · by_cases h2 : T = 0
    · subst h2
      simp at h
      simp [h]
    · simp only [h1, h2, if_false, Bool.and_eq_true, decide_eq_true_eq] at h
      have a1 : ¬ t < 0 := by omega
      have a2 : ¬ ep.spent + t > T := by omega
      simp [h1, h2, a1, a2]

/-- the observer accepts the `os …` lines of a log that satisfies `okLog` -/
theorem specRun_log (T : Int) : ∀ (l : List Call) (sp : SpecSt) (ep : EpSt) (tail : List Obs),
    sp.ep = some ep → ep.callT = some T → okLog T ep.spent l = true →
    specRun sp (l.filterMap callObs ++ tail)
      = specRun { sp with ep := some { ep with spent := spendLog T ep.spent l } } tail := by
  intro l
  induction l with
  | nil =>
    intro sp ep tail h1 _ _
    have : sp = { sp with ep := some { ep with spent := ep.spent } } := by cases sp; simp_all
    simp only [List.filterMap_nil, List.nil_append, spendLog]
    rw [← this]
  | cons c l ih =>
    intro sp ep tail h1 h2 h3
    cases c with
    | wait d t r =>
      simp only [okLog, Bool.and_eq_true] at h3
      have hp := pollClause_ok ep T t r h3.1
      have hstep : specStep sp (.poll t r) = .ok { sp with ep := some { ep with spent := nextSpent T ep.spent t r } } := by
        simp [specStep, h1, h2, hp, Except.map]
      simp only [List.filterMap_cons, callObs, List.cons_append, specRun, hstep, spendLog]
      exact ih _ { ep with spent := nextSpent T ep.spent t r } tail rfl h2 h3.2
    | send bs a ns =>
      simp only [okLog, Bool.and_eq_true] at h3
      simp only [List.filterMap_cons, callObs, List.cons_append, specRun, specStep, h3.1, if_true, spendLog]
      exact ih sp ep tail h1 h2 h3.2
    | recv n a =>
      simp only [okLog] at h3
      simp only [List.filterMap_cons, callObs, spendLog]
      exact ih sp ep tail h1 h2 h3


theorem sendNoSignal_true : sendNoSignal = true := by decide

theorem saneSends_drop (l : List SendAns) (k : Nat) (h : saneSends l = true) : saneSends (l.drop k) = true := by
  simp only [saneSends, List.all_eq_true] at h ⊢
  intro a ha
  exact h a (List.mem_of_mem_drop ha)

/-- `w'` is reached from `w` by the chronological calls `l`, none of which is a `recv` -/
structure SendRun (w w' : Script) (l : List Call) : Prop where
  calls : w'.calls = l.reverse ++ w.calls
  recvs : w'.recvs = w.recvs
  dead : w'.dead = w.dead
  clock : w.clock ≤ w'.clock
  waits : w.waits = [] → w'.waits = []
  sends : ∃ k, w'.sends = w.sends.drop k

theorem SendRun.refl (w : Script) : SendRun w w [] :=
  ⟨by simp, rfl, rfl, Int.le_refl _, id, ⟨0, by simp⟩⟩

theorem SendRun.trans {a b c : Script} {l1 l2 : List Call} (h1 : SendRun a b l1) (h2 : SendRun b c l2) :
    SendRun a c (l1 ++ l2) := by
  obtain ⟨k1, hk1⟩ := h1.sends
  obtain ⟨k2, hk2⟩ := h2.sends
  refine ⟨?_, ?_, ?_, ?_, ?_, ⟨k1 + k2, ?_⟩⟩
  · rw [h2.calls, h1.calls]; simp
  · rw [h2.recvs, h1.recvs]
  · rw [h2.dead, h1.dead]
  · exact Int.le_trans h1.clock h2.clock
  · intro h; exact h2.waits (h1.waits h)
  · rw [hk2, hk1, List.drop_drop]

theorem SendRun.sendsLen {w w' : Script} {l : List Call} (h : SendRun w w' l) : w'.sends.length ≤ w.sends.length := by
  obtain ⟨k, hk⟩ := h.sends
  rw [hk, List.length_drop]; omega

theorem SendRun.sane {w w' : Script} {l : List Call} (h : SendRun w w' l) (hs : saneSends w.sends = true) :
    saneSends w'.sends = true := by
  obtain ⟨k, hk⟩ := h.sends
  rw [hk]; exact saneSends_drop _ _ hs

/-- one `poll` of the scripted kernel; after the peer is gone (no scripted answers left) it reports ready -/
theorem wait_run (w : Script) (d : Dir) (t : Int) :
    SendRun w (Script.world.wait w d t).2 [.wait d t (Script.world.wait w d t).1] ∧
    (w.dead = true → w.waits = [] → (Script.world.wait w d t).1 = true) := by
  rcases hw : w.waits with _ | ⟨a, rest⟩
  · by_cases hd : w.dead = true
    · have e : Script.world.wait w d t = (true, { w with calls := .wait d t true :: w.calls }) := by
        simp [Script.world, hw, hd]
      rw [e]
      exact ⟨⟨by simp, rfl, rfl, Int.le_refl _, id, ⟨0, by simp⟩⟩, fun _ _ => rfl⟩
    · have e : Script.world.wait w d t = ((d == .wr), { w with
          clock := w.clock + (if (d == .wr) = true then 0 else if t > 0 then t else 0), calls := .wait d t (d == .wr) :: w.calls }) := by
        simp [Script.world, hw, hd]
      rw [e]
      refine ⟨⟨by simp, rfl, rfl, ?_, id, ⟨0, by simp⟩⟩, fun h => absurd h hd⟩
      simp only
      split
      · omega
      · split <;> omega
  · have e : Script.world.wait w d t = (a.ready, { w with waits := rest, clock := w.clock + a.elapsed, calls := .wait d t a.ready :: w.calls }) := by
      simp [Script.world, hw]
    rw [e]
    refine ⟨⟨by simp, rfl, rfl, ?_, (fun h => by simp_all), ⟨0, by simp⟩⟩, (fun _ h => by simp_all)⟩
    simp only
    omega

/-- `SendNow` against the scripted kernel -/
theorem sendNow_run (w : Script) (bs : Bytes) (hs : saneSends w.sends = true) :
    (∃ a, SendRun w (sendNow Script.world w bs).w [.send bs a true]) ∧
    (∀ e, (sendNow Script.world w bs).exn = some e → Exn.isLogic e = false) ∧
    (w.dead = true → (sendNow Script.world w bs).exn = none → (sendNow Script.world w bs).w.sends.length < w.sends.length) := by
  rcases hsn : w.sends with _ | ⟨a, rest⟩
  · by_cases hd : w.dead = true
    · have e : Script.world.send w bs = (.fail epipe, { w with calls := .send bs (.fail epipe) true :: w.calls }) := by
        simp [Script.world, hsn, hd, sendNoSignal_true]
      simp only [sendNow, e]
      exact ⟨⟨.fail epipe, ⟨by simp, rfl, rfl, Int.le_refl _, id, ⟨0, by simp⟩⟩⟩, (by intro e h; cases h; rfl), (by intro _ h; cases h)⟩
    · have e : Script.world.send w bs = (.accept bs.length, { w with calls := .send bs (.accept bs.length) true :: w.calls }) := by
        simp [Script.world, hsn, hd, sendNoSignal_true]
      simp only [sendNow, e]
      refine ⟨?_, ?_, fun h => absurd h hd⟩
      · split <;> exact ⟨.accept bs.length, ⟨by simp, rfl, rfl, Int.le_refl _, id, ⟨0, by simp⟩⟩⟩
      · intro e h
        split at h
        · rename_i hc
          have : bs = [] := List.eq_nil_of_length_eq_zero hc.1
          exact absurd this hc.2
        · cases h
  · have ha : a ≠ .accept 0 := by
      simp only [saneSends, hsn, List.all_cons, Bool.and_eq_true, bne_iff_ne] at hs
      exact hs.1
    have e : Script.world.send w bs = (a, { w with sends := rest, calls := .send bs a true :: w.calls }) := by
      simp [Script.world, hsn, sendNoSignal_true]
    simp only [sendNow, e]
    cases a with
    | fail e1 =>
      exact ⟨⟨.fail e1, ⟨by simp, rfl, rfl, Int.le_refl _, id, ⟨1, by simp [hsn]⟩⟩⟩, (by intro e h; cases h; rfl), (by intro _ h; cases h)⟩
    | accept k =>
      have hk : k ≠ 0 := fun h => ha (by rw [h])
      simp only [hk, false_and, if_false]
      exact ⟨⟨.accept k, ⟨by simp, rfl, rfl, Int.le_refl _, id, ⟨1, by simp [hsn]⟩⟩⟩, (by intro e h; cases h), (by intro _ _; simp)⟩


/-- what the proof needs to know about one `Send` against the scripted kernel -/
structure SendFacts (T : Int) (w : Script) (bs : Bytes) (r : SendRes Script) : Prop where
  run : ∃ l, SendRun w r.w l ∧ okLog T 0 l = true
  nologic : ∀ e, r.exn = some e → Exn.isLogic e = false
  live : w.dead = true → w.waits = [] → bs ≠ [] → r.exn = none → r.w.sends.length < w.sends.length

theorem sendAll_facts (T : Int) (hT : T < 0) (w : Script) (bs : Bytes) (acc : Nat) (hs : saneSends w.sends = true) :
    SendFacts T w bs (sendAll Script.world w bs acc) := by
  fun_induction Net.sendAll Script.world w bs acc with
  | case1 w bs acc r0 hx =>
    obtain ⟨hw, _⟩ := wait_run w .wr (-1)
    obtain ⟨⟨a, hn⟩, hl, _⟩ := sendNow_run (Script.world.wait w .wr (-1)).2 bs (hw.sane hs)
    refine ⟨⟨_, hw.trans hn, by simp [okLog, pollOk, hT]⟩, hl, ?_⟩
    intro _ _ _ hx'
    simp only at hx'
    rw [hx'] at hx; cases hx
  | case2 w bs acc r0 hx hrest =>
    obtain ⟨hw, _⟩ := wait_run w .wr (-1)
    obtain ⟨⟨a, hn⟩, hl, hv⟩ := sendNow_run (Script.world.wait w .wr (-1)).2 bs (hw.sane hs)
    refine ⟨⟨_, hw.trans hn, by simp [okLog, pollOk, hT]⟩, (by intro e h; cases h), ?_⟩
    intro hd _ _ _
    have hx' : r0.exn = none := by simpa using hx
    have h1 : r0.w.sends.length < (Script.world.wait w .wr (-1)).2.sends.length := hv (by rw [hw.dead]; exact hd) hx'
    have := hw.sendsLen
    simp only
    omega
  | case3 w bs acc r0 hx hrest hpos ih =>
    obtain ⟨hw, _⟩ := wait_run w .wr (-1)
    obtain ⟨⟨a, hn⟩, hl, hv⟩ := sendNow_run (Script.world.wait w .wr (-1)).2 bs (hw.sane hs)
    have hn' : SendRun (Script.world.wait w .wr (-1)).2 r0.w [.send bs a true] := hn
    obtain ⟨⟨l, hr, hok⟩, il, _⟩ := ih (hn'.sane (hw.sane hs))
    refine ⟨⟨_, (hw.trans hn').trans hr, ?_⟩, il, ?_⟩
    · simp [okLog, pollOk, hT, nextSpent, hok]
    · intro hd _ _ _
      have hx' : r0.exn = none := by simpa using hx
      have h1 : r0.w.sends.length < (Script.world.wait w .wr (-1)).2.sends.length := hv (by rw [hw.dead]; exact hd) hx'
      have := hw.sendsLen
      have := hr.sendsLen
      omega
  | case4 w bs acc r0 hx hrest hpos =>
    exfalso
    have hx' : r0.exn = none := by simpa using hx
    have hne : bs ≠ [] := by intro h; apply hrest; simp [h]
    exact hpos (sendNow_pos Script.world _ bs hne hx')


theorem sendTry_facts (w : Script) (bs : Bytes) (hs : saneSends w.sends = true) :
    SendFacts 0 w bs (sendTry Script.world w bs) := by
  obtain ⟨hw, hready⟩ := wait_run w .wr 0
  unfold sendTry
  rcases hwt : Script.world.wait w .wr 0 with ⟨r, w1⟩
  rw [hwt] at hw hready
  cases r
  · simp only
    refine ⟨⟨_, hw, by simp [okLog, pollOk]⟩, (by intro e h; cases h), ?_⟩
    intro hd hwe
    have := hready hd hwe
    cases this
  · simp only
    obtain ⟨⟨a, hn⟩, hl, hv⟩ := sendNow_run w1 bs (hw.sane hs)
    refine ⟨⟨_, hw.trans hn, by simp [okLog, pollOk]⟩, hl, ?_⟩
    intro hd _ _ hx
    have := hv (by rw [hw.dead]; exact hd) hx
    have := hw.sendsLen
    simp only at *
    omega

theorem pollOk_rem (T deadline tick : Int) (hT : 0 < T) (h1 : deadline - T ≤ tick) :
    pollOk T 0 (remainingMs deadline tick) = true := by
  unfold pollOk remainingMs
  have a1 : ¬ T < 0 := by omega
  have a2 : ¬ T = 0 := by omega
  simp only [a1, a2, if_false, Bool.and_eq_true, decide_eq_true_eq]
  split <;> omega

theorem sendSome_facts (T : Int) (hT : 0 < T) (w : Script) (bs : Bytes) (deadline tick : Int) (acc : Nat)
    (hs : saneSends w.sends = true) (h1 : deadline - T ≤ tick) (h2 : deadline - T ≤ w.clock) :
    SendFacts T w bs (sendSome Script.world w bs deadline tick acc).1 := by
  fun_induction Net.sendSome Script.world w bs deadline tick acc with
  | case1 w bs tick acc wt hf =>
    obtain ⟨hw, hready⟩ := wait_run w .wr (remainingMs deadline tick)
    have hf' : (Script.world.wait w .wr (remainingMs deadline tick)).1 = false := hf
    refine ⟨⟨_, hw, ?_⟩, (by intro e h; cases h), ?_⟩
    · simp [okLog, pollOk_rem T deadline tick hT h1]
    · intro hd hwe
      rw [hready hd hwe] at hf'; cases hf'
  | case2 w bs tick acc wt hf tick' r hx =>
    obtain ⟨hw, _⟩ := wait_run w .wr (remainingMs deadline tick)
    have hf' : (Script.world.wait w .wr (remainingMs deadline tick)).1 = true := by simpa using hf
    obtain ⟨⟨a, hn⟩, hl, _⟩ := sendNow_run (Script.world.wait w .wr (remainingMs deadline tick)).2 bs (hw.sane hs)
    refine ⟨⟨_, hw.trans hn, ?_⟩, hl, ?_⟩
    · simp [okLog, pollOk_rem T deadline tick hT h1, hf']
    · intro _ _ _ hx'
      simp only at hx'
      rw [hx'] at hx; cases hx
  | case3 w bs tick acc wt hf tick' r hx hrest =>
    obtain ⟨hw, _⟩ := wait_run w .wr (remainingMs deadline tick)
    have hf' : (Script.world.wait w .wr (remainingMs deadline tick)).1 = true := by simpa using hf
    obtain ⟨⟨a, hn⟩, hl, hv⟩ := sendNow_run (Script.world.wait w .wr (remainingMs deadline tick)).2 bs (hw.sane hs)
    refine ⟨⟨_, hw.trans hn, ?_⟩, (by intro e h; cases h), ?_⟩
    · simp [okLog, pollOk_rem T deadline tick hT h1, hf']
    · intro hd _ _ _
      have hx' : r.exn = none := by simpa using hx
      have h3 : r.w.sends.length < (Script.world.wait w .wr (remainingMs deadline tick)).2.sends.length :=
        hv (by rw [hw.dead]; exact hd) hx'
      have := hw.sendsLen
      simp only
      omega
  | case4 w bs tick acc wt hf tick' r hx hrest hlt hpos ih =>
    obtain ⟨hw, _⟩ := wait_run w .wr (remainingMs deadline tick)
    have hf' : (Script.world.wait w .wr (remainingMs deadline tick)).1 = true := by simpa using hf
    obtain ⟨⟨a, hn⟩, hl, hv⟩ := sendNow_run (Script.world.wait w .wr (remainingMs deadline tick)).2 bs (hw.sane hs)
    have hn' : SendRun (Script.world.wait w .wr (remainingMs deadline tick)).2 r.w [.send bs a true] := hn
    have hc1 : w.clock ≤ (Script.world.wait w .wr (remainingMs deadline tick)).2.clock := hw.clock
    have hc2 : (Script.world.wait w .wr (remainingMs deadline tick)).2.clock ≤ r.w.clock := hn'.clock
    have ht : tick' = (Script.world.wait w .wr (remainingMs deadline tick)).2.clock := rfl
    obtain ⟨⟨l, hr, hok⟩, il, _⟩ := ih (hn'.sane (hw.sane hs)) (by omega) (by omega)
    refine ⟨⟨_, (hw.trans hn').trans hr, ?_⟩, il, ?_⟩
    · simp [okLog, pollOk_rem T deadline tick hT h1, hf', hok]
    · intro hd _ _ _
      have hx' : r.exn = none := by simpa using hx
      have h3 : r.w.sends.length < (Script.world.wait w .wr (remainingMs deadline tick)).2.sends.length :=
        hv (by rw [hw.dead]; exact hd) hx'
      have := hw.sendsLen
      have := hr.sendsLen
      omega
  | case5 w bs tick acc wt hf tick' r hx hrest hlt hpos =>
    exfalso
    have hx' : r.exn = none := by simpa using hx
    have hne : bs ≠ [] := by intro h; apply hrest; simp [h]
    exact hpos (sendNow_pos Script.world _ bs hne hx')
  | case6 w bs tick acc wt hf tick' r hx hrest hlt =>
    obtain ⟨hw, _⟩ := wait_run w .wr (remainingMs deadline tick)
    have hf' : (Script.world.wait w .wr (remainingMs deadline tick)).1 = true := by simpa using hf
    obtain ⟨⟨a, hn⟩, hl, hv⟩ := sendNow_run (Script.world.wait w .wr (remainingMs deadline tick)).2 bs (hw.sane hs)
    refine ⟨⟨_, hw.trans hn, ?_⟩, (by intro e h; cases h), ?_⟩
    · simp [okLog, pollOk_rem T deadline tick hT h1, hf']
    · intro hd _ _ _
      have hx' : r.exn = none := by simpa using hx
      have h3 : r.w.sends.length < (Script.world.wait w .wr (remainingMs deadline tick)).2.sends.length :=
        hv (by rw [hw.dead]; exact hd) hx'
      have := hw.sendsLen
      simp only
      omega

/-- `Send(data, T)` against the scripted kernel, every timeout mode -/
theorem send_facts (T : Int) (w : Script) (bs : Bytes) (hs : saneSends w.sends = true) :
    SendFacts T w bs (sendT Script.world w bs T) := by
  unfold sendT Net.send
  split
  · rename_i h; exact sendAll_facts T h w bs 0 hs
  · split
    · rename_i h1 h2; subst h2; exact sendTry_facts w bs hs
    · rename_i h1 h2
      have hT : 0 < T := by omega
      exact sendSome_facts T hT w bs _ _ 0 hs (by show w.clock + T - T ≤ w.clock; omega) (by show w.clock + T - T ≤ w.clock; omega)


/-! ### invariants of the scenario model, the simulation relation, the "played to its end" counters -/

/-- the bytes of the pending `recv` answers -/
def dataOf : List RecvAns → Bytes
  | [] => []
  | .data bs :: rest => bs ++ dataOf rest
  | .fail _ :: rest => dataOf rest

/-- pending `recv` answers: non-empty segments of at most `rsz` bytes; only after a lossy kill one error, last -/
def recvsOk (rsz : Nat) (lossy : Bool) : List RecvAns → Prop
  | [] => True
  | .data bs :: rest => bs ≠ [] ∧ bs.length ≤ rsz ∧ recvsOk rsz lossy rest
  | .fail _ :: rest => lossy = true ∧ rest = []

theorem dataOf_append (a b : List RecvAns) : dataOf (a ++ b) = dataOf a ++ dataOf b := by
  induction a with
  | nil => rfl
  | cons x a ih => cases x <;> simp [dataOf, ih]

theorem recvsOk_snoc (rsz : Nat) (c : Bytes) (hc : c ≠ []) (hl : c.length ≤ rsz) :
    ∀ l, recvsOk rsz false l → recvsOk rsz false (l ++ [.data c])
  | [], _ => ⟨hc, hl, trivial⟩
  | .data bs :: rest, h => ⟨h.1, h.2.1, recvsOk_snoc rsz c hc hl rest h.2.2⟩
  | .fail _ :: _, h => by cases h.1

theorem recvsOk_kill (rsz : Nat) (e : Nat) : ∀ (k : Nat) (l : List RecvAns), recvsOk rsz false l →
    recvsOk rsz true (l.take k ++ [.fail e])
  | 0, _, _ => ⟨rfl, rfl⟩
  | _ + 1, [], _ => ⟨rfl, rfl⟩
  | k + 1, .data bs :: rest, h => ⟨h.1, h.2.1, recvsOk_kill rsz e k rest h.2.2⟩
  | _ + 1, .fail _ :: _, h => by cases h.1

theorem recvsOk_mono (rsz : Nat) : ∀ l, recvsOk rsz false l → recvsOk rsz true l
  | [], _ => trivial
  | .data _ :: rest, h => ⟨h.1, h.2.1, recvsOk_mono rsz rest h.2.2⟩
  | .fail _ :: _, h => by cases h.1

def ordOr {α : Type} (a b : Option α) : Option α :=
  match a with
  | some x => some x
  | none => b

structure MInv (m : Sys) : Prop where
  psent : m.psent ≤ m.ppay.length
  recvs : recvsOk m.rsz m.lossy m.x.w.recvs
  stream : ∃ lost, m.ppay.take m.psent = m.got ++ dataOf m.x.w.recvs ++ lost ∧ (m.lossy = false → lost = [])
  dead : m.x.w.dead = m.killed.isSome
  kwaits : m.killed.isSome = true → m.x.w.waits = []
  sane : saneSends m.x.w.sends = true
  lossyK : m.lossy = true → ∃ k p, m.killed = some (k, p) ∧ orderly k p m.xsentPre = false
  kreal : ∀ k p, m.killed = some (k, p) → k.real = true
  adisc : m.x.a.disconnects ≤ 1
  areg : m.x.a.disconnects = 1 ↔ m.x.a.registered = false
  pollq : m.x.a.pollOut = true → m.x.a.sendQ ≠ []
  unreg : m.x.a.registered = false → m.killed.isSome = true ∧ m.x.w.recvs = []
  rthrew : m.rthrew = true → m.killed.isSome = true ∧ m.x.w.recvs = [] ∧ m.threw = true
  threwK : m.threw = true → m.killed.isSome = true

structure Rel (m : Sys) (sp : SpecSt) : Prop where
  ep : ∃ ep, sp.ep = some ep ∧ ep.async = m.async ∧ ep.tls = false ∧ ep.callT = none ∧ ep.discSeen = m.x.a.disconnects
  spay : sp.spay = m.ppay
  kill : sp.kill = m.killed
  pre : sp.xsentAtKill = m.xsentPre
  ord : sp.order = m.ord
  threw : m.threw = true → sp.threwAfterKill = true
  destroyed : sp.destroyed = m.destroyed
  enqs : sp.enqs.length = m.x.a.futures.length + m.x.a.sendQ.length
  live : m.x.a.registered = true → ∀ b ∈ sp.enqs, b = false
  futs : sp.futs = m.x.a.futures.length + (if m.destroyed then m.x.a.sendQ.length else 0)

/-- what is left of the history is enough to play the scenario to its end -/
structure Live (ord : Option (List Phase × Nat)) (m : Sys) (rest : List Op) : Prop where
  ordEq : ordOr m.ord (firstAfter rest) = ord
  steps : m.async = true → m.killed.isSome = true → m.x.a.registered = true → ordList ord ≠ [] →
    m.destroyed = false ∧ liveSteps rest > m.x.w.recvs.length
  recvs : m.async = false → m.killed.isSome = true → m.rthrew = false → (ordList ord).contains .r = true →
    recvOps rest > m.x.w.recvs.length
  sends : m.async = false → ∀ k p, m.killed = some (k, p) → m.threw = false → needSend ord k = true →
    (ordList ord).contains .r = false → sendOps rest > m.x.w.sends.length

/-- the conclusion of every one-step lemma -/
def StepOk (ord : Option (List Phase × Nat)) (m : Sys) (sp : SpecSt) (op : Op) (rest : List Op) : Prop :=
  ∃ sp', (∀ tail, specRun sp ((sysStep m op).2 ++ tail) = specRun sp' tail) ∧
    Rel (sysStep m op).1 sp' ∧ MInv (sysStep m op).1 ∧ Live ord (sysStep m op).1 rest

theorem step_pre (ord) (m : Sys) (sp : SpecSt) (x : Nat) (rest : List Op)
    (hR : Rel m sp) (hI : MInv m) (hL : Live ord m (.pre x :: rest)) (hok : opOk ord m (.pre x) rest = true) :
    StepOk ord m sp (.pre x) rest := by
  refine ⟨{ sp with xsentAtKill := firstOf sp.xsentAtKill x }, ?_, ?_, ?_, ?_⟩
  · intro tail; simp [sysStep, specRun, specStep]
  · exact ⟨hR.ep, hR.spay, hR.kill, by simp [sysStep, hR.pre], hR.ord, hR.threw, hR.destroyed, hR.enqs, hR.live, hR.futs⟩
  · have hx : m.lossy = true → firstOf m.xsentPre x = m.xsentPre := by
      intro hl
      obtain ⟨k, p, hk, _⟩ := hI.lossyK hl
      simp only [opOk, hk, Option.isNone_some, Bool.false_or] at hok
      cases hp : m.xsentPre with
      | none => simp [hp] at hok
      | some v => rfl
    refine { hI with lossyK := ?_ }
    intro hl
    obtain ⟨k, p, hk, ho⟩ := hI.lossyK hl
    exact ⟨k, p, hk, by show orderly k p (firstOf m.xsentPre x) = false; rw [hx hl]; exact ho⟩
  · exact ⟨hL.ordEq, hL.steps, hL.recvs, hL.sends⟩


theorem step_after (ord) (m : Sys) (sp : SpecSt) (o : List Phase) (b : Nat) (rest : List Op)
    (hR : Rel m sp) (hI : MInv m) (hL : Live ord m (.after o b :: rest)) :
    StepOk ord m sp (.after o b) rest := by
  refine ⟨{ sp with order := firstOf sp.order (o, b) }, ?_, ?_, ?_, ?_⟩
  · intro tail; simp [sysStep, specRun, specStep]
  · exact ⟨hR.ep, hR.spay, hR.kill, hR.pre, by simp [sysStep, hR.ord], hR.threw, hR.destroyed, hR.enqs, hR.live, hR.futs⟩
  · exact { hI with }
  · refine ⟨?_, hL.steps, hL.recvs, hL.sends⟩
    have := hL.ordEq
    simp only [firstAfter] at this
    show ordOr (firstOf m.ord (o, b)) (firstAfter rest) = ord
    cases hm : m.ord with
    | none => rw [hm] at this; simp only [ordOr] at this; subst this; rfl
    | some v => rw [hm] at this; simp only [ordOr] at this; subst this; rfl

theorem take_add_drop (l : Bytes) (a n : Nat) : l.take (a + ((l.drop a).take n).length) = l.take a ++ (l.drop a).take n := by
  rw [List.take_add]
  congr 1
  rw [List.length_take]
  exact (List.take_eq_take_min (l := l.drop a) (i := n)).symm

theorem step_psend (ord) (m : Sys) (sp : SpecSt) (n : Nat) (rest : List Op)
    (hR : Rel m sp) (hI : MInv m) (hL : Live ord m (.psend n :: rest)) :
    StepOk ord m sp (.psend n) rest := by
  have hL' : Live ord m rest := ⟨hL.ordEq, hL.steps, hL.recvs, hL.sends⟩
  by_cases hc : m.killed.isSome ∨ (m.ppay.drop m.psent).take (min n m.rsz) = []
  · refine ⟨sp, ?_, ?_, ?_, ?_⟩ <;> simp only [sysStep, hc, if_true]
    · intro tail; rfl
    · exact hR
    · exact hI
    · exact hL'
  · have hk : m.killed.isSome = false := by
      cases h : m.killed.isSome
      · rfl
      · exact absurd (Or.inl h) hc
    have hne : (m.ppay.drop m.psent).take (min n m.rsz) ≠ [] := fun h => hc (Or.inr h)
    have hlossy : m.lossy = false := by
      cases h : m.lossy
      · rfl
      · obtain ⟨k, p, hkk, _⟩ := hI.lossyK h
        rw [hkk] at hk; cases hk
    have hreg : m.x.a.registered = true := by
      cases h : m.x.a.registered
      · have := (hI.unreg h).1; rw [hk] at this; cases this
      · rfl
    refine ⟨sp, ?_, ?_, ?_, ?_⟩ <;> simp only [sysStep, hc, if_false]
    · intro tail; rfl
    · exact ⟨hR.ep, hR.spay, hR.kill, hR.pre, hR.ord, hR.threw, hR.destroyed, hR.enqs, hR.live, hR.futs⟩
    · obtain ⟨lost, hs, hl⟩ := hI.stream
      have hl0 := hl hlossy
      subst hl0
      refine ⟨?_, ?_, ⟨[], ?_, fun _ => rfl⟩, hI.dead, hI.kwaits, hI.sane, hI.lossyK, hI.kreal, hI.adisc, hI.areg, hI.pollq, ?_, ?_, hI.threwK⟩
      · show m.psent + ((m.ppay.drop m.psent).take (min n m.rsz)).length ≤ m.ppay.length
        have := hI.psent
        simp only [List.length_take, List.length_drop]
        omega
      · show recvsOk m.rsz m.lossy (m.x.w.recvs ++ [.data ((m.ppay.drop m.psent).take (min n m.rsz))])
        rw [hlossy]
        have h0 := hI.recvs
        rw [hlossy] at h0
        exact recvsOk_snoc _ _ hne (by simp only [List.length_take]; omega) _ h0
      · show m.ppay.take (m.psent + ((m.ppay.drop m.psent).take (min n m.rsz)).length)
            = m.got ++ dataOf (m.x.w.recvs ++ [.data ((m.ppay.drop m.psent).take (min n m.rsz))]) ++ []
        rw [take_add_drop, hs, dataOf_append]
        simp [dataOf]
      · intro h
        have : m.x.a.registered = false := h
        rw [hreg] at this; cases this
      · intro h
        have := (hI.rthrew h).1
        rw [hk] at this; cases this
    · refine ⟨hL'.ordEq, ?_, ?_, ?_⟩
      · intro _ h; have : m.killed.isSome = true := h; rw [hk] at this; cases this
      · intro _ h; have : m.killed.isSome = true := h; rw [hk] at this; cases this
      · intro _ k p h; have : m.killed = some (k, p) := h; rw [this] at hk; cases hk


theorem not_killed_facts (m : Sys) (hI : MInv m) (hk : m.killed = none) :
    m.lossy = false ∧ m.x.a.registered = true ∧ m.rthrew = false ∧ m.threw = false := by
  refine ⟨?_, ?_, ?_, ?_⟩
  · cases h : m.lossy
    · rfl
    · obtain ⟨k, p, hkk, _⟩ := hI.lossyK h
      rw [hkk] at hk; cases hk
  · cases h : m.x.a.registered
    · have := (hI.unreg h).1; rw [hk] at this; cases this
    · rfl
  · cases h : m.rthrew
    · rfl
    · have := (hI.rthrew h).1; rw [hk] at this; cases this
  · cases h : m.threw
    · rfl
    · have := hI.threwK h; rw [hk] at this; cases this

theorem saneSends_append (a b : List SendAns) (ha : saneSends a = true) (hb : saneSends b = true) :
    saneSends (a ++ b) = true := by
  simp only [saneSends, List.all_append, Bool.and_eq_true] at *
  exact ⟨ha, hb⟩

theorem step_kill (ord) (m : Sys) (sp : SpecSt) (kind : KillKind) (pread : Nat) (reset : Option (Nat × Nat))
    (sends : List SendAns) (rest : List Op)
    (hR : Rel m sp) (hI : MInv m) (hL : Live ord m (.kill kind pread reset sends :: rest))
    (hok : opOk ord m (.kill kind pread reset sends) rest = true) :
    StepOk ord m sp (.kill kind pread reset sends) rest := by
  have hL' : Live ord m rest := ⟨hL.ordEq, hL.steps, hL.recvs, hL.sends⟩
  by_cases hk : m.killed.isSome = true
  · refine ⟨sp, ?_, ?_, ?_, ?_⟩ <;> simp only [sysStep, hk, if_true]
    · intro tail; rfl
    · exact hR
    · exact hI
    · exact hL'
  · have hk' : m.killed = none := by
      cases h : m.killed
      · rfl
      · rw [h] at hk; exact absurd rfl hk
    obtain ⟨hlossy, hreg, hrthrew, hthrew⟩ := not_killed_facts m hI hk'
    simp only [opOk, hk', Option.isSome_none, Bool.false_or, Bool.and_eq_true] at hok
    obtain ⟨⟨⟨hreal, hsane⟩, hreset⟩, hcount⟩ := hok
    refine ⟨{ sp with kill := some (kind, pread) }, ?_, ?_, ?_, ?_⟩ <;>
      simp only [sysStep, hk', Option.isSome_none, Bool.false_eq_true, if_false]
    · intro tail; simp [specRun, specStep]
    · exact ⟨hR.ep, hR.spay, rfl, hR.pre, hR.ord, (by intro h; have : m.threw = true := h; rw [hthrew] at this; cases this),
        hR.destroyed, hR.enqs, hR.live, hR.futs⟩
    · obtain ⟨lost, hs, hl⟩ := hI.stream
      have hl0 := hl hlossy
      subst hl0
      have hrec := hI.recvs
      rw [hlossy] at hrec
      refine ⟨hI.psent, ?_, ?_, rfl, (fun _ => rfl), saneSends_append _ _ hI.sane hsane, ?_, ?_, hI.adisc, hI.areg, hI.pollq, ?_, ?_, (fun _ => rfl)⟩
      · cases reset with
        | none => exact hrec
        | some ke => exact recvsOk_kill _ _ _ _ hrec
      · cases reset with
        | none => exact ⟨[], hs, fun _ => rfl⟩
        | some ke =>
          refine ⟨dataOf (m.x.w.recvs.drop ke.1), ?_, fun h => by cases h⟩
          show m.ppay.take m.psent = m.got ++ dataOf (m.x.w.recvs.take ke.1 ++ [.fail ke.2]) ++ dataOf (m.x.w.recvs.drop ke.1)
          rw [hs, dataOf_append]
          conv => lhs; rw [← List.take_append_drop ke.1 m.x.w.recvs, dataOf_append]
          simp [dataOf]
      · intro h
        have h' : reset.isSome = true := h
        refine ⟨kind, pread, rfl, ?_⟩
        cases reset with
        | none => cases h'
        | some ke => simpa using hreset
      · intro k p h
        have h' : some (kind, pread) = some (k, p) := h
        cases h'
        exact hreal
      · intro h
        have : m.x.a.registered = false := h
        rw [hreg] at this; cases this
      · intro h
        have : m.rthrew = true := h
        rw [hrthrew] at this; cases this
    · refine ⟨hL'.ordEq, ?_, ?_, ?_⟩
      · intro ha _ _ ho
        have ha' : m.async = true := ha
        simp only [ha', if_true, Bool.or_eq_true, List.isEmpty_iff, Bool.and_eq_true, Bool.not_eq_true', decide_eq_true_eq] at hcount
        rcases hcount with h | h
        · exact absurd h ho
        · exact h
      · intro ha _ _ hr
        have ha' : m.async = false := ha
        simp only [ha', Bool.false_eq_true, if_false, Bool.and_eq_true, Bool.or_eq_true, Bool.not_eq_true', decide_eq_true_eq] at hcount
        rcases hcount.1 with h | h
        · rw [h] at hr; cases hr
        · exact h
      · intro ha k p h _ hn hr
        have ha' : m.async = false := ha
        have h' : some (kind, pread) = some (k, p) := h
        cases h'
        simp only [ha', Bool.false_eq_true, if_false, Bool.and_eq_true, Bool.or_eq_true, Bool.not_eq_true', decide_eq_true_eq] at hcount
        rcases hcount.2 with (h | h) | h
        · rw [h] at hn; cases hn
        · rw [h] at hr; cases hr
        · exact h


theorem specRun_broken : ∀ (n start : Nat) (s : SpecSt) (tail : List Obs), s.destroyed = true →
    specRun s (brokenObs start n ++ tail) = specRun { s with futs := s.futs + n } tail
  | 0, _, s, tail, _ => by simp [brokenObs]
  | n + 1, start, s, tail, hd => by
    have hstep : specStep s (.fut start .broken) = .ok { s with futs := s.futs + 1 } := by
      simp [specStep, futClause, hd]
    simp only [brokenObs, List.cons_append, specRun, hstep]
    refine (specRun_broken n (start + 1) { s with futs := s.futs + 1 } tail hd).trans ?_
    simp only [Nat.add_assoc, Nat.add_comm 1 n]

theorem step_destroy (ord) (m : Sys) (sp : SpecSt) (rest : List Op)
    (hR : Rel m sp) (hI : MInv m) (hL : Live ord m (.destroy :: rest)) :
    StepOk ord m sp .destroy rest := by
  have hsteps : m.async = true → m.killed.isSome = true → m.x.a.registered = true → ordList ord ≠ [] → False := by
    intro a b c d
    have := (hL.steps a b c d).2
    simp only [liveSteps] at this
    omega
  by_cases hc : ¬ m.async = true ∨ m.destroyed = true
  · refine ⟨sp, ?_, ?_, ?_, ?_⟩ <;> simp only [sysStep, hc, if_true]
    · intro tail; rfl
    · exact hR
    · exact hI
    · exact ⟨hL.ordEq, fun a b c d => (hsteps a b c d).elim, hL.recvs, hL.sends⟩
  · have ha : m.async = true := by
      cases h : m.async
      · exact absurd (Or.inl (by simp [h])) hc
      · rfl
    have hd : m.destroyed = false := by
      cases h : m.destroyed
      · rfl
      · exact absurd (Or.inr h) hc
    refine ⟨{ sp with destroyed := true, futs := sp.futs + m.x.a.sendQ.length }, ?_, ?_, ?_, ?_⟩ <;>
      simp only [sysStep, hc, if_false]
    · intro tail
      simp only [List.cons_append, specRun, specStep]
      exact specRun_broken _ _ { sp with destroyed := true } tail rfl
    · refine ⟨hR.ep, hR.spay, hR.kill, hR.pre, hR.ord, hR.threw, rfl, hR.enqs, hR.live, ?_⟩
      have := hR.futs
      rw [hd] at this
      simp only [Bool.false_eq_true, if_false, Nat.add_zero] at this
      show sp.futs + m.x.a.sendQ.length = m.x.a.futures.length + (if true = true then m.x.a.sendQ.length else 0)
      rw [this]; simp
    · exact { hI with }
    · refine ⟨hL.ordEq, fun a b c d => (hsteps a b c d).elim, ?_, ?_⟩
      · intro a; have : m.async = false := a; rw [ha] at this; cases this
      · intro a; have : m.async = false := a; rw [ha] at this; cases this

theorem step_enq (ord) (m : Sys) (sp : SpecSt) (data : Bytes) (rest : List Op)
    (hR : Rel m sp) (hI : MInv m) (hL : Live ord m (.enq data :: rest)) :
    StepOk ord m sp (.enq data) rest := by
  have hL' : Live ord m rest := ⟨hL.ordEq, hL.steps, hL.recvs, hL.sends⟩
  by_cases hc : ¬ m.async = true ∨ m.destroyed = true
  · refine ⟨sp, ?_, ?_, ?_, ?_⟩ <;> simp only [sysStep, hc, if_true]
    · intro tail; rfl
    · exact hR
    · exact hI
    · exact hL'
  · have hd : m.destroyed = false := by
      cases h : m.destroyed
      · rfl
      · exact absurd (Or.inr h) hc
    obtain ⟨ep, hep, he1, he2, he3, he4⟩ := hR.ep
    refine ⟨{ sp with enqs := sp.enqs ++ [sp.ep.map (·.discSeen) != some 0] }, ?_, ?_, ?_, ?_⟩ <;>
      simp only [sysStep, hc, if_false]
    · intro tail; simp [specRun, specStep]
    · refine ⟨⟨ep, hep, he1, he2, he3, he4⟩, hR.spay, hR.kill, hR.pre, hR.ord, hR.threw, hR.destroyed, ?_, ?_, ?_⟩
      · show (sp.enqs ++ [_]).length = m.x.a.futures.length + (m.x.a.sendQ ++ [data]).length
        simp only [List.length_append, List.length_cons, List.length_nil]
        have := hR.enqs
        omega
      · intro hreg b hb
        have hreg' : m.x.a.registered = true := hreg
        simp only [List.mem_append, List.mem_singleton] at hb
        rcases hb with hb | hb
        · exact hR.live hreg' b hb
        · have h0 : m.x.a.disconnects = 0 := by
            have h1 := hI.adisc
            have h2 : m.x.a.disconnects ≠ 1 := fun h => by
              have := hI.areg.mp h; rw [hreg'] at this; cases this
            omega
          rw [hb, hep]
          simp [he4, h0]
      · have := hR.futs
        rw [hd] at this
        show sp.futs = m.x.a.futures.length + (if m.destroyed = true then (m.x.a.sendQ ++ [data]).length else 0)
        rw [hd]
        simpa using this
    · refine { hI with pollq := ?_ }
      intro _
      show m.x.a.sendQ ++ [data] ≠ []
      simp
    · exact ⟨hL'.ordEq, hL'.steps, hL'.recvs, hL'.sends⟩


theorem callsObs_run {w0 w' : Script} {l : List Call} (h : SendRun w0 w' l) (h0 : w0.calls = []) :
    callsObs w'.calls = l.filterMap callObs := by
  simp [callsObs, h.calls, h0]

theorem step_send (ord) (m : Sys) (sp : SpecSt) (T : Int) (data : Bytes) (waits : List WaitAns) (sends : List SendAns)
    (rest : List Op) (hR : Rel m sp) (hI : MInv m) (hL : Live ord m (.send T data waits sends :: rest))
    (hok : opOk ord m (.send T data waits sends) rest = true) :
    StepOk ord m sp (.send T data waits sends) rest := by
  by_cases ha : m.async = true
  · refine ⟨sp, ?_, ?_, ?_, ?_⟩ <;> simp only [sysStep, if_pos ha]
    · intro tail; rfl
    · exact hR
    · exact hI
    · exact ⟨hL.ordEq, hL.steps, hL.recvs, fun a => by rw [ha] at a; cases a⟩
  · have ha' : m.async = false := by cases h : m.async <;> simp_all
    simp only [opOk, ha', Bool.false_or, Bool.and_eq_true, bne_iff_ne, ne_eq, Bool.or_eq_true,
      Option.isNone_iff_eq_none, List.isEmpty_iff] at hok
    obtain ⟨⟨hdata, hsane⟩, hkw⟩ := hok
    have hs0 : saneSends (arm m.x.w waits sends).sends = true := saneSends_append _ _ hI.sane hsane
    obtain ⟨⟨l, hrun, hlog⟩, hnl, hlive⟩ := send_facts T (arm m.x.w waits sends) data hs0
    obtain ⟨ep, hep, he1, he2, he3, he4⟩ := hR.ep
    have hkilledW : m.killed.isSome = true → (arm m.x.w waits sends).waits = [] ∧ (arm m.x.w waits sends).sends = m.x.w.sends := by
      intro hk
      rcases hkw with h | ⟨h1, h2⟩
      · rw [h] at hk; cases hk
      · subst h1; subst h2
        simp [arm, hI.kwaits hk]
    refine ⟨{ sp with ep := some { ep with recvOp := false, callT := none, spent := spendLog T 0 l },
                      threwAfterKill := if (sendT Script.world (arm m.x.w waits sends) data T).exn.isSome = true ∧ sp.kill.isSome = true
                        then true else sp.threwAfterKill }, ?_, ?_, ?_, ?_⟩ <;>
      simp only [sysStep, if_neg ha]
    · intro tail
      rw [callsObs_run hrun rfl]
      have h1 : specStep sp (.api .send (some T)) = .ok { sp with ep := some { ep with recvOp := false, callT := some T, spent := 0 } } := by
        simp [specStep, hep]
      simp only [List.cons_append, List.append_assoc, List.nil_append, specRun, h1]
      refine (specRun_log T l { sp with ep := some { ep with recvOp := false, callT := some T, spent := 0 } }
        { ep with recvOp := false, callT := some T, spent := 0 } _ rfl rfl hlog).trans ?_
      cases hx : (sendT Script.world (arm m.x.w waits sends) data T).exn with
      | none => simp [specRun, specStep, retOf]
      | some e =>
        have := hnl e hx
        cases hk : sp.kill <;> simp [specRun, specStep, retOf, this]
    · refine ⟨⟨_, rfl, he1, he2, rfl, he4⟩, hR.spay, hR.kill, hR.pre, hR.ord, ?_, hR.destroyed, hR.enqs, hR.live, hR.futs⟩
      intro h
      have h' : (m.threw || (m.killed.isSome && (sendT Script.world (arm m.x.w waits sends) data T).exn.isSome)) = true := h
      simp only [Bool.or_eq_true, Bool.and_eq_true] at h'
      rcases h' with h' | ⟨h1, h2⟩
      · have := hR.threw h'
        show (if _ then true else sp.threwAfterKill) = true
        split <;> simp_all
      · show (if _ then true else sp.threwAfterKill) = true
        rw [hR.kill]
        simp [h1, h2]
    · have hrec : (sendT Script.world (arm m.x.w waits sends) data T).w.recvs = m.x.w.recvs := hrun.recvs
      have hdead : (sendT Script.world (arm m.x.w waits sends) data T).w.dead = m.x.w.dead := hrun.dead
      refine ⟨hI.psent, ?_, ?_, ?_, ?_, hrun.sane hs0, hI.lossyK, hI.kreal, hI.adisc, hI.areg, hI.pollq, ?_, ?_, ?_⟩
      · show recvsOk m.rsz m.lossy (sendT Script.world (arm m.x.w waits sends) data T).w.recvs
        rw [hrec]; exact hI.recvs
      · show ∃ lost, m.ppay.take m.psent = m.got ++ dataOf (sendT Script.world (arm m.x.w waits sends) data T).w.recvs ++ lost ∧ _
        rw [hrec]; exact hI.stream
      · show (sendT Script.world (arm m.x.w waits sends) data T).w.dead = m.killed.isSome
        rw [hdead]; exact hI.dead
      · intro hk
        exact hrun.waits (hkilledW hk).1
      · intro h
        show m.killed.isSome = true ∧ (sendT Script.world (arm m.x.w waits sends) data T).w.recvs = []
        rw [hrec]; exact hI.unreg h
      · intro h
        have h' : m.rthrew = true := h
        obtain ⟨h1, h2, h3⟩ := hI.rthrew h'
        refine ⟨h1, ?_, ?_⟩
        · show (sendT Script.world (arm m.x.w waits sends) data T).w.recvs = []
          rw [hrec]; exact h2
        · show (m.threw || _) = true
          simp [h3]
      · intro h
        have h' : (m.threw || (m.killed.isSome && (sendT Script.world (arm m.x.w waits sends) data T).exn.isSome)) = true := h
        simp only [Bool.or_eq_true, Bool.and_eq_true] at h'
        rcases h' with h' | ⟨h1, _⟩
        · exact hI.threwK h'
        · exact h1
    · refine ⟨hL.ordEq, ?_, ?_, ?_⟩
      · intro a; have : m.async = true := a; rw [ha'] at this; cases this
      · intro a hk hr ho
        have := hL.recvs a hk hr ho
        show recvOps rest > (sendT Script.world (arm m.x.w waits sends) data T).w.recvs.length
        rw [hrun.recvs]
        exact this
      · intro a k p hk ht hn ho
        have hk' : m.killed = some (k, p) := hk
        have ht' : (m.threw || (m.killed.isSome && (sendT Script.world (arm m.x.w waits sends) data T).exn.isSome)) = false := ht
        simp only [Bool.or_eq_false_iff, hk', Option.isSome_some, Bool.true_and] at ht'
        have hx : (sendT Script.world (arm m.x.w waits sends) data T).exn = none := by
          cases h : (sendT Script.world (arm m.x.w waits sends) data T).exn
          · rfl
          · rw [h] at ht'; simp at ht'
        have hks : m.killed.isSome = true := by rw [hk']; rfl
        obtain ⟨hw0, hs0'⟩ := hkilledW hks
        have hd0 : (arm m.x.w waits sends).dead = true := by
          show m.x.w.dead = true
          rw [hI.dead]; exact hks
        have h1 := hlive hd0 hw0 hdata hx
        have h2 := hL.sends a k p hk' ht'.1 hn ho
        simp only [sendOps] at h2
        show sendOps rest > (sendT Script.world (arm m.x.w waits sends) data T).w.sends.length
        rw [hs0'] at h1
        omega


theorem pollOk_self (T : Int) : pollOk T 0 T = true := by
  unfold pollOk
  split
  · simpa using ‹T < 0›
  · split
    · simpa using ‹T = 0›
    · simp only [Bool.and_eq_true, decide_eq_true_eq]; omega

/-- the observer accepts the lines of one synchronous `Receive`: api, one wait with the call's timeout, result -/
theorem specRun_recv (sp : SpecSt) (ep : EpSt) (T : Int) (r : Bool) (threw : Bool) (tail : List Obs) (hep : sp.ep = some ep) :
    specRun sp (.api .recv (some T) :: .poll T r :: .ret (if threw then .threw false false else .returned) :: tail)
      = specRun { sp with ep := some { ep with recvOp := true, callT := none, spent := nextSpent T 0 T r },
                          threwAfterKill := if threw = true ∧ sp.kill.isSome = true then true else sp.threwAfterKill } tail := by
  have h1 : specStep sp (.api .recv (some T)) = .ok { sp with ep := some { ep with recvOp := true, callT := some T, spent := 0 } } := by
    simp [specStep, hep]
  have hp := pollClause_ok { ep with recvOp := true, callT := some T, spent := 0 } T T r (pollOk_self T)
  have h2 : specStep { sp with ep := some { ep with recvOp := true, callT := some T, spent := 0 } } (.poll T r)
      = .ok { sp with ep := some { ep with recvOp := true, callT := some T, spent := nextSpent T 0 T r } } := by
    simp [specStep, hp, Except.map]
  simp only [specRun, h1, h2]
  cases threw
  · simp [specStep]
  · cases hk : sp.kill <;> simp [specStep]

/-- `ReceiveNow` against the scripted kernel -/
theorem recvNow_script (w : Script) (n : Nat) :
    (w.recvs = [] → w.dead = true → recvNow Script.world w n = .exn .closed { w with calls := .recv n (.data []) :: w.calls }) ∧
    (w.recvs = [] → w.dead = false → recvNow Script.world w n = .exn (.system 11) { w with calls := .recv n (.fail 11) :: w.calls }) ∧
    (∀ e rest, w.recvs = .fail e :: rest →
      recvNow Script.world w n = .exn (.system e) { w with recvs := rest, calls := .recv n (.fail e) :: w.calls }) ∧
    (∀ bs rest, w.recvs = .data bs :: rest → bs ≠ [] → bs.length ≤ n →
      recvNow Script.world w n = .got bs { w with recvs := rest, calls := .recv n (.data bs) :: w.calls }) := by
  refine ⟨?_, ?_, ?_, ?_⟩
  · intro h hd; simp [recvNow, Script.world, h, hd]
  · intro h hd; simp [recvNow, Script.world, h, hd]
  · intro e rest h; simp [recvNow, Script.world, h]
  · intro bs rest h hne hl
    have : bs.take n = bs := List.take_of_length_le hl
    simp [recvNow, Script.world, h, this, hne]


/-- a synchronous `Receive` that threw -/
theorem recv_exn_ok (ord) (m : Sys) (sp : SpecSt) (ep : EpSt) (T : Int) (waits : List WaitAns) (rest : List Op) (w' : Script) (x : Int)
    (hR : Rel m sp) (hI : MInv m) (hL : Live ord m (.recv T waits :: rest)) (ha : m.async = false)
    (hep : sp.ep = some ep ∧ ep.async = m.async ∧ ep.tls = false ∧ ep.callT = none ∧ ep.discSeen = m.x.a.disconnects)
    (hsane : saneSends w'.sends = true) (hd : w'.dead = m.x.w.dead) (hw : m.killed.isSome = true → w'.waits = [])
    (hr : w'.recvs = []) (hdata : dataOf m.x.w.recvs = []) :
    Rel { m with x := { m.x with w := w' }, threw := m.threw || m.killed.isSome, rthrew := m.rthrew || m.killed.isSome }
        { sp with ep := some { ep with recvOp := true, callT := none, spent := x },
                  threwAfterKill := if true = true ∧ sp.kill.isSome = true then true else sp.threwAfterKill } ∧
    MInv { m with x := { m.x with w := w' }, threw := m.threw || m.killed.isSome, rthrew := m.rthrew || m.killed.isSome } ∧
    Live ord { m with x := { m.x with w := w' }, threw := m.threw || m.killed.isSome, rthrew := m.rthrew || m.killed.isSome } rest := by
  obtain ⟨h0, he1, he2, he3, he4⟩ := hep
  refine ⟨?_, ?_, ?_⟩
  · refine ⟨⟨_, rfl, he1, he2, rfl, he4⟩, hR.spay, hR.kill, hR.pre, hR.ord, ?_, hR.destroyed, hR.enqs, hR.live, hR.futs⟩
    intro h
    have h' : (m.threw || m.killed.isSome) = true := h
    show (if true = true ∧ sp.kill.isSome = true then true else sp.threwAfterKill) = true
    rw [hR.kill]
    simp only [Bool.or_eq_true] at h'
    rcases h' with h' | h'
    · have := hR.threw h'; split <;> simp_all
    · simp [h']
  · obtain ⟨lost, hs, hl⟩ := hI.stream
    refine ⟨hI.psent, ?_, ⟨lost, ?_, hl⟩, ?_, hw, hsane, hI.lossyK, hI.kreal, hI.adisc, hI.areg, hI.pollq, ?_, ?_, ?_⟩
    · show recvsOk m.rsz m.lossy w'.recvs
      rw [hr]; trivial
    · show m.ppay.take m.psent = m.got ++ dataOf w'.recvs ++ lost
      rw [hr, hs, hdata]; rfl
    · show w'.dead = m.killed.isSome
      rw [hd]; exact hI.dead
    · intro h; exact ⟨(hI.unreg h).1, hr⟩
    · intro h
      have h' : (m.rthrew || m.killed.isSome) = true := h
      simp only [Bool.or_eq_true] at h'
      have hk : m.killed.isSome = true := by
        rcases h' with h' | h'
        · exact (hI.rthrew h').1
        · exact h'
      exact ⟨hk, hr, by show (m.threw || m.killed.isSome) = true; simp [hk]⟩
    · intro h
      have h' : (m.threw || m.killed.isSome) = true := h
      simp only [Bool.or_eq_true] at h'
      rcases h' with h' | h'
      · exact hI.threwK h'
      · exact h'
  · refine ⟨hL.ordEq, ?_, ?_, ?_⟩
    · intro a; have : m.async = true := a; rw [ha] at this; cases this
    · intro _ hk hrt
      have hk' : m.killed.isSome = true := hk
      have : (m.rthrew || m.killed.isSome) = false := hrt
      simp [hk'] at this
    · intro _ k p hk ht
      have hk' : m.killed = some (k, p) := hk
      have : (m.threw || m.killed.isSome) = false := ht
      simp [hk'] at this

/-- a synchronous `Receive` that returned the next segment -/
theorem recv_got_ok (ord) (m : Sys) (sp : SpecSt) (ep : EpSt) (T : Int) (waits : List WaitAns) (rest : List Op) (w' : Script) (x : Int)
    (bs : Bytes)
    (hR : Rel m sp) (hI : MInv m) (hL : Live ord m (.recv T waits :: rest)) (ha : m.async = false)
    (hep : sp.ep = some ep ∧ ep.async = m.async ∧ ep.tls = false ∧ ep.callT = none ∧ ep.discSeen = m.x.a.disconnects)
    (hsane : saneSends w'.sends = true) (hlen : w'.sends.length ≤ m.x.w.sends.length)
    (hd : w'.dead = m.x.w.dead) (hw : m.killed.isSome = true → w'.waits = [])
    (hr : m.x.w.recvs = .data bs :: w'.recvs) :
    Rel { m with x := { m.x with w := w' }, got := m.got ++ bs }
        { sp with ep := some { ep with recvOp := true, callT := none, spent := x },
                  threwAfterKill := if false = true ∧ sp.kill.isSome = true then true else sp.threwAfterKill } ∧
    MInv { m with x := { m.x with w := w' }, got := m.got ++ bs } ∧
    Live ord { m with x := { m.x with w := w' }, got := m.got ++ bs } rest := by
  obtain ⟨h0, he1, he2, he3, he4⟩ := hep
  refine ⟨?_, ?_, ?_⟩
  · refine ⟨⟨_, rfl, he1, he2, rfl, he4⟩, hR.spay, hR.kill, hR.pre, hR.ord, ?_, hR.destroyed, hR.enqs, hR.live, hR.futs⟩
    intro h
    have := hR.threw h
    simpa using this
  · obtain ⟨lost, hs, hl⟩ := hI.stream
    have hrec := hI.recvs
    rw [hr] at hrec
    refine ⟨hI.psent, hrec.2.2, ⟨lost, ?_, hl⟩, ?_, hw, hsane, hI.lossyK, hI.kreal, hI.adisc, hI.areg, hI.pollq, ?_, ?_, hI.threwK⟩
    · show m.ppay.take m.psent = m.got ++ bs ++ dataOf w'.recvs ++ lost
      rw [hs, hr]; simp [dataOf]
    · show w'.dead = m.killed.isSome
      rw [hd]; exact hI.dead
    · intro h
      have := (hI.unreg h).2
      rw [hr] at this; cases this
    · intro h
      have := (hI.rthrew h).2.1
      rw [hr] at this; cases this
  · refine ⟨hL.ordEq, ?_, ?_, ?_⟩
    · intro a; have : m.async = true := a; rw [ha] at this; cases this
    · intro a hk hrt ho
      have := hL.recvs a hk hrt ho
      rw [hr] at this
      simp only [recvOps, List.length_cons] at this
      show recvOps rest > w'.recvs.length
      omega
    · intro a k p hk ht hn ho
      have := hL.sends a k p hk ht hn ho
      simp only [sendOps] at this
      show sendOps rest > w'.sends.length
      omega

/-- a synchronous `Receive` that timed out (the peer is alive) -/
theorem recv_nothing_ok (ord) (m : Sys) (sp : SpecSt) (ep : EpSt) (T : Int) (waits : List WaitAns) (rest : List Op) (w' : Script) (x : Int)
    (hR : Rel m sp) (hI : MInv m) (hL : Live ord m (.recv T waits :: rest)) (ha : m.async = false)
    (hep : sp.ep = some ep ∧ ep.async = m.async ∧ ep.tls = false ∧ ep.callT = none ∧ ep.discSeen = m.x.a.disconnects)
    (hsane : saneSends w'.sends = true)
    (hd : w'.dead = m.x.w.dead) (hk : m.killed = none)
    (hr : w'.recvs = m.x.w.recvs) :
    Rel { m with x := { m.x with w := w' } }
        { sp with ep := some { ep with recvOp := true, callT := none, spent := x },
                  threwAfterKill := if false = true ∧ sp.kill.isSome = true then true else sp.threwAfterKill } ∧
    MInv { m with x := { m.x with w := w' } } ∧
    Live ord { m with x := { m.x with w := w' } } rest := by
  obtain ⟨h0, he1, he2, he3, he4⟩ := hep
  refine ⟨?_, ?_, ?_⟩
  · refine ⟨⟨_, rfl, he1, he2, rfl, he4⟩, hR.spay, hR.kill, hR.pre, hR.ord, ?_, hR.destroyed, hR.enqs, hR.live, hR.futs⟩
    intro h
    have := hR.threw h
    simpa using this
  · refine ⟨hI.psent, ?_, ?_, ?_, ?_, hsane, hI.lossyK, hI.kreal, hI.adisc, hI.areg, hI.pollq, ?_, ?_, hI.threwK⟩
    · show recvsOk m.rsz m.lossy w'.recvs
      rw [hr]; exact hI.recvs
    · show ∃ lost, m.ppay.take m.psent = m.got ++ dataOf w'.recvs ++ lost ∧ _
      rw [hr]; exact hI.stream
    · show w'.dead = m.killed.isSome
      rw [hd]; exact hI.dead
    · intro h; have : m.killed.isSome = true := h; rw [hk] at this; cases this
    · intro h; have := (hI.unreg h).1; rw [hk] at this; cases this
    · intro h; have := (hI.rthrew h).1; rw [hk] at this; cases this
  · refine ⟨hL.ordEq, ?_, ?_, ?_⟩
    · intro a; have : m.async = true := a; rw [ha] at this; cases this
    · intro _ h; have : m.killed.isSome = true := h; rw [hk] at this; cases this
    · intro _ k p h; have : m.killed = some (k, p) := h; rw [hk] at this; cases this


/-- the observer's state after the lines of one synchronous `Receive` -/
def recvSp (sp : SpecSt) (ep : EpSt) (T : Int) (r threw : Bool) : SpecSt :=
  { sp with ep := some { ep with recvOp := true, callT := none, spent := nextSpent T 0 T r },
            threwAfterKill := if threw = true ∧ sp.kill.isSome = true then true else sp.threwAfterKill }

theorem step_recv (ord) (m : Sys) (sp : SpecSt) (T : Int) (waits : List WaitAns)
    (rest : List Op) (hR : Rel m sp) (hI : MInv m) (hL : Live ord m (.recv T waits :: rest))
    (hok : opOk ord m (.recv T waits) rest = true) :
    StepOk ord m sp (.recv T waits) rest := by
  by_cases ha : m.async = true
  · refine ⟨sp, ?_, ?_, ?_, ?_⟩ <;> simp only [sysStep, if_pos ha]
    · intro tail; rfl
    · exact hR
    · exact hI
    · exact ⟨hL.ordEq, hL.steps, (fun a => by rw [ha] at a; cases a), hL.sends⟩
  · have ha' : m.async = false := by cases h : m.async <;> simp_all
    simp only [opOk, ha', Bool.false_or, Bool.or_eq_true, Option.isNone_iff_eq_none, List.isEmpty_iff] at hok
    obtain ⟨ep, hep⟩ := hR.ep
    obtain ⟨hw, hready⟩ := wait_run (arm m.x.w waits []) .rd T
    rcases hwt : Script.world.wait (arm m.x.w waits []) .rd T with ⟨r, w1⟩
    rw [hwt] at hw hready
    have hrec1 : w1.recvs = m.x.w.recvs := hw.recvs
    have hdead1 : w1.dead = m.x.w.dead := hw.dead
    have hsane1 : saneSends w1.sends = true := hw.sane (by show saneSends (m.x.w.sends ++ []) = true; simpa using hI.sane)
    have hlen1 : w1.sends.length ≤ m.x.w.sends.length := by
      have := hw.sendsLen
      have e : (arm m.x.w waits []).sends = m.x.w.sends := by simp [arm]
      rw [e] at this; exact this
    have hwaits1 : m.killed.isSome = true → w1.waits = [] := by
      intro hk
      apply hw.waits
      rcases hok with h | h
      · rw [h] at hk; cases hk
      · subst h; simp [arm, hI.kwaits hk]
    have hcalls1 : w1.calls = [.wait .rd T r] := by
      have := hw.calls
      simpa [arm] using this
    cases r with
    | false =>
      have hval : recvT Script.world (arm m.x.w waits []) m.rsz T = .nothing w1 := by
        simp [recvT, receive, hwt]
      have hk : m.killed = none := by
        cases h : m.killed with
        | none => rfl
        | some kp =>
          have hks : m.killed.isSome = true := by rw [h]; rfl
          have hd0 : (arm m.x.w waits []).dead = true := by
            show m.x.w.dead = true
            rw [hI.dead]; exact hks
          have hw0 : (arm m.x.w waits []).waits = [] := by
            rcases hok with h' | h'
            · rw [h'] at h; cases h
            · subst h'; simp [arm, hI.kwaits hks]
          have := hready hd0 hw0
          cases this
      obtain ⟨h1, h2, h3⟩ := recv_nothing_ok ord m sp ep T waits rest w1 (nextSpent T 0 T false) hR hI hL ha' hep hsane1 hdead1 hk hrec1
      refine ⟨recvSp sp ep T false false, ?_, ?_, ?_, ?_⟩ <;> simp only [sysStep, if_neg ha, hval]
      · intro tail
        have := specRun_recv sp ep T false false tail hep.1
        simpa [callsObs, hcalls1, callObs, recvSp, List.filterMap] using this
      · exact h1
      · exact h2
      · exact h3
    | true =>
      have hrv : recvT Script.world (arm m.x.w waits []) m.rsz T = recvNow Script.world w1 m.rsz := by
        simp [recvT, receive, hwt]
      obtain ⟨c1, c2, c3, c4⟩ := recvNow_script w1 m.rsz
      have hrecOk := hI.recvs
      rcases hmr : m.x.w.recvs with _ | ⟨a, rest'⟩
      · -- nothing pending: end of stream (peer gone) or EAGAIN (peer alive)
        have hr1 : w1.recvs = [] := by rw [hrec1, hmr]
        have hdata : dataOf m.x.w.recvs = [] := by rw [hmr]; rfl
        cases hdd : w1.dead with
        | true =>
          have hval := hrv.trans (c1 hr1 hdd)
          obtain ⟨h1, h2, h3⟩ := recv_exn_ok ord m sp ep T waits rest { w1 with calls := .recv m.rsz (.data []) :: w1.calls }
            (nextSpent T 0 T true) hR hI hL ha' hep hsane1 hdead1 hwaits1 hr1 hdata
          refine ⟨recvSp sp ep T true true, ?_, ?_, ?_, ?_⟩ <;> simp only [sysStep, if_neg ha, hval]
          · intro tail
            have := specRun_recv sp ep T true true tail hep.1
            simpa [callsObs, hcalls1, callObs, retOf, Exn.isLogic, recvSp, List.filterMap] using this
          · exact h1
          · exact h2
          · exact h3
        | false =>
          have hval := hrv.trans (c2 hr1 hdd)
          obtain ⟨h1, h2, h3⟩ := recv_exn_ok ord m sp ep T waits rest { w1 with calls := .recv m.rsz (.fail 11) :: w1.calls }
            (nextSpent T 0 T true) hR hI hL ha' hep hsane1 hdead1 hwaits1 hr1 hdata
          refine ⟨recvSp sp ep T true true, ?_, ?_, ?_, ?_⟩ <;> simp only [sysStep, if_neg ha, hval]
          · intro tail
            have := specRun_recv sp ep T true true tail hep.1
            simpa [callsObs, hcalls1, callObs, retOf, Exn.isLogic, recvSp, List.filterMap] using this
          · exact h1
          · exact h2
          · exact h3
      · rw [hmr] at hrecOk
        cases a with
        | fail e =>
          have hrest : rest' = [] := hrecOk.2
          subst hrest
          have hr1 : w1.recvs = [.fail e] := by rw [hrec1, hmr]
          have hdata : dataOf m.x.w.recvs = [] := by rw [hmr]; rfl
          have hval := hrv.trans (c3 e [] hr1)
          obtain ⟨h1, h2, h3⟩ := recv_exn_ok ord m sp ep T waits rest { w1 with recvs := [], calls := .recv m.rsz (.fail e) :: w1.calls }
            (nextSpent T 0 T true) hR hI hL ha' hep hsane1 hdead1 hwaits1 rfl hdata
          refine ⟨recvSp sp ep T true true, ?_, ?_, ?_, ?_⟩ <;> simp only [sysStep, if_neg ha, hval]
          · intro tail
            have := specRun_recv sp ep T true true tail hep.1
            simpa [callsObs, hcalls1, callObs, retOf, Exn.isLogic, recvSp, List.filterMap] using this
          · exact h1
          · exact h2
          · exact h3
        | data bs =>
          have hr1 : w1.recvs = .data bs :: rest' := by rw [hrec1, hmr]
          have hval := hrv.trans (c4 bs rest' hr1 hrecOk.1 hrecOk.2.1)
          obtain ⟨h1, h2, h3⟩ := recv_got_ok ord m sp ep T waits rest { w1 with recvs := rest', calls := .recv m.rsz (.data bs) :: w1.calls }
            (nextSpent T 0 T true) bs hR hI hL ha' hep hsane1 hlen1 hdead1 hwaits1 hmr
          refine ⟨recvSp sp ep T true false, ?_, ?_, ?_, ?_⟩ <;> simp only [sysStep, if_neg ha, hval]
          · intro tail
            have := specRun_recv sp ep T true false tail hep.1
            simpa [callsObs, hcalls1, callObs, recvSp, List.filterMap] using this
          · exact h1
          · exact h2
          · exact h3


/-! ### the asynchronous socket: one driver step -/

/-- facts about the kernel state after the step's system calls, relative to the state before -/
structure WFrame (m : Sys) (w' : Script) : Prop where
  dead : w'.dead = m.x.w.dead
  waits : m.killed.isSome = true → w'.waits = []
  sane : saneSends w'.sends = true

/-- a step that did nothing for X (not registered any more, or nothing reported) -/
theorem astep_idle_ok (ord) (m : Sys) (sp : SpecSt) (rev : REvents) (sends : List SendAns) (rest : List Op) (w' : Script)
    (hR : Rel m sp) (hI : MInv m) (hL : Live ord m (.step rev sends :: rest)) (ha : m.async = true)
    (hF : WFrame m w') (hr : w'.recvs = m.x.w.recvs)
    (hidle : m.killed.isSome = true → m.x.a.registered = false) :
    Rel { m with x := { m.x with w := w' }, got := m.got ++ [] } sp ∧
    MInv { m with x := { m.x with w := w' }, got := m.got ++ [] } ∧
    Live ord { m with x := { m.x with w := w' }, got := m.got ++ [] } rest := by
  refine ⟨?_, ?_, ?_⟩
  · exact ⟨hR.ep, hR.spay, hR.kill, hR.pre, hR.ord, hR.threw, hR.destroyed, hR.enqs, hR.live, hR.futs⟩
  · refine ⟨hI.psent, ?_, ?_, ?_, hF.waits, hF.sane, hI.lossyK, hI.kreal, hI.adisc, hI.areg, hI.pollq, ?_, ?_, hI.threwK⟩
    · show recvsOk m.rsz m.lossy w'.recvs
      rw [hr]; exact hI.recvs
    · show ∃ lost, m.ppay.take m.psent = (m.got ++ []) ++ dataOf w'.recvs ++ lost ∧ _
      rw [hr, List.append_nil]; exact hI.stream
    · show w'.dead = m.killed.isSome
      rw [hF.dead]; exact hI.dead
    · intro h
      show m.killed.isSome = true ∧ w'.recvs = []
      rw [hr]; exact hI.unreg h
    · intro h
      obtain ⟨h1, h2, h3⟩ := hI.rthrew h
      exact ⟨h1, by show w'.recvs = []; rw [hr]; exact h2, h3⟩
  · refine ⟨hL.ordEq, ?_, ?_, ?_⟩
    · intro _ hk hreg _
      have := hidle hk
      have hreg' : m.x.a.registered = true := hreg
      rw [this] at hreg'; cases hreg'
    · intro a; have : m.async = false := a; rw [ha] at this; cases this
    · intro a; have : m.async = false := a; rw [ha] at this; cases this

/-- a step that handed the next segment to the receive handler -/
theorem astep_got_ok (ord) (m : Sys) (sp : SpecSt) (rev : REvents) (sends : List SendAns) (rest : List Op) (w' : Script)
    (bs : Bytes)
    (hR : Rel m sp) (hI : MInv m) (hL : Live ord m (.step rev sends :: rest)) (ha : m.async = true)
    (hF : WFrame m w') (hr : m.x.w.recvs = .data bs :: w'.recvs) :
    Rel { m with x := { a := { m.x.a with delivered := bs :: m.x.a.delivered }, w := w' }, got := m.got ++ bs } sp ∧
    MInv { m with x := { a := { m.x.a with delivered := bs :: m.x.a.delivered }, w := w' }, got := m.got ++ bs } ∧
    Live ord { m with x := { a := { m.x.a with delivered := bs :: m.x.a.delivered }, w := w' }, got := m.got ++ bs } rest := by
  refine ⟨?_, ?_, ?_⟩
  · exact ⟨hR.ep, hR.spay, hR.kill, hR.pre, hR.ord, hR.threw, hR.destroyed, hR.enqs, hR.live, hR.futs⟩
  · obtain ⟨lost, hs, hl⟩ := hI.stream
    have hrec := hI.recvs
    rw [hr] at hrec
    refine ⟨hI.psent, hrec.2.2, ⟨lost, ?_, hl⟩, ?_, hF.waits, hF.sane, hI.lossyK, hI.kreal, hI.adisc, hI.areg, hI.pollq, ?_, ?_, hI.threwK⟩
    · show m.ppay.take m.psent = m.got ++ bs ++ dataOf w'.recvs ++ lost
      rw [hs, hr]; simp [dataOf]
    · show w'.dead = m.killed.isSome
      rw [hF.dead]; exact hI.dead
    · intro h
      have := (hI.unreg h).2
      rw [hr] at this; cases this
    · intro h
      have := (hI.rthrew h).2.1
      rw [hr] at this; cases this
  · refine ⟨hL.ordEq, ?_, ?_, ?_⟩
    · intro a hk hreg ho
      have := hL.steps a hk hreg ho
      rw [hr] at this
      simp only [liveSteps, List.length_cons] at this
      exact ⟨this.1, by show liveSteps rest > w'.recvs.length; omega⟩
    · intro a; have : m.async = false := a; rw [ha] at this; cases this
    · intro a; have : m.async = false := a; rw [ha] at this; cases this

/-- a step in which the driver's receive saw the end of the stream (or an error): disconnect handler -/
theorem astep_disc_ok (ord) (m : Sys) (sp : SpecSt) (ep : EpSt) (rev : REvents) (sends : List SendAns) (rest : List Op) (w' : Script)
    (hR : Rel m sp) (hI : MInv m) (hL : Live ord m (.step rev sends :: rest)) (ha : m.async = true)
    (hep : sp.ep = some ep ∧ ep.async = m.async ∧ ep.tls = false ∧ ep.callT = none ∧ ep.discSeen = m.x.a.disconnects)
    (hF : WFrame m w') (hr : w'.recvs = []) (hdata : dataOf m.x.w.recvs = [])
    (hk : m.killed.isSome = true) (hreg : m.x.a.registered = true) :
    Rel { m with x := pDisconnect { m.x with w := w' }, got := m.got ++ [] }
        { sp with ep := some { ep with discSeen := ep.discSeen + 1 } } ∧
    MInv { m with x := pDisconnect { m.x with w := w' }, got := m.got ++ [] } ∧
    Live ord { m with x := pDisconnect { m.x with w := w' }, got := m.got ++ [] } rest := by
  obtain ⟨h0, he1, he2, he3, he4⟩ := hep
  have hd0 : m.x.a.disconnects = 0 := by
    have h1 := hI.adisc
    have h2 : m.x.a.disconnects ≠ 1 := fun h => by
      have := hI.areg.mp h; rw [hreg] at this; cases this
    omega
  refine ⟨?_, ?_, ?_⟩
  · refine ⟨⟨_, rfl, he1, he2, he3, ?_⟩, hR.spay, hR.kill, hR.pre, hR.ord, hR.threw, hR.destroyed, hR.enqs, ?_, hR.futs⟩
    · show ep.discSeen + 1 = m.x.a.disconnects + 1
      rw [he4]
    · intro h; cases h
  · obtain ⟨lost, hs, hl⟩ := hI.stream
    refine ⟨hI.psent, ?_, ⟨lost, ?_, hl⟩, ?_, hF.waits, hF.sane, hI.lossyK, hI.kreal, ?_, ?_, hI.pollq, ?_, ?_, hI.threwK⟩
    · show recvsOk m.rsz m.lossy w'.recvs
      rw [hr]; trivial
    · show m.ppay.take m.psent = (m.got ++ []) ++ dataOf w'.recvs ++ lost
      rw [hr, hs, hdata]; simp [dataOf]
    · show w'.dead = m.killed.isSome
      rw [hF.dead]; exact hI.dead
    · show m.x.a.disconnects + 1 ≤ 1
      omega
    · show m.x.a.disconnects + 1 = 1 ↔ false = false
      simp [hd0]
    · intro _; exact ⟨hk, hr⟩
    · intro h
      obtain ⟨h1, _, h3⟩ := hI.rthrew h
      exact ⟨h1, hr, h3⟩
  · refine ⟨hL.ordEq, ?_, ?_, ?_⟩
    · intro _ _ h; cases h
    · intro a; have : m.async = false := a; rw [ha] at this; cases this
    · intro a; have : m.async = false := a; rw [ha] at this; cases this


/-- a step in which the driver's send resolved the promise of the buffer at the head of the queue
(with a value: everything accepted; with an exception: the send failed) -/
theorem astep_sent_ok (ord) (m : Sys) (sp : SpecSt) (rev : REvents) (sends : List SendAns) (rest : List Op) (w' : Script)
    (buf : Bytes) (rest' : List Bytes) (f : FutRes)
    (hR : Rel m sp) (hI : MInv m) (hL : Live ord m (.step rev sends :: rest)) (ha : m.async = true)
    (hF : WFrame m w') (hr : w'.recvs = m.x.w.recvs) (hq : m.x.a.sendQ = buf :: rest')
    (hk : m.killed = none) (hd : m.destroyed = false) :
    Rel { m with x := { a := { m.x.a with sendQ := rest', futures := f :: m.x.a.futures,
                                          pollOut := if rest'.isEmpty then false else m.x.a.pollOut }, w := w' }, got := m.got ++ [] }
        { sp with futs := sp.futs + 1 } ∧
    MInv { m with x := { a := { m.x.a with sendQ := rest', futures := f :: m.x.a.futures,
                                           pollOut := if rest'.isEmpty then false else m.x.a.pollOut }, w := w' }, got := m.got ++ [] } ∧
    Live ord { m with x := { a := { m.x.a with sendQ := rest', futures := f :: m.x.a.futures,
                                               pollOut := if rest'.isEmpty then false else m.x.a.pollOut }, w := w' }, got := m.got ++ [] } rest := by
  refine ⟨?_, ?_, ?_⟩
  · refine ⟨hR.ep, hR.spay, hR.kill, hR.pre, hR.ord, hR.threw, hR.destroyed, ?_, hR.live, ?_⟩
    · show sp.enqs.length = (f :: m.x.a.futures).length + rest'.length
      have := hR.enqs
      rw [hq] at this
      simp only [List.length_cons] at this ⊢
      omega
    · show sp.futs + 1 = (f :: m.x.a.futures).length + (if m.destroyed = true then rest'.length else 0)
      have := hR.futs
      rw [hd] at this ⊢
      simp only [Bool.false_eq_true, if_false, Nat.add_zero, List.length_cons] at this ⊢
      omega
  · refine ⟨hI.psent, ?_, ?_, ?_, hF.waits, hF.sane, hI.lossyK, hI.kreal, hI.adisc, hI.areg, ?_, ?_, ?_, hI.threwK⟩
    · show recvsOk m.rsz m.lossy w'.recvs
      rw [hr]; exact hI.recvs
    · show ∃ lost, m.ppay.take m.psent = (m.got ++ []) ++ dataOf w'.recvs ++ lost ∧ _
      rw [hr, List.append_nil]; exact hI.stream
    · show w'.dead = m.killed.isSome
      rw [hF.dead]; exact hI.dead
    · intro h
      have h' : (if rest'.isEmpty then false else m.x.a.pollOut) = true := h
      show rest' ≠ []
      intro he
      rw [he] at h'
      simp at h'
    · intro h
      show m.killed.isSome = true ∧ w'.recvs = []
      rw [hr]; exact hI.unreg h
    · intro h
      obtain ⟨h1, h2, h3⟩ := hI.rthrew h
      exact ⟨h1, by show w'.recvs = []; rw [hr]; exact h2, h3⟩
  · refine ⟨hL.ordEq, ?_, ?_, ?_⟩
    · intro _ h; have : m.killed.isSome = true := h; rw [hk] at this; cases this
    · intro a; have : m.async = false := a; rw [ha] at this; cases this
    · intro a; have : m.async = false := a; rw [ha] at this; cases this

/-- a step in which the driver's send was accepted only partly: the rest stays queued -/
theorem astep_partial_ok (ord) (m : Sys) (sp : SpecSt) (rev : REvents) (sends : List SendAns) (rest : List Op) (w' : Script)
    (buf : Bytes) (rest' : List Bytes) (n : Nat)
    (hR : Rel m sp) (hI : MInv m) (hL : Live ord m (.step rev sends :: rest)) (ha : m.async = true)
    (hF : WFrame m w') (hr : w'.recvs = m.x.w.recvs) (hq : m.x.a.sendQ = buf :: rest')
    (hk : m.killed = none) :
    Rel { m with x := { a := { m.x.a with sendQ := buf.drop n :: rest' }, w := w' }, got := m.got ++ [] } sp ∧
    MInv { m with x := { a := { m.x.a with sendQ := buf.drop n :: rest' }, w := w' }, got := m.got ++ [] } ∧
    Live ord { m with x := { a := { m.x.a with sendQ := buf.drop n :: rest' }, w := w' }, got := m.got ++ [] } rest := by
  refine ⟨?_, ?_, ?_⟩
  · refine ⟨hR.ep, hR.spay, hR.kill, hR.pre, hR.ord, hR.threw, hR.destroyed, ?_, hR.live, ?_⟩
    · show sp.enqs.length = m.x.a.futures.length + (buf.drop n :: rest').length
      have := hR.enqs
      rw [hq] at this
      simpa using this
    · show sp.futs = m.x.a.futures.length + (if m.destroyed = true then (buf.drop n :: rest').length else 0)
      have := hR.futs
      rw [hq] at this
      simpa using this
  · refine ⟨hI.psent, ?_, ?_, ?_, hF.waits, hF.sane, hI.lossyK, hI.kreal, hI.adisc, hI.areg, ?_, ?_, ?_, hI.threwK⟩
    · show recvsOk m.rsz m.lossy w'.recvs
      rw [hr]; exact hI.recvs
    · show ∃ lost, m.ppay.take m.psent = (m.got ++ []) ++ dataOf w'.recvs ++ lost ∧ _
      rw [hr, List.append_nil]; exact hI.stream
    · show w'.dead = m.killed.isSome
      rw [hF.dead]; exact hI.dead
    · intro _
      show buf.drop n :: rest' ≠ []
      simp
    · intro h
      show m.killed.isSome = true ∧ w'.recvs = []
      rw [hr]; exact hI.unreg h
    · intro h
      obtain ⟨h1, h2, h3⟩ := hI.rthrew h
      exact ⟨h1, by show w'.recvs = []; rw [hr]; exact h2, h3⟩
  · refine ⟨hL.ordEq, ?_, ?_, ?_⟩
    · intro _ h; have : m.killed.isSome = true := h; rw [hk] at this; cases this
    · intro a; have : m.async = false := a; rw [ha] at this; cases this
    · intro a; have : m.async = false := a; rw [ha] at this; cases this


theorem enqs_not_late (l : List Bool) (i : Nat) (h : ∀ b ∈ l, b = false) : (l[i]? == some true) = false := by
  cases hg : l[i]? with
  | none => rfl
  | some b =>
    have := h b (List.mem_of_getElem? hg)
    subst this
    rfl

theorem step_step (ord) (m : Sys) (sp : SpecSt) (rev : REvents) (sends : List SendAns)
    (rest : List Op) (hR : Rel m sp) (hI : MInv m) (hL : Live ord m (.step rev sends :: rest))
    (hok : opOk ord m (.step rev sends) rest = true) :
    StepOk ord m sp (.step rev sends) rest := by
  by_cases hc : ¬ m.async = true ∨ m.destroyed = true
  · refine ⟨sp, ?_, ?_, ?_, ?_⟩ <;> simp only [sysStep, if_pos hc]
    · intro tail; rfl
    · exact hR
    · exact hI
    · refine ⟨hL.ordEq, ?_, hL.recvs, hL.sends⟩
      intro a b c d
      have := (hL.steps a b c d).1
      rcases hc with hc | hc
      · exact absurd a hc
      · rw [hc] at this; cases this
  · have ha : m.async = true := by
      cases h : m.async
      · exact absurd (Or.inl (by simp [h])) hc
      · rfl
    have hd : m.destroyed = false := by
      cases h : m.destroyed
      · rfl
      · exact absurd (Or.inr h) hc
    simp only [opOk, ha, hd, Bool.not_true, Bool.false_or, Bool.and_eq_true] at hok
    obtain ⟨hsane, hcond⟩ := hok
    have hF0 : WFrame m (arm m.x.w [] sends) :=
      ⟨rfl, (fun hk => by show m.x.w.waits ++ [] = []; simp [hI.kwaits hk]), saneSends_append _ _ hI.sane hsane⟩
    obtain ⟨ep, hep⟩ := hR.ep
    unfold StepOk
    by_cases hreg' : m.x.a.registered = false
    · -- not registered any more: the driver does not look at the socket
      have hval : pTask Script.world m.rsz ⟨m.x.a, arm m.x.w [] sends⟩ rev = (.ok (), ⟨m.x.a, arm m.x.w [] sends⟩) := by
        simp [pTask, hreg']
      have hstep : sysStep m (.step rev sends) = ({ m with x := { m.x with w := arm m.x.w [] sends }, got := m.got ++ [] }, []) := by
        simp only [sysStep, if_neg hc]
        rw [hval]
        simp [stepObs, pushed, callsObs, arm]
      rw [hstep]
      obtain ⟨h1, h2, h3⟩ := astep_idle_ok ord m sp rev sends rest (arm m.x.w [] sends) hR hI hL ha hF0 rfl (fun _ => hreg')
      exact ⟨sp, fun tail => rfl, h1, h2, h3⟩
    · have hreg : m.x.a.registered = true := by cases h : m.x.a.registered <;> simp_all
      by_cases hrd : rev.rd = true
      · -- POLLIN: DriverReceive
        have hval0 : pTask Script.world m.rsz ⟨m.x.a, arm m.x.w [] sends⟩ rev
            = pReadable Script.world m.rsz ⟨m.x.a, arm m.x.w [] sends⟩ := by
          simp [pTask, hreg, hrd]
        obtain ⟨c1, c2, c3, c4⟩ := recvNow_script (arm m.x.w [] sends) m.rsz
        have hrecOk := hI.recvs
        have hr0 : (arm m.x.w [] sends).recvs = m.x.w.recvs := rfl
        have hd0 : (arm m.x.w [] sends).dead = m.x.w.dead := rfl
        rcases hmr : m.x.w.recvs with _ | ⟨a, rest'⟩
        · -- nothing pending: only after the kill (K1), end of stream
          have hk : m.killed.isSome = true := by
            cases h : m.killed.isSome
            · simp [h, hrd, hmr] at hcond
            · rfl
          have hdd : (arm m.x.w [] sends).dead = true := by rw [hd0, hI.dead]; exact hk
          have hrn := c1 (hr0.trans hmr) hdd
          have hval : pTask Script.world m.rsz ⟨m.x.a, arm m.x.w [] sends⟩ rev
              = (.ok (), pDisconnect ⟨m.x.a, { arm m.x.w [] sends with calls := .recv m.rsz (.data []) :: (arm m.x.w [] sends).calls }⟩) := by
            rw [hval0]; simp [pReadable, hrn, Exn.isRuntime]
          have hstep : sysStep m (.step rev sends) =
              ({ m with x := pDisconnect ⟨m.x.a, { arm m.x.w [] sends with calls := .recv m.rsz (.data []) :: (arm m.x.w [] sends).calls }⟩,
                        got := m.got ++ [] }, [.disc false]) := by
            simp only [sysStep, if_neg hc]
            rw [hval]
            simp [stepObs, pushed, callsObs, arm, pDisconnect, callObs]
          rw [hstep]
          have hF : WFrame m { arm m.x.w [] sends with calls := .recv m.rsz (.data []) :: (arm m.x.w [] sends).calls } :=
            ⟨hF0.dead, hF0.waits, hF0.sane⟩
          obtain ⟨h1, h2, h3⟩ := astep_disc_ok ord m sp ep rev sends rest _ hR hI hL ha hep hF (hr0.trans hmr) (by rw [hmr]; rfl) hk hreg
          refine ⟨{ sp with ep := some { ep with discSeen := ep.discSeen + 1 } }, ?_, h1, h2, h3⟩
          intro tail
          have hz : ep.discSeen = 0 := by
            have h1 := hI.adisc
            have h2 : m.x.a.disconnects ≠ 1 := fun h => by
              have := hI.areg.mp h; rw [hreg] at this; cases this
            rw [hep.2.2.2.2]; omega
          simp [specRun, specStep, hep.1, hz]
        · rw [hmr] at hrecOk
          cases a with
          | fail e =>
            have hrest : rest' = [] := hrecOk.2
            subst hrest
            have hk : m.killed.isSome = true := by
              obtain ⟨k, p, hkk, _⟩ := hI.lossyK hrecOk.1
              rw [hkk]; rfl
            have hrn := c3 e [] (hr0.trans hmr)
            have hval : pTask Script.world m.rsz ⟨m.x.a, arm m.x.w [] sends⟩ rev
                = (.ok (), pDisconnect ⟨m.x.a, { arm m.x.w [] sends with recvs := [], calls := .recv m.rsz (.fail e) :: (arm m.x.w [] sends).calls }⟩) := by
              rw [hval0]; simp [pReadable, hrn, Exn.isRuntime]
            have hstep : sysStep m (.step rev sends) =
                ({ m with x := pDisconnect ⟨m.x.a, { arm m.x.w [] sends with recvs := [], calls := .recv m.rsz (.fail e) :: (arm m.x.w [] sends).calls }⟩,
                          got := m.got ++ [] }, [.disc false]) := by
              simp only [sysStep, if_neg hc]
              rw [hval]
              simp [stepObs, pushed, callsObs, arm, pDisconnect, callObs]
            rw [hstep]
            have hF : WFrame m { arm m.x.w [] sends with recvs := [], calls := .recv m.rsz (.fail e) :: (arm m.x.w [] sends).calls } :=
              ⟨hF0.dead, hF0.waits, hF0.sane⟩
            obtain ⟨h1, h2, h3⟩ := astep_disc_ok ord m sp ep rev sends rest _ hR hI hL ha hep hF rfl (by rw [hmr]; rfl) hk hreg
            refine ⟨{ sp with ep := some { ep with discSeen := ep.discSeen + 1 } }, ?_, h1, h2, h3⟩
            intro tail
            have hz : ep.discSeen = 0 := by
              have h1 := hI.adisc
              have h2 : m.x.a.disconnects ≠ 1 := fun h => by
                have := hI.areg.mp h; rw [hreg] at this; cases this
              rw [hep.2.2.2.2]; omega
            simp [specRun, specStep, hep.1, hz]
          | data bs =>
            have hrn := c4 bs rest' (hr0.trans hmr) hrecOk.1 hrecOk.2.1
            have hval : pTask Script.world m.rsz ⟨m.x.a, arm m.x.w [] sends⟩ rev
                = (.ok (), ⟨{ m.x.a with delivered := bs :: m.x.a.delivered },
                     { arm m.x.w [] sends with recvs := rest', calls := .recv m.rsz (.data bs) :: (arm m.x.w [] sends).calls }⟩) := by
              rw [hval0]; simp [pReadable, hrn]
            have hstep : sysStep m (.step rev sends) =
                ({ m with x := ⟨{ m.x.a with delivered := bs :: m.x.a.delivered },
                     { arm m.x.w [] sends with recvs := rest', calls := .recv m.rsz (.data bs) :: (arm m.x.w [] sends).calls }⟩,
                          got := m.got ++ bs }, [.rx bs.length]) := by
              simp only [sysStep, if_neg hc]
              rw [hval]
              simp [stepObs, pushed, callsObs, arm, callObs]
            rw [hstep]
            have hF : WFrame m { arm m.x.w [] sends with recvs := rest', calls := .recv m.rsz (.data bs) :: (arm m.x.w [] sends).calls } :=
              ⟨hF0.dead, hF0.waits, hF0.sane⟩
            obtain ⟨h1, h2, h3⟩ := astep_got_ok ord m sp rev sends rest _ bs hR hI hL ha hF hmr
            refine ⟨sp, ?_, h1, h2, h3⟩
            intro tail
            have hlen : bs.length ≠ 0 := fun h => hrecOk.1 (List.eq_nil_of_length_eq_zero h)
            simp [specRun, specStep, hep.1, hlen]
      · -- no POLLIN: only while the peer is alive (K1: after the kill the socket is readable)
        have hrd' : rev.rd = false := by cases h : rev.rd <;> simp_all
        have hk : m.killed = none := by
          cases h : m.killed with
          | none => rfl
          | some kp => simp [h, hrd'] at hcond
        have hup : rev.hupErr = false := by
          simp only [hk, Option.isSome_none, Bool.false_eq_true, if_false, Bool.and_eq_true, Bool.not_eq_true'] at hcond
          exact hcond.1
        by_cases hwr : rev.wr = true ∧ m.x.a.pollOut = true
        · -- POLLOUT with a queued buffer: DriverSend
          rcases hq : m.x.a.sendQ with _ | ⟨buf, rest'⟩
          · exact absurd hq (hI.pollq hwr.2)
          have hval0 : pTask Script.world m.rsz ⟨m.x.a, arm m.x.w [] sends⟩ rev
              = pWritable Script.world ⟨m.x.a, arm m.x.w [] sends⟩ := by
            simp [pTask, hreg, hrd', hwr.1, hwr.2]
          obtain ⟨⟨a, hn⟩, hnl, _⟩ := sendNow_run (arm m.x.w [] sends) buf hF0.sane
          have hF : WFrame m (sendNow Script.world (arm m.x.w [] sends) buf).w :=
            ⟨hn.dead.trans rfl, fun hk => hn.waits (hF0.waits hk), hn.sane hF0.sane⟩
          have hr : (sendNow Script.world (arm m.x.w [] sends) buf).w.recvs = m.x.w.recvs := hn.recvs
          have hcalls : callsObs (sendNow Script.world (arm m.x.w [] sends) buf).w.calls = [.send "x" true] := by
            rw [callsObs_run hn rfl]; rfl
          have hnl' : ¬ (rev.wr = true ∧ m.x.a.pollOut = true) → False := fun h => h hwr
          cases hx : (sendNow Script.world (arm m.x.w [] sends) buf).exn with
          | none =>
            by_cases hfull : (sendNow Script.world (arm m.x.w [] sends) buf).sent = buf.length
            · have hval : pTask Script.world m.rsz ⟨m.x.a, arm m.x.w [] sends⟩ rev
                  = (.ok (), ⟨{ m.x.a with sendQ := rest', futures := .ok :: m.x.a.futures,
                                           pollOut := if rest'.isEmpty then false else m.x.a.pollOut },
                              (sendNow Script.world (arm m.x.w [] sends) buf).w⟩) := by
                rw [hval0]; simp [pWritable, hq, hx, hfull]
              have hstep : sysStep m (.step rev sends) =
                  ({ m with x := ⟨{ m.x.a with sendQ := rest', futures := .ok :: m.x.a.futures,
                                               pollOut := if rest'.isEmpty then false else m.x.a.pollOut },
                                  (sendNow Script.world (arm m.x.w [] sends) buf).w⟩, got := m.got ++ [] },
                   [.send "x" true, .fut m.x.a.futures.length .ok]) := by
                simp only [sysStep, if_neg hc]
                rw [hval]
                simp [stepObs, pushed, hcalls, futOf]
              rw [hstep]
              obtain ⟨h1, h2, h3⟩ := astep_sent_ok ord m sp rev sends rest _ buf rest' .ok hR hI hL ha hF hr hq hk hd
              refine ⟨{ sp with futs := sp.futs + 1 }, ?_, h1, h2, h3⟩
              intro tail
              simp [specRun, specStep, futClause, enqs_not_late _ _ (hR.live hreg)]
            · have hval : pTask Script.world m.rsz ⟨m.x.a, arm m.x.w [] sends⟩ rev
                  = (.ok (), ⟨{ m.x.a with sendQ := buf.drop (sendNow Script.world (arm m.x.w [] sends) buf).sent :: rest' },
                              (sendNow Script.world (arm m.x.w [] sends) buf).w⟩) := by
                rw [hval0]; simp [pWritable, hq, hx, hfull]
              have hstep : sysStep m (.step rev sends) =
                  ({ m with x := ⟨{ m.x.a with sendQ := buf.drop (sendNow Script.world (arm m.x.w [] sends) buf).sent :: rest' },
                                  (sendNow Script.world (arm m.x.w [] sends) buf).w⟩, got := m.got ++ [] },
                   [.send "x" true]) := by
                simp only [sysStep, if_neg hc]
                rw [hval]
                simp [stepObs, pushed, hcalls]
              rw [hstep]
              obtain ⟨h1, h2, h3⟩ := astep_partial_ok ord m sp rev sends rest _ buf rest' _ hR hI hL ha hF hr hq hk
              refine ⟨sp, ?_, h1, h2, h3⟩
              intro tail
              simp [specRun, specStep]
          | some e =>
            have hrt : e.isRuntime = true := by
              have := hnl e hx
              cases e <;> simp_all [Exn.isLogic, Exn.isRuntime]
            have hval : pTask Script.world m.rsz ⟨m.x.a, arm m.x.w [] sends⟩ rev
                = (.ok (), ⟨{ m.x.a with sendQ := rest', futures := .exn :: m.x.a.futures,
                                         pollOut := if rest'.isEmpty then false else m.x.a.pollOut },
                            (sendNow Script.world (arm m.x.w [] sends) buf).w⟩) := by
              rw [hval0]; simp [pWritable, hq, hx, hrt]
            have hstep : sysStep m (.step rev sends) =
                ({ m with x := ⟨{ m.x.a with sendQ := rest', futures := .exn :: m.x.a.futures,
                                             pollOut := if rest'.isEmpty then false else m.x.a.pollOut },
                                (sendNow Script.world (arm m.x.w [] sends) buf).w⟩, got := m.got ++ [] },
                 [.send "x" true, .fut m.x.a.futures.length .exn]) := by
              simp only [sysStep, if_neg hc]
              rw [hval]
              simp [stepObs, pushed, hcalls, futOf]
            rw [hstep]
            obtain ⟨h1, h2, h3⟩ := astep_sent_ok ord m sp rev sends rest _ buf rest' .exn hR hI hL ha hF hr hq hk hd
            refine ⟨{ sp with futs := sp.futs + 1 }, ?_, h1, h2, h3⟩
            intro tail
            simp [specRun, specStep, futClause, enqs_not_late _ _ (hR.live hreg)]
        · -- nothing for X in this step
          have hval : pTask Script.world m.rsz ⟨m.x.a, arm m.x.w [] sends⟩ rev = (.ok (), ⟨m.x.a, arm m.x.w [] sends⟩) := by
            simp only [pTask, hreg, hrd', hup]
            simp [hwr]
          have hstep : sysStep m (.step rev sends) = ({ m with x := { m.x with w := arm m.x.w [] sends }, got := m.got ++ [] }, []) := by
            simp only [sysStep, if_neg hc]
            rw [hval]
            simp [stepObs, pushed, callsObs, arm]
          rw [hstep]
          obtain ⟨h1, h2, h3⟩ := astep_idle_ok ord m sp rev sends rest (arm m.x.w [] sends) hR hI hL ha hF0 rfl
            (fun h => by rw [hk] at h; cases h)
          exact ⟨sp, fun tail => rfl, h1, h2, h3⟩


/-! ### induction over the history, the end of the case, the theorem -/

theorem step_ok (ord) (m : Sys) (sp : SpecSt) (op : Op) (rest : List Op)
    (hR : Rel m sp) (hI : MInv m) (hL : Live ord m (op :: rest)) (hok : opOk ord m op rest = true) :
    StepOk ord m sp op rest := by
  cases op with
  | psend n => exact step_psend ord m sp n rest hR hI hL
  | send T data waits sends => exact step_send ord m sp T data waits sends rest hR hI hL hok
  | recv T waits => exact step_recv ord m sp T waits rest hR hI hL hok
  | enq data => exact step_enq ord m sp data rest hR hI hL
  | step rev sends => exact step_step ord m sp rev sends rest hR hI hL hok
  | pre x => exact step_pre ord m sp x rest hR hI hL hok
  | kill kind pread reset sends => exact step_kill ord m sp kind pread reset sends rest hR hI hL hok
  | after o b => exact step_after ord m sp o b rest hR hI hL
  | destroy => exact step_destroy ord m sp rest hR hI hL

theorem modelOps_cons (m : Sys) (op : Op) (rest : List Op) :
    modelOps m (op :: rest) = ((modelOps (sysStep m op).1 rest).1, (sysStep m op).2 ++ (modelOps (sysStep m op).1 rest).2) := by
  simp only [modelOps]

theorem run_ok (ord) : ∀ (hist : List Op) (m : Sys) (sp : SpecSt), Rel m sp → MInv m → Live ord m hist →
    histOkFrom ord m hist = true →
    ∃ sp', (∀ tail, specRun sp ((modelOps m hist).2 ++ tail) = specRun sp' tail) ∧
      Rel (modelOps m hist).1 sp' ∧ MInv (modelOps m hist).1 ∧ Live ord (modelOps m hist).1 []
  | [], m, sp, hR, hI, hL, _ => ⟨sp, fun _ => rfl, hR, hI, hL⟩
  | op :: rest, m, sp, hR, hI, hL, hok => by
    simp only [histOkFrom, Bool.and_eq_true] at hok
    obtain ⟨sp1, hrun1, hR1, hI1, hL1⟩ := step_ok ord m sp op rest hR hI hL hok.1
    obtain ⟨sp2, hrun2, hR2, hI2, hL2⟩ := run_ok ord rest (sysStep m op).1 sp1 hR1 hI1 hL1 hok.2
    rw [modelOps_cons]
    refine ⟨sp2, ?_, hR2, hI2, hL2⟩
    intro tail
    simp only [List.append_assoc]
    rw [hrun1, hrun2]

theorem KillKind.real_name (k : KillKind) (h : k.real = true) : k.name ≠ "" := by
  cases k <;> simp [KillKind.name, KillKind.real] at h ⊢

/-- the end-of-case clauses hold in the model once the scenario has been played to its end -/
theorem final_core (ord) (m : Sys) (sp : SpecSt) (hR : Rel m sp) (hg : sp.got = m.got) (hp : sp.psent = m.psent)
    (hI : MInv m) (hL : Live ord m []) : specFinal sp = none := by
  obtain ⟨ep, hep, he1, he2, he3, he4⟩ := hR.ep
  obtain ⟨lost, hs, hl⟩ := hI.stream
  have hord : m.ord = ord := by
    have := hL.ordEq
    cases h : m.ord <;> simpa [ordOr, firstAfter, h] using this
  have hpre : m.got <+: m.ppay := by
    refine ⟨dataOf m.x.w.recvs ++ lost ++ m.ppay.drop m.psent, ?_⟩
    have := List.take_append_drop m.psent m.ppay
    rw [hs] at this
    simpa [List.append_assoc] using this
  have hlen : m.got.length ≤ m.psent := by
    have := congrArg List.length hs
    simp only [List.length_take, List.length_append] at this
    omega
  simp only [specFinal, hep, hg, hp, hR.spay, List.isPrefixOf_iff_prefix.mpr hpre, not_true_eq_false, if_false]
  rw [if_neg (by omega)]
  rw [hR.kill]
  cases hk : m.killed with
  | none => rfl
  | some kp =>
    obtain ⟨kind, pread⟩ := kp
    have hks : m.killed.isSome = true := by rw [hk]; rfl
    have hreal := hI.kreal kind pread hk
    simp only [if_neg (KillKind.real_name kind hreal)]
    -- the reporting clause
    have hrep : reportClause sp ep kind ((sp.order.map (·.1)).getD []) ((sp.order.map (·.2)).getD 0) = none := by
      rw [hR.ord, hord]
      unfold reportClause
      cases ha : m.async with
      | true =>
        rw [he1, ha]
        simp only [if_true]
        have h1 : ¬ (ep.discSeen ≠ 1 ∧ ordList ord ≠ []) := by
          intro ⟨hne, ho⟩
          apply hne
          rw [he4]
          cases hreg : m.x.a.registered with
          | true =>
            have := (hL.steps ha hks hreg ho).2
            simp [liveSteps] at this
          | false => exact hI.areg.mpr hreg
        have h2 : ¬ (sp.destroyed = true ∧ sp.enqs.length ≠ sp.futs) := by
          intro ⟨hd, hne⟩
          apply hne
          have hd' : m.destroyed = true := by rw [← hR.destroyed]; exact hd
          have := hR.futs
          rw [hd'] at this
          rw [this, hR.enqs]; simp
        show (if ep.discSeen ≠ 1 ∧ ordList ord ≠ [] then _ else if sp.destroyed = true ∧ sp.enqs.length ≠ sp.futs then _ else none) = none
        rw [if_neg h1, if_neg h2]
      | false =>
        rw [he1, ha]
        simp only [Bool.false_eq_true, if_false]
        have hth : (ordList ord).contains .r = true → sp.threwAfterKill = true := by
          intro hr
          cases hrt : m.rthrew with
          | true => exact hR.threw (hI.rthrew hrt).2.2
          | false =>
            have := hL.recvs ha hks hrt hr
            simp [recvOps] at this
        have h1 : ¬ ((ordList ord).contains .r = true ∧ ¬ sp.threwAfterKill = true) := fun ⟨a, b⟩ => b (hth a)
        have h2 : ¬ ((ordList ord).contains .s = true ∧ kind ≠ .shutwr ∧ ordBig ord ≥ 1000000 ∧ ¬ sp.threwAfterKill = true) := by
          intro ⟨a, b, c, d⟩
          apply d
          cases hr : (ordList ord).contains .r with
          | true => exact hth hr
          | false =>
            cases ht : m.threw with
            | true => exact hR.threw ht
            | false =>
              have hn : needSend ord kind = true := by
                simp only [needSend, Bool.and_eq_true, bne_iff_ne, ne_eq, decide_eq_true_eq]
                exact ⟨⟨a, b⟩, c⟩
              have := hL.sends ha kind pread hk ht hn hr
              simp [sendOps] at this
        show (if (ordList ord).contains .r = true ∧ ¬ sp.threwAfterKill = true then _
              else if (ordList ord).contains .s = true ∧ kind ≠ .shutwr ∧ ordBig ord ≥ 1000000 ∧ ¬ sp.threwAfterKill = true then _ else none) = none
        rw [if_neg h1, if_neg h2]
    rw [hrep]
    -- the complete stream for an orderly close
    simp only
    unfold orderlyClause
    have hcomplete : (kind = .shutwr ∨ (kind = .close ∧ pread ≥ sp.xsentAtKill.getD 0)) →
        (ep.async = true ∨ ((sp.order.map (·.1)).getD []).head? = some .r) → (sp.order.map (·.1)).getD [] ≠ [] →
        sp.got.length = sp.psent := by
      intro hO hF hne
      rw [hR.ord, hord] at hF hne
      rw [hR.pre] at hO
      have hnl : m.lossy = false := by
        cases hlo : m.lossy with
        | false => rfl
        | true =>
          obtain ⟨k, p, hkk, hno⟩ := hI.lossyK hlo
          rw [hk] at hkk
          cases hkk
          exact absurd hO (by simpa [orderly] using hno)
      have hrec0 : m.x.w.recvs = [] := by
        cases ha : m.async with
        | true =>
          cases hreg : m.x.a.registered with
          | true =>
            have := (hL.steps ha hks hreg hne).2
            simp [liveSteps] at this
          | false => exact (hI.unreg hreg).2
        | false =>
          rw [he1, ha] at hF
          have hr : (ordList ord).contains .r = true := by
            rcases hF with hF | hF
            · cases hF
            · have : ordList ord = ((ord.map (·.1)).getD []) := rfl
              rw [this]
              cases hol : (ord.map (·.1)).getD [] with
              | nil => rw [hol] at hF; cases hF
              | cons x xs =>
                rw [hol] at hF
                simp only [List.head?_cons, Option.some.injEq] at hF
                subst hF
                simp
          cases hrt : m.rthrew with
          | true => exact (hI.rthrew hrt).2.1
          | false =>
            have := hL.recvs ha hks hrt hr
            simp [recvOps] at this
      have hl0 := hl hnl
      rw [hrec0, hl0] at hs
      have := congrArg List.length hs
      simp only [List.length_take, dataOf, List.append_nil] at this
      have := hI.psent
      rw [hg, hp]
      omega
    simp only
    rw [if_neg]
    intro hcond
    exact absurd (hcomplete hcond.1 hcond.2.1 hcond.2.2.1) hcond.2.2.2


theorem final_ok (ord) (m : Sys) (sp : SpecSt) (hR : Rel m sp) (hI : MInv m) (hL : Live ord m []) :
    ∃ s, specRun sp (finalObs m) = .ok s ∧ specFinal s = none := by
  refine ⟨{ sp with got := m.got, psent := m.psent }, by simp [finalObs, specRun, specStep], ?_⟩
  exact final_core ord m _ ⟨hR.ep, hR.spay, hR.kill, hR.pre, hR.ord, hR.threw, hR.destroyed, hR.enqs, hR.live, hR.futs⟩ rfl rfl hI hL


theorem init_inv (async : Bool) (rsz : Nat) (ppay : Bytes) : MInv (Sys.init async rsz ppay) := by
  refine ⟨Nat.zero_le _, trivial, ⟨[], by simp [Sys.init, dataOf], fun _ => rfl⟩, rfl, (fun h => by cases h), rfl,
    (fun h => by cases h), (fun _ _ h => by cases h), Nat.zero_le _, ?_, (fun h => by cases h), (fun h => by cases h),
    (fun h => by cases h), (fun h => by cases h)⟩
  show (0 : Nat) = 1 ↔ true = false
  simp

theorem init_rel (async : Bool) (rsz : Nat) (ppay : Bytes) :
    Rel (Sys.init async rsz ppay) { ep := some { async := async, tls := false }, spay := ppay } :=
  ⟨⟨_, rfl, rfl, rfl, rfl, rfl⟩, rfl, rfl, rfl, rfl, (fun h => by cases h), rfl, rfl, (fun _ _ h => by cases h), rfl⟩

theorem init_live (async : Bool) (rsz : Nat) (ppay : Bytes) (history : List Op) :
    Live (firstAfter history) (Sys.init async rsz ppay) history :=
  ⟨rfl, (fun _ h => by cases h), (fun _ h => by cases h), (fun _ _ _ h => by cases h)⟩

/-- **model_satisfies_spec_partial.**  (`_partial`: endpoints without TLS only - see the comment below.)  For every API level (`async`), every receive buffer size, every payload of the peer and
every history of any length - any interleaving of peer sends, synchronous `Send` / `Receive` with any timeout and any
scripted kernel answers (short writes, errors, time-outs, ready), asynchronous `Send` and driver steps with any
`poll` result, one close / half close / reset of the peer at any point, with or without loss of unread data,
destruction of the asynchronous socket - that satisfies the environment assumptions `histOk` (kernel sanity, K1,
scenario played to its end), the predicate accepts every line of the model's trace and the end-of-case clauses hold. -/
theorem model_satisfies_spec_partial (async : Bool) (rsz : Nat) (ppay : Bytes) (history : List Op)
    (h : histOk async rsz ppay history = true) :
    ∃ s, specRun {} (modelTrace async rsz ppay history) = .ok s ∧ specFinal s = none := by
  obtain ⟨sp1, hrun, hR, hI, hL⟩ := run_ok (firstAfter history) history (Sys.init async rsz ppay)
    { ep := some { async := async, tls := false }, spay := ppay }
    (init_rel async rsz ppay) (init_inv async rsz ppay) (init_live async rsz ppay history) h
  obtain ⟨s, hs, hf⟩ := final_ok _ _ sp1 hR hI hL
  refine ⟨s, ?_, hf⟩
  have h0 : specRun {} (modelTrace async rsz ppay history)
      = specRun { ep := some { async := async, tls := false }, spay := ppay }
          ((modelOps (Sys.init async rsz ppay) history).2 ++ finalObs (modelOps (Sys.init async rsz ppay) history).1) := by
    simp [modelTrace, specRun, specStep]
  rw [h0, hrun, hs]

/- The full statement, NOT proved (hence `_partial` above): the same for `tls = true`, i.e. with the library side
`Tls.sendT` / `receiveT` / `enqueue` / `aQuery` / `aTask` of `Model/Tls.lean` over an engine `E : Engine σ`,

  theorem model_satisfies_spec (C : Cfg) (E : Engine σ) (e0 : σ) (async tls : Bool) (rsz : Nat) (ppay : Bytes)
      (history : List Op) (h : histOk … history = true) (hE : <the engine is a faithful TLS implementation>) :
      ∃ s, specRun {} (modelTrace C E e0 async tls rsz ppay history) = .ok s ∧ specFinal s = none

What is missing is `hE`: the engine is abstract in the model (the driver replays OpenSSL's observed answers), so
"delivered is a prefix of / all of what the peer sent", "no logic_error" (`DriverPending`: "unexpected receive") and
"the failure is reported" are for a TLS endpoint statements about which plaintext `SSL_read` hands out and that it
answers a dead connection with a fatal code - hypotheses on a function-valued `Engine` that are not decidable and
amount to the conclusion.  The engine-independent clauses are theorems of the TLS model already
(`nosignal_everywhere`, `tls_peer_failure_reported` in Props/C15.lean); the wait-budget clause for the TLS glue would
need `Script.calls` related to `Glue.remainingTime` through `interp` (not done). -/

/-- the check the driver performs (`specRun`, then `specFinal`) passes on every trace of the model -/
theorem model_passes_check (async : Bool) (rsz : Nat) (ppay : Bytes) (history : List Op)
    (h : histOk async rsz ppay history = true) : specCheck (modelTrace async rsz ppay history) = .ok () := by
  obtain ⟨s, hs, hf⟩ := model_satisfies_spec_partial async rsz ppay history h
  simp [specCheck, hs, hf]


/-! ### examples: the hypothesis is satisfiable, the predicate rejects bad traces, each assumption is needed -/

def rejects (t : List Obs) : Bool :=
  match specCheck t with
  | .ok _ => false
  | .error _ => true

/-- synchronous socket: transfer in both directions with a short write and a failed `send`, the peer closes after
having read everything, three `Receive`s drain the two pending segments and report the closure, two more `Send`s -/
def demoSync : List Op :=
  [.psend 3, .send 0 [1, 2, 3] [⟨true, 0⟩] [.accept 2], .recv 30 [⟨true, 5⟩], .psend 10, .recv 0 [⟨false, 0⟩],
   .send 0 [3] [] [.fail 104], .pre 2, .kill .close 2 none [.accept 1], .after [.r, .s] 3000000,
   .recv 0 [], .recv 0 [], .recv 0 [], .send 0 [9, 9] [] [], .send 0 [9] [] []]

/-- asynchronous socket: partial and failed driver sends, a reset that discards everything unread, buffers enqueued
before and after the disconnect, destruction with three promises still queued -/
def demoAsync : List Op :=
  [.enq [1, 2, 3], .psend 4, .step { wr := true } [.accept 2], .step { rd := true, wr := true } [], .step { wr := true } [.fail 32],
   .psend 2, .enq [7], .pre 3, .kill .rst 0 (some (0, 104)) [], .after [.s] 0, .enq [8, 8],
   .step { rd := true, hupErr := true } [], .step { rd := true } [], .enq [5], .destroy]

example : histOk false 4 [1, 2, 3, 4, 5, 6, 7, 8] demoSync = true := by decide
example : histOk true 4 [1, 2, 3, 4, 5, 6, 7, 8] demoAsync = true := by decide
example : specCheck (modelTrace false 4 [1, 2, 3, 4, 5, 6, 7, 8] demoSync) = .ok () :=
  model_passes_check _ _ _ _ (by decide)
example : specCheck (modelTrace true 4 [1, 2, 3, 4, 5, 6, 7, 8] demoAsync) = .ok () :=
  model_passes_check _ _ _ _ (by decide)
example : (modelTrace true 4 [1, 2, 3, 4, 5, 6, 7, 8] demoAsync).length = 20 := by decide

/-- the seeded changes C15_agentC / C15_r4_agentJ (SendTry without MSG_NOSIGNAL) -/
example : rejects [.setup false false, .payload [], .api .send (some 0), .send "x" false, .ret .returned, .got [], .state 0] = true := by
  decide
/-- death by SIGPIPE -/
example : rejects [.setup false false, .payload [], .kill .rst 0, .api .send (some 0), .abort .killed "signal 13 SIGPIPE"] = true := by
  decide
/-- `recv == 0` mapped to a 0-byte success: `Receive` never reports the closure -/
example : rejects [.setup false false, .payload [1, 2], .pre 0, .kill .close 0, .after [.r] 0,
    .api .recv (some 0), .poll 0 true, .ret .returned, .got [1, 2], .state 2] = true := by decide
/-- a closure reported before the data the peer had sent was delivered -/
example : rejects [.setup false false, .payload [1, 2], .pre 0, .kill .shutwr 0, .after [.r] 0,
    .api .recv (some 0), .poll 0 true, .ret (.threw false false), .got [1], .state 2] = true := by decide
/-- the send error swallowed: the promise is abandoned while the socket is alive -/
example : rejects [.setup true false, .payload [], .enq, .kill .rst 0, .send "x" true, .fut 0 .broken] = true := by decide
/-- an unlimited `Send` that polls with a bounded timeout -/
example : rejects [.setup false false, .payload [], .api .send (some (-1)), .poll 30 false] = true := by decide

/-- the assumptions are needed.  A kernel that accepts 0 bytes of a non-empty buffer makes the model (like the code)
throw `std::logic_error`: -/
example : histOk false 4 [] [.send 0 [1] [] [.accept 0]] = false ∧
    rejects (modelTrace false 4 [] [.send 0 [1] [] [.accept 0]]) = true := by decide
/-- K1: if `poll` reported HUP without POLLIN while a segment is unread, the driver would call the disconnect handler
at once (driver_impl.cpp: HUP|ERR without POLLIN goes to `onError`) and the segment would be lost: -/
example : histOk true 4 [1, 2] [.psend 2, .kill .shutwr 0 none [], .after [.r] 0, .step { hupErr := true } [], .step { rd := true } []] = false ∧
    rejects (modelTrace true 4 [1, 2] [.psend 2, .kill .shutwr 0 none [], .after [.r] 0, .step { hupErr := true } [], .step { rd := true } []]) = true := by
  decide
/-- a scenario that stops before the failure can be reported is not a trace of a finished case: -/
example : histOk false 4 [1, 2] [.psend 2, .kill .close 0 none [], .after [.r] 0, .recv 0 []] = false ∧
    rejects (modelTrace false 4 [1, 2] [.psend 2, .kill .close 0 none [], .after [.r] 0, .recv 0 []]) = true := by decide

end SockModel.PeerFail.Spec

import SockModel.Model.PeerFail
import SockModel.Model.NetLemmas
/-!
# Spec.C15 - "peer failure at any point is reported, never fatal" as an executable predicate over
typed observations, the scenario model, and the proof that the model satisfies the predicate

`specStep` / `specRun` / `specFinal` are what `./check C15` evaluates on the IMPLEMENTATION's transcript:
`Drive/C15.lean` parses every transcript line into an `Obs` (`toObs`) and calls exactly these functions.
The observer's state `SpecSt` mentions no model state: it is derived from what the harness did (the
`setup`, `after` op lines, the `peer kill`, `destroy`, `enq` notes, the `pre done` / `got` / `state` lines)
and from what the implementation was seen to do (`api` / `ret` / `os poll` / `os send` / `rx` / `disc` /
`fut` lines, crash / hang / death by signal).

Clauses (texts unchanged from the former in-driver `evC15` / `finalC15` and the part of
`Drive.C18.specEv` that applies to a C15 transcript):
* the process is never killed by a signal, does not crash, does not hang;
* every raw `send` carries MSG_NOSIGNAL;
* waits stay within the timeout semantics of the call they belong to (unlimited: only unlimited waits;
  zero: only `poll(0)`; limited: never unlimited, never over the remaining budget);
* a peer failure is a runtime error: no `std::logic_error` leaves `Send` / `Receive`, nothing is thrown out
  of `Driver::Step`; the receive handler never gets an empty buffer; the disconnect handler never runs twice;
* futures tell the truth: no success for a buffer enqueued after the disconnect, none left pending by the
  destruction, none abandoned while the socket is alive;
* at the end: what was delivered is a prefix of what the peer sent; after the peer's close / half close /
  reset the failure was reported (async: disconnect handler exactly once, every enqueued buffer's future
  resolved or broken after destruction; sync: `Receive` threw, a `Send` of >= 1 MB more threw); for an orderly
  close the complete stream was delivered before the report.

The second half of the file composes the existing model functions (`PeerFail.recvT`, `sendT`, `pEnqueue`,
`pTask` over `Net.Script.world`; nothing is re-defined) into the scenario the harness plays, lists the
observations the MODEL produces for an arbitrary history (`modelTrace`) and proves
`model_satisfies_spec`: the predicate accepts the model's trace of every history that satisfies the
environment assumptions K1 / A-TCP (`histOk`, decidable).
-/
namespace SockModel.PeerFail.Spec
open SockModel.Net SockModel.Tls

/-! ## typed observations -/

/-- one phase letter of the `after order=…` op line -/
inductive Phase where
  | r | s | other
  deriving DecidableEq, Repr

/-- what the peer did (`peer kill <kind> …`) -/
inductive KillKind where
  | close | shutwr | rst
  | other (name : String)
  deriving DecidableEq, Repr

def KillKind.name : KillKind → String
  | .close => "close" | .shutwr => "shutwr" | .rst => "rst" | .other n => n

inductive ApiOp where
  | send | recv | other
  deriving DecidableEq, Repr

/-- how a synchronous call on X ended: returned, or threw (`logic`: the class is `std::logic_error`;
`sendErr`: the text names a failed `send:`) -/
inductive Ret where
  | returned
  | threw (logic sendErr : Bool)
  deriving DecidableEq, Repr

/-- state of a future as the harness reports it -/
inductive Fut where
  | ok | exn | pending | broken | other
  deriving DecidableEq, Repr

inductive Abort where
  | crash | hang | killed
  deriving DecidableEq, Repr

/-- one transcript line, typed.  Lines without a meaning for the property (engine / BIO calls, `os recv`,
`dpoll`, the peer's own lines, events of an endpoint other than `x`) have no `Obs`. -/
inductive Obs where
  /-- op line `setup x=<kind> tls=<0|1> …`: the endpoint exists from here on -/
  | setup (async tls : Bool)
  /-- `-> setup ok … ppay=<hex>`: the payload the peer is going to send -/
  | payload (ppay : Bytes)
  /-- `-> pre done xsent=<n> …` -/
  | pre (xsent : Nat)
  /-- op line `after order=<phases> big=<n> …` -/
  | after (order : List Phase) (big : Nat)
  /-- `-> api x <op> <T> …`: a synchronous call on X begins -/
  | api (op : ApiOp) (T : Option Int)
  /-- `-> os x poll <dir> <t> <ready|timeout>` -/
  | poll (t : Int) (ready : Bool)
  /-- `-> os <who> send <len> ns=<0|1> …` (`who` only quoted) -/
  | send (who : String) (noSignal : Bool)
  /-- `-> ret x …` -/
  | ret (r : Ret)
  /-- `-> ret dx throw …`: an exception left `Driver::Step` -/
  | stepThrew (text : String)
  /-- `-> rx x <n>`: receive handler -/
  | rx (n : Nat)
  /-- `-> disc x <why>`: disconnect handler -/
  | disc (sendErr : Bool)
  /-- `-> enq x <n>`: a buffer is handed to the asynchronous `Send` -/
  | enq
  /-- `-> fut x <i> <state>` -/
  | fut (i : Nat) (r : Fut)
  /-- `-> peer kill <kind> sent=<n> read=<n>` -/
  | kill (kind : KillKind) (pread : Nat)
  /-- `-> destroy x` -/
  | destroy
  /-- `-> got x <hex>`: everything X's caller / receive handler obtained -/
  | got (bs : Bytes)
  /-- `-> state x … psent=<n>`: bytes the peer has sent -/
  | state (psent : Nat)
  /-- `-> crash …` / `-> hang …` / `-> killed …` -/
  | abort (what : Abort) (text : String)
  deriving Repr

/-! ## the observer's state -/

/-- endpoint X as observed -/
structure EpSt where
  async : Bool
  tls : Bool
  discSeen : Nat := 0
  recvOp : Bool := false
  /-- timeout of the synchronous Send / Receive in progress -/
  callT : Option Int := none
  /-- virtual ms its timed-out waits have consumed so far -/
  spent : Int := 0
  deriving DecidableEq, Repr

structure SpecSt where
  ep : Option EpSt := none
  spay : Bytes := []
  /-- the latest `peer kill`: kind, bytes the peer had read -/
  kill : Option (KillKind × Nat) := none
  /-- the first `after` line: order, big -/
  order : Option (List Phase × Nat) := none
  /-- the first `pre done` line -/
  xsentAtKill : Option Nat := none
  threwAfterKill : Bool := false
  sendErrEndedRecv : Bool := false
  destroyed : Bool := false
  /-- per enqueued buffer, oldest first: was it enqueued after the disconnect? -/
  enqs : List Bool := []
  /-- futures reported resolved or broken -/
  futs : Nat := 0
  got : Bytes := []
  psent : Nat := 0
  deriving DecidableEq, Repr

/-! ## the predicate -/

/-- the C07 clauses of one wait inside a synchronous call with timeout `T` -/
def pollClause (ep : EpSt) (T : Int) (t : Int) (ready : Bool) : Except String EpSt :=
  if T < 0 then
    if t ≥ 0 then .error s!"x: call with unlimited timeout issued a bounded wait poll({t})" else .ok ep
  else if T = 0 then
    if t ≠ 0 then .error s!"x: call with timeout 0 issued a blocking wait poll({t})" else .ok ep
  else if t < 0 then .error s!"x: call with timeout {T} ms issued an unlimited wait"
  else if ep.spent + t > T then
    .error s!"x: call with timeout {T} ms waits poll({t}) after its earlier waits already consumed {ep.spent} ms: over budget"
  else .ok { ep with spent := ep.spent + (if ready then 0 else t) }

def futClause (s : SpecSt) (i : Nat) (r : Fut) : Except String SpecSt :=
  let late := s.enqs[i]? == some true
  if r = .ok ∧ late then .error s!"future {i} of a buffer enqueued after the disconnect reports success"
  else if r = .pending then .error s!"future {i} still unresolved after the socket was destroyed"
  else if r = .broken ∧ ¬ s.destroyed then
    .error s!"future {i} was abandoned (broken promise) while the socket is still alive - its failure was swallowed"
  else .ok { s with futs := s.futs + 1 }

def Abort.msg : Abort → String
  | .crash => "crash: " | .hang => "hang: " | .killed => "process killed by a signal: "

def specStep (s : SpecSt) : Obs → Except String SpecSt
  | .setup async tls => .ok { s with ep := some { async, tls } }
  | .payload p => .ok { s with spay := p }
  | .pre x => .ok { s with xsentAtKill := s.xsentAtKill <|> some x }
  | .after o b => .ok { s with order := s.order <|> some (o, b) }
  | .api op T =>
    match s.ep with
    | some ep => .ok { s with ep := some { ep with recvOp := op == .recv, callT := if op == .other then none else T, spent := 0 } }
    | none => .ok s
  | .poll t ready =>
    match s.ep with
    | some ep =>
      match ep.callT with
      | none => .ok s
      | some T => (pollClause ep T t ready).map fun ep' => { s with ep := some ep' }
    | none => .ok s
  | .send who ns => if ns then .ok s else .error s!"{who}: raw send without MSG_NOSIGNAL"
  | .ret r =>
    let s := match s.ep with
      | some ep => { s with ep := some { ep with callT := none } }
      | none => s
    match r with
    | .returned => .ok s
    | .threw logic sendErr =>
      if logic then .error "x: std::logic_error escaped (logic_error) - a peer failure must be reported as a runtime error"
      else
        let recvOp := s.ep.map (·.recvOp) == some true
        let s := if recvOp ∧ sendErr then { s with sendErrEndedRecv := true } else s
        .ok (if s.kill.isSome then { s with threwAfterKill := true } else s)
  | .stepThrew text => .error s!"Driver::Step threw instead of reporting through the handlers: {text}"
  | .rx n =>
    match s.ep with
    | some _ => if n = 0 then .error "x: receive handler invoked with an empty buffer" else .ok s
    | none => .ok s
  | .disc sendErr =>
    match s.ep with
    | some ep =>
      if ep.discSeen ≥ 1 then .error "x: disconnect handler invoked twice"
      else
        let s := { s with ep := some { ep with discSeen := ep.discSeen + 1 } }
        .ok (if sendErr then { s with sendErrEndedRecv := true } else s)
    | none => .ok (if sendErr then { s with sendErrEndedRecv := true } else s)
  | .enq =>
    let afterDisc := s.ep.map (·.discSeen) != some 0
    .ok { s with enqs := s.enqs ++ [afterDisc] }
  | .fut i r => futClause s i r
  | .kill kind pread => .ok { s with kill := some (kind, pread) }
  | .destroy => .ok { s with destroyed := true }
  | .got bs => .ok { s with got := bs }
  | .state p => .ok { s with psent := p }
  | .abort w text => .error (w.msg ++ text)

def specRun (s : SpecSt) : List Obs → Except String SpecSt
  | [] => .ok s
  | o :: rest =>
    match specStep s o with
    | .ok s' => specRun s' rest
    | .error m => .error m

/-- "the failure is reported" -/
def reportClause (s : SpecSt) (ep : EpSt) (kind : KillKind) (order : List Phase) (big : Nat) : Option String :=
  if ep.async then
    if ep.discSeen ≠ 1 ∧ order ≠ [] then some s!"x: disconnect handler ran {ep.discSeen} times after the peer's {kind.name}"
    else if s.destroyed ∧ s.enqs.length ≠ s.futs then
      some s!"x: {s.enqs.length} buffers were enqueued but {s.futs} futures resolved or broke"
    else none
  else
    if order.contains .r ∧ ¬ s.threwAfterKill then some s!"x: Receive never reported the peer's {kind.name} (no exception)"
    else if order.contains .s ∧ kind ≠ .shutwr ∧ big ≥ 1000000 ∧ ¬ s.threwAfterKill then
      some s!"x: Send of {big} more bytes never reported the peer's {kind.name} (no exception)"
    else none

/-- "the complete stream for an orderly close" -/
def orderlyClause (s : SpecSt) (ep : EpSt) (kind : KillKind) (pread : Nat) (order : List Phase) : Option String :=
  let orderly := kind = .shutwr ∨ (kind = .close ∧ pread ≥ s.xsentAtKill.getD 0)
  let readFirst := ep.async ∨ order.head? = some .r
  if orderly ∧ readFirst ∧ order ≠ [] ∧ s.got.length ≠ s.psent then
    if ep.tls ∧ s.sendErrEndedRecv then
      some s!"tls-write-error-in-receive: x (TLS) reported the peer's orderly {kind.name} through a failed SEND inside Receive (session tickets), delivering {s.got.length} of the {s.psent} bytes the peer had sent"
    else some s!"x: orderly {kind.name} after the peer had sent {s.psent} bytes, but only {s.got.length} were delivered before the report"
  else none

/-- the end-of-case part of the predicate; `none` = satisfied -/
def specFinal (s : SpecSt) : Option String :=
  match s.ep with
  | none => some "no endpoint"
  | some ep =>
    if ¬ s.got.isPrefixOf s.spay then some s!"x: delivered bytes are not a prefix of what the peer sent ({s.got.length} bytes)"
    else if s.got.length > s.psent then some s!"x: delivered {s.got.length} bytes, the peer only sent {s.psent}"
    else
      match s.kill with
      | none => none
      | some (kind, pread) =>
        if kind.name = "" then none
        else
          let order := (s.order.map (·.1)).getD []
          let big := (s.order.map (·.2)).getD 0
          match reportClause s ep kind order big with
          | some m => some m
          | none => orderlyClause s ep kind pread order

/-- the whole predicate: every line is accepted and the end-of-case clauses hold -/
def specCheck (obs : List Obs) : Except String Unit :=
  match specRun {} obs with
  | .error m => .error m
  | .ok s => match specFinal s with | some m => .error m | none => .ok ()


/-! ## the scenario model

One library socket X (plain TCP; `async = false`: the synchronous `Send` / `Receive` of the basic and buffered level,
`async = true`: the asynchronous socket on a driver) against the harness' peer.  The kernel is `Net.Script.world`:
any finite list of scripted `poll` / `send` answers and the peer's segments as scripted `recv` answers; `dead`
(assumption **K1**) is switched on by the peer's kill.  Everything the library does is `PeerFail.sendT`,
`recvT`, `pEnqueue`, `pTask` as they are. -/

structure Sys where
  async : Bool
  rsz : Nat
  ppay : Bytes
  x : PSt Script := { w := { dead := false } }
  /-- bytes of `ppay` the peer has sent -/
  psent : Nat := 0
  /-- what X's caller / receive handler obtained -/
  got : Bytes := []
  killed : Option (KillKind × Nat) := none
  /-- the peer's kill discarded data (reset) -/
  lossy : Bool := false
  xsentPre : Option Nat := none
  ord : Option (List Phase × Nat) := none
  destroyed : Bool := false
  /-- ghost: a synchronous call / a `Receive` threw after the kill -/
  threw : Bool := false
  rthrew : Bool := false

/-- an orderly end of the peer's stream: half close, or close after the peer has read what X had sent -/
def orderly (kind : KillKind) (pread : Nat) (xsentPre : Option Nat) : Bool :=
  kind = .shutwr ∨ (kind = .close ∧ pread ≥ xsentPre.getD 0)

/-- a history: what the harness and the environment do -/
inductive Op where
  /-- the peer sends the next `n` bytes of its payload; they reach X's kernel as one segment (at most `rsz` bytes) -/
  | psend (n : Nat)
  /-- `Send(data, T)`; `waits` / `sends`: further scripted kernel answers -/
  | send (T : Int) (data : Bytes) (waits : List WaitAns) (sends : List SendAns)
  /-- `Receive(rsz, T)` -/
  | recv (T : Int) (waits : List WaitAns)
  /-- asynchronous `Send(buffer)` -/
  | enq (data : Bytes)
  /-- `Driver::Step` in which `poll` reported `rev` for X -/
  | step (rev : REvents) (sends : List SendAns)
  /-- the `pre done xsent=…` line -/
  | pre (xsent : Nat)
  /-- the peer closes / half-closes / resets after having read `pread` bytes; `reset = some (k, e)`: only the first
  `k` segments X has not read yet survive, then `recv` fails with `e`; `sends`: the `send` answers the kernel still
  gives before it fails with EPIPE -/
  | kill (kind : KillKind) (pread : Nat) (reset : Option (Nat × Nat)) (sends : List SendAns)
  /-- the `after order=… big=…` op line -/
  | after (order : List Phase) (big : Nat)
  /-- the asynchronous socket is destroyed -/
  | destroy

def callObs : Call → Option Obs
  | .wait _ t ready => some (.poll t ready)
  | .send _ _ ns => some (.send "x" ns)
  | .recv _ _ => none

/-- the `os …` lines of a call log (newest first) -/
def callsObs (calls : List Call) : List Obs := calls.reverse.filterMap callObs

def Exn.isLogic : Exn → Bool
  | .logic _ => true
  | _ => false

def retOf (e : Option Exn) (sendErr : Bool) : Ret :=
  match e with
  | none => .returned
  | some e => .threw (Exn.isLogic e) sendErr

def futOf : FutRes → Fut
  | .ok => .ok
  | .exn => .exn

/-- the script with further answers appended and an empty call log -/
def arm (w : Script) (waits : List WaitAns) (sends : List SendAns) : Script :=
  { w with waits := w.waits ++ waits, sends := w.sends ++ sends, calls := [] }

/-- observations of one driver step: raw sends, handler calls, what left `Step`, futures resolved -/
def stepObs (a : Async) (o : Out Unit) (p : PSt Script) : List Obs :=
  callsObs p.w.calls
  ++ (match p.a.delivered with
      | bs :: _ => if p.a.delivered.length = a.delivered.length + 1 then [Obs.rx bs.length] else []
      | [] => [])
  ++ (if p.a.disconnects = a.disconnects + 1 then [Obs.disc false] else [])
  ++ (match o with
      | .ok () => []
      | .exn _ => [Obs.stepThrew "logic_error"]
      | .abort m => [Obs.abort .crash m])
  ++ (match p.a.futures with
      | f :: _ => if p.a.futures.length = a.futures.length + 1 then [Obs.fut a.futures.length (futOf f)] else []
      | [] => [])

def sysStep (m : Sys) : Op → Sys × List Obs
  | .psend n =>
    let chunk := (m.ppay.drop m.psent).take (min n m.rsz)
    if m.killed.isSome ∨ chunk = [] then (m, [])
    else ({ m with x := { m.x with w := { m.x.w with recvs := m.x.w.recvs ++ [.data chunk] } },
                   psent := m.psent + chunk.length }, [])
  | .send T data waits sends =>
    if m.async then (m, []) else
    let r := sendT Script.world (arm m.x.w waits sends) data T
    ({ m with x := { m.x with w := r.w }, threw := m.threw || (m.killed.isSome && r.exn.isSome) },
     [.api .send (some T)] ++ callsObs r.w.calls ++ [.ret (retOf r.exn true)])
  | .recv T waits =>
    if m.async then (m, []) else
    match recvT Script.world (arm m.x.w waits []) m.rsz T with
    | .got bs w' => ({ m with x := { m.x with w := w' }, got := m.got ++ bs },
                     [.api .recv (some T)] ++ callsObs w'.calls ++ [.ret .returned])
    | .nothing w' => ({ m with x := { m.x with w := w' } }, [.api .recv (some T)] ++ callsObs w'.calls ++ [.ret .returned])
    | .exn e w' => ({ m with x := { m.x with w := w' }, threw := m.threw || m.killed.isSome, rthrew := m.rthrew || m.killed.isSome },
                    [.api .recv (some T)] ++ callsObs w'.calls ++ [.ret (retOf (some e) false)])
  | .enq data =>
    if ¬ m.async ∨ m.destroyed then (m, []) else ({ m with x := pEnqueue m.x data }, [.enq])
  | .step rev sends =>
    if ¬ m.async ∨ m.destroyed then (m, []) else
    let (o, p) := pTask Script.world m.rsz { m.x with w := arm m.x.w [] sends } rev
    let newGot := match p.a.delivered with
      | bs :: _ => if p.a.delivered.length = m.x.a.delivered.length + 1 then bs else []
      | [] => []
    ({ m with x := p, got := m.got ++ newGot }, stepObs m.x.a o p)
  | .pre xsent => ({ m with xsentPre := m.xsentPre <|> some xsent }, [.pre xsent])
  | .kill kind pread reset sends =>
    if m.killed.isSome then (m, []) else
    let recvs := match reset with
      | none => m.x.w.recvs
      | some (k, e) => m.x.w.recvs.take k ++ [.fail e]
    ({ m with x := { m.x with w := { m.x.w with dead := true, waits := [], sends := m.x.w.sends ++ sends, recvs := recvs } },
              killed := some (kind, pread), lossy := reset.isSome }, [.kill kind pread])
  | .after o b => ({ m with ord := m.ord <|> some (o, b) }, [.after o b])
  | .destroy =>
    if ¬ m.async ∨ m.destroyed then (m, []) else
    ({ m with destroyed := true },
     [.destroy] ++ (List.range m.x.a.sendQ.length).map fun j => Obs.fut (m.x.a.futures.length + j) .broken)

def modelOps (m : Sys) : List Op → Sys × List Obs
  | [] => (m, [])
  | op :: rest =>
    let (m1, o1) := sysStep m op
    let (m2, o2) := modelOps m1 rest
    (m2, o1 ++ o2)

def Sys.init (async : Bool) (rsz : Nat) (ppay : Bytes) : Sys := { async, rsz, ppay }

/-- what the harness prints at the end of the case -/
def finalObs (m : Sys) : List Obs := [.got m.got, .state m.psent]

/-- the observations the MODEL produces for a history -/
def modelTrace (async : Bool) (rsz : Nat) (ppay : Bytes) (history : List Op) : List Obs :=
  let r := modelOps (Sys.init async rsz ppay) history
  [.setup async false, .payload ppay] ++ r.2 ++ finalObs r.1

end SockModel.PeerFail.Spec

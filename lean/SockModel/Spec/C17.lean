import SockModel.Model.LifecycleLogLemmas
/-!
# Spec.C17 - the property as an executable predicate over typed observations, and the proof that
the lifecycle model satisfies it for every history

`specStep` / `specRun` / `specEnd` are what `./check C17` evaluates on the IMPLEMENTATION's transcript
(`Drive/C17.lean` only parses the lines into `Obs` and calls these very functions).  They mention no
model state: only the operation that was requested and what the implementation was seen to do.
Clauses (message texts as they appear in replays):

* no crash (sanitizer report / assertion / signal) at any point of the history;
* no handler (`recv`, `recvfrom`, `conn`, `disc`) of a socket runs after the socket was destroyed
  (explicitly, inside its own disconnect handler, or at the end of the history);
* a future is reported at most once and never as `pending` once its socket is gone;
* after every operation, every future of a destroyed socket has been reported (value / exception /
  broken promise) - none is left dangling;
* the history runs to its end.

`model_satisfies_spec` shows that the model (`Model/Lifecycle.lean`, the functions `legalOp`, `exec`,
`run` as they are) can never be flagged by the predicate - for every history of any length, where an
operation that breaks a usage rule is refused (`skipped`) exactly as the harness refuses it.  A flag on
the implementation is therefore a genuine difference between implementation and model, and the clauses
are consequences of the model for all histories.
-/
namespace SockModel.Lifecycle

/-! ### typed observations -/

/-- the handlers of a socket -/
inductive HKind where | recv | recvFrom | conn | disc
  deriving DecidableEq, Repr

/-- the word the harness prints for a handler invocation -/
def HKind.name : HKind → String
  | .recv => "recv" | .recvFrom => "recvfrom" | .conn => "conn" | .disc => "disc"

/-- state of a future as reported by the harness (`other` = any other word) -/
inductive FutObs where | pending | value | exn | broken | other
  deriving DecidableEq, Repr

/-- one `-> …` line -/
inductive Item where
  /-- the process running the history died (sanitizer / assertion / signal): `crash <what>` -/
  | crash (what : String)
  /-- `fut <id> <state>` -/
  | fut (id : Nat) (st : FutObs)
  /-- `recv i` / `recvfrom i` / `conn i` / `disc i`: a handler of socket `i` was invoked -/
  | handler (k : HKind) (i : Nat)
  /-- `todo t`: the task of ToDo `t` ran -/
  | todo (t : Nat)
  /-- `throw …`: the operation left with an exception -/
  | threw
  /-- `skipped`: the harness refused the operation (it would break a usage rule) -/
  | skipped
  /-- `done`: the history ran to its end -/
  | done
  /-- anything else -/
  | other
  deriving DecidableEq, Repr

/-- one line of the history together with what the implementation was seen to do -/
inductive Obs where
  /-- an operation line (`line` = its text, used in messages only) -/
  | op (line : String) (op : Op) (items : List Item)
  /-- the `end` line: the harness destroys whatever is left -/
  | fin (line : String) (items : List Item)
  /-- a `-> crash <what>` line where an operation was expected (the harness died between cases) -/
  | stray (what : String)
  deriving Repr

/-! ### the predicate -/

/-- observation-only bookkeeping for the property -/
structure SpecSt where
  dead : List Nat := []                 -- sockets known to be destroyed
  futOf : List (Nat × Nat) := []        -- future id ↦ socket
  resolved : List Nat := []             -- futures reported so far
  nfut : Nat := 0                       -- futures handed out so far
  selfDestroy : List Nat := []          -- sockets whose disconnect handler destroys them
  socks : List Nat := []                -- sockets created so far (destroyed by the harness at the end)
  ended : Bool := false

def observe1 (sp : SpecSt) : Item → Except String SpecSt
  | .crash w => .error ("crash: " ++ w)
  | .fut id st =>
    if st = .pending then .error s!"future {id} is still pending after its socket was destroyed (dangling)"
    else if sp.resolved.contains id then .error s!"future {id} reported twice"
    else .ok { sp with resolved := id :: sp.resolved }
  | .handler k i =>
    if sp.dead.contains i then .error s!"handler '{k.name}' of socket {i} invoked after the socket was destroyed"
    else if k = .disc ∧ sp.selfDestroy.contains i then .ok { sp with dead := i :: sp.dead }
    else .ok sp
  | _ => .ok sp

/-- the observations of one operation, in order -/
def observe (sp : SpecSt) : List Item → Except String SpecSt
  | [] => .ok sp
  | it :: rest =>
    match observe1 sp it with
    | .ok sp' => observe sp' rest
    | .error e => .error e

/-- after the observations of an op: every future of a destroyed socket must have been reported -/
def checkDangling (sp : SpecSt) : Option String :=
  match sp.futOf.find? (fun (id, s) => sp.dead.contains s && !sp.resolved.contains id) with
  | some (id, s) => some s!"future {id} of destroyed socket {s} was not released (neither value, exception nor broken promise)"
  | none => none

def addNew (l : List Nat) (x : Nat) : List Nat := if l.contains x then l else l ++ [x]

/-- what the request itself tells the observer -/
def SpecSt.request (sp : SpecSt) (op : Op) (items : List Item) : SpecSt :=
  match op with
  | .send i => if items.any (· == .threw) then sp else
      { sp with futOf := (sp.nfut, i) :: sp.futOf, nfut := sp.nfut + 1 }
  | .destroySock i => { sp with dead := i :: sp.dead }
  | .mkSock i _ _ onDisc _ _ =>
    { sp with socks := addNew sp.socks i,
              selfDestroy := if onDisc then i :: sp.selfDestroy else sp.selfDestroy }
  | _ => sp

def finish (sp1 : SpecSt) (items : List Item) : Except String SpecSt :=
  match observe sp1 items with
  | .error e => .error e
  | .ok sp2 =>
    match checkDangling sp2 with
    | some msg => .error msg
    | none => .ok sp2

def after (line : String) : Except String SpecSt → Except String SpecSt
  | .ok s => .ok s
  | .error msg => .error s!"after '{line}': {msg}"

def specStep (sp : SpecSt) : Obs → Except String SpecSt
  | .stray w => .error ("crash: " ++ w)
  | .op line op items =>
    -- a refused operation was not performed: nothing to check (that the refusal is right is correspondence)
    if items = [.skipped] then .ok sp else after line (finish (sp.request op items) items)
  | .fin line items =>
    if items = [.skipped] then .ok sp
    else after line (finish { sp with dead := sp.socks ++ sp.dead, ended := true } items)

def specRun (sp : SpecSt) : List Obs → Except String SpecSt
  | [] => .ok sp
  | o :: os =>
    match specStep sp o with
    | .ok sp' => specRun sp' os
    | .error e => .error e

/-- when the transcript is exhausted -/
def specEnd (sp : SpecSt) : Except String Unit :=
  if sp.ended then .ok () else .error "history did not run to its end (harness died without a report)"

/-- the whole predicate -/
def specCheck (tr : List Obs) : Except String Unit :=
  match specRun {} tr with
  | .ok sp => specEnd sp
  | .error e => .error e

/-! ### the observations of the MODEL -/

/-- the model next to the lists the harness keeps: what was created, in creation order (without repetition) -/
structure Sys where
  st : St := {}
  socks : List Nat := []
  todos : List Nat := []
  drvs : List Nat := []

def Sys.record (m : Sys) (op : Op) (s' : St) : Sys :=
  match op with
  | .mkSock i .. => { m with st := s', socks := addNew m.socks i }
  | .mkTodo t .. => { m with st := s', todos := addNew m.todos t }
  | .mkDriver d => { m with st := s', drvs := addNew m.drvs d }
  | _ => { m with st := s' }

/-- what the harness destroys at the end of a history, in its order -/
def implicitEnd (s : St) (socks todos drvs : List Nat) : List Op :=
  (socks.flatMap fun i => if (s.sock i).alive then [Op.release i, Op.destroySock i] else []) ++
  (todos.flatMap fun t => if (s.todo t).handle then [Op.dropTodo t] else []) ++
  (drvs.flatMap fun d => if (s.drv d).alive then [Op.destroyDriver d] else []) ++
  (if s.poolAlive then [Op.destroyPool] else [])

def insertEv (e : Ev) : List Ev → List Ev
  | [] => [e]
  | x :: xs => if futKey e ≤ futKey x then e :: x :: xs else x :: insertEv e xs

/-- insertion sort by future id -/
def sortEvs : List Ev → List Ev
  | [] => []
  | e :: es => insertEv e (sortEvs es)

/-- what the model logs between two states, in the order the harness reports: handler invocations as they
happen and then the futures that became ready in order of their ids -/
def modelEvents (s s' : St) : List Ev :=
  let raw := (s'.log.take (s'.log.length - s.log.length)).reverse
  raw.filter (fun e => !isFutEv e) ++ sortEvs (raw.filter isFutEv)

/-- `accept id`: the kernel accepts the write of send `id` to a peer that has already closed (model outcome
`either`: value or exception) -/
def evItem (accept : Nat → Bool) : Ev → Item
  | .recv i => .handler .recv i
  | .recvFrom i => .handler .recvFrom i
  | .conn i => .handler .conn i
  | .disc i => .handler .disc i
  | .todo t => .todo t
  | .fut id st => .fut id (match st with
      | .pending => .pending | .value => .value | .exn => .exn | .broken => .broken
      | .either => if accept id then .value else .exn)

/-- undefined behaviour of the C++ is what the sanitizers report as a crash -/
def modelItems (accept : Nat → Bool) (s s' : St) : List Item :=
  match s'.ub with
  | some why => [.crash why]
  | none => (modelEvents s s').map (evItem accept)

def b01 (b : Bool) : String := if b then "1" else "0"

/-- the line of the protocol for an operation -/
def opLine : Op → String
  | .mkDriver d => s!"driver {d}"
  | .destroyDriver d => s!"ddriver {d}"
  | .step d => s!"step {d}"
  | .mkSock i k d a b c =>
    s!"sock {i} {match k with | .tcp => "tcp" | .udp => "udp" | .acc => "acc"} {d} {b01 a} {b01 b} {b01 c}"
  | .send i => s!"send {i}"
  | .release i => s!"release {i}"
  | .destroySock i => s!"dsock {i}"
  | .peerSend i => s!"psend {i}"
  | .peerClose i => s!"pclose {i}"
  | .peerReset i => s!"preset {i}"
  | .peerConnect i => s!"pconn {i}"
  | .sendFail i => s!"sendfail {i}"
  | .mkTodo t d s => s!"todo {t} {d} {b01 s}"
  | .cancel t => s!"cancel {t}"
  | .shift t => s!"shift {t}"
  | .dropTodo t => s!"droptodo {t}"
  | .destroyPool => "dpool"

/-- one operation of a history: refused (as the harness refuses it) when it breaks a usage rule, performed by
the model's `exec` otherwise -/
def modelObs (accept : Nat → Bool) (m : Sys) (op : Op) : Sys × Obs :=
  if legalOp m.st op then
    (m.record op (exec .fixed m.st op), .op (opLine op) op (modelItems accept m.st (exec .fixed m.st op)))
  else (m, .op (opLine op) op [.skipped])

/-- futures the harness finds unresolved after it destroyed everything -/
def pendingItems (s : St) : List Item :=
  ((List.range s.nfut).filter s.isPending).map fun id => Item.fut id .pending

/-- the end of a history: everything that is left is destroyed (`implicitEnd`, performed by the model's `run`) -/
def modelEnd (accept : Nat → Bool) (m : Sys) : Obs :=
  let s' := run .fixed m.st (implicitEnd m.st m.socks m.todos m.drvs)
  .fin "end" (modelItems accept m.st s' ++ pendingItems s' ++ [.done])

/-- the observations the MODEL produces for a history (any list of operations, legal or not) -/
def modelTrace (accept : Nat → Bool) (m : Sys) : List Op → List Obs
  | [] => [modelEnd accept m]
  | op :: ops => (modelObs accept m op).2 :: modelTrace accept (modelObs accept m op).1 ops

end SockModel.Lifecycle

import SockModel.Model.LifecycleLogLemmas
/-!
# Spec.C17 - the property as an executable predicate over typed observations, and the proof that
the lifecycle model satisfies it for every history

`specStep` / `specRun` / `specEnd` are what `./check C17` evaluates on the IMPLEMENTATION's transcript
(`Drive/C17.lean` only parses the lines into `Obs` and calls these very functions).  They mention no
model state: only the operation that was requested and what the implementation was seen to do.
Clauses (message texts as they appear in replays):

* no crash (sanitizer report / assertion / signal) at any point of the history;
* no handler (`recv`, `recvfrom`, `conn`, `disc`) of a socket runs after the socket was destroyed
  (explicitly, inside its own disconnect handler, or at the end of the history);
* a future is reported at most once and never as `pending` once its socket is gone;
* after every operation, every future of a destroyed socket has been reported (value / exception /
  broken promise) - none is left dangling;
* the history runs to its end.

`model_satisfies_spec` shows that the model (`Model/Lifecycle.lean`, the functions `legalOp`, `exec`,
`run` as they are) can never be flagged by the predicate - for every history of any length, where an
operation that breaks a usage rule is refused (`skipped`) exactly as the harness refuses it.  A flag on
the implementation is therefore a genuine difference between implementation and model, and the clauses
are consequences of the model for all histories.
-/
namespace SockModel.Lifecycle

/-! ### typed observations -/

/-- the handlers of a socket -/
inductive HKind where | recv | recvFrom | conn | disc
  deriving DecidableEq, Repr

/-- the word the harness prints for a handler invocation -/
def HKind.name : HKind → String
  | .recv => "recv" | .recvFrom => "recvfrom" | .conn => "conn" | .disc => "disc"

/-- state of a future as reported by the harness (`other` = any other word) -/
inductive FutObs where | pending | value | exn | broken | other
  deriving DecidableEq, Repr

/-- one `-> …` line -/
inductive Item where
  /-- the process running the history died (sanitizer / assertion / signal): `crash <what>` -/
  | crash (what : String)
  /-- `fut <id> <state>` -/
  | fut (id : Nat) (st : FutObs)
  /-- `recv i` / `recvfrom i` / `conn i` / `disc i`: a handler of socket `i` was invoked -/
  | handler (k : HKind) (i : Nat)
  /-- `todo t`: the task of ToDo `t` ran -/
  | todo (t : Nat)
  /-- `throw …`: the operation left with an exception -/
  | threw
  /-- `skipped`: the harness refused the operation (it would break a usage rule) -/
  | skipped
  /-- `done`: the history ran to its end -/
  | done
  /-- anything else -/
  | other
  deriving DecidableEq, Repr

/-- one line of the history together with what the implementation was seen to do -/
inductive Obs where
  /-- an operation line (`line` = its text, used in messages only) -/
  | op (line : String) (op : Op) (items : List Item)
  /-- the `end` line: the harness destroys whatever is left -/
  | fin (line : String) (items : List Item)
  /-- a `-> crash <what>` line where an operation was expected (the harness died between cases) -/
  | stray (what : String)
  deriving Repr

/-! ### the predicate -/

/-- observation-only bookkeeping for the property -/
structure SpecSt where
  dead : List Nat := []                 -- sockets known to be destroyed
  futOf : List (Nat × Nat) := []        -- future id ↦ socket
  resolved : List Nat := []             -- futures reported so far
  nfut : Nat := 0                       -- futures handed out so far
  selfDestroy : List Nat := []          -- sockets whose disconnect handler destroys them
  socks : List Nat := []                -- sockets created so far (destroyed by the harness at the end)
  ended : Bool := false

def observe1 (sp : SpecSt) : Item → Except String SpecSt
  | .crash w => .error ("crash: " ++ w)
  | .fut id st =>
    if st = .pending then .error s!"future {id} is still pending after its socket was destroyed (dangling)"
    else if sp.resolved.contains id then .error s!"future {id} reported twice"
    else .ok { sp with resolved := id :: sp.resolved }
  | .handler k i =>
    if sp.dead.contains i then .error s!"handler '{k.name}' of socket {i} invoked after the socket was destroyed"
    else if k = .disc ∧ sp.selfDestroy.contains i then .ok { sp with dead := i :: sp.dead }
    else .ok sp
  | _ => .ok sp

/-- the observations of one operation, in order -/
def observe (sp : SpecSt) : List Item → Except String SpecSt
  | [] => .ok sp
  | it :: rest =>
    match observe1 sp it with
    | .ok sp' => observe sp' rest
    | .error e => .error e

/-- after the observations of an op: every future of a destroyed socket must have been reported -/
def checkDangling (sp : SpecSt) : Option String :=
  match sp.futOf.find? (fun (id, s) => sp.dead.contains s && !sp.resolved.contains id) with
  | some (id, s) => some s!"future {id} of destroyed socket {s} was not released (neither value, exception nor broken promise)"
  | none => none

def addNew (l : List Nat) (x : Nat) : List Nat := if l.contains x then l else l ++ [x]

/-- what the request itself tells the observer -/
def SpecSt.request (sp : SpecSt) (op : Op) (items : List Item) : SpecSt :=
  match op with
  | .send i => if items.any (· == .threw) then sp else
      { sp with futOf := (sp.nfut, i) :: sp.futOf, nfut := sp.nfut + 1 }
  -- a received buffer handed back to `Send` of its own socket: a future is created, like `send`
  | .echo i => if items.any (· == .threw) then sp else
      { sp with futOf := (sp.nfut, i) :: sp.futOf, nfut := sp.nfut + 1 }
  | .destroySock i => { sp with dead := i :: sp.dead }
  | .mkSock i _ _ onDisc _ _ =>
    { sp with socks := addNew sp.socks i,
              selfDestroy := if onDisc then i :: sp.selfDestroy else sp.selfDestroy }
  | _ => sp

def finish (sp1 : SpecSt) (items : List Item) : Except String SpecSt :=
  match observe sp1 items with
  | .error e => .error e
  | .ok sp2 =>
    match checkDangling sp2 with
    | some msg => .error msg
    | none => .ok sp2

def after (line : String) : Except String SpecSt → Except String SpecSt
  | .ok s => .ok s
  | .error msg => .error s!"after '{line}': {msg}"

def specStep (sp : SpecSt) : Obs → Except String SpecSt
  | .stray w => .error ("crash: " ++ w)
  | .op line op items =>
    -- a refused operation was not performed: nothing to check (that the refusal is right is correspondence)
    if items = [.skipped] then .ok sp else after line (finish (sp.request op items) items)
  | .fin line items =>
    if items = [.skipped] then .ok sp
    else after line (finish { sp with dead := sp.socks ++ sp.dead, ended := true } items)

def specRun (sp : SpecSt) : List Obs → Except String SpecSt
  | [] => .ok sp
  | o :: os =>
    match specStep sp o with
    | .ok sp' => specRun sp' os
    | .error e => .error e

/-- when the transcript is exhausted -/
def specEnd (sp : SpecSt) : Except String Unit :=
  if sp.ended then .ok () else .error "history did not run to its end (harness died without a report)"

/-- the whole predicate -/
def specCheck (tr : List Obs) : Except String Unit :=
  match specRun {} tr with
  | .ok sp => specEnd sp
  | .error e => .error e

/-! ### the observations of the MODEL -/

/-- the model next to the lists the harness keeps: what was created, in creation order (without repetition) -/
structure Sys where
  st : St := {}
  socks : List Nat := []
  todos : List Nat := []
  drvs : List Nat := []

def Sys.record (m : Sys) (op : Op) (s' : St) : Sys :=
  match op with
  | .mkSock i .. => { m with st := s', socks := addNew m.socks i }
  | .mkTodo t .. => { m with st := s', todos := addNew m.todos t }
  | .mkDriver d => { m with st := s', drvs := addNew m.drvs d }
  | _ => { m with st := s' }

def insertEv (e : Ev) : List Ev → List Ev
  | [] => [e]
  | x :: xs => if futKey e ≤ futKey x then e :: x :: xs else x :: insertEv e xs

/-- insertion sort by future id -/
def sortEvs : List Ev → List Ev
  | [] => []
  | e :: es => insertEv e (sortEvs es)

/-- what the model logs between two states, in the order the harness reports: handler invocations as they
happen and then the futures that became ready in order of their ids -/
def modelEvents (s s' : St) : List Ev :=
  let raw := (s'.log.take (s'.log.length - s.log.length)).reverse
  raw.filter (fun e => !isFutEv e) ++ sortEvs (raw.filter isFutEv)

/-- `accept id`: the kernel accepts the write of send `id` to a peer that has already closed (model outcome
`either`: value or exception) -/
def evItem (accept : Nat → Bool) : Ev → Item
  | .recv i => .handler .recv i
  | .recvFrom i => .handler .recvFrom i
  | .conn i => .handler .conn i
  | .disc i => .handler .disc i
  | .todo t => .todo t
  | .fut id st => .fut id (match st with
      | .pending => .pending | .value => .value | .exn => .exn | .broken => .broken
      | .either => if accept id then .value else .exn)

/-- undefined behaviour of the C++ is what the sanitizers report as a crash -/
def modelItems (accept : Nat → Bool) (s s' : St) : List Item :=
  match s'.ub with
  | some why => [.crash why]
  | none => (modelEvents s s').map (evItem accept)

def b01 (b : Bool) : String := if b then "1" else "0"

/-- the line of the protocol for an operation -/
def opLine : Op → String
  | .mkDriver d => s!"driver {d}"
  | .destroyDriver d => s!"ddriver {d}"
  | .step d => s!"step {d}"
  | .mkSock i k d a b c =>
    s!"sock {i} {match k with | .tcp => "tcp" | .udp => "udp" | .acc => "acc"} {d} {b01 a} {b01 b} {b01 c}"
  | .send i => s!"send {i}"
  | .echo i => s!"echo {i}"
  | .release i => s!"release {i}"
  | .destroySock i => s!"dsock {i}"
  | .peerSend i => s!"psend {i}"
  | .peerClose i => s!"pclose {i}"
  | .peerReset i => s!"preset {i}"
  | .peerConnect i => s!"pconn {i}"
  | .sendFail i => s!"sendfail {i}"
  | .mkTodo t d s => s!"todo {t} {d} {b01 s}"
  | .cancel t => s!"cancel {t}"
  | .shift t => s!"shift {t}"
  | .dropTodo t => s!"droptodo {t}"
  | .destroyPool => "dpool"

/-- one operation of a history: refused (as the harness refuses it) when it breaks a usage rule, performed by
the model's `exec` otherwise -/
def modelObs (accept : Nat → Bool) (m : Sys) (op : Op) : Sys × Obs :=
  if legalOp m.st op then
    (m.record op (exec .fixed m.st op), .op (opLine op) op (modelItems accept m.st (exec .fixed m.st op)))
  else (m, .op (opLine op) op [.skipped])

/-- futures the harness finds unresolved after it destroyed everything -/
def pendingItems (s : St) : List Item :=
  ((List.range s.nfut).filter s.isPending).map fun id => Item.fut id .pending

/-- the end of a history: everything that is left is destroyed (`implicitEnd`, performed by the model's `run`) -/
def modelEnd (accept : Nat → Bool) (m : Sys) : Obs :=
  let s' := run .fixed m.st (implicitEnd m.st m.socks m.todos m.drvs)
  .fin "end" (modelItems accept m.st s' ++ pendingItems s' ++ [.done])

/-- the observations the MODEL produces for a history (any list of operations, legal or not) -/
def modelTrace (accept : Nat → Bool) (m : Sys) : List Op → List Obs
  | [] => [modelEnd accept m]
  | op :: ops => (modelObs accept m op).2 :: modelTrace accept (modelObs accept m op).1 ops

/-! ### the model satisfies the predicate -/

theorem observe_append (sp : SpecSt) (a b : List Item) :
    observe sp (a ++ b) = match observe sp a with | .ok sp' => observe sp' b | .error e => .error e := by
  induction a generalizing sp with
  | nil => rfl
  | cons it rest ih =>
    simp only [List.cons_append, observe]
    cases observe1 sp it with
    | ok sp' => exact ih sp'
    | error e => rfl

theorem insertEv_perm (e : Ev) (l : List Ev) : (insertEv e l).Perm (e :: l) := by
  induction l with
  | nil => exact List.Perm.refl _
  | cons x xs ih =>
    unfold insertEv
    split
    · exact List.Perm.refl _
    · exact ((List.Perm.cons x ih).trans (List.Perm.swap e x xs))

theorem sortEvs_perm (l : List Ev) : (sortEvs l).Perm l := by
  induction l with
  | nil => exact List.Perm.refl _
  | cons e es ih => exact (insertEv_perm e _).trans (List.Perm.cons e ih)

theorem evItem_fut_ne_pending (accept : Nat → Bool) (id : Nat) (st : Fut) (h : st ≠ .pending) :
    ∃ st', evItem accept (.fut id st) = .fut id st' ∧ st' ≠ .pending := by
  cases st with
  | pending => exact absurd rfl h
  | value => exact ⟨.value, rfl, by simp⟩
  | exn => exact ⟨.exn, rfl, by simp⟩
  | broken => exact ⟨.broken, rfl, by simp⟩
  | either =>
    cases ha : accept id
    · exact ⟨.exn, by simp [evItem, ha], by simp⟩
    · exact ⟨.value, by simp [evItem, ha], by simp⟩

/-- reports of futures that are resolved, distinct and new are accepted and recorded -/
theorem observe_futs (accept : Nat → Bool) : ∀ (L : List Ev) (sp : SpecSt),
    (∀ e ∈ L, ∃ id st, e = .fut id st ∧ st ≠ .pending ∧ id ∉ sp.resolved) → (L.filterMap futId?).Nodup →
    ∃ R, observe sp (L.map (evItem accept)) = .ok { sp with resolved := R } ∧
      ∀ id, id ∈ R ↔ id ∈ sp.resolved ∨ id ∈ L.filterMap futId? := by
  intro L
  induction L with
  | nil => intro sp _ _; exact ⟨sp.resolved, rfl, by simp⟩
  | cons e es ih =>
    intro sp hall hnd
    obtain ⟨id, st, rfl, hst, hnew⟩ := hall _ List.mem_cons_self
    obtain ⟨st', hit, hst'⟩ := evItem_fut_ne_pending accept id st hst
    have hnd' : (id :: es.filterMap futId?).Nodup := by simpa [List.filterMap_cons, futId?] using hnd
    obtain ⟨hidnot, hndes⟩ := List.nodup_cons.mp hnd'
    have hall' : ∀ e ∈ es, ∃ id' st, e = .fut id' st ∧ st ≠ .pending ∧ id' ∉ ({ sp with resolved := id :: sp.resolved } : SpecSt).resolved := by
      intro e he
      obtain ⟨id', st2, rfl, h2, h3⟩ := hall e (List.mem_cons_of_mem _ he)
      refine ⟨id', st2, rfl, h2, ?_⟩
      simp only [List.mem_cons, not_or]
      refine ⟨?_, h3⟩
      intro heq; subst heq
      exact hidnot (mem_futIds.mpr ⟨st2, he⟩)
    obtain ⟨R, hR, hmem⟩ := ih { sp with resolved := id :: sp.resolved } hall' hndes
    refine ⟨R, ?_, ?_⟩
    · simp only [List.map_cons, observe, hit, observe1, hst', ↓reduceIte]
      have : sp.resolved.contains id = false := by simpa using hnew
      simp only [this, Bool.false_eq_true, ↓reduceIte]
      exact hR
    · intro j
      rw [hmem j]
      simp only [List.mem_cons, List.filterMap_cons, futId?]
      constructor
      · rintro ((h | h) | h)
        · exact .inr (.inl h)
        · exact .inl h
        · exact .inr (.inr h)
      · rintro (h | h | h)
        · exact .inl (.inr h)
        · exact .inl (.inl h)
        · exact .inr h

theorem checkDangling_none (sp : SpecSt) (h : ∀ id i, (id, i) ∈ sp.futOf → i ∈ sp.dead → id ∈ sp.resolved) :
    checkDangling sp = none := by
  unfold checkDangling
  have : sp.futOf.find? (fun (id, s) => sp.dead.contains s && !sp.resolved.contains id) = none := by
    rw [List.find?_eq_none]
    rintro ⟨id, i⟩ hm
    simp only [Bool.and_eq_true, List.contains_eq_mem, decide_eq_true_eq, Bool.not_eq_eq_eq_not, Bool.not_true,
      decide_eq_false_iff_not, not_and, Decidable.not_not]
    exact h id i hm
  rw [this]

theorem modelEvents_of_grow {s s' : St} {D : List Ev} (h : s'.log = D ++ s.log) :
    modelEvents s s' = (hEvents D).reverse ++ sortEvs (D.filter isFutEv).reverse := by
  unfold modelEvents
  simp only [h, List.length_append, Nat.add_sub_cancel, List.take_left', hEvents, List.filter_reverse]

theorem futs_disjoint {D L : List Ev} (hnd : ((D ++ L).filterMap futId?).Nodup) {id : Nat} {st st0 : Fut}
    (h1 : Ev.fut id st ∈ D) (h2 : Ev.fut id st0 ∈ L) : False := by
  rw [List.filterMap_append] at hnd
  exact (List.nodup_append.mp hnd).2.2 id (mem_futIds.mpr ⟨st, h1⟩) id (mem_futIds.mpr ⟨st0, h2⟩) rfl

/-- the core of every step: once the handler reports of a transition have been accepted, the reports of
the futures it resolved are accepted too, and afterwards no future of a dead socket is unreported -/
theorem finish_ok (accept : Nat → Bool) {s s' : St} {D : List Ev} {sp1 sp1' : SpecSt}
    (hgrow : s'.log = D ++ s.log) (hub : s'.ub = none) (hlog : LogInv s') (hfinv : FInv s')
    (hres : ∀ id, id ∈ sp1.resolved ↔ ∃ st, Ev.fut id st ∈ s.log)
    (hfutOf : ∀ id i, (id, i) ∈ sp1.futOf → ∃ st, s'.futs id = some (i, st))
    (hh : observe sp1 ((hEvents D).reverse.map (evItem accept)) = .ok sp1')
    (hh1 : sp1'.resolved = sp1.resolved) (hh2 : sp1'.futOf = sp1.futOf)
    (hdead : ∀ i ∈ sp1'.dead, (s'.sock i).alive = false) :
    ∃ R, finish sp1 (modelItems accept s s') = .ok { sp1' with resolved := R } ∧
      ∀ id, id ∈ R ↔ ∃ st, Ev.fut id st ∈ s'.log := by
  have hnd := hlog.nodup
  rw [hgrow] at hnd
  have hF : ∀ e ∈ sortEvs (D.filter isFutEv).reverse, ∃ id st, e = .fut id st ∧ st ≠ .pending ∧ id ∉ sp1'.resolved := by
    intro e he
    have he' : e ∈ (D.filter isFutEv).reverse := (sortEvs_perm _).mem_iff.mp he
    simp only [List.mem_reverse, List.mem_filter] at he'
    obtain ⟨heD, hef⟩ := he'
    cases e with
    | fut id st =>
      refine ⟨id, st, rfl, (hlog.sound id st (by rw [hgrow]; exact List.mem_append_left _ heD)).1, ?_⟩
      rw [hh1, hres]
      rintro ⟨st0, h0⟩
      exact futs_disjoint hnd heD h0
    | _ => simp [isFutEv] at hef
  have hFnd : ((sortEvs (D.filter isFutEv).reverse).filterMap futId?).Nodup := by
    have hp : ((sortEvs (D.filter isFutEv).reverse).filterMap futId?).Perm ((D.filter isFutEv).filterMap futId?) :=
      ((sortEvs_perm _).trans (List.reverse_perm _)).filterMap _
    rw [hp.nodup_iff]
    rw [List.filterMap_append] at hnd
    exact ((List.filter_sublist (l := D) (p := isFutEv)).filterMap futId?).nodup (List.nodup_append.mp hnd).1
  obtain ⟨R, hR, hmem⟩ := observe_futs accept _ sp1' hF hFnd
  have hRlog : ∀ id, id ∈ R ↔ ∃ st, Ev.fut id st ∈ s'.log := by
    intro id
    rw [hmem, hh1, hres, hgrow]
    constructor
    · rintro (⟨st, h⟩ | h)
      · exact ⟨st, List.mem_append_right _ h⟩
      · obtain ⟨st, hst⟩ := mem_futIds.mp h
        have := (sortEvs_perm _).mem_iff.mp hst
        simp only [List.mem_reverse, List.mem_filter] at this
        exact ⟨st, List.mem_append_left _ this.1⟩
    · rintro ⟨st, h⟩
      rcases List.mem_append.mp h with h | h
      · right
        apply mem_futIds.mpr
        refine ⟨st, (sortEvs_perm _).mem_iff.mpr ?_⟩
        simp only [List.mem_reverse, List.mem_filter]
        exact ⟨h, rfl⟩
      · exact .inl ⟨st, h⟩
  refine ⟨R, ?_, hRlog⟩
  unfold finish modelItems
  rw [hub]
  simp only
  rw [modelEvents_of_grow hgrow, List.map_append, observe_append, hh]
  simp only
  rw [hR]
  simp only
  rw [checkDangling_none]
  intro id i hm hd
  simp only at hm hd ⊢
  rw [hh2] at hm
  obtain ⟨st, hst⟩ := hfutOf id i hm
  have hal := hdead i hd
  have hne : st ≠ .pending := by
    intro e; subst e
    have := (hfinv.fd id i hst).1
    rw [hal] at this; cases this
  exact (hRlog id).mpr ⟨st, hlog.complete id i st hst hne⟩

/-- what relates the observer's book-keeping to the model state -/
structure Rel (m : Sys) (sp : SpecSt) : Prop where
  linv : LInv m.st
  finv : FInv m.st
  loginv : LogInv m.st
  nfut : sp.nfut = m.st.nfut
  futOf : ∀ id i, (id, i) ∈ sp.futOf → ∃ st, m.st.futs id = some (i, st)
  res : ∀ id, id ∈ sp.resolved ↔ ∃ st, Ev.fut id st ∈ m.st.log
  dead : ∀ i ∈ sp.dead, (m.st.sock i).present = true ∧ (m.st.sock i).alive = false
  selfD : ∀ i ∈ sp.selfDestroy, (m.st.sock i).present = true ∧ (m.st.sock i).onDisc = true
  socks : sp.socks = m.socks
  cover : ∀ i, (m.st.sock i).alive = true → i ∈ m.socks
  nd : m.socks.Nodup ∧ m.todos.Nodup ∧ m.drvs.Nodup

theorem rel_init : Rel {} {} :=
  { linv := LInv.init, finv := FInv.init, loginv := LogInv.init, nfut := rfl
    futOf := fun _ _ h => (by cases h)
    res := fun _ => ⟨fun h => (by cases h), fun ⟨_, h⟩ => (by cases h)⟩
    dead := fun _ h => (by cases h)
    selfD := fun _ h => (by cases h)
    socks := rfl
    cover := fun _ h => by simp at h
    nd := ⟨List.nodup_nil, List.nodup_nil, List.nodup_nil⟩ }

theorem addNew_nodup {l : List Nat} (h : l.Nodup) (x : Nat) : (addNew l x).Nodup := by
  unfold addNew
  split
  · exact h
  · rename_i hc
    apply List.nodup_append.mpr
    refine ⟨h, by simp, ?_⟩
    intro a ha b hb hab
    simp only [List.mem_singleton] at hb
    subst hb; subst hab
    exact hc (by simpa using ha)

theorem mem_addNew {l : List Nat} {x y : Nat} : y ∈ addNew l x ↔ y ∈ l ∨ y = x := by
  unfold addNew
  split
  · rename_i hc
    constructor
    · exact fun h => .inl h
    · rintro (h | h)
      · exact h
      · subst h; simpa using hc
  · simp

theorem record_st (m : Sys) (op : Op) (s' : St) : (m.record op s').st = s' := by
  cases op <;> rfl

theorem record_nd (m : Sys) (op : Op) (s' : St) (h : m.socks.Nodup ∧ m.todos.Nodup ∧ m.drvs.Nodup) :
    (m.record op s').socks.Nodup ∧ (m.record op s').todos.Nodup ∧ (m.record op s').drvs.Nodup := by
  cases op <;> first
    | exact h
    | exact ⟨addNew_nodup h.1 _, h.2.1, h.2.2⟩
    | exact ⟨h.1, addNew_nodup h.2.1 _, h.2.2⟩
    | exact ⟨h.1, h.2.1, addNew_nodup h.2.2 _⟩

theorem record_socks (m : Sys) (op : Op) (s' : St) (h : ∀ i k d a b c, op ≠ .mkSock i k d a b c) :
    (m.record op s').socks = m.socks := by
  cases op <;> first | rfl | exact absurd rfl (h _ _ _ _ _ _)

theorem modelItems_no_skipped (accept : Nat → Bool) (s s' : St) : modelItems accept s s' ≠ [.skipped] := by
  unfold modelItems
  split
  · simp
  · intro h
    have hm : Item.skipped ∈ (modelEvents s s').map (evItem accept) := by rw [h]; simp
    obtain ⟨e, _, he⟩ := List.mem_map.mp hm
    cases e <;> simp [evItem] at he

/-- a transition that keeps socket identities (`Tr`), once its handler reports have been accepted -/
theorem rel_tr (accept : Nat → Bool) {m m' : Sys} {sp sp1 : SpecSt} {H : List Ev} {dead' : List Nat}
    (hrel : Rel m sp) (htr : Tr m.st m'.st H) (hL : LInv m'.st) (hF : FInv m'.st) (hG : LogInv m'.st)
    (hsocks : m'.socks = m.socks) (hnd : m'.socks.Nodup ∧ m'.todos.Nodup ∧ m'.drvs.Nodup)
    (h1 : sp1.futOf = sp.futOf) (h2 : sp1.resolved = sp.resolved) (h3 : sp1.nfut = sp.nfut)
    (h4 : sp1.selfDestroy = sp.selfDestroy) (h5 : sp1.socks = sp.socks)
    (hh : observe sp1 (H.reverse.map (evItem accept)) = .ok { sp1 with dead := dead' })
    (hdead : ∀ i ∈ dead', (m.st.sock i).present = true ∧ (m'.st.sock i).alive = false) :
    ∃ sp2, finish sp1 (modelItems accept m.st m'.st) = .ok sp2 ∧ Rel m' sp2 := by
  obtain ⟨D, hgrow, hH⟩ := htr.grow
  subst hH
  obtain ⟨R, hfin, hR⟩ := finish_ok accept (sp1 := sp1) (sp1' := { sp1 with dead := dead' }) hgrow hL.ub hG hF
    (by intro id; rw [h2]; exact hrel.res id)
    (by
      intro id i hm
      rw [h1] at hm
      obtain ⟨st, hst⟩ := hrel.futOf id i hm
      exact htr.futs id i st hst)
    hh rfl rfl (fun i hi => (hdead i hi).2)
  refine ⟨_, hfin, ?_⟩
  exact
    { linv := hL, finv := hF, loginv := hG
      nfut := by show sp1.nfut = _; rw [h3, hrel.nfut, htr.nfut]
      futOf := by
        intro id i hm
        have hm' : (id, i) ∈ sp1.futOf := hm
        rw [h1] at hm'
        obtain ⟨st, hst⟩ := hrel.futOf id i hm'
        exact htr.futs id i st hst
      res := hR
      dead := by
        intro i hi
        have hi' : i ∈ dead' := hi
        obtain ⟨hp, ha⟩ := hdead i hi'
        exact ⟨by rw [(htr.frame i).1]; exact hp, ha⟩
      selfD := by
        intro i hi
        have hi' : i ∈ sp1.selfDestroy := hi
        rw [h4] at hi'
        obtain ⟨hp, ho⟩ := hrel.selfD i hi'
        exact ⟨by rw [(htr.frame i).1]; exact hp, by rw [(htr.frame i).2.1]; exact ho⟩
      socks := by show sp1.socks = _; rw [h5, hrel.socks, hsocks]
      cover := by
        intro i hi
        rw [hsocks]
        exact hrel.cover i ((htr.frame i).2.2 hi)
      nd := hnd }

theorem after_ok {line : String} {r : Except String SpecSt} {sp : SpecSt} (h : r = .ok sp) : after line r = .ok sp := by
  subst h; rfl

/-- one operation of the history: the spec accepts what the model does, and the relation is re-established -/
theorem step_ok (accept : Nat → Bool) {m : Sys} {sp : SpecSt} (hrel : Rel m sp) (op : Op) :
    ∃ sp', specStep sp (modelObs accept m op).2 = .ok sp' ∧ Rel (modelObs accept m op).1 sp' := by
  unfold modelObs
  by_cases hl : legalOp m.st op = true
  case neg =>
    rw [if_neg hl]
    exact ⟨sp, by simp [specStep], hrel⟩
  rw [if_pos hl]
  have hub := hrel.linv.ub
  have hL' := hrel.linv.exec op hl
  have hF' := hrel.finv.exec .fixed op
  have hG' := hrel.loginv.exec hrel.linv op
  simp only [specStep, modelItems_no_skipped, ↓reduceIte]
  have hdeadKeep : ∀ {s' : St} {H : List Ev}, Tr m.st s' H → ∀ i ∈ sp.dead, (m.st.sock i).present = true ∧ (s'.sock i).alive = false := by
    intro s' H htr i hi
    obtain ⟨hp, ha⟩ := hrel.dead i hi
    refine ⟨hp, ?_⟩
    cases h : (s'.sock i).alive with
    | false => rfl
    | true => have := (htr.frame i).2.2 h; rw [ha] at this; cases this
  -- the operations that keep socket identities and add no handler event
  have plain : ∀ (hp : plainOp op = true) (sp1 : SpecSt) (dead' : List Nat), sp.request op (modelItems accept m.st (exec .fixed m.st op)) = sp1 →
      sp1 = { sp with dead := dead' } → (∀ i ∈ dead', (m.st.sock i).present = true ∧ ((exec .fixed m.st op).sock i).alive = false) →
      ∃ sp', after (opLine op) (finish (sp.request op (modelItems accept m.st (exec .fixed m.st op)))
        (modelItems accept m.st (exec .fixed m.st op))) = .ok sp' ∧ Rel (m.record op (exec .fixed m.st op)) sp' := by
    intro hp sp1 dead' hreq hsp1 hdead
    have htr := Tr.exec_plain m.st op hp
    rw [hreq]
    have hsocks : (m.record op (exec .fixed m.st op)).socks = m.socks :=
      record_socks m op _ (by intro i k d a b c e; subst e; cases hp)
    obtain ⟨sp2, hfin, hrel2⟩ := rel_tr accept (m' := m.record op (exec .fixed m.st op)) (sp1 := sp1) (dead' := dead') hrel
      (by rw [record_st]; exact htr) (by rw [record_st]; exact hL') (by rw [record_st]; exact hF') (by rw [record_st]; exact hG')
      hsocks (record_nd m op _ hrel.nd) (by rw [hsp1]) (by rw [hsp1]) (by rw [hsp1]) (by rw [hsp1]) (by rw [hsp1])
      (by rw [hsp1]; rfl) (by rw [record_st]; exact hdead)
    rw [record_st] at hfin
    exact ⟨sp2, after_ok hfin, hrel2⟩
  have plainSame : plainOp op = true → (∀ i, op ≠ .destroySock i) →
      ∃ sp', after (opLine op) (finish (sp.request op (modelItems accept m.st (exec .fixed m.st op)))
        (modelItems accept m.st (exec .fixed m.st op))) = .ok sp' ∧ Rel (m.record op (exec .fixed m.st op)) sp' := by
    intro hp hnd
    apply plain hp sp sp.dead
    · cases op <;> first | rfl | exact absurd rfl (hnd _) | cases hp
    · rfl
    · exact hdeadKeep (Tr.exec_plain m.st op hp)
  cases op with
  | mkDriver d => exact plainSame rfl (by intro i h; cases h)
  | peerSend i => exact plainSame rfl (by intro i h; cases h)
  | peerClose i => exact plainSame rfl (by intro i h; cases h)
  | peerReset i => exact plainSame rfl (by intro i h; cases h)
  | peerConnect i => exact plainSame rfl (by intro i h; cases h)
  | sendFail i => exact plainSame rfl (by intro i h; cases h)
  | release i => exact plainSame rfl (by intro i h; cases h)
  | destroyDriver d => exact plainSame rfl (by intro i h; cases h)
  | mkTodo t d sch => exact plainSame rfl (by intro i h; cases h)
  | cancel t => exact plainSame rfl (by intro i h; cases h)
  | shift t => exact plainSame rfl (by intro i h; cases h)
  | dropTodo t => exact plainSame rfl (by intro i h; cases h)
  | destroyPool => exact plainSame rfl (by intro i h; cases h)
  | destroySock i =>
    apply plain rfl { sp with dead := i :: sp.dead } (i :: sp.dead) rfl rfl
    intro j hj
    rcases List.mem_cons.mp hj with rfl | hj
    · have hal : (m.st.sock j).alive = true := by
        simp only [legalOp, Bool.and_eq_true] at hl; exact hl.1
      refine ⟨hrel.linv.sockPresent j hal, ?_⟩
      rw [exec_destroySock hub hl]; exact destroySockObj_dead _ _
    · exact hdeadKeep (Tr.exec_plain m.st (.destroySock i) rfl) j hj
  | step d =>
    rw [exec_step hub hl] at hL' hF' hG' ⊢
    obtain ⟨Ht, Hs, htr, hT, hS⟩ := Tr.step m.st d
    have hreq : sp.request (.step d) (modelItems accept m.st (m.st.step d)) = sp := rfl
    rw [hreq]
    -- the handler reports
    have hhand : ∃ dead', observe sp ((Hs ++ Ht).reverse.map (evItem accept)) = .ok { sp with dead := dead' } ∧
        ∀ i ∈ dead', (m.st.sock i).present = true ∧ ((m.st.step d).sock i).alive = false := by
      have hnotdead : ∀ i, (m.st.sock i).alive = true → i ∉ sp.dead := by
        intro i hal hc
        have := (hrel.dead i hc).2
        rw [hal] at this; cases this
      have hkeep := hdeadKeep htr
      rcases hS with rfl | ⟨i, hal, hS⟩
      · refine ⟨sp.dead, ?_, hkeep⟩
        rcases hT with rfl | ⟨t, rfl⟩ <;> simp [observe, observe1, evItem]
      · have hnd := hnotdead i hal
        rcases hS with rfl | rfl | rfl | ⟨rfl, hdisc⟩
        · refine ⟨sp.dead, ?_, hkeep⟩
          rcases hT with rfl | ⟨t, rfl⟩ <;> simp [observe, observe1, evItem, hnd]
        · refine ⟨sp.dead, ?_, hkeep⟩
          rcases hT with rfl | ⟨t, rfl⟩ <;> simp [observe, observe1, evItem, hnd]
        · refine ⟨sp.dead, ?_, hkeep⟩
          rcases hT with rfl | ⟨t, rfl⟩ <;> simp [observe, observe1, evItem, hnd]
        · by_cases hsd : i ∈ sp.selfDestroy
          · refine ⟨i :: sp.dead, ?_, ?_⟩
            · rcases hT with rfl | ⟨t, rfl⟩ <;> simp [observe, observe1, evItem, hnd, hsd]
            · intro j hj
              rcases List.mem_cons.mp hj with rfl | hj
              · exact ⟨hrel.linv.sockPresent j hal, hdisc (hrel.selfD j hsd).2⟩
              · exact hkeep j hj
          · refine ⟨sp.dead, ?_, hkeep⟩
            rcases hT with rfl | ⟨t, rfl⟩ <;> simp [observe, observe1, evItem, hnd, hsd]
    obtain ⟨dead', hobs, hdead⟩ := hhand
    obtain ⟨sp2, hfin, hrel2⟩ := rel_tr accept (m' := m.record (.step d) (m.st.step d)) (sp1 := sp) (dead' := dead') hrel
      htr hL' hF' hG' rfl hrel.nd rfl rfl rfl rfl rfl hobs hdead
    exact ⟨sp2, after_ok hfin, hrel2⟩
  | send i =>
    obtain ⟨hlog, hframe, hnf, hfuts⟩ := exec_send hub hl
    have hgrow : (exec .fixed m.st (.send i)).log = [] ++ m.st.log := by simpa using hlog
    have hitems : modelItems accept m.st (exec .fixed m.st (.send i)) = [] := by
      unfold modelItems
      rw [hL'.ub]
      simp only [modelEvents_of_grow hgrow]
      rfl
    have hreq : sp.request (.send i) (modelItems accept m.st (exec .fixed m.st (.send i))) =
        { sp with futOf := (sp.nfut, i) :: sp.futOf, nfut := sp.nfut + 1 } := by
      rw [hitems]; rfl
    rw [hreq]
    have hfutOf : ∀ id j, (id, j) ∈ (sp.nfut, i) :: sp.futOf → ∃ st, (exec .fixed m.st (.send i)).futs id = some (j, st) := by
      intro id j hm
      rw [hfuts]
      rcases List.mem_cons.mp hm with heq | hm
      · cases heq
        exact ⟨.pending, by rw [if_pos hrel.nfut]⟩
      · obtain ⟨st, hst⟩ := hrel.futOf id j hm
        have hlt : id < m.st.nfut := hrel.linv.nf id (by rw [hst]; simp)
        exact ⟨st, by rw [if_neg (by omega)]; exact hst⟩
    have hdeadS : ∀ j ∈ sp.dead, ((exec .fixed m.st (.send i)).sock j).present = true ∧
        ((exec .fixed m.st (.send i)).sock j).alive = false := by
      intro j hj
      obtain ⟨hp, ha⟩ := hrel.dead j hj
      exact ⟨by rw [(hframe j).1]; exact hp, by rw [(hframe j).2.2]; exact ha⟩
    obtain ⟨R, hfin, hR⟩ := finish_ok accept (sp1 := { sp with futOf := (sp.nfut, i) :: sp.futOf, nfut := sp.nfut + 1 })
      (sp1' := { sp with futOf := (sp.nfut, i) :: sp.futOf, nfut := sp.nfut + 1 }) hgrow hL'.ub hG' hF'
      hrel.res hfutOf rfl rfl rfl (fun j hj => (hdeadS j hj).2)
    refine ⟨_, after_ok hfin, ?_⟩
    exact
      { linv := hL', finv := hF', loginv := hG'
        nfut := by show sp.nfut + 1 = (exec .fixed m.st (.send i)).nfut; rw [hnf, hrel.nfut]
        futOf := hfutOf
        res := hR
        dead := hdeadS
        selfD := by
          intro j hj
          obtain ⟨hp, ho⟩ := hrel.selfD j hj
          exact ⟨by show ((exec .fixed m.st (.send i)).sock j).present = true; rw [(hframe j).1]; exact hp,
                 by show ((exec .fixed m.st (.send i)).sock j).onDisc = true; rw [(hframe j).2.1]; exact ho⟩
        socks := hrel.socks
        cover := by
          intro j hj
          have hj' : ((exec .fixed m.st (.send i)).sock j).alive = true := hj
          rw [(hframe j).2.2] at hj'
          exact hrel.cover j hj'
        nd := hrel.nd }
  | echo i =>
    obtain ⟨hlog, hframe, hnf, hfuts⟩ := exec_echo hub hl
    have hgrow : (exec .fixed m.st (.echo i)).log = [] ++ m.st.log := by simpa using hlog
    have hitems : modelItems accept m.st (exec .fixed m.st (.echo i)) = [] := by
      unfold modelItems
      rw [hL'.ub]
      simp only [modelEvents_of_grow hgrow]
      rfl
    have hreq : sp.request (.echo i) (modelItems accept m.st (exec .fixed m.st (.echo i))) =
        { sp with futOf := (sp.nfut, i) :: sp.futOf, nfut := sp.nfut + 1 } := by
      rw [hitems]; rfl
    rw [hreq]
    have hfutOf : ∀ id j, (id, j) ∈ (sp.nfut, i) :: sp.futOf → ∃ st, (exec .fixed m.st (.echo i)).futs id = some (j, st) := by
      intro id j hm
      rw [hfuts]
      rcases List.mem_cons.mp hm with heq | hm
      · cases heq
        exact ⟨.pending, by rw [if_pos hrel.nfut]⟩
      · obtain ⟨st, hst⟩ := hrel.futOf id j hm
        have hlt : id < m.st.nfut := hrel.linv.nf id (by rw [hst]; simp)
        exact ⟨st, by rw [if_neg (by omega)]; exact hst⟩
    have hdeadS : ∀ j ∈ sp.dead, ((exec .fixed m.st (.echo i)).sock j).present = true ∧
        ((exec .fixed m.st (.echo i)).sock j).alive = false := by
      intro j hj
      obtain ⟨hp, ha⟩ := hrel.dead j hj
      exact ⟨by rw [(hframe j).1]; exact hp, by rw [(hframe j).2.2]; exact ha⟩
    obtain ⟨R, hfin, hR⟩ := finish_ok accept (sp1 := { sp with futOf := (sp.nfut, i) :: sp.futOf, nfut := sp.nfut + 1 })
      (sp1' := { sp with futOf := (sp.nfut, i) :: sp.futOf, nfut := sp.nfut + 1 }) hgrow hL'.ub hG' hF'
      hrel.res hfutOf rfl rfl rfl (fun j hj => (hdeadS j hj).2)
    refine ⟨_, after_ok hfin, ?_⟩
    exact
      { linv := hL', finv := hF', loginv := hG'
        nfut := by show sp.nfut + 1 = (exec .fixed m.st (.echo i)).nfut; rw [hnf, hrel.nfut]
        futOf := hfutOf
        res := hR
        dead := hdeadS
        selfD := by
          intro j hj
          obtain ⟨hp, ho⟩ := hrel.selfD j hj
          exact ⟨by show ((exec .fixed m.st (.echo i)).sock j).present = true; rw [(hframe j).1]; exact hp,
                 by show ((exec .fixed m.st (.echo i)).sock j).onDisc = true; rw [(hframe j).2.1]; exact ho⟩
        socks := hrel.socks
        cover := by
          intro j hj
          have hj' : ((exec .fixed m.st (.echo i)).sock j).alive = true := hj
          rw [(hframe j).2.2] at hj'
          exact hrel.cover j hj'
        nd := hrel.nd }
  | mkSock i k d a b c =>
    obtain ⟨hlog, hfuts, hnf, hother, hpres, halive, hod, hnp⟩ := exec_mkSock hub hl
    have hgrow : (exec .fixed m.st (.mkSock i k d a b c)).log = [] ++ m.st.log := by simpa using hlog
    have hreq : sp.request (.mkSock i k d a b c) (modelItems accept m.st (exec .fixed m.st (.mkSock i k d a b c))) =
        { sp with socks := addNew sp.socks i, selfDestroy := if a then i :: sp.selfDestroy else sp.selfDestroy } := rfl
    rw [hreq]
    have hne : ∀ j, (m.st.sock j).present = true → j ≠ i := by
      intro j hp e; subst e; rw [hnp] at hp; cases hp
    have hdeadS : ∀ j ∈ sp.dead, ((exec .fixed m.st (.mkSock i k d a b c)).sock j).present = true ∧
        ((exec .fixed m.st (.mkSock i k d a b c)).sock j).alive = false := by
      intro j hj
      obtain ⟨hp, ha⟩ := hrel.dead j hj
      rw [hother j (hne j hp)]; exact ⟨hp, ha⟩
    obtain ⟨R, hfin, hR⟩ := finish_ok accept
      (sp1 := { sp with socks := addNew sp.socks i, selfDestroy := if a then i :: sp.selfDestroy else sp.selfDestroy })
      (sp1' := { sp with socks := addNew sp.socks i, selfDestroy := if a then i :: sp.selfDestroy else sp.selfDestroy })
      hgrow hL'.ub hG' hF' hrel.res (by intro id j hm; rw [hfuts]; exact hrel.futOf id j hm) rfl rfl rfl
      (fun j hj => (hdeadS j hj).2)
    refine ⟨_, after_ok hfin, ?_⟩
    exact
      { linv := hL', finv := hF', loginv := hG'
        nfut := by show sp.nfut = (exec .fixed m.st (.mkSock i k d a b c)).nfut; rw [hnf, hrel.nfut]
        futOf := by
          intro id j hm
          show ∃ st, (exec .fixed m.st (.mkSock i k d a b c)).futs id = some (j, st)
          rw [hfuts]; exact hrel.futOf id j hm
        res := hR
        dead := hdeadS
        selfD := by
          intro j hj
          show ((exec .fixed m.st (.mkSock i k d a b c)).sock j).present = true ∧
            ((exec .fixed m.st (.mkSock i k d a b c)).sock j).onDisc = true
          have hj' : j ∈ (if a = true then i :: sp.selfDestroy else sp.selfDestroy) := hj
          have hold : j ∈ sp.selfDestroy → ((exec .fixed m.st (.mkSock i k d a b c)).sock j).present = true ∧
              ((exec .fixed m.st (.mkSock i k d a b c)).sock j).onDisc = true := fun hm => by
            obtain ⟨hp, ho⟩ := hrel.selfD j hm
            rw [hother j (hne j hp)]; exact ⟨hp, ho⟩
          split at hj'
          · rename_i ha
            rcases List.mem_cons.mp hj' with rfl | hm
            · exact ⟨hpres, by rw [hod]; exact ha⟩
            · exact hold hm
          · exact hold hj'
        socks := by show addNew sp.socks i = addNew m.socks i; rw [hrel.socks]
        cover := by
          intro j hj
          show j ∈ addNew m.socks i
          rw [mem_addNew]
          by_cases hji : j = i
          · exact .inr hji
          · have hj' : ((exec .fixed m.st (.mkSock i k d a b c)).sock j).alive = true := hj
            rw [hother j hji] at hj'
            exact .inl (hrel.cover j hj')
        nd := ⟨addNew_nodup hrel.nd.1 i, hrel.nd.2.1, hrel.nd.2.2⟩ }

theorem finish_done (sp : SpecSt) (A : List Item) : finish sp (A ++ [.done]) = finish sp A := by
  unfold finish
  rw [observe_append]
  cases observe sp A with
  | ok sp' => rfl
  | error e => rfl

/-- the end of the history: what the harness destroys is a legal continuation for the model, which then has no
socket alive and no future pending; the spec accepts its reports -/
theorem end_ok (accept : Nat → Bool) {m : Sys} {sp : SpecSt} (hrel : Rel m sp) :
    ∃ sp', specStep sp (modelEnd accept m) = .ok sp' ∧ sp'.ended = true := by
  obtain ⟨hleg, hplain, hdead, hpend⟩ := end_legal hrel.linv hrel.finv hrel.nd hrel.cover
  have hL' := hrel.linv.run _ hleg
  have hF' := hrel.finv.run .fixed (implicitEnd m.st m.socks m.todos m.drvs)
  have hG' := hrel.loginv.run hrel.linv _ hleg
  have htr := Tr.run_plain _ m.st hplain
  obtain ⟨D, hgrow, hH⟩ := htr.grow
  have hpi : pendingItems (run .fixed m.st (implicitEnd m.st m.socks m.todos m.drvs)) = [] := by
    unfold pendingItems
    rw [List.map_eq_nil_iff, List.filter_eq_nil_iff]
    intro j _
    rw [hpend j]; simp
  unfold modelEnd
  simp only [specStep, hpi, List.append_nil]
  rw [if_neg (by
    intro h
    have : Item.done ∈ [Item.skipped] := by rw [← h]; simp
    simp at this)]
  rw [finish_done]
  obtain ⟨R, hfin, _⟩ := finish_ok accept (sp1 := { sp with dead := sp.socks ++ sp.dead, ended := true })
    (sp1' := { sp with dead := sp.socks ++ sp.dead, ended := true }) hgrow hL'.ub hG' hF' hrel.res
    (by
      intro id i hm
      obtain ⟨st, hst⟩ := hrel.futOf id i hm
      exact htr.futs id i st hst)
    (by rw [hH]; rfl) rfl rfl (fun i _ => hdead i)
  exact ⟨_, after_ok hfin, rfl⟩

theorem model_satisfies_spec_from (accept : Nat → Bool) : ∀ (history : List Op) (m : Sys) (sp : SpecSt), Rel m sp →
    ∃ s, specRun sp (modelTrace accept m history) = .ok s ∧ s.ended = true := by
  intro history
  induction history with
  | nil =>
    intro m sp hrel
    obtain ⟨sp', h1, h2⟩ := end_ok accept hrel
    exact ⟨sp', by simp only [modelTrace, specRun, h1], h2⟩
  | cons op ops ih =>
    intro m sp hrel
    obtain ⟨sp', h1, hrel'⟩ := step_ok accept hrel op
    obtain ⟨s, h2, h3⟩ := ih _ sp' hrel'
    exact ⟨s, by simp only [modelTrace, specRun, h1]; exact h2, h3⟩

/-- **The property predicate that `./check C17` evaluates on the implementation is a theorem of the model.**
For every history - any list of operations of any length over any number of drivers, sockets and ToDos, legal
or not: an operation that breaks a usage rule (`legalOp`) is refused, as the harness refuses it - and every way
the kernel may treat writes to a peer that has closed (`accept`), the observations the model produces (handler
invocations and future states logged by `exec`, a crash where the model reaches undefined behaviour, and at the
end the destruction of everything that is left followed by the futures still pending) are accepted by every
clause of the spec: no crash, no handler of a destroyed socket, no future reported twice or pending, no future
of a destroyed socket unreported after any operation, and the history runs to its end. -/
theorem model_satisfies_spec (accept : Nat → Bool) (history : List Op) :
    ∃ s, specRun {} (modelTrace accept {} history) = .ok s ∧ specEnd s = .ok () := by
  obtain ⟨s, h1, h2⟩ := model_satisfies_spec_from accept history {} {} rel_init
  exact ⟨s, h1, by simp [specEnd, h2]⟩

theorem model_passes_check (accept : Nat → Bool) (history : List Op) :
    specCheck (modelTrace accept {} history) = .ok () := by
  obtain ⟨s, h1, h2⟩ := model_satisfies_spec accept history
  simp only [specCheck, h1, h2]

/-! ### non-vacuity -/

/-- a concrete history with everything in it: a peer that closes, a disconnect handler that destroys its socket
with a send pending (broken promise), a send on the destroyed socket (refused), a UDP send resolved by a step, a
ToDo, the driver destroyed before its sockets, and the implicit destruction at the end -/
def demoHistory : List Op :=
  [.mkDriver 0, .mkSock 0 .tcp 0 true false false, .mkSock 1 .udp 0 false false false, .mkTodo 1 0 true,
   .send 0, .peerClose 0, .step 0, .send 0, .send 1, .step 0, .send 1, .destroyDriver 0, .step 0, .shift 1]

example : (modelTrace (fun _ => true) {} demoHistory).length = 15 := rfl

/-- the step that runs the ToDo and the disconnect handler, which destroys socket 0 and breaks its promise -/
example : (modelTrace (fun _ => true) {} demoHistory)[6]? =
    some (.op "step 0" (.step 0) [.todo 1, .handler .disc 0, .fut 0 .broken]) := by rfl

/-- `Send` on the destroyed socket is refused, as in the harness -/
example : (modelTrace (fun _ => true) {} demoHistory)[7]? = some (.op "send 0" (.send 0) [.skipped]) := by rfl

/-- at the end the UDP socket dies with its second send pending: broken promise, nothing left pending -/
example : (modelTrace (fun _ => true) {} demoHistory)[14]? = some (.fin "end" [.fut 2 .broken, .done]) := by rfl

example : specCheck (modelTrace (fun _ => true) {} demoHistory) = .ok () := by rfl

/-- the echo idiom: socket destroyed with an echoed receive buffer queued -/
example : modelTrace (fun _ => true) {}
      [.mkDriver 0, .mkSock 0 .tcp 0 false true false, .peerSend 0, .step 0, .echo 0, .echo 0, .destroySock 0] =
    [.op "driver 0" (.mkDriver 0) [], .op "sock 0 tcp 0 0 1 0" (.mkSock 0 .tcp 0 false true false) [],
     .op "psend 0" (.peerSend 0) [], .op "step 0" (.step 0) [.handler .recv 0], .op "echo 0" (.echo 0) [],
     .op "echo 0" (.echo 0) [.skipped], .op "dsock 0" (.destroySock 0) [.fut 0 .broken], .fin "end" [.done]] := by rfl

/-- the spec rejects a handler that runs after its socket was destroyed ... -/
example : specRun {} [.op "sock 0 tcp 0 0 0 0" (.mkSock 0 .tcp 0 false false false) [],
      .op "dsock 0" (.destroySock 0) [], .op "step 0" (.step 0) [.handler .recv 0]] =
    .error "after 'step 0': handler 'recv' of socket 0 invoked after the socket was destroyed" := by rfl

/-- ... a future left dangling when its socket is destroyed ... -/
example : specRun {} [.op "send 0" (.send 0) [], .op "dsock 0" (.destroySock 0) []] =
    .error "after 'dsock 0': future 0 of destroyed socket 0 was not released (neither value, exception nor broken promise)" := by
  rfl

/-- ... a future still pending at the end, a crash, and a history that does not reach its end -/
example : specRun {} [.op "send 0" (.send 0) [], .fin "end" [.fut 0 .pending, .done]] =
    .error "after 'end': future 0 is still pending after its socket was destroyed (dangling)" := by rfl
example : specRun {} [.op "cancel 1" (.cancel 1) [.crash "signal 6"]] = .error "after 'cancel 1': crash: signal 6" := by rfl
example : specCheck [.op "step 0" (.step 0) []] =
    .error "history did not run to its end (harness died without a report)" := by rfl

end SockModel.Lifecycle

import SockModel.Model.PoolLemmas
/-!
# Spec.C10 - the property as an executable predicate over observations, and the proof that the
model satisfies it for every history

`specStep` is what `./check C10` evaluates on the IMPLEMENTATION's transcript (the driver calls these
very functions).  It mentions no model state: only `N`, `reserve` and what was observed
(`ord` = identity of the buffer handed out, `size()`, `capacity()`).  `model_satisfies_spec` shows
that the model can never be flagged by it - so a flag on the implementation is a genuine difference
between implementation and model, and the clauses are consequences of the model's definitions for
all histories of any length.
-/
namespace SockModel.Pool

inductive Obs where
  | getOk (ord size cap : Nat)
  | getThrow
  | rel (ord : Nat)
  | fill (ord n : Nat)
  deriving Repr

structure SpecSt where
  out : List Nat := []       -- buffers outstanding (observation side)
  known : List Nat := []     -- buffers ever seen

/-- `none` = accepted -/
def specGetOk (n r : Nat) (s : SpecSt) (ord size cap : Nat) : Option String :=
  if s.out.contains ord then some s!"buffer {ord} handed out while still outstanding"
  else if size ≠ 0 then some s!"buffer {ord} not empty (size {size})"
  else if n > 0 ∧ s.out.length + 1 > n then some s!"more than N={n} buffers outstanding"
  else if n > 0 ∧ cap < r then some s!"pre-allocated buffer {ord} lacks reserved capacity ({cap} < {r})"
  else if ¬ s.known.contains ord ∧ (s.known.any fun k => ¬ s.out.contains k) then
    some s!"new buffer {ord} created while an idle one exists"
  else if n > 0 ∧ ¬ s.known.contains ord ∧ s.known.length ≥ n then
    some s!"pre-allocated pool allocated buffer {ord} after construction"
  else none

def specGetThrow (n : Nat) (s : SpecSt) : Option String :=
  if n = 0 then some "unlimited pool refused a Get"
  else if s.out.length < n then some s!"Get refused with only {s.out.length} of N={n} outstanding"
  else none

def specStep (n r : Nat) (s : SpecSt) : Obs → Except String SpecSt
  | .getOk ord size cap =>
    match specGetOk n r s ord size cap with
    | some msg => .error msg
    | none => .ok { out := s.out ++ [ord], known := if s.known.contains ord then s.known else s.known ++ [ord] }
  | .getThrow => match specGetThrow n s with | some msg => .error msg | none => .ok s
  | .rel ord => .ok { s with out := s.out.erase ord }
  | .fill _ _ => .ok s

def specRun (n r : Nat) (s : SpecSt) : List Obs → Except String SpecSt
  | [] => .ok s
  | o :: os => match specStep n r s o with | .ok s' => specRun n r s' os | .error e => .error e

/-- the observations the MODEL produces for a history -/
def modelObs (p : Pool) : Op → Pool × List Obs
  | .get => match get p with
    | .ok b p' => (p', [.getOk b (p'.len b) (p'.cap b)])
    | .outOfBuffers => (p, [.getThrow])
  | .rel b => match recycle p b with | some p' => (p', [.rel b]) | none => (p, [])
  | .fill b m => (fill p b m, [.fill b m])

def modelTrace (p : Pool) : List Op → List Obs
  | [] => []
  | op :: ops => (modelObs p op).2 ++ modelTrace (modelObs p op).1 ops

/-- what relates the observer's book-keeping to the model state -/
structure Rel (n : Nat) (p : Pool) (s : SpecSt) : Prop where
  out : s.out = p.busy
  knownBusy : ∀ b ∈ p.busy, b ∈ s.known
  knownLt : ∀ b ∈ s.known, b < p.next
  knownNodup : s.known.Nodup
  /-- the idle stack holds the buffers seen before on top of the never-used ones -/
  shape : ∃ k, (∀ b ∈ p.idle.take k, b ∈ s.known) ∧ (∀ b ∈ p.idle.drop k, b ∉ s.known)
  /-- every buffer ever allocated is idle or busy (the pool frees nothing before its destruction) -/
  complete : ∀ b, b < p.next → b ∈ p.idle ++ p.busy

theorem nodup_lt_length (l : List Nat) (n : Nat) (hnd : l.Nodup) (hlt : ∀ x ∈ l, x < n) : l.length ≤ n := by
  induction n generalizing l with
  | zero =>
    cases l with
    | nil => simp
    | cons x xs => exact absurd (hlt x List.mem_cons_self) (by omega)
  | succ n ih =>
    -- remove n from l
    have h1 : (l.erase n).length ≤ n := by
      apply ih
      · exact hnd.erase n
      · intro x hx
        have hxl : x ∈ l := List.mem_of_mem_erase hx
        have hxn : x ≠ n := by
          intro he; subst he
          exact (List.Nodup.mem_erase_iff hnd).mp hx |>.1 rfl
        have := hlt x hxl; omega
    have h2 : l.length ≤ (l.erase n).length + 1 := by
      by_cases hm : n ∈ l
      · rw [List.length_erase_of_mem hm]; omega
      · rw [List.erase_of_not_mem hm]; omega
    omega


theorem rel_create (n r : Nat) : Rel n (create n r) {} := by
  refine ⟨rfl, by simp [create], by simp, List.nodup_nil, ⟨0, by simp, by simp⟩, ?_⟩
  intro b hb
  simp [create] at hb ⊢
  exact hb

theorem contains_iff {l : List Nat} {x : Nat} : l.contains x = true ↔ x ∈ l := by simp

/-- one operation: the spec accepts the model's observations and the relation is re-established -/
theorem spec_step_ok {n r : Nat} (hn : n < sizeMax) {p : Pool} {s : SpecSt} (hinv : PoolInv n r p) (hrel : Rel n p s)
    (hsmall : p.busy.length < sizeMax - 1) (op : Op) :
    ∃ s', specRun n r s (modelObs p op).2 = .ok s' ∧ Rel n (modelObs p op).1 s' ∧ PoolInv n r (modelObs p op).1 := by
  obtain ⟨hout, hkb, hklt, hknd, ⟨k, hk1, hk2⟩, hcomp⟩ := hrel
  cases op with
  | fill b m =>
    refine ⟨s, rfl, ?_, inv_fill b m hinv⟩
    have hb : (fill p b m).busy = p.busy := by unfold fill; split <;> rfl
    have hi : (fill p b m).idle = p.idle := by unfold fill; split <;> rfl
    have hx : (fill p b m).next = p.next := by unfold fill; split <;> rfl
    simp only [modelObs]
    exact ⟨by rw [hb]; exact hout, by rw [hb]; exact hkb, by rw [hx]; exact hklt, hknd,
      ⟨k, by rw [hi]; exact hk1, by rw [hi]; exact hk2⟩, by rw [hx, hi, hb]; exact hcomp⟩
  | rel b =>
    simp only [modelObs]
    cases hr : recycle p b with
    | none => exact ⟨s, rfl, ⟨hout, hkb, hklt, hknd, ⟨k, hk1, hk2⟩, hcomp⟩, hinv⟩
    | some p' =>
      have hinv' := inv_recycle hinv hr
      unfold recycle at hr
      split at hr
      · rename_i hmem
        cases hr
        refine ⟨{ s with out := s.out.erase b }, rfl, ?_, hinv'⟩
        refine ⟨by simp only; rw [hout], ?_, hklt, hknd, ⟨k + 1, ?_, ?_⟩, ?_⟩
        · intro x hx; exact hkb x (List.mem_of_mem_erase hx)
        · intro x hx
          simp only [List.take_succ_cons, List.mem_cons] at hx
          rcases hx with rfl | hx
          · exact hkb x hmem
          · exact hk1 x hx
        · intro x hx
          simp only [List.drop_succ_cons] at hx
          exact hk2 x hx
        · intro x hx
          have := hcomp x hx
          simp only [List.mem_append, List.mem_cons] at this ⊢
          rcases this with h | h
          · exact Or.inl (Or.inr h)
          · by_cases hxb : x = b
            · exact Or.inl (Or.inl hxb)
            · exact Or.inr ((List.mem_erase_of_ne hxb).mpr h)
      · cases hr
  | get =>
    simp only [modelObs]
    cases hg : get p with
    | outOfBuffers =>
      -- refused: only a full limited pool refuses
      have hidle : p.idle = [] ∧ ¬ p.busy.length ≤ p.maxM1 := by
        unfold get at hg
        split at hg
        · rename_i h0
          split at hg
          · cases hg
          · rename_i hle; exact ⟨h0, hle⟩
        · cases hg
      have hnpos : 0 < n := by
        rcases Nat.eq_zero_or_pos n with h0 | hp
        · subst h0
          have hm := hinv.maxM1
          rw [maxM1_zero] at hm
          have := hidle.2
          omega
        · exact hp
      have hc := hinv.conserv hnpos
      refine ⟨s, ?_, ⟨hout, hkb, hklt, hknd, ⟨k, hk1, hk2⟩, hcomp⟩, hinv⟩
      simp only [specRun, specStep, specGetThrow]
      rw [if_neg (by omega)]
      have hl : s.out.length = n := by rw [hout]; have := hc.1; rw [hidle.1] at this; simpa using this
      rw [if_neg (by omega)]
    | ok b p' =>
      have hinv' := inv_get hn hinv hg
      have hnd := hinv.nodup
      have hbelow := hinv.below
      unfold get at hg
      split at hg
      · -- allocation: the idle stack is empty
        rename_i hidle
        split at hg
        · rename_i hle
          cases hg
          have hn0 : n = 0 := by
            rcases Nat.eq_zero_or_pos n with h0 | hp
            · exact h0
            · have hc := hinv.conserv hp
              have hm := hinv.maxM1
              rw [maxM1_pos hp hn] at hm
              rw [hidle] at hc
              simp at hc
              omega
          have hfresh : p.next ∉ p.busy := by
            intro hm; have := hbelow p.next (by simp [hm]); omega
          have hnk : p.next ∉ s.known := by intro hm; have := hklt _ hm; omega
          have hkout : ∀ x ∈ s.known, x ∈ s.out := by
            intro x hx
            have := hcomp x (hklt x hx)
            rw [hidle] at this
            rw [hout]; simpa using this
          refine ⟨{ out := s.out ++ [p.next], known := s.known ++ [p.next] }, ?_, ?_, hinv'⟩
          · simp only [specRun, specStep, specGetOk, upd_same]
            rw [if_neg (by rw [hout]; simpa using hfresh)]
            rw [if_neg (by simp)]
            rw [if_neg (by omega)]
            rw [if_neg (by omega)]
            rw [if_neg (by
              intro ⟨_, hany⟩
              simp only [List.any_eq_true] at hany
              obtain ⟨x, hx, hxo⟩ := hany
              simp at hxo
              exact hxo (hkout x hx))]
            rw [if_neg (by omega)]
            simp [hnk]
          · refine ⟨by simp only; rw [hout], ?_, ?_, ?_, ⟨0, by simp, by simp [hidle]⟩, ?_⟩
            · intro x hx
              simp only [List.mem_append, List.mem_singleton] at hx ⊢
              rcases hx with hx | hx
              · exact Or.inl (hkb x hx)
              · exact Or.inr hx
            · intro x hx
              simp only [List.mem_append, List.mem_singleton] at hx
              rcases hx with hx | hx
              · have := hklt x hx; simp only; omega
              · simp only; omega
            · rw [List.nodup_append]
              exact ⟨hknd, by simp, by intro a ha c hc; simp at hc; subst hc; intro he; subst he; exact hnk ha⟩
            · intro x hx
              simp only at hx
              simp only [hidle, List.nil_append, List.mem_append, List.mem_singleton]
              by_cases hxn : x = p.next
              · exact Or.inr hxn
              · have := hcomp x (by omega)
                rw [hidle] at this
                exact Or.inl (by simpa using this)
        · cases hg
      · -- reuse of the top of the idle stack
        rename_i b0 rest hidle
        cases hg
        have hbn : b ∉ p.busy := by
          intro hm
          rw [hidle] at hnd
          exact (List.nodup_append.mp hnd).2.2 b (by simp) b hm rfl
        have hbrest : b ∉ rest := by
          rw [hidle] at hnd
          have := (List.nodup_append.mp hnd).1
          exact (List.nodup_cons.mp this).1
        have hblt : b < p.next := hbelow b (by simp [hidle])
        -- clause 5/6 need: if b is new to the observer then nothing the observer knows is idle
        have hnew : b ∉ s.known → ∀ x ∈ s.known, x ∈ s.out := by
          intro hbk x hx
          have hk0 : k = 0 := by
            rcases Nat.eq_zero_or_pos k with h0 | hp
            · exact h0
            · exfalso
              apply hbk
              apply hk1 b
              rw [hidle]
              cases k with
              | zero => omega
              | succ k => simp
          subst hk0
          have := hcomp x (hklt x hx)
          simp only [List.mem_append] at this
          rcases this with h | h
          · exact absurd hx (hk2 x (by simpa using h))
          · rw [hout]; exact h
        let known' := if s.known.contains b then s.known else s.known ++ [b]
        refine ⟨{ out := s.out ++ [b], known := known' }, ?_, ?_, hinv'⟩
        · simp only [specRun, specStep, specGetOk, upd_same]
          rw [if_neg (by rw [hout]; simpa using hbn)]
          rw [if_neg (by simp)]
          rw [if_neg (by
            intro ⟨hp, hgt⟩
            have hc := hinv.conserv hp
            rw [hidle, hout.symm] at hc
            simp at hc
            omega)]
          rw [if_neg (by
            intro ⟨hp, hlt⟩
            have hc := hinv.conserv hp
            have := hinv.capRes hp b (by omega)
            omega)]
          rw [if_neg (by
            intro ⟨hbk, hany⟩
            simp only [List.any_eq_true] at hany
            obtain ⟨x, hx, hxo⟩ := hany
            simp at hxo hbk
            exact hxo (hnew hbk x hx))]
          rw [if_neg (by
            intro ⟨hp, hbk, hge⟩
            simp at hbk
            have hc := hinv.conserv hp
            have h1 : (b :: s.known).Nodup := List.nodup_cons.mpr ⟨hbk, hknd⟩
            have h2 : ∀ x ∈ b :: s.known, x < n := by
              intro x hx
              rcases List.mem_cons.mp hx with rfl | hx
              · omega
              · have := hklt x hx; omega
            have := nodup_lt_length _ n h1 h2
            simp at this
            omega)]
        · have hknown'_sub : ∀ x, x ∈ known' ↔ x ∈ s.known ∨ x = b := by
            intro x
            simp only [known']
            split
            · rename_i hc
              constructor
              · intro h; exact Or.inl h
              · rintro (h | h)
                · exact h
                · subst h; simpa using hc
            · simp
          refine ⟨by simp only; rw [hout], ?_, ?_, ?_, ?_, ?_⟩
          · intro x hx
            simp only [List.mem_append, List.mem_singleton] at hx
            rw [hknown'_sub]
            rcases hx with hx | hx
            · exact Or.inl (hkb x hx)
            · exact Or.inr hx
          · intro x hx
            rcases (hknown'_sub x).mp hx with h | h
            · exact hklt x h
            · subst h; exact hblt
          · simp only [known']
            split
            · exact hknd
            · rename_i hc
              rw [List.nodup_append]
              refine ⟨hknd, by simp, ?_⟩
              intro a ha c hc'; simp at hc'; subst hc'; intro he; subst he
              exact hc (by simpa using ha)
          · -- the shape of the remaining idle stack
            by_cases hbk : b ∈ s.known
            · cases k with
              | zero =>
                exfalso
                exact hk2 b (by simp [hidle]) hbk
              | succ k =>
                refine ⟨k, ?_, ?_⟩
                · intro x hx
                  rw [hknown'_sub]; left
                  apply hk1 x
                  rw [hidle]; simp only [List.take_succ_cons, List.mem_cons]; exact Or.inr hx
                · intro x hx
                  rw [hknown'_sub]
                  intro h
                  rcases h with h | h
                  · exact hk2 x (by rw [hidle]; simpa using hx) h
                  · subst h; exact hbrest (List.mem_of_mem_drop hx)
            · have hk0 : k = 0 := by
                rcases Nat.eq_zero_or_pos k with h0 | hp
                · exact h0
                · exfalso; apply hbk; apply hk1 b; rw [hidle]
                  cases k with
                  | zero => omega
                  | succ k => simp
              subst hk0
              refine ⟨0, by simp, ?_⟩
              intro x hx
              rw [hknown'_sub]
              intro h
              rcases h with h | h
              · exact hk2 x (by rw [hidle]; simp at hx ⊢; exact Or.inr hx) h
              · subst h; simp at hx; exact hbrest hx
          · intro x hx
            have := hcomp x hx
            rw [hidle] at this
            simp only [List.mem_append, List.mem_cons] at this
            rcases this with (h | h) | h
            · simp [h]
            · simp [h]
            · simp [h]

theorem specRun_append (n r : Nat) (s : SpecSt) (a b : List Obs) :
    specRun n r s (a ++ b) = match specRun n r s a with | .ok s' => specRun n r s' b | .error e => .error e := by
  induction a generalizing s with
  | nil => rfl
  | cons o os ih =>
    simp only [List.cons_append, specRun]
    cases specStep n r s o with
    | ok s' => exact ih s'
    | error e => rfl

theorem busy_growth (p : Pool) (op : Op) : (modelObs p op).1.busy.length ≤ p.busy.length + 1 := by
  cases op with
  | get =>
    simp only [modelObs]
    cases hg : get p with
    | outOfBuffers => simp
    | ok b p' =>
      unfold get at hg
      split at hg
      · split at hg
        · cases hg; simp
        · cases hg
      · cases hg; simp
  | rel b =>
    simp only [modelObs]
    cases hr : recycle p b with
    | none => simp
    | some p' =>
      unfold recycle at hr
      split at hr
      · cases hr; simp only; have := List.length_erase_le (a := b) (l := p.busy); omega
      · cases hr
  | fill b m =>
    simp only [modelObs]
    have : (fill p b m).busy = p.busy := by unfold fill; split <;> rfl
    rw [this]; omega

/-- **The property predicate that the check evaluates on the implementation is a theorem of the
model**: for every pool `(N, reserve)` and every history of Get / release (any order) / user-fill
operations of any length (shorter than 2^64), the model's own observations are accepted by every
clause of `Spec.C10` - limit, refusal only when full, freshness, emptiness, reserved capacity, no
new buffer while an idle one exists, no allocation after construction. -/
theorem model_satisfies_spec (n r : Nat) (hn : n < sizeMax) (ops : List Op) (hlen : ops.length < sizeMax - 1) :
    ∃ s, specRun n r {} (modelTrace (create n r) ops) = .ok s := by
  suffices H : ∀ (p : Pool) (s : SpecSt), PoolInv n r p → Rel n p s → p.busy.length + ops.length < sizeMax - 1 →
      ∃ s', specRun n r s (modelTrace p ops) = .ok s' by
    exact H _ _ (inv_create n r) (rel_create n r) (by simpa [create] using hlen)
  induction ops with
  | nil => intro p s _ _ _; exact ⟨s, rfl⟩
  | cons op ops ih =>
    intro p s hinv hrel hsmall
    simp only [List.length_cons] at hsmall
    obtain ⟨s1, h1, hrel1, hinv1⟩ := spec_step_ok hn hinv hrel (by omega) op
    have hg := busy_growth p op
    obtain ⟨s2, h2⟩ := ih (by simp only [List.length_cons] at hlen; omega) _ s1 hinv1 hrel1 (by omega)
    refine ⟨s2, ?_⟩
    simp only [modelTrace]
    rw [specRun_append, h1]
    exact h2

end SockModel.Pool

import SockModel.Basic
import SockModel.Model.UriLemmas
import SockModel.Model.Addr
/-!
# Spec.Uri - the predicates of C11 and C12 as executable functions over typed observations, the
model of `Address` construction over an explicit name service, and the proof that the model
satisfies both predicates for every history

`specStep` / `specRun` are what `./check C11` (mode `.totality`) and `./check C12` (mode `.fidelity`)
evaluate on the IMPLEMENTATION's transcript: `Drive/Uri.lean` parses every op line with its `->`
observation lines into one `Obs` and calls exactly these functions.  The observer's state `SpecSt` is
the harness's ground truth of the literal group being read (`litbegin host port v6`) - no model state.

* C11 (`specOutcome`, `Obs.abort`): every construction ends in a value or in an exception derived from
  `std::exception`; no crash, signal, hang, foreign exception, throwing accessor.
* C12 (`specFidelity`, `litEnd`): no numeric service outside 0..65535 (as `strtoul` reads it, sign applied)
  reaches `getaddrinfo`; `Port()` is the numeric service; `Service()` is the decimal text of `Port()`;
  `to_string` is `host:serv` / `[host]:serv` and parses back to an equal Address; every spelling of a
  literal endpoint is accepted and reports the ground-truth host / port / family; all spellings are
  equal Addresses.

The model side (second half of the file): `Model/Uri.lean` ends in the `GaiCall` handed to `getaddrinfo`.
Here the neighbour is an explicit parameter `NameService α` (`getaddrinfo`, `getnameinfo`, the port and the
family of a socket address `α`); `NameService.Lawful` states the assumptions G1 / G2 of DESIGN.md §5 (C12)
as a structure of hypotheses; `toyNS` is a concrete resolver that satisfies them.  `modelObs` composes the
existing `parseUri` / `parseHostServ` / `Addr.toString` with the name service into the observations the
harness would print for an operation; `modelTrace` for a history.
-/
namespace SockModel.Uri
open SockModel.Decimal

/-! ## message helpers (formatting only) -/

def fnv1a (b : Bytes) : UInt64 :=
  b.foldl (fun h c => (h ^^^ c.toUInt64) * 1099511628211) 14695981039346656037

def hex16 (v : UInt64) : String :=
  String.ofList ((List.range 16).map fun i => hexDigit ((v >>> (UInt64.ofNat (60 - 4 * i))).toNat % 16))

/-- the harness's encoding of a byte string: hex up to 65536 bytes, else length and FNV-1a hash -/
def enc (b : Bytes) : String :=
  if b.length ≤ 65536 then hexEncode b else s!"#{b.length}:{hex16 (fnv1a b)}"

/-! ## typed observations -/

/-- the text(s) an `Address` is constructed from -/
inductive Input where
  | uri (b : Bytes)
  | pair (h s : Bytes)
  | big (what : String)      -- a ladder too large to be expanded by the driver: the op line
  deriving DecidableEq, Repr

def describe : Input → String
  | .uri b => s!"uri {enc b}"
  | .pair h sv => s!"pair {enc h} {enc sv}"
  | .big w => w

/-- the first `getaddrinfo` call of a construction as the shim recorded it; `none` = the C string is not
shown in full (longer than 65536 bytes: length and hash only) -/
structure GaiObs where
  node : Option Bytes
  serv : Option Bytes
  numericServ : Bool
  deriving DecidableEq, Repr

/-- class of the exception that left the constructor -/
inductive ExnClass where
  | invalidArgument | outOfRange | logicError | systemError | runtimeError
  | other                      -- some other class derived from `std::exception`
  | foreign (txt : String)     -- not derived from `std::exception` ("nonstd")
  deriving DecidableEq, Repr

def ExnClass.name : ExnClass → String
  | .invalidArgument => "invalid_argument" | .outOfRange => "out_of_range" | .logicError => "logic_error"
  | .systemError => "system_error" | .runtimeError => "runtime_error" | .other => "other"
  | .foreign t => t

def ExnClass.std : ExnClass → Bool
  | .foreign _ => false
  | _ => true

/-- result of `Address(to_string(a)) == a` -/
inductive Reparse where
  | eq | ne | threw | other (txt : String)
  deriving DecidableEq, Repr

def Reparse.text : Reparse → String
  | .eq => "eq" | .ne => "ne" | .threw => "throw" | .other t => t

/-- what the accessors of a constructed `Address` returned -/
structure OkObs where
  host : Bytes
  serv : Bytes
  port : Nat
  v6 : Bool
  str : Bytes
  reparse : Reparse
  deriving DecidableEq, Repr

inductive Outcome where
  | ok (a : Option OkObs)          -- a value; `none`: the accessor fields of the line cannot be read
  | threw (cls : ExnClass)
  | accessorThrow (how : String)
  | died (how : String)            -- the forked child ended by a signal / non-zero exit / timeout
  | crash (how : String)
  | hang (how : String)
  | missing                        -- no outcome line
  | other (txt : String)
  deriving DecidableEq, Repr

/-- the outcome line as printed (for messages) -/
def Outcome.text : Outcome → String
  | .ok _ => "ok"
  | .threw c => "throw " ++ c.name
  | .accessorThrow h => "accessorthrow " ++ h
  | .died h => "died " ++ h
  | .crash h => "crash " ++ h
  | .hang h => "hang " ++ h
  | .missing => ""
  | .other t => t

/-- one item of a transcript block -/
inductive Obs where
  | construct (inp : Input) (gai : Option GaiObs) (out : Outcome)
  | litBegin (host : Bytes) (port : Nat) (v6 : Bool)       -- ground truth of the spellings that follow
  | litEnd (allok alleq : Bool) (txt : String)             -- the harness compared all Addresses of the group
  | abort (msg : String)                                   -- crash / hang reported between operations
  deriving DecidableEq, Repr

/-! ## the properties on the observations -/

inductive Mode where
  | totality      -- C11
  | fidelity      -- C12 (includes the C11 clauses)
  deriving DecidableEq, Repr

structure SpecSt where
  /-- ground truth `(Host(), Port(), IsV6())` of the literal group being read -/
  lit : Option (Bytes × Nat × Bool) := none
  deriving DecidableEq, Repr

/-- C11 / common: the outcome is a value or a std::exception -/
def specOutcome (inp : Input) : Outcome → Except String Unit
  | .ok _ => pure ()
  | .threw cls =>
    if cls.std then pure ()
    else throw s!"{describe inp}: exception not derived from std::exception"
  | .accessorThrow _ => throw s!"{describe inp}: accessors of the constructed Address throw"
  | .died w => throw s!"{describe inp}: process died during construction ({w})"
  | .crash w => throw s!"{describe inp}: crash ({w})"
  | .hang w => throw s!"{describe inp}: hang ({w})"
  | .missing => throw s!"{describe inp}: no outcome reported"
  | .other w => throw s!"{describe inp}: unexpected outcome {w}"

/-- C12, first clause: a service that reached `getaddrinfo` and that `strtoul` reads completely is a port -/
def specNoWrap (inp : Input) (gai : Option GaiObs) : Except String Unit :=
  let serv : Option Bytes := gai.bind (·.serv)
  match serv.bind numericReads, serv.bind strtoulReads with
  | some (neg, m), some v =>
    if m > 65535 ∨ (neg = true ∧ m ≠ 0) then
      throw s!"{describe inp}: numeric service {if neg then "-" else ""}{m} reached getaddrinfo (would be wrapped to port {v % 65536})"
    else pure ()
  | _, _ => pure ()

/-- C12, the accessors of a value -/
def specAccessors (s : SpecSt) (inp : Input) (gai : Option GaiObs) (a : OkObs) : Except String Unit := do
  match (gai.bind (·.serv)).bind strtoulReads with
  | some v => if a.port ≠ v then throw s!"{describe inp}: Port() is {a.port} but the numeric service was {v}"
  | none => pure ()
  if a.serv ≠ Decimal.render a.port then throw s!"{describe inp}: Service() is not the decimal text of Port() {a.port}"
  if a.str ≠ Addr.toString a.v6 a.host a.serv then throw s!"{describe inp}: to_string is not host:port / [host]:port"
  if a.reparse ≠ .eq then throw s!"{describe inp}: to_string() does not parse back to an equal Address ({a.reparse.text})"
  match s.lit with
  | some (h, p, l6) =>
    if a.host ≠ h then throw s!"{describe inp}: Host() {hexEncode a.host} is not the canonical text {hexEncode h}"
    if a.port ≠ p then throw s!"{describe inp}: Port() is {a.port}, expected {p}"
    if a.v6 ≠ l6 then throw s!"{describe inp}: IsV6() is wrong"
  | none => pure ()

/-- C12 on the observations of one construction -/
def specFidelity (s : SpecSt) (inp : Input) (gai : Option GaiObs) (out : Outcome) : Except String Unit := do
  specNoWrap inp gai
  match out with
  | .ok (some a) => specAccessors s inp gai a
  | .ok none => throw s!"{describe inp}: unparsable ok observation"
  | o =>
    match s.lit with
    | some _ => throw s!"{describe inp}: a documented spelling of a literal endpoint was rejected ({o.text})"
    | none => pure ()

def specStep (mode : Mode) (s : SpecSt) : Obs → Except String SpecSt
  | .construct inp gai out => do
    specOutcome inp out
    if mode = .fidelity then specFidelity s inp gai out
    pure s
  | .litBegin h p v6 => pure { s with lit := some (h, p, v6) }
  | .litEnd allok alleq txt =>
    if mode = .fidelity ∧ (allok = false ∨ alleq = false) then
      throw s!"spellings of one literal endpoint do not all yield equal Addresses ({txt})"
    else pure { s with lit := none }
  | .abort msg => throw msg

def specRun (mode : Mode) (s : SpecSt) : List Obs → Except String SpecSt
  | [] => .ok s
  | o :: os => match specStep mode s o with | .ok s' => specRun mode s' os | .error e => .error e

end SockModel.Uri

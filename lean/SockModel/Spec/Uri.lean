import SockModel.Basic
import SockModel.Model.UriSpellLemmas
import SockModel.Model.Addr
/-!
# Spec.Uri - the predicates of C11 and C12 as executable functions over typed observations, the
model of `Address` construction over an explicit name service, and the proof that the model
satisfies both predicates for every history

`specStep` / `specRun` are what `./check C11` (mode `.totality`) and `./check C12` (mode `.fidelity`)
evaluate on the IMPLEMENTATION's transcript: `Drive/Uri.lean` parses every op line with its `->`
observation lines into one `Obs` and calls exactly these functions.  The observer's state `SpecSt` is
the harness's ground truth of the literal group being read (`litbegin host port v6`) - no model state.

* C11 (`specOutcome`, `Obs.abort`): every construction ends in a value or in an exception derived from
  `std::exception`; no crash, signal, hang, foreign exception, throwing accessor.
* C12 (`specFidelity`, `litEnd`): no numeric service outside 0..65535 (as `strtoul` reads it, sign applied)
  reaches `getaddrinfo`; `Port()` is the numeric service; `Service()` is the decimal text of `Port()`;
  `to_string` is `host:serv` / `[host]:serv` and parses back to an equal Address; every spelling of a
  literal endpoint is accepted and reports the ground-truth host / port / family; all spellings are
  equal Addresses.

The model side (second half of the file): `Model/Uri.lean` ends in the `GaiCall` handed to `getaddrinfo`.
Here the neighbour is an explicit parameter `NameService α` (`getaddrinfo`, `getnameinfo`, the port and the
family of a socket address `α`); `NameService.Lawful` states the assumptions G1 / G2 of DESIGN.md §5 (C12)
as a structure of hypotheses; `toyNS` is a concrete resolver that satisfies them.  `modelObs` composes the
existing `parseUri` / `parseHostServ` / `Addr.toString` with the name service into the observations the
harness would print for an operation; `modelTrace` for a history.
-/
namespace SockModel.Uri
open SockModel.Decimal

/-! ## message helpers (formatting only) -/

def fnv1a (b : Bytes) : UInt64 :=
  b.foldl (fun h c => (h ^^^ c.toUInt64) * 1099511628211) 14695981039346656037

def hex16 (v : UInt64) : String :=
  String.ofList ((List.range 16).map fun i => hexDigit ((v >>> (UInt64.ofNat (60 - 4 * i))).toNat % 16))

/-- the harness's encoding of a byte string: hex up to 65536 bytes, else length and FNV-1a hash -/
def enc (b : Bytes) : String :=
  if b.length ≤ 65536 then hexEncode b else s!"#{b.length}:{hex16 (fnv1a b)}"

/-! ## typed observations -/

/-- the text(s) an `Address` is constructed from -/
inductive Input where
  | uri (b : Bytes)
  | pair (h s : Bytes)
  | big (what : String)      -- a ladder too large to be expanded by the driver: the op line
  deriving DecidableEq, Repr

def describe : Input → String
  | .uri b => s!"uri {enc b}"
  | .pair h sv => s!"pair {enc h} {enc sv}"
  | .big w => w

/-- the first `getaddrinfo` call of a construction as the shim recorded it; `none` = the C string is not
shown in full (longer than 65536 bytes: length and hash only) -/
structure GaiObs where
  node : Option Bytes
  serv : Option Bytes
  numericServ : Bool
  deriving DecidableEq, Repr

/-- class of the exception that left the constructor -/
inductive ExnClass where
  | invalidArgument | outOfRange | logicError | systemError | runtimeError
  | other                      -- some other class derived from `std::exception`
  | foreign (txt : String)     -- not derived from `std::exception` ("nonstd")
  deriving DecidableEq, Repr

def ExnClass.name : ExnClass → String
  | .invalidArgument => "invalid_argument" | .outOfRange => "out_of_range" | .logicError => "logic_error"
  | .systemError => "system_error" | .runtimeError => "runtime_error" | .other => "other"
  | .foreign t => t

def ExnClass.std : ExnClass → Bool
  | .foreign _ => false
  | _ => true

/-- result of `Address(to_string(a)) == a` -/
inductive Reparse where
  | eq | ne | threw | other (txt : String)
  deriving DecidableEq, Repr

def Reparse.text : Reparse → String
  | .eq => "eq" | .ne => "ne" | .threw => "throw" | .other t => t

/-- what the accessors of a constructed `Address` returned -/
structure OkObs where
  host : Bytes
  serv : Bytes
  port : Nat
  v6 : Bool
  str : Bytes
  reparse : Reparse
  deriving DecidableEq, Repr

inductive Outcome where
  | ok (a : Option OkObs)          -- a value; `none`: the accessor fields of the line cannot be read
  | threw (cls : ExnClass)
  | accessorThrow (how : String)
  | died (how : String)            -- the forked child ended by a signal / non-zero exit / timeout
  | crash (how : String)
  | hang (how : String)
  | missing                        -- no outcome line
  | other (txt : String)
  deriving DecidableEq, Repr

/-- the outcome line as printed (for messages) -/
def Outcome.text : Outcome → String
  | .ok _ => "ok"
  | .threw c => "throw " ++ c.name
  | .accessorThrow h => "accessorthrow " ++ h
  | .died h => "died " ++ h
  | .crash h => "crash " ++ h
  | .hang h => "hang " ++ h
  | .missing => ""
  | .other t => t

/-- one item of a transcript block -/
inductive Obs where
  | construct (inp : Input) (gai : Option GaiObs) (out : Outcome)
  | litBegin (host : Bytes) (port : Nat) (v6 : Bool)       -- ground truth of the spellings that follow
  | litEnd (allok alleq : Bool) (txt : String)             -- the harness compared all Addresses of the group
  | abort (msg : String)                                   -- crash / hang reported between operations
  deriving DecidableEq, Repr

/-! ## the properties on the observations -/

inductive Mode where
  | totality      -- C11
  | fidelity      -- C12 (includes the C11 clauses)
  deriving DecidableEq, Repr

structure SpecSt where
  /-- ground truth `(Host(), Port(), IsV6())` of the literal group being read -/
  lit : Option (Bytes × Nat × Bool) := none
  deriving DecidableEq, Repr

/-- C11 / common: the outcome is a value or a std::exception -/
def specOutcome (inp : Input) : Outcome → Except String Unit
  | .ok _ => pure ()
  | .threw cls =>
    if cls.std then pure ()
    else throw s!"{describe inp}: exception not derived from std::exception"
  | .accessorThrow _ => throw s!"{describe inp}: accessors of the constructed Address throw"
  | .died w => throw s!"{describe inp}: process died during construction ({w})"
  | .crash w => throw s!"{describe inp}: crash ({w})"
  | .hang w => throw s!"{describe inp}: hang ({w})"
  | .missing => throw s!"{describe inp}: no outcome reported"
  | .other w => throw s!"{describe inp}: unexpected outcome {w}"

/-- C12, first clause: a service that reached `getaddrinfo` and that `strtoul` reads completely is a port -/
def specNoWrap (inp : Input) (gai : Option GaiObs) : Except String Unit :=
  let serv : Option Bytes := gai.bind (·.serv)
  match serv.bind numericReads, serv.bind strtoulReads with
  | some (neg, m), some v =>
    if m > 65535 ∨ (neg = true ∧ m ≠ 0) then
      throw s!"{describe inp}: numeric service {if neg then "-" else ""}{m} reached getaddrinfo (would be wrapped to port {v % 65536})"
    else pure ()
  | _, _ => pure ()

/-- C12: `Port()` is the numeric service that reached `getaddrinfo` -/
def specPort (inp : Input) (gai : Option GaiObs) (a : OkObs) : Except String Unit :=
  match (gai.bind (·.serv)).bind strtoulReads with
  | some v =>
    if a.port ≠ v then .error s!"{describe inp}: Port() is {a.port} but the numeric service was {v}" else .ok ()
  | none => .ok ()

/-- C12: `Service()` is the decimal text of `Port()`, `to_string` is composed of `Host()` and `Service()` and
parses back to an equal Address -/
def specText (inp : Input) (a : OkObs) : Except String Unit :=
  if a.serv ≠ Decimal.render a.port then
    .error s!"{describe inp}: Service() is not the decimal text of Port() {a.port}"
  else if a.str ≠ Addr.toString a.v6 a.host a.serv then
    .error s!"{describe inp}: to_string is not host:port / [host]:port"
  else if a.reparse ≠ .eq then
    .error s!"{describe inp}: to_string() does not parse back to an equal Address ({a.reparse.text})"
  else .ok ()

/-- C12: inside a literal group the accessors report the ground truth -/
def specLit (s : SpecSt) (inp : Input) (a : OkObs) : Except String Unit :=
  match s.lit with
  | some (h, p, l6) =>
    if a.host ≠ h then
      .error s!"{describe inp}: Host() {hexEncode a.host} is not the canonical text {hexEncode h}"
    else if a.port ≠ p then .error s!"{describe inp}: Port() is {a.port}, expected {p}"
    else if a.v6 ≠ l6 then .error s!"{describe inp}: IsV6() is wrong"
    else .ok ()
  | none => .ok ()

/-- C12, the accessors of a value -/
def specAccessors (s : SpecSt) (inp : Input) (gai : Option GaiObs) (a : OkObs) : Except String Unit := do
  specPort inp gai a
  specText inp a
  specLit s inp a

/-- C12 on the observations of one construction -/
def specFidelity (s : SpecSt) (inp : Input) (gai : Option GaiObs) (out : Outcome) : Except String Unit := do
  specNoWrap inp gai
  match out with
  | .ok (some a) => specAccessors s inp gai a
  | .ok none => throw s!"{describe inp}: unparsable ok observation"
  | o =>
    match s.lit with
    | some _ => throw s!"{describe inp}: a documented spelling of a literal endpoint was rejected ({o.text})"
    | none => pure ()

def specStep (mode : Mode) (s : SpecSt) : Obs → Except String SpecSt
  | .construct inp gai out => do
    specOutcome inp out
    if mode = .fidelity then specFidelity s inp gai out
    pure s
  | .litBegin h p v6 => pure { s with lit := some (h, p, v6) }
  | .litEnd allok alleq txt =>
    if mode = .fidelity ∧ (allok = false ∨ alleq = false) then
      throw s!"spellings of one literal endpoint do not all yield equal Addresses ({txt})"
    else pure { s with lit := none }
  | .abort msg => throw msg

def specRun (mode : Mode) (s : SpecSt) : List Obs → Except String SpecSt
  | [] => .ok s
  | o :: os => match specStep mode s o with | .ok s' => specRun mode s' os | .error e => .error e

/-! ## the model: `Address` construction over an explicit name service -/

/-- The neighbours of the text side of `Address`: `getaddrinfo` (its first result, or an `EAI_` error),
`getnameinfo(NI_NUMERICHOST)` / `getnameinfo(NI_NUMERICSERV)`, and the two fields the library reads off a
socket address itself (`ntohs(sin_port)`, `sa_family == AF_INET6`).  `α` = socket addresses; `==` of two
Addresses is equality in `α` (the images of C13). -/
structure NameService (α : Type) where
  gai : GaiCall → Option α
  port : α → Nat
  v6 : α → Bool
  niHost : α → Bytes
  niServ : α → Bytes

/-- shape of the numeric host text of a socket address: not empty, a C string, no '/', one line, does not
start with '['; IPv4: no colon; IPv6: at least two colons -/
def hostOk (v6 : Bool) (h : Bytes) : Bool :=
  !h.isEmpty && !h.contains 0 && !h.contains 0x2f && !hasLineBreak h && h.head? != some 0x5b &&
  (if v6 then decide (2 ≤ h.count 0x3a) else !h.contains 0x3a)

/-- The assumptions G1 / G2 of DESIGN.md §5 (C12) about glibc, as hypotheses on the name service.  They
speak only about addresses `getaddrinfo` returns. -/
structure NameService.Lawful {α : Type} (ns : NameService α) : Prop where
  /-- G1: a service that `strtoul` reads completely as `v` becomes port `v mod 2^16` -/
  port_numeric : ∀ {c a v}, ns.gai c = some a → strtoulReads c.serv = some v → ns.port a = v % 65536
  /-- the port field has 16 bits -/
  port_lt : ∀ {c a}, ns.gai c = some a → ns.port a < 65536
  /-- G2: `getnameinfo(NI_NUMERICSERV)` prints the decimal port -/
  serv_text : ∀ {c a}, ns.gai c = some a → ns.niServ a = render (ns.port a)
  /-- G2: `getnameinfo(NI_NUMERICHOST)` prints a numeric literal of the address family -/
  host_text : ∀ {c a}, ns.gai c = some a → hostOk (ns.v6 a) (ns.niHost a) = true
  /-- G1 + G2: the numeric text of an address and its decimal port resolve to that address,
  with and without AI_NUMERICSERV -/
  literal : ∀ {c a}, ns.gai c = some a → ∀ numeric, ns.gai ⟨ns.niHost a, render (ns.port a), numeric⟩ = some a
  /-- G1 for the empty service string: port 0 -/
  literal_noserv : ∀ {c a}, ns.gai c = some a → ns.port a = 0 → ns.gai ⟨ns.niHost a, [], false⟩ = some a

/-- the two constructors `Address(uri)` and `Address(host, serv)` -/
inductive Ctor where
  | uri (b : Bytes)
  | pair (h s : Bytes)
  deriving DecidableEq, Repr

def Ctor.input : Ctor → Input
  | .uri b => .uri b
  | .pair h s => .pair h s

/-- the library's part of the construction (`Model/Uri.lean`), up to the `getaddrinfo` call -/
def Ctor.parse : Ctor → Except Exn GaiCall
  | .uri b => parseUri b
  | .pair h s => parseHostServ h s

def Exn.cls : Exn → ExnClass
  | .invalidArgument => .invalidArgument
  | .logicError => .logicError
  | .outOfRange => .outOfRange
  | .runtimeError => .runtimeError

def gaiObs (c : GaiCall) : GaiObs := ⟨some c.node, some c.serv, c.numericServ⟩

section
variable {α : Type} [DecidableEq α]

/-- `Address(to_string(a)) == a` in the model -/
def reparse (ns : NameService α) (a : α) (str : Bytes) : Reparse :=
  match parseUri str with
  | .error _ => .threw
  | .ok c =>
    match ns.gai c with
    | none => .threw
    | some a' => if a' = a then .eq else .ne

/-- what the harness prints about a constructed Address: `Host()`, `Service()`, `Port()`, `IsV6()`,
`to_string` (`Addr.toString`), the re-parse -/
def okObs (ns : NameService α) (a : α) : OkObs :=
  { host := ns.niHost a, serv := ns.niServ a, port := ns.port a, v6 := ns.v6 a,
    str := Addr.toString (ns.v6 a) (ns.niHost a) (ns.niServ a),
    reparse := reparse ns a (Addr.toString (ns.v6 a) (ns.niHost a) (ns.niServ a)) }

/-- the Address a construction yields, if any -/
def value (ns : NameService α) (k : Ctor) : Option α :=
  match k.parse with
  | .ok c => ns.gai c
  | .error _ => none

/-- the `getaddrinfo` call the shim records, if the lookup is reached -/
def gaiOf (k : Ctor) : Option GaiObs :=
  match k.parse with
  | .ok c => some (gaiObs c)
  | .error _ => none

/-- an exception of the model's class before the lookup, `system_error` when the lookup fails, else the value -/
def outcomeOf (ns : NameService α) (k : Ctor) : Outcome :=
  match k.parse with
  | .error e => .threw e.cls
  | .ok c =>
    match ns.gai c with
    | none => .threw .systemError
    | some a => .ok (some (okObs ns a))

/-- the observation of one construction -/
def constructObs (ns : NameService α) (k : Ctor) : Obs :=
  .construct k.input (gaiOf k) (outcomeOf ns k)

/-- the spellings of a literal endpoint the harness builds (`lit` in `scen/address_parse.cpp`) -/
def litSpellings (v6 : Bool) (h : Bytes) (port : Nat) (scheme path : Bytes) : List Ctor :=
  let d := render port
  let plain := h ++ 0x3a :: d
  let br := 0x5b :: (h ++ 0x5d :: 0x3a :: d)
  (if v6 then [] else
    [.uri plain, .uri (scheme ++ 0x3a :: 0x2f :: 0x2f :: plain), .uri (plain ++ 0x2f :: path)]) ++
  [.uri br, .uri (scheme ++ 0x3a :: 0x2f :: 0x2f :: br), .uri (br ++ 0x2f :: path),
   .uri (scheme ++ 0x3a :: 0x2f :: 0x2f :: (br ++ 0x2f :: path)), .pair h d] ++
  (if port = 0 ∧ v6 = false then [.uri h, .uri (h ++ 0x2f :: path)] else [])

def indexHtml : Bytes := ofChars "index.html".toList

/-- the service-name spellings (`name` in `scen/address_parse.cpp`) -/
def nameSpellings (h : Bytes) (port : Nat) (name : Bytes) : List Ctor :=
  [.uri (0x5b :: (h ++ 0x5d :: 0x3a :: render port)),
   .uri (name ++ 0x3a :: 0x2f :: 0x2f :: h),
   .uri (name ++ 0x3a :: 0x2f :: 0x2f :: (h ++ 0x2f :: indexHtml)),
   .pair h name]

def allEq : List α → Bool
  | [] => true
  | f :: rest => rest.all (· = f)

/-- a group: ground truth, the constructions, the harness's comparison of all Addresses -/
def groupObs (ns : NameService α) (a : α) (ks : List Ctor) : List Obs :=
  let vals := ks.map (value ns)
  let allok := vals.all Option.isSome
  let alleq := allEq (vals.filterMap id)
  .litBegin (ns.niHost a) (ns.port a) (ns.v6 a) :: (ks.map (constructObs ns) ++
  [.litEnd allok alleq s!"n={ks.length} allok={if allok then 1 else 0} alleq={if alleq then 1 else 0}"])

/-- operations of the harness (`ladder` / `ladderpair` are `uri` / `pair` of a long text in a forked child) -/
inductive Op (α : Type) where
  | uri (b : Bytes)
  | pair (h s : Bytes)
  | lit (a : α) (scheme path : Bytes)      -- all documented spellings of the literal endpoint `a`
  | name (a : α) (name : Bytes)            -- the spellings with a service name for the port of `a`

/-- the observations the MODEL produces for one operation -/
def modelObs (ns : NameService α) : Op α → List Obs
  | .uri b => [constructObs ns (.uri b)]
  | .pair h s => [constructObs ns (.pair h s)]
  | .lit a scheme path => groupObs ns a (litSpellings (ns.v6 a) (ns.niHost a) (ns.port a) scheme path)
  | .name a name => groupObs ns a (nameSpellings (ns.niHost a) (ns.port a) name)

/-- ... for a history (the model of the text side keeps no state between constructions) -/
def modelTrace (ns : NameService α) : List (Op α) → List Obs
  | [] => []
  | op :: ops => modelObs ns op ++ modelTrace ns ops

/-- the domain of C12's literal groups (decidable): `a` is an address the resolver knows by its numeric text;
the scheme is `\w*`, the path a single line (the documented formats); a service name is a non-empty `\w+`
that is not a number and that the services database maps to the port of `a` -/
def opOk (ns : NameService α) : Op α → Bool
  | .uri _ => true
  | .pair _ _ => true
  | .lit a scheme path =>
    decide (ns.gai ⟨ns.niHost a, render (ns.port a), true⟩ = some a) && scheme.all isWord && !hasLineBreak path
  | .name a name =>
    decide (ns.gai ⟨ns.niHost a, render (ns.port a), true⟩ = some a) &&
    decide (ns.gai ⟨ns.niHost a, name, false⟩ = some a) && !name.isEmpty && name.all isWord && !isServiceNumeric name

def histOk (ns : NameService α) (history : List (Op α)) : Bool := history.all (opOk ns)

end

/-! ## the model satisfies the predicates -/

section
variable {α : Type} [DecidableEq α] {ns : NameService α}

theorem specRun_append (mode : Mode) (s : SpecSt) (xs ys : List Obs) :
    specRun mode s (xs ++ ys) =
      match specRun mode s xs with
      | .ok s' => specRun mode s' ys
      | .error e => .error e := by
  induction xs generalizing s with
  | nil => rfl
  | cons x xs ih =>
    simp only [List.cons_append, specRun]
    cases specStep mode s x with
    | ok s' => exact ih s'
    | error e => rfl

/-- constructions that leave the observer's state unchanged can be skipped -/
theorem specRun_constructs (mode : Mode) (s : SpecSt) (ks : List Ctor) (rest : List Obs)
    (h : ∀ k ∈ ks, specStep mode s (constructObs ns k) = .ok s) :
    specRun mode s (ks.map (constructObs ns) ++ rest) = specRun mode s rest := by
  induction ks with
  | nil => rfl
  | cons k ks ih =>
    simp only [List.map_cons, List.cons_append, specRun, h k (List.mem_cons_self ..)]
    exact ih fun k' hk' => h k' (List.mem_cons_of_mem _ hk')

/-- C11 on the model: the outcome of every construction is a value or one of the std classes -/
theorem specOutcome_model (k : Ctor) : specOutcome k.input (outcomeOf ns k) = .ok () := by
  unfold outcomeOf
  cases k.parse with
  | error e => cases e <;> rfl
  | ok c =>
    simp only
    cases ns.gai c <;> rfl

theorem step_totality (s : SpecSt) (k : Ctor) : specStep .totality s (constructObs ns k) = .ok s := by
  simp [specStep, constructObs, specOutcome_model, bind, Except.bind, pure, Except.pure]

theorem cstr_eq_self {h : Bytes} (h0 : (0 : UInt8) ∉ h) : cstr h = h := by
  unfold cstr
  apply takeWhile_eq_self
  intro a ha
  cases hh : a != 0
  · have : a = 0 := by simpa using hh
    subst this; exact absurd ha h0
  · rfl

theorem hostOk_facts {v6 : Bool} {h : Bytes} (hk : hostOk v6 h = true) :
    h ≠ [] ∧ (0 : UInt8) ∉ h ∧ (0x2f : UInt8) ∉ h ∧ hasLineBreak h = false ∧ h.head? ≠ some 0x5b ∧
    (v6 = false → (0x3a : UInt8) ∉ h) ∧ (v6 = true → 2 ≤ h.count 0x3a) := by
  unfold hostOk at hk
  simp only [Bool.and_eq_true, Bool.not_eq_true', bne_iff_ne, ne_eq] at hk
  obtain ⟨⟨⟨⟨⟨h1, h2⟩, h3⟩, h4⟩, h5⟩, h6⟩ := hk
  refine ⟨?_, ?_, ?_, h4, h5, ?_, ?_⟩
  · intro e; subst e; simp at h1
  · simpa using h2
  · simpa using h3
  · intro hv; subst hv; simpa using h6
  · intro hv; subst hv; simpa using h6

theorem hostOk_splitPort {v6 : Bool} {h : Bytes} (hk : hostOk v6 h = true) : splitPort h = none := by
  obtain ⟨_, _, _, _, hb, h4, h6⟩ := hostOk_facts hk
  cases v6 with
  | false =>
    unfold splitPort
    rw [splitLast_none (h4 rfl)]
  | true => exact Lem.splitPort_none_of_colons hb (h6 rfl)

theorem toString_eq (v6 : Bool) (h sv : Bytes) : Addr.toString v6 h sv = Uri.toString v6 h sv := rfl

theorem dissect_nil : dissect [] = .error .logicError := by decide

omit [DecidableEq α] in
/-- from the dissection of a URI to the Address it yields -/
theorem value_uri {u h d : Bytes} {num : Bool} {a : α} (hd : dissect u = .ok ⟨h, d, num⟩)
    (h0 : (0 : UInt8) ∉ h) (hc : cstr d = d) (hg : ns.gai ⟨h, d, num⟩ = some a) :
    value ns (.uri u) = some a := by
  have hne : u.isEmpty = false := by
    cases u with
    | nil => rw [dissect_nil] at hd; cases hd
    | cons _ _ => rfl
  simp [value, Ctor.parse, parseUri, hne, hd, Except.map, Dissect.toGai, cstr_eq_self h0, hc, hg]

/-- `Address(to_string(a)) == a` for every address the resolver returns -/
theorem reparse_eq (L : ns.Lawful) {c : GaiCall} {a : α} (hg : ns.gai c = some a) :
    reparse ns a (Addr.toString (ns.v6 a) (ns.niHost a) (ns.niServ a)) = .eq := by
  obtain ⟨hne, h0, hs, hl, hb, h4, _⟩ := hostOk_facts (L.host_text hg)
  have hp := L.port_lt hg
  have hrt := Lem.tostring_roundtrip (ns.v6 a) (ns.niHost a) (ns.port a) hp hs hl
    (fun hv => ⟨hne, h4 hv, hb⟩)
  have hv : value ns (.uri (Uri.toString (ns.v6 a) (ns.niHost a) (render (ns.port a)))) = some a :=
    value_uri hrt h0 (cstr_of_digits (isDigits_render _)) (L.literal hg true)
  rw [L.serv_text hg, toString_eq]
  unfold reparse
  simp only [value, Ctor.parse] at hv
  cases hpu : parseUri (Uri.toString (ns.v6 a) (ns.niHost a) (render (ns.port a))) with
  | error e => rw [hpu] at hv; cases hv
  | ok c' =>
    rw [hpu] at hv
    simp only at hv ⊢
    rw [hv]
    simp

/-- C12, first clause, on the model: what `parseUri` / `parseHostServ` hand to `getaddrinfo` is never a
number outside 0..65535 (`no_silent_wrap_strict`) -/
theorem specNoWrap_model (k : Ctor) : specNoWrap k.input (gaiOf k) = .ok () := by
  unfold gaiOf
  cases hp : k.parse with
  | error e => rfl
  | ok c =>
    simp only [specNoWrap, gaiObs, Option.bind_some]
    cases hr : numericReads c.serv with
    | none => rfl
    | some nm =>
      obtain ⟨neg, m⟩ := nm
      cases hv : strtoulReads c.serv with
      | none => rfl
      | some v =>
        simp only
        have hstrict : m ≤ 65535 ∧ (neg = true → m = 0) := by
          cases k with
          | uri b => exact Lem.no_silent_wrap_strict.1 b c neg m hp hr
          | pair h sv => exact Lem.no_silent_wrap_strict.2 h sv c neg m hp hr
        have : ¬ (m > 65535 ∨ (neg = true ∧ m ≠ 0)) := by
          intro hh
          rcases hh with hh | ⟨h1, h2⟩
          · omega
          · exact h2 (hstrict.2 h1)
        rw [if_neg this]
        rfl

/-- C12, the accessors of a value, on the model under G1 / G2 -/
theorem specAccessors_model (L : ns.Lawful) (k : Ctor) {c : GaiCall} {a : α} (s : SpecSt)
    (hp : k.parse = .ok c) (hg : ns.gai c = some a)
    (hs : s.lit = none ∨ s.lit = some (ns.niHost a, ns.port a, ns.v6 a)) :
    specAccessors s k.input (some (gaiObs c)) (okObs ns a) = .ok () := by
  have hport : ∀ v, strtoulReads c.serv = some v → ns.port a = v := by
    intro v hv
    have hle : v ≤ 65535 := by
      cases k with
      | uri b => exact Lem.no_silent_wrap.1 b c v hp hv
      | pair h sv => exact Lem.no_silent_wrap.2 h sv c v hp hv
    rw [L.port_numeric hg hv]; omega
  have hserv := L.serv_text hg
  have hre := reparse_eq L hg
  rw [hserv] at hre
  have h1 : specPort k.input (some (gaiObs c)) (okObs ns a) = .ok () := by
    simp only [specPort, gaiObs, Option.bind_some]
    cases hv : strtoulReads c.serv with
    | none => rfl
    | some v => simp [okObs, hport v hv]
  have h2 : specText k.input (okObs ns a) = .ok () := by
    simp [specText, okObs, hserv, hre]
  have h3 : specLit s k.input (okObs ns a) = .ok () := by
    rcases hs with hs | hs <;> simp [specLit, hs, okObs]
  simp [specAccessors, h1, h2, h3, bind, Except.bind]

/-- C12 on one construction of the model: under G1 / G2, outside a literal group or inside the group of the
very address the construction yields -/
theorem specFidelity_model (L : ns.Lawful) (k : Ctor) (s : SpecSt)
    (hs : s.lit = none ∨ ∃ a, value ns k = some a ∧ s.lit = some (ns.niHost a, ns.port a, ns.v6 a)) :
    specFidelity s k.input (gaiOf k) (outcomeOf ns k) = .ok () := by
  unfold specFidelity
  simp only [specNoWrap_model, bind, Except.bind]
  unfold outcomeOf gaiOf
  cases hp : k.parse with
  | error e =>
    simp only
    rcases hs with hs | ⟨a, hv, _⟩
    · simp [hs, pure, Except.pure]
    · simp [value, hp] at hv
  | ok c =>
    simp only
    cases hg : ns.gai c with
    | none =>
      simp only
      rcases hs with hs | ⟨a, hv, _⟩
      · simp [hs, pure, Except.pure]
      · simp [value, hp, hg] at hv
    | some a =>
      simp only
      apply specAccessors_model L k s hp hg
      rcases hs with hs | ⟨a', hv, hs⟩
      · exact Or.inl hs
      · have : a' = a := by
          simp only [value, hp, hg, Option.some.injEq] at hv
          exact hv.symm
        subst this
        exact Or.inr hs

theorem step_fidelity (L : ns.Lawful) (k : Ctor) (s : SpecSt)
    (hs : s.lit = none ∨ ∃ a, value ns k = some a ∧ s.lit = some (ns.niHost a, ns.port a, ns.v6 a)) :
    specStep .fidelity s (constructObs ns k) = .ok s := by
  simp [specStep, constructObs, specOutcome_model, specFidelity_model L k s hs, bind, Except.bind, pure, Except.pure]

theorem allEq_const (a : α) : ∀ (l : List α), (∀ x ∈ l, x = a) → allEq l = true
  | [], _ => rfl
  | f :: rest, h => by
    simp only [allEq, List.all_eq_true, decide_eq_true_eq]
    intro x hx
    rw [h x (List.mem_cons_of_mem _ hx), h f (List.mem_cons_self ..)]

/-- a group all of whose spellings yield the ground-truth address is accepted -/
theorem group_fidelity (L : ns.Lawful) (a : α) (ks : List Ctor) (hall : ∀ k ∈ ks, value ns k = some a) :
    specRun .fidelity {} (groupObs ns a ks) = .ok {} := by
  have hok : ((ks.map (value ns)).all Option.isSome) = true := by
    simp only [List.all_eq_true, List.mem_map]
    rintro _ ⟨k, hk, rfl⟩
    rw [hall k hk]; rfl
  have heq : allEq ((ks.map (value ns)).filterMap id) = true := by
    apply allEq_const a
    intro x hx
    simp only [List.mem_filterMap, List.mem_map, id] at hx
    obtain ⟨_, ⟨k, hk, rfl⟩, hx⟩ := hx
    rw [hall k hk] at hx
    exact (Option.some.inj hx).symm
  unfold groupObs
  simp only [hok, heq, specRun, specStep, pure, Except.pure]
  rw [specRun_constructs]
  · simp [specRun, specStep, pure, Except.pure]
  · intro k hk
    exact step_fidelity L k _ (Or.inr ⟨a, hall k hk, rfl⟩)

/-- in totality mode a group is accepted whatever its constructions yield -/
theorem group_totality (a : α) (ks : List Ctor) : specRun .totality {} (groupObs ns a ks) = .ok {} := by
  unfold groupObs
  simp only [specRun, specStep, pure, Except.pure]
  rw [specRun_constructs]
  · simp [specRun, specStep, pure, Except.pure]
  · intro k _
    exact step_totality _ k

omit [DecidableEq α] in
/-- every documented spelling of a literal endpoint yields that endpoint (spellings_agree, spellings_agree_v6,
hostpath_spelling + G1 / G2) -/
theorem lit_values (L : ns.Lawful) (a : α) (scheme path : Bytes)
    (hreach : ns.gai ⟨ns.niHost a, render (ns.port a), true⟩ = some a)
    (hw : ∀ c ∈ scheme, isWord c = true) (hpath : hasLineBreak path = false) :
    ∀ k ∈ litSpellings (ns.v6 a) (ns.niHost a) (ns.port a) scheme path, value ns k = some a := by
  obtain ⟨hne, h0, hs, hl, hb, h4, _⟩ := hostOk_facts (L.host_text hreach)
  have hp := L.port_lt hreach
  have hdig : cstr (render (ns.port a)) = render (ns.port a) := cstr_of_digits (isDigits_render _)
  have hgT := L.literal hreach true
  have hgF := L.literal hreach false
  obtain ⟨b1, b2, b3, b4, b5⟩ := Lem.spellings_agree_v6 (ns.niHost a) scheme path (ns.port a) hp hne hs hl hw hpath
  have hpair : value ns (.pair (ns.niHost a) (render (ns.port a))) = some a := by
    simp [value, Ctor.parse, b5, cstr_eq_self h0, hgF]
  intro k hk
  cases hv : ns.v6 a with
  | true =>
    simp only [litSpellings, hv, if_true, List.nil_append, Bool.true_eq_false, and_false, if_false,
      List.append_nil, List.mem_cons, List.not_mem_nil, or_false] at hk
    rcases hk with rfl | rfl | rfl | rfl | rfl
    · exact value_uri b1 h0 hdig hgT
    · exact value_uri b2 h0 hdig hgT
    · exact value_uri b3 h0 hdig hgT
    · exact value_uri b4 h0 hdig hgT
    · exact hpair
  | false =>
    obtain ⟨e1, _, e3, e4, _, _, _⟩ :=
      Lem.spellings_agree (ns.niHost a) scheme path (ns.port a) hp hne (h4 hv) hs hb hl hw hpath
    simp only [litSpellings, hv, Bool.false_eq_true, if_false, List.mem_append, List.mem_cons,
      List.not_mem_nil, or_false, and_true] at hk
    rcases hk with ((rfl | rfl | rfl) | (rfl | rfl | rfl | rfl | rfl)) | hk
    · exact value_uri e1 h0 hdig hgT
    · exact value_uri e3 h0 hdig hgT
    · exact value_uri e4 h0 hdig hgT
    · exact value_uri b1 h0 hdig hgT
    · exact value_uri b2 h0 hdig hgT
    · exact value_uri b3 h0 hdig hgT
    · exact value_uri b4 h0 hdig hgT
    · exact hpair
    · by_cases h00 : ns.port a = 0
      · simp only [h00, if_true, List.mem_cons, List.not_mem_nil, or_false] at hk
        have hg0 := L.literal_noserv hreach h00
        obtain ⟨d1, d2⟩ := Lem.hostpath_spelling (ns.niHost a) path hne (h4 hv) hs hpath
        rcases hk with rfl | rfl
        · exact value_uri d2 h0 rfl hg0
        · exact value_uri d1 h0 rfl hg0
      · simp [h00] at hk

theorem word_no_nul {name : Bytes} (hw : ∀ c ∈ name, isWord c = true) : (0 : UInt8) ∉ name := by
  intro h
  have := hw 0 h
  revert this; decide

omit [DecidableEq α] in
/-- every service-name spelling yields the endpoint the services database assigns (name_spelling + G1 / G2) -/
theorem name_values (L : ns.Lawful) (a : α) (name : Bytes)
    (hreach : ns.gai ⟨ns.niHost a, render (ns.port a), true⟩ = some a)
    (hname : ns.gai ⟨ns.niHost a, name, false⟩ = some a)
    (hnn : name ≠ []) (hw : ∀ c ∈ name, isWord c = true) (hnum : isServiceNumeric name = false) :
    ∀ k ∈ nameSpellings (ns.niHost a) (ns.port a) name, value ns k = some a := by
  have hk4 := L.host_text hreach
  obtain ⟨hne, h0, hs, hl, hb, h4, _⟩ := hostOk_facts hk4
  have hp := L.port_lt hreach
  have hdig : cstr (render (ns.port a)) = render (ns.port a) := cstr_of_digits (isDigits_render _)
  have hcn : cstr name = name := cstr_eq_self (word_no_nul hw)
  have hsp := hostOk_splitPort hk4
  obtain ⟨b1, _⟩ := Lem.spellings_agree_v6 (ns.niHost a) [] [] (ns.port a) hp hne hs hl (by simp) rfl
  have n1 := Lem.name_spelling (ns.niHost a) name [] hne hs hsp hw hnum (Or.inl rfl)
  rw [List.append_nil] at n1
  have n2 := Lem.name_spelling (ns.niHost a) name (0x2f :: indexHtml) hne hs hsp hw hnum
    (Or.inr ⟨indexHtml, rfl, by decide⟩)
  intro k hk
  simp only [nameSpellings, List.mem_cons, List.not_mem_nil, or_false] at hk
  rcases hk with rfl | rfl | rfl | rfl
  · exact value_uri b1 h0 hdig (L.literal hreach true)
  · exact value_uri n1 h0 hcn hname
  · exact value_uri n2 h0 hcn hname
  · have e1 : (ns.niHost a).isEmpty = false := by cases hh : ns.niHost a <;> simp [hh] at hne ⊢
    have e2 : name.isEmpty = false := by cases name <;> simp at hnn ⊢
    simp [value, Ctor.parse, parseHostServ, e1, e2, hnum, cstr_eq_self h0, hcn, hname]

/-- C11: the totality predicate accepts the observations of every operation of the model -/
theorem op_totality (op : Op α) : specRun .totality {} (modelObs ns op) = .ok {} := by
  cases op with
  | uri b => simp [modelObs, specRun, step_totality]
  | pair h sv => simp [modelObs, specRun, step_totality]
  | lit a scheme path => exact group_totality a _
  | name a name => exact group_totality a _

/-- C12: the fidelity predicate accepts the observations of every operation in the domain -/
theorem op_fidelity (L : ns.Lawful) (op : Op α) (hok : opOk ns op = true) :
    specRun .fidelity {} (modelObs ns op) = .ok {} := by
  cases op with
  | uri b => simp [modelObs, specRun, step_fidelity L _ _ (Or.inl rfl)]
  | pair h sv => simp [modelObs, specRun, step_fidelity L _ _ (Or.inl rfl)]
  | lit a scheme path =>
    simp only [opOk, Bool.and_eq_true, decide_eq_true_eq, List.all_eq_true, Bool.not_eq_true'] at hok
    obtain ⟨⟨hreach, hw⟩, hpath⟩ := hok
    exact group_fidelity L a _ (lit_values L a scheme path hreach hw hpath)
  | name a name =>
    simp only [opOk, Bool.and_eq_true, decide_eq_true_eq, List.all_eq_true, Bool.not_eq_true'] at hok
    obtain ⟨⟨⟨⟨hreach, hname⟩, hnn⟩, hw⟩, hnum⟩ := hok
    have hnn' : name ≠ [] := by intro e; subst e; simp at hnn
    exact group_fidelity L a _ (name_values L a name hreach hname hnn' hw hnum)

/-- **C11.**  For every name service (no assumption on it) and every history of constructions, literal
groups and service-name groups of any length, with arbitrary byte strings, the totality predicate
`./check C11` evaluates on the implementation accepts the model's trace: the model never crashes, hangs
or throws anything but `invalid_argument` / `logic_error` / `out_of_range` / `runtime_error` before the
lookup and `system_error` after a failed lookup. -/
theorem model_satisfies_totality (ns : NameService α) (history : List (Op α)) :
    ∃ s, specRun .totality {} (modelTrace ns history) = .ok s := by
  refine ⟨{}, ?_⟩
  induction history with
  | nil => rfl
  | cons op ops ih => rw [modelTrace, specRun_append, op_totality]; exact ih

/-- **C12.**  For every name service that satisfies G1 / G2 (`NameService.Lawful`) and every history in the
domain `histOk` (any length, arbitrary byte strings for `uri` / `pair`; literal groups of addresses the
resolver knows with `\w*` schemes and single-line paths; names the services database knows), the fidelity
predicate `./check C12` evaluates on the implementation accepts the model's trace. -/
theorem model_satisfies_fidelity (ns : NameService α) (L : ns.Lawful) (history : List (Op α))
    (hok : histOk ns history = true) : ∃ s, specRun .fidelity {} (modelTrace ns history) = .ok s := by
  refine ⟨{}, ?_⟩
  induction history with
  | nil => rfl
  | cons op ops ih =>
    simp only [histOk, List.all_cons, Bool.and_eq_true] at hok
    rw [modelTrace, specRun_append, op_fidelity L op hok.1]
    exact ih hok.2

end

/-! ## a concrete name service (G1 / G2 are satisfiable) -/

structure ToyAddr where
  v6 : Bool
  host : Bytes
  port : Nat
  deriving DecidableEq, Repr

/-- port of a service string: empty = 0, a number `strtoul` reads = its value mod 2^16, the one name "http" -/
def toyPort (c : GaiCall) : Option Nat :=
  if c.serv.isEmpty then some 0
  else match strtoulReads c.serv with
    | some v => some (v % 65536)
    | none => if c.numericServ then none else if c.serv = ofChars "http".toList then some 80 else none

/-- a resolver without any network: every well-shaped text is its own numeric literal (with a colon: IPv6) -/
def toyNS : NameService ToyAddr where
  gai c :=
    if hostOk (c.node.contains 0x3a) c.node then (toyPort c).map fun p => ⟨c.node.contains 0x3a, c.node, p⟩
    else none
  port a := a.port
  v6 a := a.v6
  niHost a := a.host
  niServ a := render a.port

theorem toy_gai_some {c : GaiCall} {a : ToyAddr} (h : toyNS.gai c = some a) :
    hostOk a.v6 a.host = true ∧ a.host = c.node ∧ a.v6 = c.node.contains 0x3a ∧ toyPort c = some a.port := by
  simp only [toyNS] at h
  split at h
  · rename_i hk
    cases hp : toyPort c with
    | none => rw [hp] at h; cases h
    | some p =>
      rw [hp] at h
      simp only [Option.map_some, Option.some.injEq] at h
      subst h
      exact ⟨hk, rfl, rfl, rfl⟩
  · cases h

theorem toyPort_lt {c : GaiCall} {p : Nat} (h : toyPort c = some p) : p < 65536 := by
  unfold toyPort at h
  split at h
  · cases h; omega
  · split at h
    · cases h; omega
    · split at h
      · cases h
      · split at h
        · cases h; omega
        · cases h

theorem toyPort_render (node : Bytes) (p : Nat) (numeric : Bool) (hp : p < 65536) :
    toyPort ⟨node, render p, numeric⟩ = some p := by
  have hd := isDigits_render p
  have hne : (render p).isEmpty = false := by
    cases hr : render p with
    | nil => rw [hr] at hd; simp [isDigits] at hd
    | cons _ _ => rfl
  have hs : strtoulReads (render p) = some p := (Lem.render_parse p).2.2 (by omega)
  simp only [toyPort, hne, Bool.false_eq_true, if_false, hs]
  congr 1
  omega

/-- G1 / G2 are satisfiable: the toy resolver is lawful -/
theorem toyNS_lawful : toyNS.Lawful where
  port_numeric := by
    intro c a v hg hv
    obtain ⟨_, _, _, hp⟩ := toy_gai_some hg
    unfold toyPort at hp
    split at hp
    · rename_i he
      have : c.serv = [] := by cases hs : c.serv <;> simp [hs] at he ⊢
      have hnone : strtoulReads [] = none := by decide
      rw [this, hnone] at hv
      cases hv
    · rw [hv] at hp
      simp only [Option.some.injEq] at hp
      exact hp.symm
  port_lt := by
    intro c a hg
    exact toyPort_lt (toy_gai_some hg).2.2.2
  serv_text := by
    intro c a _
    rfl
  host_text := by
    intro c a hg
    exact (toy_gai_some hg).1
  literal := by
    intro c a hg numeric
    obtain ⟨hk, hh, hv, hp⟩ := toy_gai_some hg
    have hlt := toyPort_lt hp
    have hcont : a.host.contains 0x3a = a.v6 := by rw [hh, hv]
    show toyNS.gai ⟨a.host, render a.port, numeric⟩ = some a
    simp only [toyNS, hcont, hk, if_true, toyPort_render a.host a.port numeric hlt, Option.map_some]
  literal_noserv := by
    intro c a hg h0
    obtain ⟨hk, hh, hv, _⟩ := toy_gai_some hg
    have hcont : a.host.contains 0x3a = a.v6 := by rw [hh, hv]
    have h0' : a.port = 0 := h0
    show toyNS.gai ⟨a.host, [], false⟩ = some a
    simp only [toyNS, hcont, hk, if_true, toyPort, List.isEmpty_nil, Option.map_some]
    rw [← h0']

/-! ## the two theorems as `./check C11` / `./check C12` use them -/

namespace C11
/-- the predicate of `./check C11` -/
def specRun := Uri.specRun .totality

/-- `Props/C11.lean: spec_holds_on_model` -/
theorem model_satisfies_spec {α : Type} [DecidableEq α] (ns : NameService α) (history : List (Op α)) :
    ∃ s, specRun {} (modelTrace ns history) = .ok s := model_satisfies_totality ns history
end C11

namespace C12
/-- the predicate of `./check C12` -/
def specRun := Uri.specRun .fidelity

/-- `Props/C12.lean: spec_holds_on_model` -/
theorem model_satisfies_spec {α : Type} [DecidableEq α] (ns : NameService α) (L : ns.Lawful)
    (history : List (Op α)) (hok : histOk ns history = true) :
    ∃ s, specRun {} (modelTrace ns history) = .ok s := model_satisfies_fidelity ns L history hok
end C12

/-! ## non-vacuity: a concrete history, and traces the predicates reject -/

namespace Demo
def b (s : String) : Bytes := ofChars s.toList
def a4 : ToyAddr := ⟨false, b "127.0.0.1", 8080⟩
def a40 : ToyAddr := ⟨false, b "10.0.0.1", 0⟩
def a6 : ToyAddr := ⟨true, b "fe80::1%eth0", 65535⟩
def a480 : ToyAddr := ⟨false, b "1.2.3.4", 80⟩
def a680 : ToyAddr := ⟨true, b "::ffff:1.2.3.4", 80⟩

/-- every kind of operation and of outcome: values, each exception class, a failed lookup, embedded NUL,
IPv4 / IPv6 literal groups (port 0 adds the service-less spellings), service-name groups -/
def history : List (Op ToyAddr) := [
  .uri (b "http://[::1]:8080/a/b?c"), .uri [], .uri (b "host/pa\nth"), .uri (b "h:99999"), .uri (b "99999://h"),
  .uri (b "h:99999999999999999999"), .pair (b "localhost") (b " +80"), .pair (b "h") (b "-1"),
  .pair (b "h") (b "nosuch"), .pair [0x68] [0x38, 0x30, 0x00, 0x78], .uri (b "a:b"),
  .lit a4 (b "tcp") (b "x?y=http://h:80/"), .lit a40 (b "x") (b "p:1"), .lit a6 (b "") (b ""),
  .name a480 (b "http"), .name a680 (b "http")]

def accepted (r : Except String SpecSt) : Bool := match r with | .ok _ => true | .error _ => false
def failure (r : Except String SpecSt) : String := match r with | .ok _ => "" | .error e => e

example : histOk toyNS history = true := by decide
example : (modelTrace toyNS history).length = 52 := by decide
example : accepted (C12.specRun {} (modelTrace toyNS history)) = true := by decide
example : accepted (C11.specRun {} (modelTrace toyNS history)) = true := by decide

/-- the domain matters: a scheme that is not `\w*` is outside the documented formats, the model (like the
library) takes "h-t:" for a host name, the lookup fails, the predicate says so -/
example : failure (C12.specRun {} (modelTrace toyNS [.lit a4 (b "h-t") []])) =
    "uri 682d743a2f2f3132372e302e302e313a38303830: a documented spelling of a literal endpoint was rejected (throw system_error)" := by
  decide

def uri1 : Input := .uri (b "1.2.3.4:65616")
def gai1 : GaiObs := ⟨some (b "1.2.3.4"), some (b "65616"), true⟩
def ok80 : OkObs := ⟨b "1.2.3.4", b "80", 80, false, b "1.2.3.4:80", .eq⟩

/-- C11 rejects: a crash, a hang, a foreign exception, a dead child, a missing outcome -/
example : accepted (C11.specRun {} [.construct uri1 none (.died "sig=11")]) = false := by decide
example : accepted (C11.specRun {} [.construct uri1 none (.threw (.foreign "nonstd"))]) = false := by decide
example : accepted (C11.specRun {} [.construct uri1 none .missing]) = false := by decide
example : accepted (C11.specRun {} [.abort "hang: construction did not return within 3 s"]) = false := by decide
/-- ... and does not look at the C12 clauses -/
example : accepted (C11.specRun {} [.construct uri1 (some gai1) (.ok (some ok80))]) = true := by decide

/-- C12 rejects: a wrapped port (the kind of trace the seeded changes C12_agentC / C12_r4 / C12_r5 produce) -/
example : failure (C12.specRun {} [.construct uri1 (some gai1) (.ok (some ok80))]) =
    "uri 312e322e332e343a3635363136: numeric service 65616 reached getaddrinfo (would be wrapped to port 80)" := by decide
/-- a `Service()` that is not the decimal port, a `to_string` without brackets, a failed re-parse -/
example : accepted (C12.specRun {} [.construct (.uri (b "1.2.3.4:80")) (some { gai1 with serv := some (b "80") })
    (.ok (some { ok80 with serv := b "http" }))]) = false := by decide
example : accepted (C12.specRun {} [.construct (.uri (b "[::1]:80")) (some ⟨some (b "::1"), some (b "80"), true⟩)
    (.ok (some ⟨b "::1", b "80", 80, true, b "::1:80", .eq⟩))]) = false := by decide
example : accepted (C12.specRun {} [.construct (.uri (b "1.2.3.4:80")) (some { gai1 with serv := some (b "80") })
    (.ok (some { ok80 with reparse := .ne }))]) = false := by decide
/-- a spelling of a literal endpoint that is rejected / reports another port; unequal spellings -/
example : accepted (C12.specRun {} [.litBegin (b "1.2.3.4") 80 false,
    .construct (.uri (b "1.2.3.4/p?u=x://y")) (some ⟨some (b "y"), some (b "1"), false⟩) (.threw .systemError)]) = false := by decide
example : accepted (C12.specRun {} [.litBegin (b "1.2.3.4") 81 false,
    .construct (.uri (b "1.2.3.4:80")) (some { gai1 with serv := some (b "80") }) (.ok (some ok80))]) = false := by decide
example : accepted (C12.specRun {} [.litBegin (b "1.2.3.4") 80 false, .litEnd true false "n=8 allok=1 alleq=0"]) = false := by decide
end Demo

end SockModel.Uri
